//! scenario programs run under miri (see tests/)
