//! Scenario programs over the public API, run under miri (Stacked Borrows, data-race detector, allocator checks,
//! leak check).  A test's name starts with the property it belongs to (`c11_…`); `./check Cxx` runs the tests of that
//! property.  Each scenario is a short straight-line (or two-thread) program of the kind the streams of the harness
//! generate; what miri adds is the abstract machine: pointer provenance, reads of uninitialised memory, the layout a
//! block is released with, data races between real threads, leaks at exit.
#![allow(clippy::all)]
use std::cell::Cell;
use std::mem::MaybeUninit;
use std::sync::atomic::{AtomicUsize, Ordering::SeqCst};
use triomphe::{Arc, ArcBorrow, ArcUnion, HeaderSlice, HeaderWithLength, OffsetArc, ThinArc, UniqueArc};

static DROPS: AtomicUsize = AtomicUsize::new(0);
#[derive(Debug, PartialEq, Eq, PartialOrd, Ord, Hash)]
struct D(u32);
impl Drop for D {
    fn drop(&mut self) {
        DROPS.fetch_add(1, SeqCst);
    }
}
impl Clone for D {
    fn clone(&self) -> D {
        D(self.0)
    }
}
#[repr(align(64))]
#[derive(Clone, Copy, Debug, PartialEq)]
struct Big(u8);
#[derive(Clone, Debug, PartialEq)]
struct Zst;

// ---------------------------------------------------------------------------------------------------------------
// C01 / C04: handle kinds, conversions, borrows
// ---------------------------------------------------------------------------------------------------------------
#[test]
fn c01_arc_clone_drop_all_kinds() {
    let a = Arc::new(D(1));
    let b = a.clone();
    let o = Arc::into_raw_offset(b);
    let o2 = o.clone();
    let c = o2.clone_arc();
    assert_eq!(Arc::count(&a), 4);
    assert_eq!(OffsetArc::strong_count(&o), 4);
    let back = Arc::from_raw_offset(o2);
    drop(back);
    drop(o);
    drop(c);
    assert_eq!(Arc::count(&a), 1);
    assert!(a.is_unique());
}

#[test]
fn c01_thin_fat_roundtrips() {
    let t = ThinArc::from_header_and_iter(D(7), vec![D(1), D(2), D(3)].into_iter());
    let t2 = t.clone();
    let fat = Arc::from_thin(t2);
    assert_eq!(fat.slice.len(), 3);
    assert_eq!(fat.header.header, D(7));
    let t3 = Arc::into_thin(fat);
    assert_eq!(t3.slice[2], D(3));
    t.with_arc(|a| assert_eq!(Arc::count(a), 2));
    let n = ThinArc::strong_count(&t3);
    assert_eq!(n, 2);
    drop(t);
    drop(t3);
}

#[test]
fn c01_thin_last_handle_is_thin() {
    let t = ThinArc::from_header_and_slice(D(1), &[10u64, 20, 30, 40]);
    let fat = Arc::from_thin(t.clone());
    drop(fat);
    drop(t); // the last handle is the thin one
}

#[test]
fn c01_union_both_variants() {
    let a: ArcUnion<D, [u64; 4]> = ArcUnion::from_first(Arc::new(D(3)));
    let b: ArcUnion<D, [u64; 4]> = ArcUnion::from_second(Arc::new([1, 2, 3, 4]));
    let a2 = a.clone();
    let b2 = b.clone();
    assert!(a.is_first() && b.is_second());
    assert_eq!(a.as_first().map(|x| x.0), Some(3));
    assert_eq!(b.as_second().map(|x| x[3]), Some(4));
    assert!(a == a2 && b == b2 && !(a == b));
    assert_eq!(ArcUnion::strong_count(&a), 2);
    drop(a);
    drop(b);
    drop(a2);
    drop(b2); // last handle of the second variant goes through the union
}

#[test]
fn c01_union_over_aligned_second() {
    let u: ArcUnion<u8, Big> = ArcUnion::from_second(Arc::new(Big(9)));
    assert_eq!(u.as_second().map(|x| x.0), Some(9));
    drop(u);
}

#[test]
fn c12_union_of_zero_sized_and_over_aligned_payloads() {
    // a zero-sized second payload: the value address is one past the end of the block
    let u: ArcUnion<u32, ()> = ArcUnion::from_second(Arc::new(()));
    let u2 = u.clone();
    assert!(u.is_second() && u.as_second().is_some() && u.as_first().is_none());
    assert!(u == u2);
    drop(u);
    drop(u2);
    let z: ArcUnion<Zst, Zst> = ArcUnion::from_second(Arc::new(Zst));
    let z1: ArcUnion<Zst, Zst> = ArcUnion::from_first(Arc::new(Zst));
    assert!(z.is_second() && z1.is_first() && z != z1);
    #[repr(align(64))]
    struct BigZ;
    let b: ArcUnion<u8, BigZ> = ArcUnion::from_second(Arc::new(BigZ));
    assert!(b.is_second());
    let c = b.clone();
    drop(b);
    drop(c);
    let d: ArcUnion<D, D> = ArcUnion::from_second(Arc::new(D(1)));
    assert_eq!(d.as_second().map(|x| x.0), Some(1));
}

#[test]
fn c04_with_callbacks_leave_counts_alone() {
    let a = Arc::new(D(5));
    let r = a.with_raw_offset_arc(|o| {
        let c = o.clone_arc();
        Arc::count(&c)
    });
    assert_eq!(r, 2);
    assert_eq!(Arc::count(&a), 1);
    let o = Arc::into_raw_offset(a);
    let n = o.with_arc(|x| Arc::count(x));
    assert_eq!(n, 1);
    let r = std::panic::catch_unwind(std::panic::AssertUnwindSafe(|| o.with_arc(|_| panic!("in callback"))));
    assert!(r.is_err());
    assert_eq!(OffsetArc::strong_count(&o), 1);
    let t = ThinArc::from_header_and_slice((), &[1u8]);
    let r = std::panic::catch_unwind(std::panic::AssertUnwindSafe(|| t.with_arc(|_| panic!("in callback"))));
    assert!(r.is_err());
    assert_eq!(ThinArc::strong_count(&t), 1);
}

// ---------------------------------------------------------------------------------------------------------------
// C10: with_arc_mut
// ---------------------------------------------------------------------------------------------------------------
#[test]
fn c10_with_arc_mut_replace_and_mutate() {
    let mut t = ThinArc::from_header_and_slice(D(1), &[1u32, 2, 3]);
    let keep_old = t.clone();
    let other = ThinArc::from_header_and_slice(D(2), &[9u32]);
    t.with_arc_mut(|a| {
        *a = Arc::protected_from_thin(other.clone());
    });
    assert_eq!(t.header.header, D(2));
    assert_eq!(ThinArc::strong_count(&keep_old), 1);
    assert_eq!(ThinArc::strong_count(&other), 2);
    let r = std::panic::catch_unwind(std::panic::AssertUnwindSafe(|| {
        t.with_arc_mut(|a| {
            *a = Arc::protected_from_thin(keep_old.clone());
            panic!("after replace");
        })
    }));
    assert!(r.is_err());
    assert_eq!(t.header.header, D(1));
    assert_eq!(ThinArc::strong_count(&keep_old), 2);
    let mut solo = ThinArc::from_header_and_slice(0u8, &[1u16, 2]);
    solo.with_arc_mut(|a| {
        if let Some(m) = Arc::get_mut(a) {
            m.slice_mut()[0] = 7;
        }
    });
    assert_eq!(solo.slice[0], 7);
}

// ---------------------------------------------------------------------------------------------------------------
// C11: raw pointers and borrows
// ---------------------------------------------------------------------------------------------------------------
#[test]
fn c11_borrow_recovers_a_handle() {
    let a = Arc::new(D(5));
    let b: ArcBorrow<D> = a.borrow_arc();
    let c = b.clone_arc();
    assert_eq!(Arc::count(&a), 2);
    assert_eq!(b.with_arc(|x| Arc::count(x)), 2);
    assert_eq!(ArcBorrow::strong_count(&b), 2);
    assert_eq!(b.get().0, 5);
    drop(c);
    let o = Arc::into_raw_offset(a);
    let ob = o.borrow_arc();
    let c2 = ob.clone_arc();
    assert_eq!(Arc::count(&c2), 2);
    drop(c2);
    drop(o);
}

#[test]
fn c11_raw_roundtrips() {
    let a = Arc::new(D(1));
    let p = Arc::into_raw(a);
    let a = unsafe { Arc::from_raw(p) };
    assert_eq!(a.0, 1);
    let b = unsafe { ArcBorrow::from_ptr(Arc::as_ptr(&a)) };
    let c = b.clone_arc();
    assert_eq!(Arc::count(&c), 2);
    drop(c);
    let s: Arc<[D]> = Arc::from(vec![D(1), D(2)]);
    let p = Arc::into_raw(s);
    let s = unsafe { Arc::from_raw(p) };
    assert_eq!(s.len(), 2);
    let z = Arc::new(Zst);
    let p = Arc::into_raw(z);
    let z = unsafe { Arc::from_raw(p) };
    drop(z);
    let big = Arc::new(Big(3));
    let p = Arc::into_raw(big);
    assert_eq!(p as usize % 64, 0);
    let big = unsafe { Arc::from_raw(p) };
    assert_eq!(big.0, 3);
    let t = ThinArc::from_header_and_slice(D(4), &[1u8, 2]);
    let p = ThinArc::into_raw(t);
    let t: ThinArc<D, u8> = unsafe { ThinArc::from_raw(p) };
    assert_eq!(t.slice.len(), 2);
    let hp = Arc::heap_ptr(&a);
    assert!(!hp.is_null());
}

#[test]
fn c11_dyn_and_str() {
    let s: Arc<str> = Arc::from("hello");
    let s2: Arc<str> = s.clone();
    assert_eq!(&*s2, "hello");
    let b: Arc<Box<u32>> = Arc::new(Box::new(3));
    assert_eq!(**b, 3);
    let hs = Arc::from_header_and_str(D(1), "abc");
    assert_eq!(&hs.slice, "abc");
}

// ---------------------------------------------------------------------------------------------------------------
// C05 / C06 / C07: constructors
// ---------------------------------------------------------------------------------------------------------------
#[test]
fn c06_constructors_deliver_contents() {
    let a = Arc::from_header_and_iter(D(0), vec![D(1), D(2), D(3)].into_iter());
    assert_eq!(a.slice.len(), 3);
    let b = Arc::from_header_and_slice(7u8, &[1u64, 2]);
    assert_eq!(b.slice[1], 2);
    let c = Arc::from_header_and_vec(D(9), vec![D(4), D(5)]);
    assert_eq!(c.slice[0], D(4));
    let d: Arc<[D]> = vec![D(1), D(2), D(3)].into_iter().collect();
    assert_eq!(d.len(), 3);
    let e: Arc<[u32]> = (0..10).filter(|x| x % 2 == 0).collect();
    assert_eq!(&*e, &[0, 2, 4, 6, 8]);
    let f: Arc<[u32]> = std::iter::from_fn({
        let mut n = 0;
        move || {
            n += 1;
            if n < 4 {
                Some(n)
            } else {
                None
            }
        }
    })
    .collect();
    assert_eq!(&*f, &[1, 2, 3]);
    let g: Arc<[D]> = Arc::from(vec![D(1)]);
    let h: Arc<D> = Arc::from(Box::new(D(2)));
    let i: Arc<[u8]> = Arc::from(&[1u8, 2, 3][..]);
    let j: Arc<str> = Arc::from(String::from("xy"));
    assert_eq!((g.len(), h.0, i.len(), j.len()), (1, 2, 3, 2));
    let empty: Arc<[D]> = Vec::new().into_iter().collect();
    assert_eq!(empty.len(), 0);
    let z = Arc::from_header_and_slice(Zst, &[1u8; 0]);
    assert_eq!(z.slice.len(), 0);
    let t0 = ThinArc::from_header_and_slice(D(1), &[0u64; 0]);
    assert_eq!(t0.slice.len(), 0);
    let bigs = Arc::from_header_and_slice(1u8, &[Big(1), Big(2)]);
    assert_eq!(bigs.slice[1].0, 2);
}

// ---------------------------------------------------------------------------------------------------------------
// C03 / C08 / C09: uniqueness, copy-on-write, unwrapping
// ---------------------------------------------------------------------------------------------------------------
#[test]
fn c03_uniqueness_gates() {
    let mut a = Arc::new(D(1));
    assert!(Arc::get_mut(&mut a).is_some());
    let b = a.clone();
    assert!(Arc::get_mut(&mut a).is_none());
    assert!(Arc::get_unique(&mut a).is_none());
    let a = match Arc::try_unique(a) {
        Ok(_) => panic!("granted while shared"),
        Err(a) => a,
    };
    drop(b);
    let mut u = Arc::try_unique(a).ok().expect("sole owner");
    u.0 = 9;
    let a = u.shareable();
    assert_eq!(a.0, 9);
    let u2 = UniqueArc::try_from(a).ok().expect("sole owner");
    let v = UniqueArc::into_inner(u2);
    assert_eq!(v.0, 9);
}

#[test]
fn c08_copy_on_write() {
    let mut a = Arc::new(D(1));
    let b = a.clone();
    Arc::make_mut(&mut a).0 = 2;
    assert_eq!((a.0, b.0), (2, 1));
    assert_eq!((Arc::count(&a), Arc::count(&b)), (1, 1));
    Arc::make_mut(&mut a).0 = 3; // in place
    let c = a.clone();
    {
        let u = Arc::make_unique(&mut a);
        u.0 = 4;
    }
    assert_eq!((a.0, c.0), (4, 3));
    assert_eq!(Arc::count(&c), 1);
    let mut o = Arc::into_raw_offset(c);
    let o2 = o.clone();
    o.make_mut().0 = 5;
    assert_eq!((o.0, o2.0), (5, 3));
    let z = Arc::new(Zst);
    let mut z2 = z.clone();
    let _ = Arc::make_mut(&mut z2);
    // a shared zero-sized value is copied like any other: each handle ends up alone
    assert!(Arc::count(&z) == 1 && Arc::count(&z2) == 1 && !Arc::ptr_eq(&z, &z2));
}

// the other owner is released during the payload's Clone (what another thread could do at that point) and the old
// value's destructor panics: make_mut's release of the old handle is the last one
thread_local! {
    static PARKED: std::cell::RefCell<Option<Arc<Grenade>>> = std::cell::RefCell::new(None);
    static PARKED_OFF: std::cell::RefCell<Option<OffsetArc<Grenade>>> = std::cell::RefCell::new(None);
}
struct Grenade {
    armed: bool,
}
impl Clone for Grenade {
    fn clone(&self) -> Grenade {
        PARKED.with(|p| drop(p.borrow_mut().take()));
        PARKED_OFF.with(|p| drop(p.borrow_mut().take()));
        Grenade { armed: false }
    }
}
impl Drop for Grenade {
    fn drop(&mut self) {
        if self.armed && !std::thread::panicking() {
            panic!("destructor of the old value");
        }
    }
}

#[test]
fn c08_make_mut_when_the_old_destructor_panics() {
    // Arc::make_mut: the fresh copy is installed even when releasing the old handle unwinds
    let mut a = Arc::new(Grenade { armed: true });
    PARKED.with(|p| *p.borrow_mut() = Some(a.clone()));
    let r = std::panic::catch_unwind(std::panic::AssertUnwindSafe(|| {
        Arc::make_mut(&mut a);
    }));
    assert!(r.is_err());
    assert!(!a.armed && Arc::count(&a) == 1);
    drop(a);
    // OffsetArc::make_mut: the same
    let mut o = Arc::into_raw_offset(Arc::new(Grenade { armed: true }));
    PARKED_OFF.with(|p| *p.borrow_mut() = Some(o.clone()));
    let r = std::panic::catch_unwind(std::panic::AssertUnwindSafe(|| {
        o.make_mut();
    }));
    assert!(r.is_err());
    assert!(!o.armed && OffsetArc::strong_count(&o) == 1);
    drop(o);
}

#[test]
fn c09_unwrapping() {
    let a = Arc::new(D(1));
    let b = a.clone();
    let a = Arc::try_unwrap(a).unwrap_err();
    assert_eq!(Arc::count(&a), 2);
    let v = Arc::unwrap_or_clone(a);
    assert_eq!(v.0, 1);
    assert_eq!(Arc::count(&b), 1);
    let v2 = Arc::try_unwrap(b).ok().expect("sole owner");
    assert_eq!(v2.0, 1);
    let z = Arc::try_unwrap(Arc::new(Zst)).ok().expect("sole owner");
    drop(z);
    let z = Arc::unwrap_or_clone(Arc::new(Zst));
    drop(z);
    let u = UniqueArc::new(Zst);
    let _ = UniqueArc::into_inner(u);
    let big = Arc::unwrap_or_clone(Arc::new(Big(1)));
    assert_eq!(big.0, 1);
}

// ---------------------------------------------------------------------------------------------------------------
// C15: uninitialised construction
// ---------------------------------------------------------------------------------------------------------------
#[test]
fn c15_uninit_family() {
    let u: UniqueArc<MaybeUninit<D>> = UniqueArc::new_uninit();
    drop(u); // never written: no destructor
    let mut u: UniqueArc<MaybeUninit<D>> = UniqueArc::new_uninit();
    u.write(D(1));
    let u = unsafe { UniqueArc::assume_init(u) };
    assert_eq!(u.0, 1);
    let mut a: Arc<MaybeUninit<D>> = Arc::new_uninit();
    Arc::get_mut(&mut a).unwrap().write(D(2));
    let shared = a.clone();
    let a = unsafe { a.assume_init() };
    let shared = unsafe { shared.assume_init() }; // a pure type change, whatever the sharing state
    assert_eq!((a.0, shared.0, Arc::count(&a)), (2, 2, 2));
    let mut s: UniqueArc<[MaybeUninit<u64>]> = UniqueArc::new_uninit_slice(2);
    s[0].write(1);
    s[1].write(2);
    let s = unsafe { UniqueArc::assume_init_slice(s) };
    assert_eq!(&*s, &[1, 2]);
    let mut h = UniqueArc::<HeaderSlice<D, [MaybeUninit<u32>]>>::from_header_and_uninit_slice(D(7), 2);
    h.slice[0].write(1);
    h.slice[1].write(2);
    let h = unsafe { h.assume_init_slice_with_header() };
    assert_eq!(h.slice[1], 2);
    let e: Arc<[MaybeUninit<u8>]> = Arc::new_uninit_slice(0);
    let e = unsafe { e.assume_init() };
    assert_eq!(e.len(), 0);
}

// ---------------------------------------------------------------------------------------------------------------
// C14: comparison / formatting through every handle
// ---------------------------------------------------------------------------------------------------------------
#[test]
fn c14_delegating_impls() {
    let a = Arc::new(1.5f64);
    let nan = Arc::new(f64::NAN);
    let nan2 = Arc::new(f64::NAN); // another allocation: the same-allocation shortcut of `==` does not apply
    assert!(!(nan <= nan2) && !(nan >= nan2) && nan != nan2 && !(nan == nan2));
    assert!(!(nan <= nan.clone()) && !(nan >= nan.clone()));
    assert!(a <= a.clone() && a >= a.clone() && a == a.clone());
    assert_eq!(a.partial_cmp(&nan), None);
    let t1 = ThinArc::from_header_and_slice(1u8, &[1.0f32, f32::NAN]);
    let t2 = ThinArc::from_header_and_slice(1u8, &[1.0f32, f32::NAN]);
    assert!(t1 != t2 && t1.partial_cmp(&t2).is_none());
    let b = a.borrow_arc();
    assert_eq!(format!("{:?}", b), "1.5");
    assert_eq!(format!("{:?} {}", a, a), "1.5 1.5");
    let u1: ArcUnion<u32, u32> = ArcUnion::from_first(Arc::new(1));
    let u2: ArcUnion<u32, u32> = ArcUnion::from_second(Arc::new(1));
    assert!(u1 != u2 && !(u1 == u2));
    assert!(u1 == u1.clone() && !(u1 != u1.clone()));
    let h1 = Arc::from_header_and_slice(HeaderWithLength::new(1u8, 2), &[1u8, 2]);
    let h2 = Arc::from_header_and_slice(HeaderWithLength::new(1u8, 2), &[1u8, 3]);
    assert!(h1 < h2 && h1 != h2);
    use std::collections::hash_map::DefaultHasher;
    use std::hash::{Hash, Hasher};
    let hash = |x: &dyn Fn(&mut DefaultHasher)| {
        let mut h = DefaultHasher::new();
        x(&mut h);
        h.finish()
    };
    assert_eq!(hash(&|h| Arc::new(D(3)).hash(h)), hash(&|h| D(3).hash(h)));
}

// ---------------------------------------------------------------------------------------------------------------
// C02 / C03: real threads (miri's data-race detector sees the orderings the crate uses)
// ---------------------------------------------------------------------------------------------------------------
struct Shared {
    v: Cell<u32>,
}
unsafe impl Sync for Shared {} // only ever written before sharing or by a sole owner

#[test]
fn c02_reader_drops_then_last_owner_destroys() {
    for kind in 0..3 {
        let a = Arc::new((D(1), Shared { v: Cell::new(7) }));
        let b = a.clone();
        let t = std::thread::spawn(move || {
            let x = match kind {
                0 => b.1.v.get(),
                1 => {
                    let o = Arc::into_raw_offset(b);
                    o.1.v.get()
                }
                _ => {
                    let c = b.clone();
                    drop(b);
                    c.1.v.get()
                }
            };
            assert_eq!(x, 7);
        });
        // learn of the other thread's drop only through the counter (Relaxed): no other synchronisation
        while Arc::strong_count(&a) != 1 {
            std::thread::yield_now();
        }
        drop(a); // destroys and frees: must be ordered after the reader's accesses
        t.join().unwrap();
    }
}

#[test]
fn c03_unique_after_reader_left_then_write() {
    let mut a = Arc::new(Shared { v: Cell::new(1) });
    let b = a.clone();
    let t = std::thread::spawn(move || {
        assert_eq!(b.v.get(), 1);
        drop(b);
    });
    loop {
        if let Some(m) = Arc::get_mut(&mut a) {
            m.v.set(2); // must be ordered after the reader's read
            break;
        }
        std::thread::yield_now();
    }
    t.join().unwrap();
    let mut a2 = a.clone();
    let t = std::thread::spawn(move || {
        assert_eq!(a.v.get(), 2);
        drop(a);
    });
    loop {
        if a2.is_unique() {
            Arc::make_mut(&mut a2);
            break;
        }
        std::thread::yield_now();
    }
    t.join().unwrap();
}

impl Clone for Shared {
    fn clone(&self) -> Shared {
        Shared { v: Cell::new(self.v.get()) }
    }
}

#[test]
fn c08_offset_make_mut_after_the_reader_left() {
    let a = Arc::new(Shared { v: Cell::new(1) });
    let mut o = Arc::into_raw_offset(a.clone());
    let t = std::thread::spawn(move || {
        assert_eq!(a.v.get(), 1);
        drop(a);
    });
    // learn of the other thread's drop only through the counter (Relaxed): no other synchronisation
    while OffsetArc::strong_count(&o) != 1 {
        std::thread::yield_now();
    }
    o.make_mut().v.set(2); // in place: must be ordered after the reader's read
    t.join().unwrap();
    assert_eq!(o.v.get(), 2);
}

#[test]
fn c04_every_count_accessor_on_over_aligned_payloads() {
    #[repr(align(64))]
    #[derive(Clone)]
    struct Wide(u8);
    let a = Arc::new(Wide(1));
    let b = a.clone();
    let o = Arc::into_raw_offset(a.clone());
    let br = a.borrow_arc();
    let u: ArcUnion<u8, Wide> = ArcUnion::from_second(a.clone());
    let u1: ArcUnion<Wide, u8> = ArcUnion::from_first(a.clone());
    let counts = [
        Arc::count(&a),
        Arc::strong_count(&b),
        OffsetArc::strong_count(&o),
        ArcBorrow::strong_count(&br),
        ArcUnion::strong_count(&u),
        ArcUnion::strong_count(&u1),
        triomphe::ArcUnionBorrow::strong_count(&u.borrow()),
        br.with_arc(|x| Arc::count(x)),
        o.with_arc(|x| Arc::count(x)),
    ];
    assert_eq!(counts, [5; 9]);
    assert_eq!(u.as_second().map(|x| x.0), Some(1));
    drop((b, o, u, u1));
    assert_eq!(ArcBorrow::strong_count(&br), 1);
}

#[test]
fn c09_racing_unwraps() {
    for _ in 0..3 {
        let a = Arc::new(D(1));
        let b = a.clone();
        let t = std::thread::spawn(move || Arc::try_unwrap(b).is_ok());
        let mine = Arc::try_unwrap(a).is_ok();
        let theirs = t.join().unwrap();
        assert!(!(mine && theirs));
    }
    let a = Arc::new(D(2));
    let b = a.clone();
    let t = std::thread::spawn(move || Arc::unwrap_or_clone(b).0);
    let v = Arc::unwrap_or_clone(a).0;
    assert_eq!((v, t.join().unwrap()), (2, 2));
}
