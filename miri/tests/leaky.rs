//! Scenarios whose DOCUMENTED behaviour leaks memory (a panicking or lying iterator leaves the partly filled block
//! behind; a partly written uninitialised slice that is dropped never runs element destructors): run under miri with
//! the leak check off; everything else (provenance, uninitialised reads, layouts, double frees) is still checked.
#![allow(clippy::all)]
use std::mem::MaybeUninit;
use std::sync::atomic::{AtomicUsize, Ordering::SeqCst};
use triomphe::{Arc, ThinArc, UniqueArc};

static DROPS: AtomicUsize = AtomicUsize::new(0);
#[derive(Debug, PartialEq)]
struct D(u32);
impl Drop for D {
    fn drop(&mut self) {
        DROPS.fetch_add(1, SeqCst);
    }
}

struct Lying {
    claim: usize,
    real: usize,
    given: usize,
}
impl Iterator for Lying {
    type Item = D;
    fn next(&mut self) -> Option<D> {
        if self.given < self.real {
            self.given += 1;
            Some(D(self.given as u32))
        } else {
            None
        }
    }
    fn size_hint(&self) -> (usize, Option<usize>) {
        (self.claim, Some(self.claim))
    }
}
impl ExactSizeIterator for Lying {
    fn len(&self) -> usize {
        self.claim
    }
}

#[test]
fn c07_lying_and_panicking_iterators() {
    for (claim, real) in [(3usize, 1usize), (1, 3), (0, 2), (2, 0)] {
        let r = std::panic::catch_unwind(|| Arc::from_header_and_iter(D(0), Lying { claim, real, given: 0 }));
        assert!(r.is_err());
        let r = std::panic::catch_unwind(|| ThinArc::from_header_and_iter(D(0), Lying { claim, real, given: 0 }));
        assert!(r.is_err());
    }
    let r = std::panic::catch_unwind(|| {
        Arc::from_header_and_iter(D(0), (0..3u32).map(|i| if i == 1 { panic!("in next") } else { D(i) }))
    });
    assert!(r.is_err());
    // leaks on these paths are the documented behaviour ("we'll just leak the uninitialized memory")
}


#[test]
fn c15_partly_written_slice_dropped() {
    let before = DROPS.load(SeqCst);
    let mut s: UniqueArc<[MaybeUninit<D>]> = UniqueArc::new_uninit_slice(3);
    s[0].write(D(1));
    drop(s); // element destructors do not run, written or not
    let _ = before;
}
