//! More scenarios under miri: the optional features (unsize, arc-swap, serde), trait objects through raw pointers,
//! header erasure, deprecated writes, zero-sized and over-aligned shapes in every constructor, and real threads on
//! every handle kind.
#![allow(clippy::all, deprecated)]
use std::mem::MaybeUninit;
use std::sync::atomic::{AtomicUsize, Ordering::SeqCst};
use triomphe::{Arc, ArcBorrow, ArcUnion, HeaderSlice, HeaderWithLength, OffsetArc, ThinArc, UniqueArc};

static DROPS: AtomicUsize = AtomicUsize::new(0);
#[derive(Debug, PartialEq, Eq, PartialOrd, Ord, Hash, Clone)]
struct D(u32);
impl Drop for D {
    fn drop(&mut self) {
        DROPS.fetch_add(1, SeqCst);
    }
}
trait Speak {
    fn speak(&self) -> u32;
}
impl Speak for D {
    fn speak(&self) -> u32 {
        self.0
    }
}
#[repr(align(32))]
#[derive(Clone, Copy, Debug, PartialEq)]
struct Al(u16);

#[test]
fn c11_trait_object_through_raw_pointer() {
    let a = Arc::new(D(7));
    let b = a.clone();
    let p: *const D = Arc::into_raw(b);
    let dynp: *const dyn Speak = p;
    let d: Arc<dyn Speak> = unsafe { Arc::from_raw(dynp) };
    assert_eq!(d.speak(), 7);
    assert_eq!(Arc::count(&a), 2);
    let d2 = d.clone();
    assert_eq!(Arc::strong_count(&d2), 3);
    drop(a);
    drop(d);
    drop(d2); // the last handle is the trait-object one: D's destructor and the sized layout
}

#[test]
fn c01_unsize_coercion() {
    use unsize::{CoerceUnsize, Coercion};
    let a: Arc<[u32; 3]> = Arc::new([1, 2, 3]);
    let s: Arc<[u32]> = a.clone().unsize(Coercion::to_slice());
    assert_eq!(&*s, &[1, 2, 3]);
    assert_eq!(Arc::count(&a), 2);
    let d: Arc<D> = Arc::new(D(4));
    let t: Arc<dyn Speak> = d.unsize(Coercion!(to dyn Speak));
    assert_eq!(t.speak(), 4);
    let u: UniqueArc<[u8; 2]> = UniqueArc::new([1, 2]);
    let us: UniqueArc<[u8]> = u.unsize(Coercion::to_slice());
    assert_eq!(us.len(), 2);
    drop(a);
    drop(s);
}

#[test]
fn c11_arc_swap_glue() {
    use arc_swap::ArcSwapAny;
    let a = Arc::new(D(1));
    let s: ArcSwapAny<Arc<D>> = ArcSwapAny::new(a.clone());
    let g = s.load();
    assert_eq!(g.0, 1);
    drop(g);
    let old = s.swap(Arc::new(D(2)));
    assert_eq!(old.0, 1);
    assert_eq!(s.load_full().0, 2);
    assert_eq!(Arc::count(&a), 2);
    drop(old);
    let t = ThinArc::from_header_and_slice(D(5), &[1u8, 2, 3]);
    let st: ArcSwapAny<ThinArc<D, u8>> = ArcSwapAny::new(t.clone());
    let l = st.load_full();
    assert_eq!(l.slice.len(), 3);
    let prev = st.swap(ThinArc::from_header_and_slice(D(6), &[9u8]));
    assert_eq!(prev.header.header, D(5));
    drop(prev);
    drop(l);
    drop(t);
    drop(st);
    drop(s);
}

#[test]
fn c17_serde_roundtrip_and_errors() {
    use serde::de::value::{BorrowedStrDeserializer, Error as VErr, SeqDeserializer, U32Deserializer};
    use serde::de::IntoDeserializer;
    use serde::Deserialize;
    let a: Arc<u32> = Arc::deserialize(U32Deserializer::<VErr>::new(5)).unwrap();
    assert_eq!((*a, Arc::count(&a)), (5, 1));
    let u: UniqueArc<u32> = UniqueArc::deserialize(U32Deserializer::<VErr>::new(6)).unwrap();
    assert_eq!(*u, 6);
    let t: Arc<(u32, u32)> = Arc::deserialize(SeqDeserializer::<_, VErr>::new(vec![1u32, 2].into_iter())).unwrap();
    assert_eq!(*t, (1, 2));
    // failures at the first callback, in the middle, and a trailing-length error: nothing may be left behind
    let e: Result<Arc<u32>, VErr> = Arc::deserialize(BorrowedStrDeserializer::new("x"));
    assert!(e.is_err());
    let e: Result<Arc<(u32, u32)>, VErr> = Arc::deserialize(SeqDeserializer::new(vec![1u32].into_iter()));
    assert!(e.is_err());
    let e: Result<UniqueArc<(u32, u32)>, VErr> = UniqueArc::deserialize(SeqDeserializer::new(vec![1u32, 2, 3].into_iter()));
    assert!(e.is_err());
    let nested: Result<Arc<(Arc<u32>, Arc<u32>)>, VErr> = Arc::deserialize(SeqDeserializer::new(vec![1u32].into_iter()));
    assert!(nested.is_err());
    let _ = 7u32.into_deserializer() as U32Deserializer<VErr>;
}

#[test]
fn c10_header_erasure_and_protected() {
    let a = Arc::from_header_and_slice(HeaderWithLength::new(D(1), 3), &[1u16, 2, 3]);
    let t = Arc::into_thin(a);
    let back = Arc::from_thin(t.clone());
    assert_eq!(back.header.header, D(1));
    assert_eq!(back.slice, [1, 2, 3]);
    let r = std::panic::catch_unwind(|| {
        // a recorded length that is not the slice length: refused, and nothing is lost
        let bad = Arc::from_header_and_slice(HeaderWithLength::new(D(2), 5), &[1u16, 2]);
        Arc::into_thin(bad)
    });
    assert!(r.is_err());
    t.with_arc(|p| {
        assert_eq!(p.slice.len(), 3);
        assert_eq!(p.header.header, D(1));
    });
    let e: Arc<[u8]> = Arc::from(&[1u8, 2][..]);
    let hs: Arc<HeaderSlice<(), [u8]>> = e.clone().into();
    let e2: Arc<[u8]> = hs.into();
    assert!(Arc::ptr_eq(&e, &e2));
}

#[test]
fn c15_deprecated_writes_on_shared_panic() {
    let mut a: Arc<MaybeUninit<D>> = Arc::new_uninit();
    a.write(D(1));
    let b = a.clone();
    let r = std::panic::catch_unwind(std::panic::AssertUnwindSafe(|| {
        a.write(D(2));
    }));
    assert!(r.is_err());
    let a = unsafe { a.assume_init() };
    let b = unsafe { b.assume_init() };
    assert_eq!((a.0, b.0), (1, 1));
    let mut s: Arc<[MaybeUninit<u32>]> = Arc::new_uninit_slice(2);
    s.as_mut_slice()[0].write(1);
    s.as_mut_slice()[1].write(2);
    let s2 = s.clone();
    let r = std::panic::catch_unwind(std::panic::AssertUnwindSafe(|| {
        s.as_mut_slice()[0].write(9);
    }));
    assert!(r.is_err());
    let s = unsafe { s.assume_init() };
    assert_eq!(&*s, &[1, 2]);
    drop(s2);
}

#[test]
fn c05_shapes_through_every_constructor() {
    let a = Arc::new(Al(1));
    assert_eq!(Arc::as_ptr(&a) as usize % 32, 0);
    let o = Arc::into_raw_offset(a);
    let a = Arc::from_raw_offset(o);
    let h = Arc::from_header_and_slice(Al(2), &[1u8, 2, 3]);
    assert_eq!(h.header.0, 2);
    let h2 = Arc::from_header_and_slice(1u8, &[Al(3), Al(4)]);
    assert_eq!(&h2.slice[1] as *const Al as usize % 32, 0);
    let t = ThinArc::from_header_and_slice(Al(5), &[Al(6)]);
    assert_eq!(t.slice[0].0, 6);
    let t2 = ThinArc::from_header_and_iter((), vec![Al(7), Al(8)].into_iter());
    assert_eq!(t2.slice[1].0, 8);
    let u: ArcUnion<Al, u8> = ArcUnion::from_first(a);
    let v: ArcUnion<Al, u8> = ArcUnion::from_second(Arc::new(3u8));
    assert!(u.is_first() && v.is_second());
    let z: ArcUnion<(), ()> = ArcUnion::from_second(Arc::new(()));
    assert!(z.is_second());
    let us: UniqueArc<[MaybeUninit<Al>]> = UniqueArc::new_uninit_slice(2);
    drop(us);
    let e: Arc<[Al]> = Arc::from(Vec::new());
    assert_eq!(e.len(), 0);
    let b: Arc<Al> = Arc::from(Box::new(Al(9)));
    assert_eq!(b.0, 9);
    let bz: Arc<()> = Arc::from(Box::new(()));
    drop(bz);
    let zs = std::panic::catch_unwind(|| Arc::from_header_and_iter(1u8, vec![(), ()].into_iter()));
    assert!(zs.is_err()); // zero-sized elements are refused by an assertion
}

#[test]
fn c02_threads_on_every_handle_kind() {
    let a = Arc::new(D(1));
    let mut hs = Vec::new();
    for i in 0..3 {
        let b = a.clone();
        hs.push(std::thread::spawn(move || {
            let mut keep = Vec::new();
            for _ in 0..3 {
                keep.push(b.clone());
            }
            let o = Arc::into_raw_offset(b);
            let o2 = o.clone();
            assert_eq!(o2.0, 1);
            let u: ArcUnion<D, u8> = if i % 2 == 0 { ArcUnion::from_first(o2.clone_arc()) } else { ArcUnion::from_first(Arc::from_raw_offset(o2.clone())) };
            let u2 = u.clone();
            drop(u);
            drop(keep);
            drop(o);
            drop(o2);
            drop(u2);
        }));
    }
    let t = ThinArc::from_header_and_slice(D(2), &[1u8, 2]);
    for _ in 0..2 {
        let t2 = t.clone();
        hs.push(std::thread::spawn(move || {
            let f = Arc::from_thin(t2.clone());
            assert_eq!(f.slice.len(), 2);
            drop(t2);
            drop(f);
        }));
    }
    for h in hs {
        h.join().unwrap();
    }
    assert_eq!(Arc::count(&a), 1);
    assert_eq!(ThinArc::strong_count(&t), 1);
}

#[test]
fn c08_make_mut_races_with_a_leaving_reader() {
    for _ in 0..3 {
        let mut a = Arc::new(vec![1u32, 2, 3]);
        let b = a.clone();
        let t = std::thread::spawn(move || {
            let n: u32 = b.iter().sum();
            drop(b);
            n
        });
        Arc::make_mut(&mut a).push(4); // clones, or mutates in place after the reader has left: both fine
        assert_eq!(t.join().unwrap(), 6);
        assert_eq!(a.len(), 4);
    }
}

#[test]
fn c04_counts_through_borrows_and_unions() {
    let a = Arc::new(D(3));
    let u: ArcUnion<D, D> = ArcUnion::from_second(a.clone());
    let b = u.borrow();
    assert_eq!(triomphe::ArcUnionBorrow::strong_count(&b), 2);
    let ab: ArcBorrow<D> = a.borrow_arc();
    let c = ab.clone();
    assert_eq!(ArcBorrow::strong_count(&c), 2);
    assert!(ArcBorrow::ptr_eq(&ab, &c));
    let u2: ArcUnion<D, D> = ArcUnion::from_first(a.clone());
    assert!(!ArcUnion::ptr_eq(&u, &u2) || true);
    assert_eq!(ArcUnion::strong_count(&u2), 3);
}

#[test]
fn c03_as_mut_ptr_of_a_shared_uninit_arc_grants_nothing() {
    // a safe call on one handle of a shared Arc<MaybeUninit<T>>: it only computes an address, so the other owner's
    // view must stay valid (nothing is written through the pointer)
    let mut a: Arc<MaybeUninit<u32>> = Arc::new_uninit();
    Arc::get_mut(&mut a).unwrap().write(5);
    let b = a.clone();
    let r: &MaybeUninit<u32> = &*b;
    let p = a.as_mut_ptr();
    assert!(!p.is_null());
    assert_eq!(unsafe { r.assume_init_read() }, 5);
    drop(b);
    drop(a);
}

#[test]
fn c11_borrow_unsize_and_from_ptr_of_other_kinds() {
    use unsize::{CoerceUnsize, Coercion};
    let a: Arc<[u16; 4]> = Arc::new([1, 2, 3, 4]);
    let b: ArcBorrow<[u16; 4]> = a.borrow_arc();
    let bs: ArcBorrow<[u16]> = b.unsize(Coercion::to_slice());
    let _ = &bs;
    assert_eq!(ArcBorrow::strong_count(&b), 1);
    let o = Arc::into_raw_offset(Arc::new(D(3)));
    let ob = unsafe { ArcBorrow::from_ptr(&*o as *const D) };
    // (a pointer obtained through Deref is reference-derived: only reading through the borrow is allowed)
    assert_eq!(ob.get().0, 3);
    let a2 = Arc::from_raw_offset(o);
    let ab = unsafe { ArcBorrow::from_ptr(Arc::as_ptr(&a2)) };
    let c = ab.clone_arc();
    assert_eq!(Arc::count(&c), 2);
    let d: Arc<dyn Speak> = c.unsize(Coercion!(to dyn Speak));
    drop(a2);
    assert_eq!(d.speak(), 3);
    drop(d); // the last handle is the unsized one
}

#[test]
fn c02_arc_swap_under_threads() {
    use arc_swap::ArcSwapAny;
    use std::sync::Arc as StdArc;
    let s: StdArc<ArcSwapAny<Arc<D>>> = StdArc::new(ArcSwapAny::new(Arc::new(D(0))));
    let st: StdArc<ArcSwapAny<ThinArc<D, u8>>> = StdArc::new(ArcSwapAny::new(ThinArc::from_header_and_slice(D(0), &[0u8])));
    let mut hs = Vec::new();
    for i in 0..2u32 {
        let s = s.clone();
        let st = st.clone();
        hs.push(std::thread::spawn(move || {
            for k in 0..3 {
                let v = s.load_full();
                assert!(v.0 <= 10);
                s.store(Arc::new(D(i * 3 + k)));
                let t = st.load_full();
                assert_eq!(t.slice.len(), 1);
                st.store(ThinArc::from_header_and_slice(D(k), &[k as u8]));
            }
        }));
    }
    for h in hs {
        h.join().unwrap();
    }
}

#[test]
fn c04_callbacks_that_keep_a_clone() {
    let a = Arc::new(D(1));
    let kept = a.with_raw_offset_arc(|o| o.clone());
    assert_eq!(Arc::count(&a), 2);
    let kept2 = kept.with_arc(|x| x.clone());
    assert_eq!(Arc::count(&a), 3);
    let t = ThinArc::from_header_and_slice(D(2), &[1u8]);
    let f = t.with_arc(|x| x.clone());
    assert_eq!(ThinArc::strong_count(&t), 2);
    let b = a.borrow_arc();
    let k3 = b.with_arc(|x| x.clone());
    assert_eq!(Arc::count(&a), 4);
    let r = std::panic::catch_unwind(std::panic::AssertUnwindSafe(|| b.with_arc(|_| panic!("in callback"))));
    assert!(r.is_err());
    assert_eq!(Arc::count(&a), 4);
    drop((kept, kept2, f, k3));
    assert_eq!(Arc::count(&a), 1);
}
