#!/usr/bin/env python3
"""Shared machinery of ./check: locking, builds, running the two sides of the
correspondence, diffing, evidence and replay files."""
import os, sys, json, subprocess, time, hashlib, fcntl, re, random, shutil

ROOT = os.path.dirname(os.path.dirname(os.path.abspath(__file__)))
CACHE = os.path.join(ROOT, '.cache')
COQ = os.path.join(ROOT, 'coq')
HARNESS = os.path.join(ROOT, 'harness')
OCAMLDIR = os.path.join(CACHE, 'ocaml')
TARGET = os.path.join(CACHE, 'target')
EVIDENCE = os.path.join(ROOT, 'evidence')
REPLAYS = os.path.join(ROOT, 'replays')
CORPUS = os.path.join(ROOT, 'corpus')
REPO = os.environ.get('VERIF_REPO', '/repo')
NPROC = os.cpu_count() or 4

for d in (CACHE, OCAMLDIR, EVIDENCE, REPLAYS, CORPUS, os.path.join(COQ, 'gen')):
    os.makedirs(d, exist_ok=True)

ENV = dict(os.environ)
ENV.update({'CARGO_NET_OFFLINE': 'true', 'RUST_BACKTRACE': '0', 'CARGO_TARGET_DIR': TARGET,
            'RUSTFLAGS': '--cfg triomphe_verif', 'CARGO_TERM_COLOR': 'never'})

def log(*a):
    print('[check]', *a, file=sys.stderr, flush=True)

class Lock(object):
    def __init__(self, name='build.lock'):
        self.path = os.path.join(CACHE, name)
    def __enter__(self):
        self.f = open(self.path, 'w')
        fcntl.flock(self.f, fcntl.LOCK_EX)
        return self
    def __exit__(self, *a):
        fcntl.flock(self.f, fcntl.LOCK_UN)
        self.f.close()

def run(cmd, cwd=None, timeout=1200, env=None, input=None):
    """returns (rc, stdout+stderr text). rc = -9 on timeout."""
    try:
        p = subprocess.run(cmd, cwd=cwd, env=env or ENV, stdout=subprocess.PIPE, stderr=subprocess.STDOUT,
                           timeout=timeout, input=input)
        return p.returncode, p.stdout.decode('utf-8', 'replace')
    except subprocess.TimeoutExpired as ex:
        return -9, (ex.stdout or b'').decode('utf-8', 'replace') + '\n[timeout after %ds]' % timeout

def strip_noise(txt):
    return '\n'.join(l for l in txt.split('\n') if 'conda.cli.condarc' not in l)

# ----------------------------------------------------------------------------
# tie 1: translator + Coq
# ----------------------------------------------------------------------------
def translate():
    """Regenerate coq/gen/Extracted.v from REPO/src. Returns (facts dict, stdout)."""
    js = os.path.join(CACHE, 'facts.json')
    rc, out = run([sys.executable, os.path.join(ROOT, 'tools', 'extract.py'), '--src', os.path.join(REPO, 'src'),
                   '--out', os.path.join(COQ, 'gen', 'Extracted.v'), '--json', js], timeout=120)
    facts = {}
    if rc == 0 and os.path.exists(js):
        facts = json.load(open(js))
    return rc, facts, strip_noise(out)

def coq_makefile():
    mk = os.path.join(COQ, 'Makefile')
    cp = os.path.join(COQ, '_CoqProject')
    if not os.path.exists(mk) or os.path.getmtime(mk) < os.path.getmtime(cp):
        rc, out = run(['coq_makefile', '-f', '_CoqProject', '-o', 'Makefile'], cwd=COQ, timeout=120)
        if rc != 0:
            raise RuntimeError('coq_makefile failed: ' + out)

def coq_make(targets, timeout=1500):
    """make the given .vo targets (full .vo build). Returns (rc, output)."""
    coq_makefile()
    rc, out = run(['make', '-j%d' % NPROC] + targets, cwd=COQ, timeout=timeout)
    return rc, strip_noise(out)

def coq_prop(prop):
    """Build props/<prop>.vo, forcing a re-check of the property file itself so that its
    Print Assumptions output is captured. Returns dict(ok, output, assumptions, theorems, error)."""
    vfile = os.path.join(COQ, 'props', prop + '.v')
    for ext in ('.vo', '.vok', '.vos', '.glob'):
        p = os.path.join(COQ, 'props', prop + ext)
        if os.path.exists(p): os.remove(p)
    rc, out = coq_make(['props/%s.vo' % prop])
    src = open(vfile).read()
    theorems = re.findall(r'^\s*(?:Theorem|Corollary)\s+([A-Za-z0-9_\']+)', src, re.M)
    res = dict(ok=(rc == 0), output=out, theorems=theorems, error=None, assumptions=[])
    if rc != 0:
        m = re.search(r'(File "[^"]+", line \d+, characters [\d-]+:\s*\n(?:.*\n){0,25})', out)
        res['error'] = m.group(1) if m else out[-3000:]
        return res
    # Print Assumptions blocks
    closed = out.count('Closed under the global context')
    axioms = []
    for m in re.finditer(r'Axioms:\s*\n((?:.+\n)+?)(?=\S.*:\s*$|\Z|Closed under|COQC|make)', out, re.M):
        for l in m.group(1).split('\n'):
            mm = re.match(r'^([A-Za-z0-9_.\']+)\s*:', l)
            if mm: axioms.append(mm.group(1))
    res['closed'] = closed
    res['assumptions'] = sorted(set(axioms))
    return res

def coq_eval(body, name='eval', timeout=600):
    """compile a scratch .v file (under .cache) against the development and return coqc's output"""
    d = os.path.join(CACHE, 'eval'); os.makedirs(d, exist_ok=True)
    f = os.path.join(d, name + '.v')
    open(f, 'w').write(body)
    rc, out = run(['coqc', '-Q', os.path.join(COQ, 'theories'), 'TV', '-Q', os.path.join(COQ, 'gen'), 'TV', f], cwd=d, timeout=timeout)
    return rc, strip_noise(out)

AXIOM_ALLOWLIST = set([
    # standard-library axioms that may legitimately appear (named in DESIGN.md section 8)
    'Coq.Logic.FunctionalExtensionality.functional_extensionality_dep',
    'functional_extensionality_dep',
    'Coq.Logic.ProofIrrelevance.proof_irrelevance', 'proof_irrelevance',
    'Coq.Logic.Eqdep.Eq_rect_eq.eq_rect_eq', 'Eqdep.Eq_rect_eq.eq_rect_eq', 'eq_rect_eq',
    'Coq.Logic.JMeq.JMeq_eq', 'JMeq_eq',
    'Coq.Logic.Classical_Prop.classic', 'classic',
])

HYGIENE_RE = re.compile(r'\b(Admitted|admit|Axiom|Axioms|Parameter|Parameters|Conjecture|Conjectures|Admit Obligations|bypass_check)\b|Unset Guard|Unset Positivity|Unset Universe Checking|type-in-type|impredicative-set')

def hygiene():
    """grep the whole development for forbidden vernacular. Returns list of offending lines."""
    bad = []
    for dp, dn, fn in os.walk(COQ):
        for f in fn:
            if not f.endswith('.v') and f != '_CoqProject': continue
            p = os.path.join(dp, f)
            txt = open(p).read()
            # strip comments (nested)
            out = []; depth = 0; i = 0
            while i < len(txt):
                if txt.startswith('(*', i): depth += 1; i += 2; continue
                if txt.startswith('*)', i) and depth > 0: depth -= 1; i += 2; continue
                if depth == 0: out.append(txt[i])
                elif txt[i] == '\n': out.append('\n')
                i += 1
            for ln, l in enumerate(''.join(out).split('\n'), 1):
                if HYGIENE_RE.search(l):
                    bad.append('%s:%d: %s' % (os.path.relpath(p, ROOT), ln, l.strip()))
    return bad

# ----------------------------------------------------------------------------
# tie 2: harness + extracted model
# ----------------------------------------------------------------------------
def newest_mtime(paths):
    m = 0
    for p in paths:
        if os.path.isdir(p):
            for dp, dn, fn in os.walk(p):
                for f in fn:
                    m = max(m, os.path.getmtime(os.path.join(dp, f)))
        elif os.path.exists(p):
            m = max(m, os.path.getmtime(p))
    return m

def build_modelrun(force=False):
    """Extract the hand models to OCaml and compile the driver (only when stale)."""
    exe = os.path.join(OCAMLDIR, 'modelrun')
    srcs = [os.path.join(COQ, 'theories'), os.path.join(COQ, 'extract', 'Extract.v'), os.path.join(ROOT, 'ocaml', 'driver.ml')]
    if not force and os.path.exists(exe) and os.path.getmtime(exe) >= newest_mtime(srcs):
        return 0, 'modelrun up to date'
    # models must be compiled first
    rc, out = coq_make(model_vo_targets())
    if rc != 0: return rc, out
    rc, out = run(['coqc', '-Q', os.path.join(COQ, 'theories'), 'TV', os.path.join(COQ, 'extract', 'Extract.v')], cwd=OCAMLDIR, timeout=600)
    for ext in ('.vo', '.vok', '.vos', '.glob'):
        p = os.path.join(COQ, 'extract', 'Extract' + ext)
        if os.path.exists(p): os.remove(p)
    if rc != 0: return rc, strip_noise(out)
    shutil.copy(os.path.join(ROOT, 'ocaml', 'driver.ml'), os.path.join(OCAMLDIR, 'driver.ml'))
    rc, out2 = run(['ocamlfind', 'ocamlopt', '-O2', '-w', '-a', 'model.mli', 'model.ml', 'driver.ml', '-o', 'modelrun'], cwd=OCAMLDIR, timeout=600)
    return rc, strip_noise(out + out2)

def model_vo_targets():
    """the .vo files Extract.v needs (parsed from its imports)."""
    txt = open(os.path.join(COQ, 'extract', 'Extract.v')).read()
    mods = []
    for m in re.finditer(r'From TV Require Import ([^.]+)\.', txt):
        mods += m.group(1).split()
    return ['theories/%s.vo' % m for m in mods]

def build_harness(cfg='cfg_default', profile='debug'):
    """cargo build of the harness against REPO with hooks on. Returns (rc, output, exe path)."""
    lock = os.path.join(HARNESS, 'Cargo.lock')
    if os.path.exists(os.path.join(REPO, 'Cargo.lock')) and not os.path.exists(lock):
        shutil.copy(os.path.join(REPO, 'Cargo.lock'), lock)
    tdir = os.path.join(TARGET, cfg)
    env = dict(ENV); env['CARGO_TARGET_DIR'] = tdir
    cmd = ['cargo', 'build', '--offline', '--no-default-features', '--features', cfg]
    if profile == 'release': cmd.append('--release')
    rc, out = run(cmd, cwd=HARNESS, timeout=1500, env=env)
    exe = os.path.join(tdir, profile, 'tvharness')
    return rc, strip_noise(out), exe

def write_cases(path, cases):
    """cases: list of (id, [[ints]...])"""
    with open(path, 'w') as f:
        for cid, ops in cases:
            f.write('%s|%s\n' % (cid, ';'.join(' '.join(str(x) for x in op) for op in ops)))

def parse_obs(txt):
    """output lines `<id>.<k>|x y z` -> {id: [[ints] by k]}, plus list of stray lines"""
    res = {}; stray = []
    for l in txt.split('\n'):
        l = l.strip()
        if not l: continue
        m = re.match(r'^([^|.]+)\.(\d+)\|(.*)$', l)
        if not m:
            stray.append(l); continue
        cid, k, rest = m.group(1), int(m.group(2)), m.group(3)
        try:
            vals = [int(x) for x in rest.split()]
        except ValueError:
            stray.append(l); continue
        res.setdefault(cid, {})[k] = vals
    out = {}
    for cid, d in res.items():
        out[cid] = [d[k] for k in sorted(d)]
    return out, stray

def _big_stack():
    """the extracted model recurses over lists: give the child the largest stack the system allows"""
    try:
        import resource
        soft, hard = resource.getrlimit(resource.RLIMIT_STACK)
        resource.setrlimit(resource.RLIMIT_STACK, (hard, hard))
    except Exception:
        pass

def run_side(exe, stream, casefile, timeout=900, extra_env=None):
    env = dict(ENV)
    if extra_env: env.update(extra_env)
    try:
        p = subprocess.run([exe, stream, casefile], env=env, stdout=subprocess.PIPE, stderr=subprocess.PIPE, timeout=timeout, preexec_fn=_big_stack)
        return p.returncode, p.stdout.decode('utf-8', 'replace'), p.stderr.decode('utf-8', 'replace')
    except subprocess.TimeoutExpired as ex:
        return -9, (ex.stdout or b'').decode('utf-8', 'replace'), 'timeout'

def run_both(stream, cases, harness_exe, tag, shards=None, timeout=900, extra_env=None):
    """Run cases on the implementation and on the extracted model (sharded over cores).
    Returns (impl_obs, model_obs, crashes) where crashes lists (case id, rc, stderr tail)
    for cases on which the harness process died."""
    modelrun = os.path.join(OCAMLDIR, 'modelrun')
    tmpd = os.path.join(CACHE, 'run', tag)
    shutil.rmtree(tmpd, ignore_errors=True); os.makedirs(tmpd)
    n = shards or max(1, min(NPROC, len(cases) // 50 + 1))
    parts = [cases[i::n] for i in range(n)]
    procs = []
    env = dict(ENV)
    if extra_env: env.update(extra_env)
    for i, part in enumerate(parts):
        cf = os.path.join(tmpd, 'cases%d.txt' % i); write_cases(cf, part)
        ho = open(os.path.join(tmpd, 'impl%d.out' % i), 'w'); he = open(os.path.join(tmpd, 'impl%d.err' % i), 'w')
        mo = open(os.path.join(tmpd, 'model%d.out' % i), 'w'); me = open(os.path.join(tmpd, 'model%d.err' % i), 'w')
        ph = subprocess.Popen([harness_exe, stream, cf], env=env, stdout=ho, stderr=he)
        pm = subprocess.Popen([modelrun, stream, cf], env=env, stdout=mo, stderr=me)
        procs.append((i, part, ph, pm, ho, he, mo, me))
    impl = {}; model = {}; crashes = []; stray_all = []
    deadline = time.time() + timeout
    for i, part, ph, pm, ho, he, mo, me in procs:
        for p in (ph, pm):
            try:
                p.wait(timeout=max(1, deadline - time.time()))
            except subprocess.TimeoutExpired:
                p.kill(); p.wait()
        for fh in (ho, he, mo, me): fh.close()
        io, stray = parse_obs(open(os.path.join(tmpd, 'impl%d.out' % i), errors='replace').read())
        mo_, stray2 = parse_obs(open(os.path.join(tmpd, 'model%d.out' % i), errors='replace').read())
        impl.update(io); model.update(mo_); stray_all += stray + stray2
        if ph.returncode != 0:
            # the harness died: the first case without output is the culprit; re-run the rest one by one
            done = set(io.keys())
            rest = [c for c in part if c[0] not in done]
            err = open(os.path.join(tmpd, 'impl%d.err' % i), errors='replace').read()[-2000:]
            if rest:
                crashes.append((rest[0][0], ph.returncode, err))
                for c in rest[1:]:
                    cf1 = os.path.join(tmpd, 'single.txt'); write_cases(cf1, [c])
                    rc1, o1, e1 = run_side(harness_exe, stream, cf1, timeout=120, extra_env=extra_env)
                    io1, _ = parse_obs(o1); impl.update(io1)
                    if rc1 != 0: crashes.append((c[0], rc1, e1[-2000:]))
            else:
                crashes.append(('?', ph.returncode, err))
        if pm.returncode != 0:
            stray_all.append('modelrun exit %s: %s' % (pm.returncode, open(os.path.join(tmpd, 'model%d.err' % i)).read()[-500:]))
    return impl, model, crashes, stray_all

# ----------------------------------------------------------------------------
# evidence / replay
# ----------------------------------------------------------------------------
def write_evidence(prop, tier, seed, coverage, assumptions, wall, violations):
    ev = dict(property_id=prop, tier=tier, seed=int(seed), level='proof', coverage=coverage,
              assumptions=assumptions, wall_s=round(wall, 2), violations=int(violations))
    p = os.path.join(EVIDENCE, prop + '.json')
    tmp = p + '.tmp'
    json.dump(ev, open(tmp, 'w'), indent=1, sort_keys=True)
    os.replace(tmp, p)
    return p

def write_replay(prop, payload):
    txt = json.dumps(payload, indent=1, sort_keys=True)
    h = hashlib.sha256(txt.encode()).hexdigest()[:12]
    p = os.path.join(REPLAYS, '%s-%s.json' % (prop, h))
    open(p, 'w').write(txt)
    return p

def load_known():
    p = os.path.join(ROOT, 'known_findings.json')
    if os.path.exists(p):
        return json.load(open(p))
    return dict(findings=[], fixed=[])

TRUSTED_BASE = [
    'Coq 8.16.1 kernel (coqc, full .vo build; vm_compute used, native_compute not used)',
    'tools/extract.py + tools/rustparse.py: syntactic translator from /repo/src to coq/gen/Extracted.v (tie 1)',
    'correspondence check (tie 2): Rust harness (harness/) vs OCaml extraction of the hand models (ExtrOcamlBasic only, numbers kept as Coq inductives; ocaml/driver.ml parses/prints)',
    'modelled, not verified: rustc layout rules for repr(C)/repr(transparent), core::alloc::Layout arithmetic, Rust move/drop/unwind semantics, the promise-free release/acquire fragment of the C11 model',
]
