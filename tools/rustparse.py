#!/usr/bin/env python3
"""A small Rust lexer / item splitter / expression+type parser.

Purely syntactic; covers the subset of Rust that the triomphe sources use.
Anything it cannot parse raises ParseError, which the translator turns into an
`Untranslatable` marker (never a guess).

AST nodes are tuples whose first component is a tag string.
"""
import re

class ParseError(Exception):
    pass

# ----------------------------------------------------------------------------
# Lexer
# ----------------------------------------------------------------------------
PUNCT3 = ['..=', '...', '<<=', '>>=']
PUNCT2 = ['::', '->', '=>', '==', '!=', '<=', '>=', '&&', '||', '..', '+=', '-=', '*=', '/=', '|=', '&=', '^=', '%=']

class Tok(object):
    __slots__ = ('kind', 'text', 'line')
    def __init__(self, kind, text, line):
        self.kind = kind; self.text = text; self.line = line
    def __repr__(self):
        return '%s:%r' % (self.kind, self.text)

def lex(src):
    """Return a list of Tok. Comments (incl. doc comments) are dropped."""
    toks = []
    i = 0; n = len(src); line = 1
    while i < n:
        c = src[i]
        if c == '\n':
            line += 1; i += 1; continue
        if c.isspace():
            i += 1; continue
        if src.startswith('//', i):
            j = src.find('\n', i)
            if j < 0: j = n
            i = j; continue
        if src.startswith('/*', i):
            depth = 1; j = i + 2
            while j < n and depth > 0:
                if src.startswith('/*', j): depth += 1; j += 2
                elif src.startswith('*/', j): depth -= 1; j += 2
                else:
                    if src[j] == '\n': line += 1
                    j += 1
            i = j; continue
        # raw strings / byte strings
        m = re.match(r'b?r(#*)"', src[i:])
        if m:
            hashes = m.group(1)
            end = src.find('"' + hashes, i + len(m.group(0)))
            if end < 0: raise ParseError('unterminated raw string at line %d' % line)
            text = src[i:end + 1 + len(hashes)]
            line += text.count('\n')
            toks.append(Tok('str', text, line)); i = end + 1 + len(hashes); continue
        if c == '"' or (c == 'b' and i + 1 < n and src[i + 1] == '"'):
            j = i + (2 if c == 'b' else 1)
            while j < n and src[j] != '"':
                if src[j] == '\\': j += 1
                if src[j] == '\n': line += 1
                j += 1
            toks.append(Tok('str', src[i:j + 1], line)); i = j + 1; continue
        if c == "'":
            # lifetime or char literal
            m = re.match(r"'([A-Za-z_][A-Za-z0-9_]*)(?!')", src[i:])
            if m:
                toks.append(Tok('lifetime', m.group(0), line)); i += len(m.group(0)); continue
            m = re.match(r"'(\\.[^']*|[^'\\])'", src[i:])
            if m:
                toks.append(Tok('char', m.group(0), line)); i += len(m.group(0)); continue
            raise ParseError('bad quote at line %d' % line)
        if c.isalpha() or c == '_':
            m = re.match(r'[A-Za-z_][A-Za-z0-9_]*', src[i:])
            toks.append(Tok('ident', m.group(0), line)); i += len(m.group(0)); continue
        if c.isdigit():
            m = re.match(r'0x[0-9a-fA-F_]+[a-z0-9]*|0b[01_]+[a-z0-9]*|0o[0-7_]+[a-z0-9]*|[0-9][0-9_]*(\.[0-9][0-9_]*)?([eE][+-]?[0-9]+)?[a-z0-9]*', src[i:])
            text = m.group(0)
            # do not swallow a method call / range after an integer: `0..n`, `1.max(2)`
            if '.' in text and (src[i + len(text.split('.')[0]):].startswith('..')):
                text = text.split('.')[0]
            toks.append(Tok('num', text, line)); i += len(text); continue
        for p in PUNCT3:
            if src.startswith(p, i):
                toks.append(Tok('punct', p, line)); i += 3; break
        else:
            for p in PUNCT2:
                if src.startswith(p, i):
                    toks.append(Tok('punct', p, line)); i += 2; break
            else:
                toks.append(Tok('punct', c, line)); i += 1
    return toks

def toks_text(toks):
    """Canonical single-line rendering of a token list (used for matching and display)."""
    out = []
    for t in toks:
        out.append(t.text)
    s = ' '.join(out)
    for a, b in [(' :: ', '::'), (' < ', '<'), ('< ', '<'), (' >', '>'), (' ,', ','), ('( ', '('), (' )', ')'),
                 ('[ ', '['), (' ]', ']'), (' . ', '.'), ('& ', '&'), (' ;', ';'), (' (', '('), (' ?', '?'), ('! ', '!'), (' :', ':'), ('* ', '*'), ('# ', '#')]:
        s = s.replace(a, b)
    return s

# ----------------------------------------------------------------------------
# Cursor helper
# ----------------------------------------------------------------------------
class Cur(object):
    def __init__(self, toks, pos=0):
        self.toks = toks; self.pos = pos
    def peek(self, k=0):
        p = self.pos + k
        return self.toks[p] if p < len(self.toks) else None
    def at(self, text, k=0):
        t = self.peek(k)
        return t is not None and t.text == text and t.kind in ('punct', 'ident')
    def at_kind(self, kind, k=0):
        t = self.peek(k)
        return t is not None and t.kind == kind
    def next(self):
        t = self.peek()
        if t is None: raise ParseError('unexpected end of input')
        self.pos += 1
        return t
    def expect(self, text):
        t = self.next()
        if t.text != text:
            raise ParseError('expected %r, got %r at line %d' % (text, t.text, t.line))
        return t
    def eof(self):
        return self.pos >= len(self.toks)

OPEN = {'(': ')', '[': ']', '{': '}'}
CLOSE = set(OPEN.values())

def skip_group(cur):
    """cur at an opening bracket; return the tokens strictly inside and move past the closer."""
    o = cur.next()
    if o.text not in OPEN: raise ParseError('expected a bracket, got %r' % o.text)
    depth = 1; start = cur.pos
    while depth > 0:
        t = cur.next()
        if t.kind == 'punct':
            if t.text in OPEN: depth += 1
            elif t.text in CLOSE: depth -= 1
    return cur.toks[start:cur.pos - 1]

def skip_angle(cur):
    """cur at '<'; skip a generic parameter/argument list, return inner tokens."""
    cur.expect('<')
    depth = 1; start = cur.pos
    while depth > 0:
        t = cur.next()
        if t.kind == 'punct':
            if t.text == '<': depth += 1
            elif t.text == '>': depth -= 1
            elif t.text in OPEN:
                cur.pos -= 1; skip_group(cur)
    return cur.toks[start:cur.pos - 1]

# ----------------------------------------------------------------------------
# Items
# ----------------------------------------------------------------------------
class Item(object):
    def __init__(self, kind, name, attrs, header, body, children=None, vis=''):
        self.kind = kind          # fn struct enum impl mod use const static type trait extern macro
        self.name = name
        self.attrs = attrs        # list of strings (canonical text of each #[...])
        self.header = header      # tokens from the keyword up to (not including) '{' or ';'
        self.body = body          # tokens inside the braces (None if ';')
        self.children = children or []
        self.vis = vis
        self.parent = None
    def header_text(self):
        return toks_text(self.header)
    def cfg_test(self):
        return any(a.replace(' ', '') in ('#[cfg(test)]', '#[test]') for a in self.attrs)
    def cfgs(self):
        return [a for a in self.attrs if a.replace(' ', '').startswith('#[cfg(')]
    def __repr__(self):
        return '<%s %s>' % (self.kind, self.name)

ITEM_KW = ('fn', 'struct', 'enum', 'impl', 'mod', 'use', 'const', 'static', 'type', 'trait', 'extern', 'union', 'macro_rules')

def parse_items(toks):
    cur = Cur(toks)
    items = []
    while not cur.eof():
        items.append(parse_item(cur))
    return items

def parse_item(cur):
    attrs = []
    while cur.at('#'):
        start = cur.pos
        cur.next()
        if cur.at('!'): cur.next()
        skip_group(cur)
        attrs.append(toks_text(cur.toks[start:cur.pos]))
    vis = ''
    if cur.at('pub'):
        cur.next(); vis = 'pub'
        if cur.at('('):
            inner = skip_group(cur); vis = 'pub(' + toks_text(inner) + ')'
    start = cur.pos
    # qualifiers
    quals = []
    while cur.peek() is not None and cur.peek().text in ('unsafe', 'const', 'async', 'default', 'extern') and not (
            cur.peek().text == 'const' and not (cur.peek(1) and cur.peek(1).text in ('fn', 'unsafe', 'extern', 'async'))) and not (
            cur.peek().text == 'extern' and cur.peek(1) and cur.peek(1).text == 'crate'):
        quals.append(cur.next().text)
        if quals[-1] == 'extern' and cur.at_kind('str'): cur.next()
    t = cur.peek()
    if t is None: raise ParseError('item expected at end of input')
    kw = t.text
    if kw not in ITEM_KW:
        raise ParseError('unknown item start %r at line %d' % (kw, t.line))
    name = None
    if kw == 'impl':
        # header up to '{'
        while not cur.at('{'):
            if cur.at('<'): skip_angle(cur)
            elif cur.peek().text in OPEN: skip_group(cur)
            else: cur.next()
        header = cur.toks[start:cur.pos]
        body = skip_group(cur)
        it = Item('impl', toks_text(header), attrs, header, body, vis=vis)
        it.children = parse_items(body)
        for c in it.children: c.parent = it
        return it
    if kw == 'mod':
        cur.next(); name = cur.next().text
        if cur.at(';'):
            cur.next(); return Item('mod', name, attrs, cur.toks[start:cur.pos - 1], None, vis=vis)
        header = cur.toks[start:cur.pos]
        body = skip_group(cur)
        it = Item('mod', name, attrs, header, body, vis=vis)
        if not it.cfg_test():
            it.children = parse_items(body)
            for c in it.children: c.parent = it
        return it
    if kw == 'macro_rules':
        cur.next(); cur.expect('!'); name = cur.next().text
        body = skip_group(cur)
        if cur.at(';'): cur.next()
        return Item('macro', name, attrs, cur.toks[start:start + 3], body, vis=vis)
    # generic: scan to '{' or ';' at depth 0
    cur.next()
    if kw in ('fn', 'struct', 'enum', 'trait', 'type', 'const', 'static', 'union') and cur.at_kind('ident'):
        name = cur.peek().text
    while True:
        t = cur.peek()
        if t is None: raise ParseError('unterminated item %s' % kw)
        if t.kind == 'punct' and t.text == ';':
            header = cur.toks[start:cur.pos]; cur.next()
            return Item(kw, name, attrs, header, None, vis=vis)
        if t.kind == 'punct' and t.text == '{':
            if kw in ('const', 'static', 'type', 'use'):
                skip_group(cur); continue   # block expression in an initialiser / use group
            header = cur.toks[start:cur.pos]
            body = skip_group(cur)
            it = Item(kw, name, attrs, header, body, vis=vis)
            if kw == 'trait':
                try:
                    it.children = parse_items(body)
                except ParseError:
                    it.children = []
            return it
        if t.kind == 'punct' and t.text == '<' and kw in ('fn', 'struct', 'enum', 'trait', 'type', 'union'):
            skip_angle(cur); continue
        if t.kind == 'punct' and t.text in ('(', '['):
            skip_group(cur); continue
        cur.next()

def walk_items(items, skip_tests=True):
    for it in items:
        if skip_tests and it.cfg_test():
            continue
        yield it
        for c in walk_items(it.children, skip_tests):
            yield c

# ----------------------------------------------------------------------------
# Types
# ----------------------------------------------------------------------------
def parse_type(cur):
    t = cur.peek()
    if t is None: raise ParseError('type expected')
    if cur.at('&'):
        cur.next(); lt = None; mut = False
        if cur.at_kind('lifetime'): lt = cur.next().text
        if cur.at('mut'): cur.next(); mut = True
        return ('tref', lt, mut, parse_type(cur))
    if cur.at('&&'):
        cur.next(); lt = None; mut = False
        if cur.at_kind('lifetime'): lt = cur.next().text
        if cur.at('mut'): cur.next(); mut = True
        return ('tref', None, False, ('tref', lt, mut, parse_type(cur)))
    if cur.at('*'):
        cur.next(); q = cur.next().text
        if q not in ('const', 'mut'): raise ParseError('bad raw pointer type')
        return ('tptr', q == 'mut', parse_type(cur))
    if cur.at('('):
        inner = skip_group(cur); c2 = Cur(inner); elems = []
        while not c2.eof():
            elems.append(parse_type(c2))
            if c2.at(','): c2.next()
        if len(elems) == 1 and not (inner and inner[-1].text == ','):
            return elems[0]
        return ('ttuple', elems)
    if cur.at('['):
        inner = skip_group(cur); c2 = Cur(inner); el = parse_type(c2)
        if c2.at(';'):
            c2.next(); n = toks_text(c2.toks[c2.pos:])
            return ('tarray', el, n)
        return ('tslice', el)
    if cur.at('!'):
        cur.next(); return ('tnever',)
    if cur.at('_'):
        cur.next(); return ('tinfer',)
    if cur.at('dyn') or cur.at('impl'):
        kw = cur.next().text
        bounds = parse_bounds(cur)
        return ('t' + kw, bounds)
    if cur.at('for'):
        cur.next(); skip_angle(cur)
        return parse_type(cur)
    if cur.at('fn') or cur.at('unsafe') or cur.at('extern'):
        while not cur.at('fn'): cur.next()
        cur.next(); args = skip_group(cur); ret = None
        if cur.at('->'): cur.next(); ret = parse_type(cur)
        return ('tfn', toks_text(args), ret)
    if cur.at('<'):
        # qualified path <T as Trait>::Name
        inner = skip_angle(cur)
        segs = ['<' + toks_text(inner) + '>']
        while cur.at('::'):
            cur.next(); segs.append(cur.next().text)
        return ('tpath', segs, [])
    if cur.at('::'): cur.next()
    if not cur.at_kind('ident'):
        raise ParseError('type expected, got %r at line %d' % (t.text, t.line))
    segs = [cur.next().text]; args = []
    while True:
        if cur.at('::') and cur.at('<', 1):
            cur.next()
        if cur.at('<'):
            args = parse_generic_args(cur)
        if cur.at('(') and segs[-1] in ('FnOnce', 'Fn', 'FnMut'):
            inner = skip_group(cur); c2 = Cur(inner); ps = []
            while not c2.eof():
                ps.append(parse_type(c2))
                if c2.at(','): c2.next()
            ret = None
            if cur.at('->'): cur.next(); ret = parse_type(cur)
            return ('tfntrait', segs[-1], ps, ret)
        if cur.at('::') and cur.at_kind('ident', 1):
            cur.next(); segs.append(cur.next().text); args = []
            continue
        break
    return ('tpath', segs, args)

def parse_generic_args(cur):
    inner = skip_angle(cur); c2 = Cur(inner); args = []
    while not c2.eof():
        if c2.at_kind('lifetime'):
            args.append(('tlifetime', c2.next().text))
        elif c2.at_kind('ident') and c2.at('=', 1):
            nm = c2.next().text; c2.next(); args.append(('tassoc', nm, parse_type(c2)))
        elif c2.at_kind('num') or c2.at('{'):
            if c2.at('{'): args.append(('tconst', toks_text(skip_group(c2))))
            else: args.append(('tconst', c2.next().text))
        else:
            args.append(parse_type(c2))
        if c2.at(','): c2.next()
    return args

def parse_bounds(cur):
    """Parse `A + B + 'a + ?Sized` up to a token that cannot continue a bound list."""
    bounds = []
    while True:
        if cur.at_kind('lifetime'):
            bounds.append(('blifetime', cur.next().text))
        elif cur.at('?'):
            cur.next(); bounds.append(('bmaybe', type_text(parse_type(cur))))
        elif cur.at('('):
            inner = skip_group(cur); bounds.extend(parse_bounds(Cur(inner)))
        elif cur.at_kind('ident') or cur.at('::') or cur.at('for'):
            bounds.append(('btrait', parse_type(cur)))
        else:
            break
        if cur.at('+'): cur.next()
        else: break
    return bounds

def type_text(t):
    k = t[0]
    if k == 'tref':
        return '&' + ((t[1] + ' ') if t[1] else '') + ('mut ' if t[2] else '') + type_text(t[3])
    if k == 'tptr':
        return '*' + ('mut ' if t[1] else 'const ') + type_text(t[2])
    if k == 'ttuple':
        return '(' + ', '.join(type_text(x) for x in t[1]) + ')'
    if k == 'tarray':
        return '[' + type_text(t[1]) + '; ' + t[2] + ']'
    if k == 'tslice':
        return '[' + type_text(t[1]) + ']'
    if k == 'tnever': return '!'
    if k == 'tinfer': return '_'
    if k in ('tdyn', 'timpl'):
        return k[1:] + ' ' + bounds_text(t[1])
    if k == 'tfn':
        return 'fn(' + t[1] + ')' + ((' -> ' + type_text(t[2])) if t[2] else '')
    if k == 'tfntrait':
        return t[1] + '(' + ', '.join(type_text(x) for x in t[2]) + ')' + ((' -> ' + type_text(t[3])) if t[3] else '')
    if k == 'tpath':
        s = '::'.join(t[1])
        if t[2]:
            s += '<' + ', '.join(type_text(x) for x in t[2]) + '>'
        return s
    if k == 'tlifetime': return t[1]
    if k == 'tassoc': return t[1] + ' = ' + type_text(t[2])
    if k == 'tconst': return t[1]
    raise ParseError('type_text: %r' % (t,))

def bounds_text(bs):
    out = []
    for b in bs:
        if b[0] == 'blifetime': out.append(b[1])
        elif b[0] == 'bmaybe': out.append('?' + b[1])
        else: out.append(type_text(b[1]))
    return ' + '.join(out)

def parse_generic_params(toks):
    """Tokens inside `<...>` of an item header -> list of (kind, name, bounds) with kind in lifetime/type/const."""
    cur = Cur(toks); out = []
    while not cur.eof():
        while cur.at('#'):
            cur.next(); skip_group(cur)
        if cur.at_kind('lifetime'):
            nm = cur.next().text; bs = []
            if cur.at(':'):
                cur.next(); bs = parse_bounds(cur)
            out.append(('lifetime', nm, bs))
        elif cur.at('const'):
            cur.next(); nm = cur.next().text; cur.expect(':'); ty = parse_type(cur)
            out.append(('const', nm, [('btrait', ty)]))
        else:
            nm = cur.next().text; bs = []
            if cur.at(':'):
                cur.next(); bs = parse_bounds(cur)
            if cur.at('='):
                cur.next(); parse_type(cur)
            out.append(('type', nm, bs))
        if cur.at(','): cur.next()
    return out

def parse_where(toks):
    """Tokens after `where` -> list of (type_text or lifetime, bounds)."""
    cur = Cur(toks); out = []
    while not cur.eof():
        if cur.at_kind('lifetime'):
            nm = cur.next().text; cur.expect(':'); out.append((nm, parse_bounds(cur)))
        else:
            if cur.at('for'):
                cur.next(); skip_angle(cur)
            ty = parse_type(cur); cur.expect(':'); out.append((type_text(ty), parse_bounds(cur)))
        if cur.at(','): cur.next()
    return out

def parse_fn_sig(header):
    """header tokens of a fn item -> dict(name, generics, params, ret, where, quals)."""
    cur = Cur(header)
    quals = []
    while not cur.at('fn'):
        quals.append(cur.next().text)
    cur.next(); name = cur.next().text
    generics = []
    if cur.at('<'):
        generics = parse_generic_params(skip_angle(cur))
    ptoks = skip_group(cur)
    params = []
    c2 = Cur(ptoks)
    while not c2.eof():
        while c2.at('#'):
            c2.next(); skip_group(c2)
        # self forms
        save = c2.pos
        if c2.at('&') or c2.at('self') or c2.at('mut'):
            lt = None; mut = False; ref = False
            if c2.at('&'):
                c2.next(); ref = True
                if c2.at_kind('lifetime'): lt = c2.next().text
            if c2.at('mut'): c2.next(); mut = True
            if c2.at('self'):
                c2.next()
                if c2.at(':'):
                    c2.next(); ty = parse_type(c2); params.append(('self', ty))
                elif ref:
                    params.append(('self', ('tref', lt, mut, ('tpath', ['Self'], []))))
                else:
                    params.append(('self', ('tpath', ['Self'], [])))
                if c2.at(','): c2.next()
                continue
            c2.pos = save
        # pattern : type
        depth = 0; pstart = c2.pos
        while not (c2.at(':') and depth == 0):
            t = c2.next()
            if t.text in OPEN: depth += 1
            elif t.text in CLOSE: depth -= 1
        pat = toks_text(c2.toks[pstart:c2.pos])
        c2.expect(':')
        ty = parse_type(c2)
        params.append((pat, ty))
        if c2.at(','): c2.next()
    ret = None
    if cur.at('->'):
        cur.next(); ret = parse_type(cur)
    where = []
    if cur.at('where'):
        cur.next(); where = parse_where(cur.toks[cur.pos:])
    return dict(name=name, generics=generics, params=params, ret=ret, where=where, quals=quals)

def parse_impl_header(header):
    """`[unsafe] impl<G> [Trait for] Type [where ..]` -> dict(unsafe, generics, trait, self_ty, where)."""
    cur = Cur(header); unsafe = False
    if cur.at('unsafe'): cur.next(); unsafe = True
    cur.expect('impl')
    generics = []
    if cur.at('<'):
        generics = parse_generic_params(skip_angle(cur))
    neg = False
    if cur.at('!'): cur.next(); neg = True
    first = parse_type(cur)
    trait = None; self_ty = first
    if cur.at('for'):
        cur.next(); trait = first; self_ty = parse_type(cur)
    where = []
    if cur.at('where'):
        cur.next(); where = parse_where(cur.toks[cur.pos:])
    return dict(unsafe=unsafe, generics=generics, trait=trait, self_ty=self_ty, where=where, neg=neg)

# ----------------------------------------------------------------------------
# Expressions
# ----------------------------------------------------------------------------
BINOPS = [
    ('||',), ('&&',), ('==', '!=', '<', '>', '<=', '>='), ('|',), ('^',), ('&',), ('<<', '>>'), ('+', '-'), ('*', '/', '%'),
]
PREC = {}
for lvl, ops in enumerate(BINOPS):
    for op in ops: PREC[op] = lvl + 2   # 0 = assignment, 1 = range

def parse_block_tokens(toks):
    """Tokens of a `{ ... }` body -> ('block', stmts, tail_expr_or_None)."""
    cur = Cur(toks); stmts = []; tail = None
    while not cur.eof():
        if cur.at(';'):
            cur.next(); continue
        # nested items inside fn bodies
        t = cur.peek()
        if t.kind == 'ident' and t.text in ('struct', 'impl', 'fn', 'use', 'enum', 'const', 'static', 'type', 'trait') or cur.at('#'):
            if not (t.text == 'const' and cur.peek(1) and cur.peek(1).text == '{') and not (t.text == 'unsafe'):
                save = cur.pos
                try:
                    it = parse_item(cur)
                    stmts.append(('item', it)); continue
                except ParseError:
                    cur.pos = save
        if cur.at('let'):
            cur.next()
            pstart = cur.pos; depth = 0
            while not ((cur.at('=') or cur.at(':') or cur.at(';')) and depth == 0):
                x = cur.next()
                if x.text in OPEN: depth += 1
                elif x.text in CLOSE: depth -= 1
            pat = toks_text(cur.toks[pstart:cur.pos]); ty = None; init = None
            if cur.at(':'):
                cur.next(); ty = parse_type(cur)
            if cur.at('='):
                cur.next(); init = parse_expr(cur)
            els = None
            if cur.at('else'):
                cur.next(); els = parse_block_tokens(skip_group(cur))
            cur.expect(';')
            stmts.append(('let', pat, ty, init))
            continue
        e = parse_expr(cur, stmt=True)
        if cur.at(';'):
            cur.next(); stmts.append(('expr', e))
        elif cur.eof():
            tail = e
        else:
            # block-like expression statement without semicolon
            if e[0] in ('if', 'match', 'block', 'for', 'while', 'loop', 'unsafe'):
                stmts.append(('expr', e))
            else:
                t = cur.peek()
                raise ParseError('expected ; after expression at line %d (got %r)' % (t.line, t.text))
    return ('block', stmts, tail)

def parse_expr(cur, minprec=0, stmt=False, nostruct=False):
    lhs = parse_unary(cur, nostruct)
    if stmt and lhs[0] in ('if', 'match', 'block', 'for', 'while', 'loop', 'unsafe') and not (cur.at('.') or cur.at('?')):
        return lhs
    while True:
        t = cur.peek()
        if t is None or t.kind != 'punct' and not (t.kind == 'ident' and t.text == 'as'):
            break
        op = t.text
        if op == 'as':
            cur.next(); ty = parse_type(cur); lhs = ('cast', lhs, ty); continue
        # `>` `>` and `<` `<` as shifts are not used in this code base
        if op in ('=', '+=', '-=', '*=', '/=', '|=', '&=', '^=', '%=') :
            if minprec > 0: break
            cur.next(); rhs = parse_expr(cur, 0, nostruct=nostruct); lhs = ('assign', op, lhs, rhs); continue
        if op in ('..', '..='):
            if minprec > 1: break
            cur.next()
            rhs = None
            t2 = cur.peek()
            if t2 is not None and not (t2.kind == 'punct' and t2.text in (')', ']', '}', ',', ';', '=>')) and not (nostruct and t2.text == '{'):
                rhs = parse_expr(cur, 2, nostruct=nostruct)
            lhs = ('range', op, lhs, rhs); continue
        if op in PREC:
            p = PREC[op]
            if p < minprec: break
            cur.next(); rhs = parse_expr(cur, p + 1, nostruct=nostruct); lhs = ('binary', op, lhs, rhs); continue
        break
    return lhs

def parse_unary(cur, nostruct=False):
    t = cur.peek()
    if t is None: raise ParseError('expression expected')
    if t.kind == 'punct' and t.text in ('*', '!', '-'):
        cur.next(); return ('unary', t.text, parse_unary(cur, nostruct))
    if t.kind == 'punct' and t.text in ('&', '&&'):
        cur.next(); mut = False
        if cur.at('mut'): cur.next(); mut = True
        elif cur.at('raw'):
            cur.next(); q = cur.next().text; mut = (q == 'mut')
        e = ('ref', mut, parse_unary(cur, nostruct))
        if t.text == '&&': e = ('ref', False, e)
        return e
    e = parse_primary(cur, nostruct)
    return parse_postfix(cur, e)

def parse_postfix(cur, e):
    while True:
        if cur.at('?'):
            cur.next(); e = ('try', e); continue
        if cur.at('.'):
            cur.next(); t = cur.next()
            if t.kind == 'num':
                # tuple index; `0.1` may have been lexed as a float
                for part in t.text.split('.'):
                    e = ('field', e, part)
                continue
            if t.text == 'await':
                e = ('await', e); continue
            name = t.text; gen = []
            if cur.at('::'):
                cur.next(); gen = parse_generic_args(cur)
            if cur.at('('):
                args = parse_args(skip_group(cur))
                e = ('mcall', e, name, gen, args)
            else:
                e = ('field', e, name)
            continue
        if cur.at('('):
            args = parse_args(skip_group(cur)); e = ('call', e, args); continue
        if cur.at('['):
            inner = skip_group(cur); e = ('index', e, parse_expr(Cur(inner))); continue
        break
    return e

def parse_args(toks):
    cur = Cur(toks); args = []
    while not cur.eof():
        args.append(parse_expr(cur))
        if cur.at(','): cur.next()
        elif not cur.eof():
            t = cur.peek(); raise ParseError('expected , in argument list at line %d (got %r)' % (t.line, t.text))
    return args

def parse_primary(cur, nostruct=False):
    t = cur.peek()
    if t.kind in ('num', 'str', 'char'):
        cur.next(); return ('lit', t.text)
    if t.kind == 'lifetime':
        # labelled block/loop
        cur.next(); cur.expect(':'); return parse_primary(cur, nostruct)
    if t.kind == 'punct':
        if t.text == '(':
            inner = skip_group(cur); c2 = Cur(inner); elems = []
            trailing = False
            while not c2.eof():
                elems.append(parse_expr(c2)); trailing = False
                if c2.at(','): c2.next(); trailing = True
            if len(elems) == 1 and not trailing: return ('paren', elems[0])
            return ('tuple', elems)
        if t.text == '[':
            inner = skip_group(cur); c2 = Cur(inner); elems = []
            while not c2.eof():
                elems.append(parse_expr(c2))
                if c2.at(';'):
                    c2.next(); n = parse_expr(c2); return ('arrayrep', elems[0], n)
                if c2.at(','): c2.next()
            return ('array', elems)
        if t.text == '{':
            return parse_block_tokens(skip_group(cur))
        if t.text in ('|', '||'):
            return parse_closure(cur)
        if t.text == '<':
            inner = skip_angle(cur); segs = ['<' + toks_text(inner) + '>']; gens = [[]]
            while cur.at('::'):
                cur.next()
                if cur.at('<'):
                    gens[-1] = parse_generic_args(cur)
                else:
                    segs.append(cur.next().text); gens.append([])
            return ('path', segs, gens)
        if t.text == '::':
            cur.next(); return parse_primary(cur, nostruct)
        if t.text == '..':
            cur.next()
            t2 = cur.peek()
            if t2 is None or (t2.kind == 'punct' and t2.text in (')', ']', '}', ',', ';')):
                return ('range', '..', None, None)
            return ('range', '..', None, parse_expr(cur, 2))
        raise ParseError('unexpected %r at line %d' % (t.text, t.line))
    # identifiers / keywords
    kw = t.text
    if kw == 'unsafe':
        cur.next(); b = parse_block_tokens(skip_group(cur)); return ('unsafe', b)
    if kw == 'move':
        cur.next(); return parse_closure(cur)
    if kw == 'if':
        cur.next()
        if cur.at('let'):
            cur.next(); pstart = cur.pos
            while not cur.at('='): cur.next()
            pat = toks_text(cur.toks[pstart:cur.pos]); cur.next()
            cond = ('iflet', pat, parse_expr(cur, nostruct=True))
        else:
            cond = parse_expr(cur, nostruct=True)
        then = parse_block_tokens(skip_group(cur)); els = None
        if cur.at('else'):
            cur.next()
            if cur.at('if'): els = parse_primary(cur)
            else: els = parse_block_tokens(skip_group(cur))
        return ('if', cond, then, els)
    if kw == 'match':
        cur.next(); scrut = parse_expr(cur, nostruct=True)
        inner = skip_group(cur); c2 = Cur(inner); arms = []
        while not c2.eof():
            pstart = c2.pos; depth = 0
            while not (c2.at('=>') and depth == 0):
                x = c2.next()
                if x.text in OPEN: depth += 1
                elif x.text in CLOSE: depth -= 1
            ptoks = c2.toks[pstart:c2.pos]; c2.next()
            guard = None
            # split off `if guard`
            for gi, gt in enumerate(ptoks):
                if gt.kind == 'ident' and gt.text == 'if':
                    guard = parse_expr(Cur(ptoks[gi + 1:])); ptoks = ptoks[:gi]; break
            body = parse_expr(c2, stmt=True)
            arms.append((toks_text(ptoks), guard, body))
            if c2.at(','): c2.next()
        return ('match', scrut, arms)
    if kw == 'for':
        cur.next(); pstart = cur.pos
        while not cur.at('in'): cur.next()
        pat = toks_text(cur.toks[pstart:cur.pos]); cur.next()
        it = parse_expr(cur, nostruct=True); body = parse_block_tokens(skip_group(cur))
        return ('for', pat, it, body)
    if kw == 'while':
        cur.next(); cond = parse_expr(cur, nostruct=True); body = parse_block_tokens(skip_group(cur))
        return ('while', cond, body)
    if kw == 'loop':
        cur.next(); body = parse_block_tokens(skip_group(cur)); return ('loop', body)
    if kw in ('return', 'break'):
        cur.next(); t2 = cur.peek()
        if t2 is None or (t2.kind == 'punct' and t2.text in (';', '}', ',', ')')):
            return (kw, None)
        return (kw, parse_expr(cur))
    if kw == 'continue':
        cur.next(); return ('continue',)
    # path expression
    segs = []; gens = []
    while True:
        segs.append(cur.next().text); gens.append([])
        if cur.at('::'):
            cur.next()
            if cur.at('<'):
                gens[-1] = parse_generic_args(cur)
                if cur.at('::'):
                    cur.next(); continue
                break
            continue
        break
    # macro invocation
    if cur.at('!') and cur.peek(1) is not None and cur.peek(1).text in OPEN:
        cur.next(); inner = skip_group(cur)
        try:
            args = parse_args(inner)
        except ParseError:
            args = None
        return ('macro', '::'.join(segs), args, toks_text(inner))
    # struct literal
    if cur.at('{') and not nostruct and (segs[-1][:1].isupper()):
        inner = skip_group(cur); c2 = Cur(inner); fields = []
        while not c2.eof():
            if c2.at('..'):
                c2.next(); fields.append(('..', parse_expr(c2)))
            else:
                nm = c2.next().text
                if c2.at(':'):
                    c2.next(); fields.append((nm, parse_expr(c2)))
                else:
                    fields.append((nm, ('path', [nm], [[]])))
            if c2.at(','): c2.next()
        return ('struct', segs, gens, fields)
    return ('path', segs, gens)

def parse_closure(cur):
    params = []
    if cur.at('||'):
        cur.next()
    else:
        cur.expect('|')
        pstart = cur.pos; depth = 0
        while not (cur.at('|') and depth == 0):
            x = cur.next()
            if x.text in OPEN or x.text == '<': depth += 1
            elif x.text in CLOSE or x.text == '>': depth -= 1
        ptoks = cur.toks[pstart:cur.pos]; cur.next()
        # split by commas at depth 0
        cur2 = []; depth = 0
        for x in ptoks:
            if x.text in OPEN or x.text == '<': depth += 1
            elif x.text in CLOSE or x.text == '>': depth -= 1
            if x.text == ',' and depth == 0:
                params.append(toks_text(cur2)); cur2 = []
            else:
                cur2.append(x)
        if cur2: params.append(toks_text(cur2))
    if cur.at('->'):
        cur.next(); parse_type(cur)
    body = parse_expr(cur)
    return ('closure', params, body)

# ----------------------------------------------------------------------------
# Utilities over the AST
# ----------------------------------------------------------------------------
def strip(e):
    """Remove parentheses, `unsafe {}` and single-tail blocks."""
    while True:
        if e is None: return e
        if e[0] == 'paren': e = e[1]; continue
        if e[0] == 'unsafe': e = e[1]; continue
        if e[0] == 'block' and not e[1] and e[2] is not None: e = e[2]; continue
        return e

def path_text(e):
    if e[0] != 'path': return None
    return '::'.join(e[1])

def walk_expr(e, f):
    """Call f on every sub-expression (pre-order)."""
    if e is None or not isinstance(e, tuple): return
    f(e)
    for x in e[1:]:
        if isinstance(x, tuple):
            if x and isinstance(x[0], str): walk_expr(x, f)
            else:
                for y in x:
                    if isinstance(y, tuple): walk_expr(y, f)
        elif isinstance(x, list):
            for y in x:
                if isinstance(y, tuple):
                    if y and isinstance(y[0], str) and y[0] in ('let', 'expr', 'item'):
                        for z in y[1:]:
                            if isinstance(z, tuple): walk_expr(z, f)
                    elif y and isinstance(y[0], str) and len(y) > 0 and y[0] not in ('..',) and not isinstance(y[-1], tuple):
                        walk_expr(y, f)
                    else:
                        # (name, expr) field or (pat, guard, body) arm or a plain expr
                        if y and isinstance(y[0], str) and isinstance(y[-1], tuple) and y[0] in TAGS:
                            walk_expr(y, f)
                        else:
                            for z in y:
                                if isinstance(z, tuple): walk_expr(z, f)

TAGS = set(['path', 'call', 'mcall', 'field', 'try', 'unary', 'binary', 'cast', 'closure', 'block', 'macro', 'match', 'if',
            'struct', 'tuple', 'lit', 'ref', 'index', 'return', 'break', 'continue', 'for', 'while', 'loop', 'range', 'paren', 'unsafe',
            'assign', 'array', 'arrayrep', 'iflet', 'await'])

def load_file(path):
    src = open(path).read()
    toks = lex(src)
    return parse_items(toks)

if __name__ == '__main__':
    import sys
    for p in sys.argv[1:]:
        items = load_file(p)
        for it in walk_items(items):
            print(p, it.kind, it.name if it.kind != 'impl' else it.header_text())
            if it.kind == 'fn' and it.body is not None:
                try:
                    parse_fn_sig(it.header)
                    parse_block_tokens(it.body)
                except ParseError as ex:
                    print('   PARSE ERROR', ex)
