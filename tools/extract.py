#!/usr/bin/env python3
"""Translator (tie 1): /repo/src/*.rs  ->  coq/gen/Extracted.v

Regenerates, on every run, the Gallina terms that the property theorems in
coq/props/ are instantiated with.  Everything here is syntactic; a construct
outside the grammar becomes an `..Unknown` constructor (the evaluators in the
Coq development get stuck on it, so the theorem that needs it cannot be
proved) -- never a guess.

usage: extract.py [--src DIR] [--out FILE] [--json FILE]
"""
import sys, os, json, hashlib, argparse
sys.path.insert(0, os.path.dirname(os.path.abspath(__file__)))
from rustparse import *

FILES = ['arc.rs', 'arc_borrow.rs', 'arc_swap_support.rs', 'arc_union.rs', 'header.rs',
         'iterator_as_exact_size_iterator.rs', 'lib.rs', 'offset_arc.rs', 'thin_arc.rs', 'unique_arc.rs']

# ----------------------------------------------------------------------------
# loading
# ----------------------------------------------------------------------------
class Source(object):
    def __init__(self, srcdir):
        self.srcdir = srcdir
        self.items = {}      # file -> [Item]
        self.errors = []
        for f in sorted(os.listdir(srcdir)):
            if not f.endswith('.rs') or f == 'verif_atomic.rs':
                continue
            try:
                self.items[f] = load_file(os.path.join(srcdir, f))
            except ParseError as ex:
                self.errors.append('%s: %s' % (f, ex))
                self.items[f] = []
        self.fns = []        # (file, impl Item or None, fn Item)
        for f, items in self.items.items():
            for it in walk_items(items):
                if it.kind == 'fn' and it.body is not None:
                    imp = it.parent if (it.parent is not None and it.parent.kind == 'impl') else None
                    self.fns.append((f, imp, it))

    def impl_info(self, imp):
        if imp is None: return None
        try:
            return parse_impl_header(imp.header)
        except ParseError:
            return None

    def qual_name(self, imp, fn):
        """`Arc::clone`, `ThinArc::with_arc`, `<ArcUnion as Drop>::drop` -> 'ArcUnion::drop' (type head + fn)."""
        if imp is None: return fn.name
        info = self.impl_info(imp)
        if info is None: return '?::' + fn.name
        st = info['self_ty']
        head = st[1][-1] if st[0] == 'tpath' else type_text(st)
        return head + '::' + fn.name

    def find_fns(self, file, qname, impl_pred=None):
        out = []
        for f, imp, fn in self.fns:
            if file is not None and f != file: continue
            if self.qual_name(imp, fn) != qname: continue
            if impl_pred is not None and not impl_pred(imp): continue
            out.append((f, imp, fn))
        return out

    def find_fn(self, file, qname, impl_pred=None):
        r = self.find_fns(file, qname, impl_pred)
        if len(r) != 1:
            return None
        return r[0]

def fn_body(fn):
    return parse_block_tokens(fn.body)

def private_helpers(src, file, imp, not_called_in=None):
    """private functions of `file` that a body may call by path: free functions (`h(..)`) and associated functions
    without a receiver of the inherent impls of the same type (`Self::h(..)`, `Type::h(..)`).  With `not_called_in`
    (a token text), functions named there are left out: the reference body calls them too."""
    out = {}
    head = None
    if imp is not None:
        info = src.impl_info(imp)
        if info and info['self_ty'][0] == 'tpath': head = info['self_ty'][1][-1]
    for f, i2, fn in src.fns:
        if f != file or fn.cfgs() or fn.cfg_test(): continue
        # private functions always; any function of the file when the reference body is known not to call it
        if not_called_in is None and fn.vis.strip() != '': continue
        if not_called_in is not None and re.search(r'\b%s\b' % re.escape(fn.name), not_called_in): continue
        try:
            sig = parse_fn_sig(fn.header); body = fn_body(fn)
        except (ParseError, IndexError, TypeError):
            continue
        has_self = any(pn == 'self' for pn, ty in sig['params'])
        if has_self:
            sig = dict(sig); sig['params'] = [(pn, ty) for pn, ty in sig['params'] if pn != 'self']
        if not all(re.match(r'^(mut )?[a-z_][A-Za-z0-9_]*$', pn.strip()) for pn, ty in sig['params']): continue
        self_txt = None
        if i2 is not None:
            inf2 = src.impl_info(i2)
            if not inf2 or inf2['trait'] is not None or inf2['self_ty'][0] != 'tpath': continue
            self_txt = type_text(inf2['self_ty']).replace(' ', '')
        def ty_txt(ty):
            t = type_text(ty)
            if self_txt: t = re.sub(r'\bSelf\b', self_txt, t)
            return t.replace(' ', '')
        ent = dict(params=[(pn.strip()[4:].strip() if pn.strip().startswith('mut ') else pn.strip(), ty_txt(ty)) for pn, ty in sig['params']], body=body)
        if i2 is None:
            if (fn.parent is None or fn.parent.kind != 'impl') and not has_self: out[(fn.name,)] = ent
        elif head is not None and inf2['self_ty'][1][-1] == head:
            if has_self: out[('.self', fn.name)] = ent
            else: out[('Self', fn.name)] = ent; out[(head, fn.name)] = ent
    return out

def caller_param_types(src, imp, fn):
    """declared types of the caller's parameters, `Self` spelled out"""
    try: sig = parse_fn_sig(fn.header)
    except ParseError: return {}
    self_txt = None
    info = src.impl_info(imp) if imp is not None else None
    if info: self_txt = type_text(info['self_ty']).replace(' ', '')
    out = {}
    for pn, ty in sig['params']:
        t = type_text(ty)
        if self_txt: t = re.sub(r'\bSelf\b', self_txt, t)
        t = t.replace(' ', '')
        pn = pn.strip()
        if pn.startswith('mut '): pn = pn[4:].strip()
        out[pn] = t
    return out

# ----------------------------------------------------------------------------
# let-inlining
# ----------------------------------------------------------------------------
def collect_lets(block, env=None):
    """Walk a block (descending into unsafe/inner blocks) and collect `let` bindings of simple patterns."""
    if env is None: env = {}
    def visit_block(b):
        for st in b[1]:
            if st[0] == 'let':
                pat = st[1].strip(); init = st[3]
                if pat.startswith('mut '): pat = pat[4:].strip()
                if init is None: continue
                if pat.startswith('(') and pat.endswith(')'):
                    parts = [p.strip() for p in pat[1:-1].split(',')]
                    for i, p in enumerate(parts):
                        if p.startswith('mut '): p = p[4:].strip()
                        if p and p != '_' and p.isidentifier():
                            env[p] = ('field', init, str(i))
                elif pat.isidentifier():
                    env[pat] = init
                visit_expr(init)
            elif st[0] == 'expr':
                visit_expr(st[1])
        if b[2] is not None: visit_expr(b[2])
    def visit_expr(e):
        e2 = e
        if e2 is None: return
        if e2[0] == 'unsafe': visit_block(e2[1])
        elif e2[0] == 'block': visit_block(e2)
    visit_block(block)
    return env

def resolve(e, env, depth=0):
    """Substitute let-bound identifiers (shallowly recursive, bounded)."""
    if e is None or depth > 12: return e
    e = strip(e)
    k = e[0]
    if k == 'path' and len(e[1]) == 1 and e[1][0] in env:
        return resolve(env[e[1][0]], {x: y for x, y in env.items() if x != e[1][0]}, depth + 1)
    if k == 'mcall':
        return ('mcall', resolve(e[1], env, depth + 1), e[2], e[3], [resolve(a, env, depth + 1) for a in e[4]])
    if k == 'call':
        return ('call', e[1], [resolve(a, env, depth + 1) for a in e[2]])
    if k == 'field':
        return ('field', resolve(e[1], env, depth + 1), e[2])
    if k == 'try':
        return ('try', resolve(e[1], env, depth + 1))
    if k in ('ref',):
        return ('ref', e[1], resolve(e[2], env, depth + 1))
    if k == 'unary':
        return ('unary', e[1], resolve(e[2], env, depth + 1))
    if k == 'cast':
        return ('cast', resolve(e[1], env, depth + 1), e[2])
    if k == 'binary':
        return ('binary', e[1], resolve(e[2], env, depth + 1), resolve(e[3], env, depth + 1))
    return e

# ----------------------------------------------------------------------------
# Coq emission helpers
# ----------------------------------------------------------------------------
def coq_str(s):
    return '"' + s.replace('"', '""') + '"%string'

def coq_list(xs, sep='; '):
    return '[' + sep.join(xs) + ']'

# ----------------------------------------------------------------------------
# types -> tyexpr
# ----------------------------------------------------------------------------
TYVARS = {'T': 0, 'H': 1, 'A': 0}

def ty_to_tyexpr(t):
    k = t[0]
    if k == 'ttuple' and not t[1]:
        return 'TyUnit'
    if k == 'tslice':
        return '(TySlice %s)' % ty_to_tyexpr(t[1])
    if k == 'tpath':
        name = t[1][-1]; args = [a for a in t[2] if a[0] not in ('tlifetime',)]
        if name in ('usize', 'AtomicUsize') and not args: return 'TyUsize'
        if name == 'u8' and not args: return 'TyU8'
        if name == 'ArcInner' and len(args) == 1: return '(TyArcInner %s)' % ty_to_tyexpr(args[0])
        if name == 'MaybeUninit' and len(args) == 1: return '(TyMaybeUninit %s)' % ty_to_tyexpr(args[0])
        if name == 'ManuallyDrop' and len(args) == 1: return '(TyManuallyDrop %s)' % ty_to_tyexpr(args[0])
        if name == 'HeaderSlice' and len(args) == 2: return '(TyHeaderSlice %s %s)' % (ty_to_tyexpr(args[0]), ty_to_tyexpr(args[1]))
        if name == 'HeaderWithLength' and len(args) == 1: return '(TyHeaderWithLength %s)' % ty_to_tyexpr(args[0])
        if len(t[1]) == 1 and not args and name in TYVARS: return '(TyVar %d)' % TYVARS[name]
    return 'TyUnknown'

# ----------------------------------------------------------------------------
# Layout chains
# ----------------------------------------------------------------------------
def is_path(e, *names):
    return e[0] == 'path' and '::'.join(e[1]) in names

def path_generics(e):
    """generic args of the last-but-one or last segment carrying a turbofish."""
    for g in reversed(e[2]):
        if g: return g
    return []

class LayoutCtx(object):
    def __init__(self, sig):
        self.layout_params = [p for p, ty in sig['params'] if ty[0] == 'tpath' and ty[1][-1] == 'Layout']
        self.len_params = [p for p, ty in sig['params'] if ty[0] == 'tpath' and ty[1][-1] == 'usize']
        self.param_types = dict((p, ty) for p, ty in sig['params'])
        self.generics = [g[1] for g in sig['generics'] if g[0] == 'type']

def deref_type(ty):
    while ty[0] in ('tref', 'tptr'):
        ty = ty[3] if ty[0] == 'tref' else ty[2]
    if ty[0] == 'tpath' and ty[1][-1] == 'Box' and ty[2]:
        return ty[2][0]
    return ty

def value_type_of(e, ctx, env):
    """static type of the *referent* of expression e (for Layout::for_value)."""
    e = strip(e)
    while e[0] in ('ref',) or (e[0] == 'unary' and e[1] == '*'):
        e = strip(e[2])
    if e[0] == 'path' and len(e[1]) == 1:
        nm = e[1][0]
        if nm in ctx.param_types: return deref_type(ctx.param_types[nm])
    return None

def to_lexpr(e, ctx, env):
    e = strip(resolve(e, env))
    k = e[0]
    if k == 'path' and len(e[1]) == 1 and e[1][0] in ctx.layout_params:
        return 'LParam'
    if k == 'call' and e[1][0] == 'path':
        p = '::'.join(e[1][1]); g = path_generics(e[1])
        if p in ('Layout::new', 'alloc::alloc::Layout::new', 'core::alloc::Layout::new') and len(g) == 1 and not e[2]:
            return '(LNew %s)' % ty_to_tyexpr(g[0])
        if p in ('Layout::array',) and len(g) == 1 and len(e[2]) == 1:
            a = strip(e[2][0])
            if a[0] == 'path' and len(a[1]) == 1 and a[1][0] in ctx.len_params:
                return '(LArray %s)' % ty_to_tyexpr(g[0])
            return 'LUnknown'
        if p in ('Layout::for_value',) and len(e[2]) == 1:
            if len(g) == 1:
                return '(LForValue %s)' % ty_to_tyexpr(g[0])
            ty = value_type_of(e[2][0], ctx, env)
            if ty is not None:
                return '(LForValue %s)' % ty_to_tyexpr(ty)
            return 'LUnknown'
    if k == 'mcall':
        recv, name, gen, args = e[1], e[2], e[3], e[4]
        if name == 'pad_to_align' and not args:
            return '(LPad %s)' % to_lexpr(recv, ctx, env)
        if name == 'unwrap' and not args:
            r = strip(recv)
            inner = to_lexpr(r, ctx, env)
            if inner.startswith('(LArray '):
                return '(LArrayUnwrap ' + inner[len('(LArray '):]
            return 'LUnknown'
    if k == 'field' and e[2] == '0':
        r = strip(e[1])
        if r[0] == 'mcall' and r[2] == 'unwrap' and not r[4]:
            x = strip(r[1])
            if x[0] == 'mcall' and x[2] == 'extend' and len(x[4]) == 1:
                return '(LExtend0 %s %s)' % (to_lexpr(x[1], ctx, env), to_lexpr(x[4][0], ctx, env))
    return 'LUnknown'

def to_oexpr(e, ctx, env):
    e = strip(resolve(e, env))
    if e[0] == 'field' and e[2] == '1':
        r = strip(e[1])
        if r[0] == 'mcall' and r[2] == 'unwrap' and not r[4]:
            x = strip(r[1])
            if x[0] == 'mcall' and x[2] == 'extend' and len(x[4]) == 1:
                return '(OExtend1 %s %s)' % (to_lexpr(x[1], ctx, env), to_lexpr(x[4][0], ctx, env))
    return 'OUnknown'

def find_calls(block, pred):
    """all call / mcall nodes in a block for which pred(node) holds (pre-order)."""
    out = []
    def f(e):
        if e[0] in ('call', 'mcall') and pred(e):
            out.append(e)
    walk_expr(block, f)
    return out

def call_path(e):
    if e[0] == 'call' and e[1][0] == 'path':
        return '::'.join(e[1][1])
    return None

def extract_layout(src, facts, notes):
    L = {}
    def fn_ctx(file, qname, impl_pred=None):
        r = src.find_fn(file, qname, impl_pred)
        if r is None:
            notes.append('layout: function %s not found (or ambiguous) in %s' % (qname, file)); return None
        f, imp, fn = r
        try:
            sig = parse_fn_sig(fn.header); body = fn_body(fn)
            hs = private_helpers(src, f, imp)
            if hs:
                import canon
                body = canon.inline_helpers(body, hs, caller_param_types(src, imp, fn))
        except ParseError as ex:
            notes.append('layout: cannot parse %s: %s' % (qname, ex)); return None
        return sig, body, LayoutCtx(sig), collect_lets(body)

    # allocate_for_layout: its own chain (used for handle_alloc_error) and the forwarding of value_layout
    L['afl_chain'] = 'LUnknown'; L['afl_forwards_param'] = False
    r = fn_ctx('arc.rs', 'Arc::allocate_for_layout')
    if r:
        sig, body, ctx, env = r
        if 'layout' in env: L['afl_chain'] = to_lexpr(('path', ['layout'], [[]]), ctx, env)
        calls = find_calls(body, lambda e: (call_path(e) or '').endswith('try_allocate_for_layout'))
        if len(calls) == 1 and len(calls[0][2]) == 2:
            L['afl_forwards_param'] = (to_lexpr(calls[0][2][0], ctx, env) == 'LParam')
    # try_allocate_for_layout: the layout handed to alloc
    L['tafl_alloc_arg'] = 'LUnknown'; L['tafl_null_checked'] = False
    r = fn_ctx('arc.rs', 'Arc::try_allocate_for_layout')
    if r:
        sig, body, ctx, env = r
        calls = find_calls(body, lambda e: (call_path(e) or '') in ('alloc::alloc::alloc', 'alloc::alloc', 'alloc'))
        if len(calls) == 1 and len(calls[0][2]) == 1:
            L['tafl_alloc_arg'] = to_lexpr(calls[0][2][0], ctx, env)
        # NonNull::new(alloc(..)).ok_or(())?
        def nullchk(e):
            if e[0] == 'try':
                x = strip(e[1])
                if x[0] == 'mcall' and x[2] == 'ok_or':
                    y = strip(x[1])
                    if y[0] == 'call' and call_path(y) in ('NonNull::new', 'ptr::NonNull::new'):
                        return True
            return False
        found = []
        walk_expr(body, lambda e: found.append(1) if nullchk(e) else None)
        L['tafl_null_checked'] = bool(found)
    # allocate_for_header_and_slice: the value layout passed to allocate_for_layout
    L['afhs_value_chain'] = 'LUnknown'
    r = fn_ctx('arc.rs', 'Arc::allocate_for_header_and_slice')
    if r:
        sig, body, ctx, env = r
        calls = find_calls(body, lambda e: (call_path(e) or '').endswith('allocate_for_layout') and not (call_path(e) or '').endswith('try_allocate_for_layout'))
        if len(calls) == 1 and len(calls[0][2]) == 2:
            L['afhs_value_chain'] = to_lexpr(calls[0][2][0], ctx, env)
    # UniqueArc::new_uninit
    L['new_uninit_alloc_arg'] = 'LUnknown'; L['new_uninit_null_checked'] = False
    r = fn_ctx('unique_arc.rs', 'UniqueArc::new_uninit')
    if r:
        sig, body, ctx, env = r
        calls = find_calls(body, lambda e: (call_path(e) or '') in ('alloc::alloc::alloc', 'alloc::alloc', 'alloc'))
        if len(calls) == 1 and len(calls[0][2]) == 1:
            L['new_uninit_alloc_arg'] = to_lexpr(calls[0][2][0], ctx, env)
        hs = find_calls(body, lambda e: (call_path(e) or '').endswith('handle_alloc_error'))
        nn = find_calls(body, lambda e: (call_path(e) or '') in ('NonNull::new', 'ptr::NonNull::new'))
        L['new_uninit_null_checked'] = bool(hs) and bool(nn)
    # From<Box<T>>
    L['from_box_value_chain'] = 'LUnknown'; L['from_box_release'] = 'TyUnknown'
    def is_from_box(imp):
        info = src.impl_info(imp)
        return info is not None and info['trait'] is not None and type_text(info['trait']).replace(' ', '') == 'From<Box<T>>'
    r = fn_ctx('header.rs', 'Arc::from', is_from_box)
    if r:
        sig, body, ctx, env = r
        calls = find_calls(body, lambda e: (call_path(e) or '').endswith('allocate_for_layout'))
        if len(calls) == 1 and len(calls[0][2]) == 2:
            L['from_box_value_chain'] = to_lexpr(calls[0][2][0], ctx, env)
        # drop(Box::<ManuallyDrop<T>>::from_raw(..))
        for c in find_calls(body, lambda e: e[0] == 'call' and e[1][0] == 'path' and '::'.join(e[1][1]) == 'Box::from_raw'):
            g = path_generics(c[1])
            if len(g) == 1:
                L['from_box_release'] = ty_to_tyexpr(g[0])
    # offset_of_data
    L['ood'] = 'OUnknown'
    r = fn_ctx('arc.rs', 'ArcInner::offset_of_data')
    if r:
        sig, body, ctx, env = r
        if body[2] is not None:
            L['ood'] = to_oexpr(body[2], ctx, env)
    # from_raw: ptr.byte_sub(offset_of_data(ptr))
    L['from_raw_form'] = 'FRUnknown'
    r = fn_ctx('arc.rs', 'Arc::from_raw')
    if r:
        sig, body, ctx, env = r
        pname = sig['params'][0][0] if sig['params'] else None
        calls = find_calls(body, lambda e: (call_path(e) or '').endswith('from_raw_inner'))
        if len(calls) == 1 and len(calls[0][2]) == 1 and pname:
            a = strip(resolve(calls[0][2][0], env))
            while a[0] == 'cast': a = strip(a[1])
            if a[0] == 'mcall' and a[2] == 'byte_sub' and len(a[4]) == 1 and is_path(strip(a[1]), pname):
                off = strip(a[4][0])
                if off[0] == 'call' and (call_path(off) or '').endswith('offset_of_data') and len(off[2]) == 1 and is_path(strip(off[2][0]), pname):
                    L['from_raw_form'] = 'FRByteSubOffsetOfData'
    # as_ptr: addr_of_mut!((*self.ptr()).data)
    L['as_ptr_form'] = 'APUnknown'
    r = fn_ctx('arc.rs', 'Arc::as_ptr')
    if r:
        sig, body, ctx, env = r
        t = strip(body[2]) if body[2] is not None else None
        if t is not None and t[0] == 'macro' and t[1] in ('ptr::addr_of_mut', 'addr_of_mut', 'ptr::addr_of', 'addr_of', 'core::ptr::addr_of_mut') and t[2] and len(t[2]) == 1:
            a = strip(t[2][0])
            if a[0] == 'field' and a[2] == 'data':
                b = strip(a[1])
                if b[0] == 'unary' and b[1] == '*':
                    c = strip(b[2])
                    if c[0] == 'mcall' and c[2] == 'ptr' and is_path(strip(c[1]), 'self'):
                        L['as_ptr_form'] = 'APAddrOfData'
    # heap_ptr: self.p.as_ptr() cast
    L['heap_ptr_form'] = 'HPUnknown'
    r = fn_ctx('arc.rs', 'Arc::heap_ptr')
    if r:
        sig, body, ctx, env = r
        t = strip(body[2]) if body[2] is not None else None
        while t is not None and t[0] == 'cast': t = strip(t[1])
        if t is not None and t[0] == 'mcall' and t[2] == 'as_ptr':
            b = strip(t[1])
            if b[0] == 'field' and b[2] == 'p' and is_path(strip(b[1]), 'self'):
                L['heap_ptr_form'] = 'HPBlockStart'
        if t is not None and t[0] == 'mcall' and t[2] == 'ptr' and is_path(strip(t[1]), 'self'):
            L['heap_ptr_form'] = 'HPBlockStart'
    # Arc::new: Box::into_raw(Box::new(ArcInner { count: AtomicUsize::new(1), data }))
    L['arc_new_form'] = 'NewUnknown'
    def is_plain_arc_T(imp):
        info = src.impl_info(imp)
        return info is not None and info['trait'] is None and type_text(info['self_ty']) == 'Arc<T>'
    r = fn_ctx('arc.rs', 'Arc::new', is_plain_arc_T)
    if r:
        sig, body, ctx, env = r
        calls = find_calls(body, lambda e: call_path(e) == 'Box::into_raw')
        if len(calls) == 1 and len(calls[0][2]) == 1:
            a = strip(calls[0][2][0])
            if a[0] == 'call' and call_path(a) == 'Box::new' and len(a[2]) == 1:
                s = strip(a[2][0])
                if s[0] == 'struct' and s[1][-1] == 'ArcInner':
                    fields = dict((n, strip(v)) for n, v in s[3])
                    c = fields.get('count')
                    if c is not None and c[0] == 'call' and (call_path(c) or '').endswith('AtomicUsize::new') and len(c[2]) == 1 and strip(c[2][0]) == ('lit', '1') and 'data' in fields:
                        L['arc_new_form'] = 'NewBoxArcInnerCount1'
    # release: drop_slow and into_inner use Box::from_raw(<the ArcInner pointer>)
    L['drop_slow_form'] = 'RelUnknown'
    r = fn_ctx('arc.rs', 'Arc::drop_slow')
    if r:
        sig, body, ctx, env = r
        calls = find_calls(body, lambda e: call_path(e) == 'Box::from_raw')
        if len(calls) == 1 and len(calls[0][2]) == 1:
            a = strip(calls[0][2][0])
            if a[0] == 'mcall' and a[2] == 'ptr' and is_path(strip(a[1]), 'self') and not path_generics(calls[0][1]):
                L['drop_slow_form'] = 'RelBoxFromRawInner'
    L['into_inner_form'] = 'RelUnknown'
    r = fn_ctx('unique_arc.rs', 'UniqueArc::into_inner')
    if r:
        sig, body, ctx, env = r
        t = strip(body[2]) if body[2] is not None else None
        # `unsafe { Box::from_raw(this.ptr()).data }`, or the same with the box under a name (a `let` that is used once)
        if t is not None and t[0] == 'unsafe' and not t[1][1] and t[1][2] is not None: t = strip(t[1][2])
        if t is not None and t[0] == 'field' and t[2] == 'data':
            c = strip(t[1])
            if c[0] == 'path' and len(c[1]) == 1 and c[1][0] in env and __import__('canon')._count(body, c[1][0]) == 1:
                c = strip(env[c[1][0]])
                if c[0] == 'unsafe' and not c[1][1] and c[1][2] is not None: c = strip(c[1][2])
            if c[0] == 'call' and call_path(c) == 'Box::from_raw' and len(c[2]) == 1 and not path_generics(c[1]):
                a = strip(resolve(c[2][0], {}))
                if a[0] == 'mcall' and a[2] == 'ptr':
                    L['into_inner_form'] = 'RelBoxFromRawInner'
    facts['layout'] = L

def emit_layout(L):
    out = []
    out.append('(* --- Layout chains and pointer arithmetic (arc.rs, unique_arc.rs, header.rs) --- *)')
    for k in ['afl_chain', 'tafl_alloc_arg', 'afhs_value_chain', 'new_uninit_alloc_arg', 'from_box_value_chain']:
        out.append('Definition %s : lexpr := %s.' % (k, L[k]))
    out.append('Definition from_box_release : tyexpr := %s.' % L['from_box_release'])
    out.append('Definition ood : oexpr := %s.' % L['ood'])
    for k in ['afl_forwards_param', 'tafl_null_checked', 'new_uninit_null_checked']:
        out.append('Definition %s : bool := %s.' % (k, 'true' if L[k] else 'false'))
    out.append('Definition from_raw_form : from_raw_kind := %s.' % L['from_raw_form'])
    out.append('Definition as_ptr_form : as_ptr_kind := %s.' % L['as_ptr_form'])
    out.append('Definition heap_ptr_form : heap_ptr_kind := %s.' % L['heap_ptr_form'])
    out.append('Definition arc_new_form : arc_new_kind := %s.' % L['arc_new_form'])
    out.append('Definition drop_slow_form : release_kind := %s.' % L['drop_slow_form'])
    out.append('Definition into_inner_form : release_kind := %s.' % L['into_inner_form'])
    return out

# ----------------------------------------------------------------------------
# struct declarations
# ----------------------------------------------------------------------------
def extract_structs(src, facts, notes):
    S = {}
    for f, items in src.items.items():
        for it in walk_items(items):
            if it.kind not in ('struct',): continue
            name = it.name
            reprs = []
            derives = []
            for a in it.attrs:
                a2 = a.replace(' ', '')
                if a2.startswith('#[repr('):
                    reprs += a2[len('#[repr('):-2].split(',')
                if a2.startswith('#[derive('):
                    derives += a2[len('#[derive('):-2].split(',')
            fields = []
            try:
                # generics
                cur = Cur(it.header); cur.next(); cur.next()
                generics = []
                if cur.at('<'):
                    generics = parse_generic_params(skip_angle(cur))
                if it.body is not None:
                    c2 = Cur(it.body)
                    while not c2.eof():
                        while c2.at('#'):
                            c2.next(); skip_group(c2)
                        vis = ''
                        if c2.at('pub'):
                            c2.next(); vis = 'pub'
                            if c2.at('('):
                                vis = 'pub(' + toks_text(skip_group(c2)) + ')'
                        nm = c2.next().text; c2.expect(':'); ty = parse_type(c2)
                        fields.append((nm, vis, ty))
                        if c2.at(','): c2.next()
                else:
                    # tuple struct: find the parenthesised group
                    while not cur.eof() and not cur.at('('): cur.next()
                    if not cur.eof():
                        inner = skip_group(cur); c2 = Cur(inner); i = 0
                        while not c2.eof():
                            vis = ''
                            if c2.at('pub'):
                                c2.next(); vis = 'pub'
                                if c2.at('('):
                                    vis = 'pub(' + toks_text(skip_group(c2)) + ')'
                            ty = parse_type(c2); fields.append((str(i), vis, ty)); i += 1
                            if c2.at(','): c2.next()
            except ParseError as ex:
                notes.append('struct %s: %s' % (name, ex)); continue
            S[name] = dict(file=f, reprs=sorted(reprs), derives=derives, generics=generics, fields=fields, cfgs=it.cfgs())
    facts['structs'] = S

def field_class(ty):
    """classification of a field type for width / layout purposes."""
    t = type_text(ty).replace(' ', '')
    if t.startswith('PhantomData<'): return 'FPhantom'
    if t.startswith('ptr::NonNull<') or t.startswith('NonNull<'): return 'FNonNull'
    if t in ('usize',): return 'FUsize'
    if t.startswith('atomic::AtomicUsize') or t == 'AtomicUsize': return 'FUsize'
    if t.startswith('Arc<'): return 'FArc'
    if ty[0] == 'tpath' and len(ty[1]) == 1 and not ty[2]: return 'FParam'
    if ty[0] == 'tslice': return 'FOther'
    return 'FOther'

def emit_structs(S):
    out = ['(* --- struct declarations --- *)']
    names = ['ArcInner', 'Arc', 'UniqueArc', 'ThinArc', 'OffsetArc', 'ArcUnion', 'ArcBorrow',
             'HeaderSlice', 'HeaderWithLength', 'HeaderSliceWithLengthProtected']
    rows = []
    for n in names:
        if n not in S:
            rows.append('mkStruct %s RUnknownRepr [] []' % coq_str(n)); continue
        s = S[n]
        reprs = s['reprs']
        if reprs == ['C']: r = 'RC'
        elif reprs == ['transparent']: r = 'RTransparent'
        elif reprs == []: r = 'RRust'
        else: r = 'RUnknownRepr'
        fl = coq_list(['(%s, %s, %s)' % (coq_str(nm), field_class(ty), 'true' if vis == 'pub' else 'false') for nm, vis, ty in s['fields']])
        dl = coq_list([coq_str(d) for d in s['derives']])
        rows.append('mkStruct %s %s %s %s' % (coq_str(n), r, fl, dl))
    out.append('Definition struct_decls : list struct_decl :=\n  ' + coq_list(rows, ';\n   ') + '.')
    return out

# ----------------------------------------------------------------------------
# atomic sites
# ----------------------------------------------------------------------------
ATOMIC_METHODS = set(['load', 'store', 'swap', 'fetch_add', 'fetch_sub', 'fetch_and', 'fetch_or', 'fetch_xor', 'fetch_nand',
                      'fetch_max', 'fetch_min', 'fetch_update', 'compare_exchange', 'compare_exchange_weak', 'compare_and_swap'])
ORDERINGS = {'Relaxed': 'Rlx', 'Release': 'Rel', 'Acquire': 'Acq', 'AcqRel': 'AcqRel', 'SeqCst': 'SC'}

def ordering_of(e):
    e = strip(e)
    if e[0] == 'path' and e[1][-1] in ORDERINGS:
        return ORDERINGS[e[1][-1]]
    return None

def mentions_count(e):
    found = []
    walk_expr(e, lambda x: found.append(1) if (x[0] == 'field' and x[2] == 'count') else None)
    return bool(found)

def extract_atomics(src, facts, notes):
    sites = []; inits = []; other = []
    for f, imp, fn in src.fns:
        q = src.qual_name(imp, fn)
        try:
            body = fn_body(fn)
        except ParseError as ex:
            notes.append('atomics: cannot parse body of %s: %s' % (q, ex)); other.append((f, q, 'unparsed')); continue
        def visit(e):
            if e[0] == 'mcall' and e[2] in ATOMIC_METHODS:
                args = e[4]
                ords = [ordering_of(a) for a in args]
                if any(o is not None for o in ords) or mentions_count(e[1]):
                    operand = None
                    if e[2] in ('fetch_add', 'fetch_sub') and len(args) == 2:
                        a0 = strip(args[0])
                        if a0[0] == 'lit': operand = a0[1]
                    sites.append(dict(file=f, fn=q, method=e[2], on_count=mentions_count(e[1]),
                                      operand=operand, orderings=[o for o in ords if o is not None],
                                      cfgs=(imp.cfgs() if imp is not None else []) + fn.cfgs()))
            if e[0] == 'call' and e[1][0] == 'path' and e[1][1][-1] in ('fence', 'compiler_fence'):
                ords = [ordering_of(a) for a in e[2]]
                sites.append(dict(file=f, fn=q, method=e[1][1][-1], on_count=False, operand=None,
                                  orderings=[o for o in ords if o is not None], cfgs=[]))
            # initialisation: AtomicUsize::new(k)
            if e[0] == 'call' and e[1][0] == 'path' and e[1][1][-1] == 'new' and len(e[1][1]) >= 2 and e[1][1][-2] == 'AtomicUsize':
                a0 = strip(e[2][0]) if e[2] else None
                inits.append(dict(file=f, fn=q, value=(a0[1] if a0 is not None and a0[0] == 'lit' else None)))
            # other ways of touching the counter
            if e[0] == 'mcall' and e[2] in ('get_mut', 'as_ptr', 'into_inner') and mentions_count(e[1]) and strip(e[1])[0] == 'field' and strip(e[1])[2] == 'count':
                other.append((f, q, e[2]))
            if e[0] == 'assign' and strip(e[2])[0] == 'field' and strip(e[2])[2] == 'count':
                other.append((f, q, 'assign'))
        walk_expr(body, visit)
    facts['atomics'] = dict(sites=sites, inits=inits, other=other)
    # uniqueness gate: is_unique = (count(self) == 1)
    gate = dict(form='GateUnknown')
    r = src.find_fn('arc.rs', 'Arc::is_unique')
    if r:
        try:
            body = fn_body(r[2]); t = strip(body[2]) if body[2] is not None else None
            if t is not None and t[0] == 'binary' and t[1] == '==' and strip(t[3]) == ('lit', '1'):
                l = strip(t[2])
                if l[0] == 'call' and (call_path(l) or '') in ('Self::count', 'Arc::count') and len(l[2]) == 1 and is_path(strip(l[2][0]), 'self'):
                    gate['form'] = 'GateCountEq1'
                elif l[0] == 'mcall' and l[2] == 'load' and mentions_count(l[1]):
                    gate['form'] = 'GateLoadEq1'
        except ParseError:
            pass
    facts['atomics']['gate'] = gate

def emit_atomics(A):
    out = ['(* --- every atomic call site of the crate (closed world) --- *)']
    rows = []
    for s in A['sites']:
        if s['cfgs'] and any('unstable_dropck_eyepatch' in c for c in s['cfgs']):
            pass
        ords = s['orderings']
        o = ords[0] if len(ords) == 1 else 'OrdUnknown'
        operand = s['operand'] if s['operand'] is not None and s['operand'].isdigit() else None
        rows.append('mkSite %s %s %s %s %s' % (coq_str(s['fn']), coq_str(s['method']),
                                              ('(Some %s%%N)' % operand) if operand is not None else 'None', o,
                                              'true' if s['on_count'] else 'false'))
    out.append('Definition atomic_sites : list atomic_site :=\n  ' + coq_list(rows, ';\n   ') + '.')
    out.append('Definition counter_inits : list (string * option N) :=\n  ' + coq_list(
        ['(%s, %s)' % (coq_str(i['fn']), ('Some %s%%N' % i['value']) if (i['value'] or '').isdigit() else 'None') for i in A['inits']], ';\n   ') + '.')
    out.append('Definition counter_other_accesses : list (string * string) :=\n  ' + coq_list(
        ['(%s, %s)' % (coq_str(q), coq_str(m)) for f, q, m in A['other']]) + '.')
    out.append('Definition uniq_gate : gate_kind := %s.' % A['gate']['form'])
    return out


# ----------------------------------------------------------------------------
# the counter protocol: orderings that matter, shape of clone / drop_inner / is_unique, closed world
# ----------------------------------------------------------------------------
ALLOWED_SITES = {('Arc::strong_count', 'load'), ('Arc::clone', 'fetch_add'), ('Arc::count', 'load'),
                 ('Arc::drop_inner', 'fetch_sub'), ('Arc::drop_inner', 'load'), ('Arc::drop_inner', 'fence')}

def find_mcalls(e, name):
    out = []
    walk_expr(e, lambda x: out.append(x) if (x[0] == 'mcall' and x[2] == name) else None)
    return out

def contains_call_named(e, name):
    found = []
    def f(x):
        if x[0] == 'mcall' and x[2] == name: found.append(1)
        if x[0] == 'call' and x[1][0] == 'path' and x[1][1][-1] == name: found.append(1)
    walk_expr(e, f)
    return bool(found)

def contains_return(b):
    found = []
    walk_expr(b, lambda x: found.append(1) if x[0] in ('return',) or (x[0] == 'path' and x[1] == ['return']) else None)
    return bool(found)

def load_ordering_of_fn(src, qname, depth=0):
    """ordering of the counter load a small accessor function performs (following one-line delegations)"""
    if depth > 3: return None
    r = src.find_fn('arc.rs', qname)
    if not r: return None
    try:
        body = fn_body(r[2])
    except ParseError:
        return None
    if body[1] or body[2] is None: return None      # must be a single tail expression
    t = strip(body[2])
    if t[0] == 'mcall' and t[2] == 'load' and mentions_count(t[1]) and len(t[4]) == 1:
        return ordering_of(t[4][0])
    if t[0] == 'call':
        cp = call_path(t) or ''
        if cp.startswith('Self::') or cp.startswith('Arc::'):
            return load_ordering_of_fn(src, 'Arc::' + cp.split('::')[-1], depth + 1)
    return None

def extract_protocol(src, facts, notes):
    P = dict(dec_ord=None, acq_ord=None, acq_kind=None, uniq_ord=None, inc_ord=None, strong_ord=None,
             drop_shape=False, clone_shape=False, uniq_shape=False, closed=False,
             guard=dict(form='GuardUnknown'), abort_std=None, abort_nostd=None)
    A = facts.get('atomics', {})
    # closed world: every atomic site is one of the modelled functions, on the count; no other access path
    sites = A.get('sites', [])
    P['closed'] = (all((s['fn'], s['method']) in ALLOWED_SITES and (s['on_count'] or s['method'] == 'fence') for s in sites)
                   and not A.get('other'))
    P['unmodelled_sites'] = [(s['fn'], s['method']) for s in sites if (s['fn'], s['method']) not in ALLOWED_SITES]
    # drop_inner: `if count.fetch_sub(1, O1) != 1 { return; }  <acquire load or fence, unconditionally>;  drop_slow()`
    r = src.find_fn('arc.rs', 'Arc::drop_inner')
    if r:
        try:
            body = fn_body(r[2]); stmts = list(body[1]) + ([('expr', body[2])] if body[2] is not None else [])
            stage = 0
            for st in stmts:
                if st[0] != 'expr': continue
                e = strip(st[1])
                if stage == 0 and e[0] == 'if' and e[3] is None:
                    c = strip(e[1])
                    if c[0] == 'binary' and c[1] == '!=' and strip(c[3]) == ('lit', '1'):
                        subs = find_mcalls(c[2], 'fetch_sub')
                        if len(subs) == 1 and mentions_count(subs[0][1]) and len(subs[0][4]) == 2 and strip(subs[0][4][0]) == ('lit', '1') \
                           and contains_return(e[2]):
                            P['dec_ord'] = ordering_of(subs[0][4][1]); stage = 1
                    continue
                if stage == 1:
                    if e[0] == 'mcall' and e[2] == 'load' and mentions_count(e[1]) and len(e[4]) == 1:
                        P['acq_ord'] = ordering_of(e[4][0]); P['acq_kind'] = 'load'; stage = 2; continue
                    if e[0] == 'call' and e[1][0] == 'path' and e[1][1][-1] == 'fence' and len(e[2]) == 1:
                        P['acq_ord'] = ordering_of(e[2][0]); P['acq_kind'] = 'fence'; stage = 2; continue
                if stage in (1, 2) and contains_call_named(e, 'drop_slow'):
                    P['drop_shape'] = (stage == 2) or True
                    stage = 3
            if stage != 3: P['drop_shape'] = False
            if not P['drop_shape']:
                # the same protocol written with an intermediate `let` etc.: read it off the translated program
                import countprogs
                dp = countprogs.extract_count_progs(src)['drop']
                m = [re.match(r'^(IDec|ILoad|IRetIfNe|IDestroyFree)(?: (O\w+))?(?: (true|false|\d+))?$', i) for i in dp]
                if len(dp) == 4 and all(m) and [x.group(1) for x in m] == ['IDec', 'IRetIfNe', 'ILoad', 'IDestroyFree'] \
                        and m[0].group(3) == 'true' and dp[1] == 'IRetIfNe 1':
                    names = {'ORlx': 'Rlx', 'OAcq': 'Acq', 'ORel': 'Rel', 'OAcqRel': 'AcqRel'}
                    P['dec_ord'] = names[m[0].group(2)]; P['acq_ord'] = names[m[2].group(2)]; P['acq_kind'] = 'load'; P['drop_shape'] = True
        except ParseError as ex:
            notes.append('protocol: cannot parse Arc::drop_inner: %s' % ex)
    # clone: `let old = count.fetch_add(1, O); if old > MAX_REFCOUNT { abort(); } ...`
    r = src.find_fn('arc.rs', 'Arc::clone')
    if r:
        try:
            body = fn_body(r[2]); stmts = list(body[1])
            oldvar = None
            for st in stmts:
                if st[0] == 'let' and st[3] is not None:
                    adds = find_mcalls(st[3], 'fetch_add')
                    if len(adds) == 1 and strip(st[3])[0] == 'mcall' and strip(st[3])[2] == 'fetch_add' and mentions_count(adds[0][1]) \
                       and len(adds[0][4]) == 2 and strip(adds[0][4][0]) == ('lit', '1'):
                        P['inc_ord'] = ordering_of(adds[0][4][1]); oldvar = st[1].strip()
                elif st[0] == 'expr' and oldvar is not None:
                    e = strip(st[1])
                    if e[0] == 'if' and e[3] is None:
                        c = strip(e[1])
                        if c[0] == 'binary' and c[1] in ('>', '>=') and is_path(strip(c[2]), oldvar) and is_path(strip(c[3]), 'MAX_REFCOUNT'):
                            acts = e[2]
                            if contains_call_named(acts, 'abort'):
                                P['guard'] = dict(form='GuardOldGt' if c[1] == '>' else 'GuardOldGe', action='abort')
                                P['clone_shape'] = True
                            elif any(x for x in [1] if True) and acts is not None:
                                P['guard'] = dict(form='GuardOldGt' if c[1] == '>' else 'GuardOldGe', action='other')
        except ParseError as ex:
            notes.append('protocol: cannot parse Arc::clone: %s' % ex)
    # MAX_REFCOUNT constant
    P['max_refcount'] = None; P['max_refcount_val'] = None
    for f, items in src.items.items():
        for it in walk_items(items):
            if f == 'arc.rs' and it.kind == 'const' and it.name == 'MAX_REFCOUNT':
                txt = it.header_text().split('=', 1)[1].replace(' ', '') if '=' in it.header_text() else ''
                P['max_refcount'] = txt
                P['max_refcount_val'] = {'(isize::MAX)asusize': 2 ** 63 - 1, 'isize::MAXasusize': 2 ** 63 - 1,
                                         'usize::MAX': 2 ** 64 - 1, '(usize::MAX)': 2 ** 64 - 1}.get(txt)
            if f == 'lib.rs' and it.kind == 'use' and it.header_text().replace(' ', '') == 'usestd::process::abort' \
               and [c.replace(' ', '') for c in it.cfgs()] == ['#[cfg(feature="std")]']:
                P['abort_std'] = 'AbortProcess'
            if f == 'lib.rs' and it.kind == 'fn' and it.name == 'abort' and [c.replace(' ', '') for c in it.cfgs()] == ['#[cfg(not(feature="std"))]']:
                body = toks_text(it.body).replace(' ', '')
                # a local guard whose Drop panics is alive while the function panics: panic-in-panic = abort
                import re as _re
                m = _re.match(r'^struct(\w+);implDropfor\1\{fndrop\(&mutself\)\{panic!\(\)\}\}let(\w+)=\1;panic!\(\);$', body)
                P['abort_nostd'] = 'AbortDoublePanic' if (m and m.group(2) != '_') else 'AbortUnknown'
    # is_unique: `Self::count(self) == 1` with count's (possibly delegated) load ordering
    g = A.get('gate', {}).get('form')
    if g == 'GateCountEq1':
        P['uniq_ord'] = load_ordering_of_fn(src, 'Arc::count'); P['uniq_shape'] = P['uniq_ord'] is not None
    elif g == 'GateLoadEq1':
        r = src.find_fn('arc.rs', 'Arc::is_unique')
        t = strip(fn_body(r[2])[2]); l = strip(t[2])
        P['uniq_ord'] = ordering_of(l[4][0]) if len(l[4]) == 1 else None; P['uniq_shape'] = P['uniq_ord'] is not None
    P['strong_ord'] = load_ordering_of_fn(src, 'Arc::strong_count')
    facts['protocol'] = P

def is_rel(o): return o in ('Rel', 'AcqRel', 'SC')
def is_acq(o): return o in ('Acq', 'AcqRel', 'SC')

def emit_protocol(P):
    b = lambda x: 'true' if x else 'false'
    out = ['(* --- the counter protocol: what the concurrency theorems are instantiated with --- *)']
    out.append('Definition conc_cfg : cfg := mkCfg %s %s %s.' % (
        b(P['drop_shape'] and is_rel(P['dec_ord'])), b(P['drop_shape'] and is_acq(P['acq_ord'])), b(P['uniq_shape'] and is_acq(P['uniq_ord']))))
    out.append('Definition sites_closed : bool := %s.' % b(P['closed']))
    out.append('Definition drop_inner_shape_ok : bool := %s.' % b(P['drop_shape']))
    out.append('(* --- the overflow guard of Arc::clone and the two definitions of abort --- *)')
    out.append('Definition clone_guard : guard_kind := %s.' % (P['guard'].get('form') if P.get('clone_shape') or P['guard'].get('form') != 'GuardUnknown' else 'GuardUnknown'))
    out.append('Definition clone_guard_action : guard_action := %s.' % ('ActAbort' if P['guard'].get('action') == 'abort' else 'ActOther'))
    out.append('Definition max_refcount_val : option N := %s.' % (('(Some %d)' % P['max_refcount_val']) if P.get('max_refcount_val') is not None else 'None'))
    out.append('Definition abort_std : abort_kind := %s.' % (P.get('abort_std') or 'AbortUnknown'))
    out.append('Definition abort_nostd : abort_kind := %s.' % (P.get('abort_nostd') or 'AbortUnknown'))
    return out


# ----------------------------------------------------------------------------
# pointer plumbing (golden bodies) and ArcUnion's tag-bit expressions
# ----------------------------------------------------------------------------
def to_bexpr(e):
    e = strip(e)
    while e[0] == 'cast': e = strip(e[1])
    if e[0] == 'mcall' and e[2] == 'as_ptr':
        b = strip(e[1])
        if b[0] == 'field' and b[2] == 'p' and is_path(strip(b[1]), 'self'): return 'BPtr'
    if e[0] == 'call' and (call_path(e) or '') == 'Arc::into_raw' and len(e[2]) == 1: return 'BPtr'
    if e[0] == 'lit':
        try: return '(BLit %d)' % int(e[1].replace('_', ''), 0)
        except ValueError: return 'BUnknown'
    if e[0] == 'unary' and e[1] == '!':
        x = strip(e[2])
        if x[0] == 'lit':
            try: return '(BNotLit %d)' % int(x[1].replace('_', ''), 0)
            except ValueError: return 'BUnknown'
    if e[0] == 'binary' and e[1] in ('|', '&'):
        a = to_bexpr(e[2]); b = to_bexpr(e[3])
        return '(%s %s %s)' % ('BOr' if e[1] == '|' else 'BAnd', a, b)
    return 'BUnknown'

def alpha_norm(toks, params=()):
    """token text of a function body with its locally bound names (parameters, `let` bindings, closure parameters,
    `for` variables) replaced by $0, $1 .. in order of introduction, so that a consistent renaming is not a difference.
    Occurrences after `.` (fields, methods) and before `::` (paths) are never renamed."""
    names = {}
    def bind(n):
        if n not in names and n not in ('self', 'Self', '_', 'mut', 'ref'): names[n] = '$%d' % len(names)
    for p in params:
        p = p.strip()
        if p.startswith('mut '): p = p[4:].strip()
        if re.match(r'^[A-Za-z_][A-Za-z0-9_]*$', p): bind(p)
    toks = list(toks)
    n = len(toks); i = 0
    def is_id(t): return t.kind == 'ident' and re.match(r'^[A-Za-z_][A-Za-z0-9_]*$', t.text) is not None
    while i < n:
        t = toks[i]
        if t.text in ('let', 'for') and t.kind == 'ident':
            j = i + 1; depth = 0
            stop = '=' if t.text == 'let' else 'in'
            while j < n and not (depth == 0 and toks[j].text in (stop, ';', ':')):
                if toks[j].text in '([{': depth += 1
                elif toks[j].text in ')]}': depth -= 1
                elif is_id(toks[j]) and toks[j].text not in ('mut', 'ref') and not (j + 1 < n and toks[j + 1].text in ('::', '(', '{')) and toks[j].text[0].islower():
                    bind(toks[j].text)
                j += 1
        elif t.text == '|' and (i == 0 or toks[i - 1].text in ('(', ',', '=', 'move', '{', ';')):
            j = i + 1
            while j < n and toks[j].text != '|':
                if is_id(toks[j]) and toks[j].text not in ('mut', 'ref') and not (j + 1 < n and toks[j + 1].text == '::') and (toks[j - 1].text in ('|', ',', 'mut', '&', '(')):
                    bind(toks[j].text)
                j += 1
        i += 1
    out = []
    for k, t in enumerate(toks):
        if is_id(t) and t.text in names and not (k > 0 and toks[k - 1].text == '.') and not (k + 1 < n and toks[k + 1].text == '::'):
            out.append(Tok(t.kind, names[t.text], getattr(t, 'line', 0)) if False else _retok(t, names[t.text]))
        else:
            out.append(t)
    return toks_text(out)

def _retok(t, text):
    import copy
    t2 = copy.copy(t); t2.text = text
    return t2

def extract_pointers(src, facts, notes):
    import golden_forms
    PT = dict(forms={}, diffs=[])
    def fn_params(fn):
        try: return [pn for pn, ty in parse_fn_sig(fn.header)['params'] if pn != 'self']
        except ParseError: return []
    for g, lst in golden_forms.GOLDEN.items():
        ok = True
        for ent in lst:
            f, q, txt = ent[:3]
            r = src.find_fns(f, q)
            if len(ent) > 3:      # several impls define this name: the impl header selects one
                r = [x for x in r if x[1] is not None and ent[3] in toks_text(x[1].header)]
            # compared up to refactorings that cannot change behaviour (tools/canon.py): renaming, naming an intermediate
            # value, unsafe/paren/block wrappers, negated if, add/offset, path call versus method call
            def same(fn, imp=None):
                if toks_text(fn.body) == txt: return True
                gp = golden_forms.PARAMS.get((f, q) + tuple(ent[3:4]), fn_params(fn))
                if alpha_norm(fn.body, fn_params(fn)) == alpha_norm(lex(txt), gp): return True
                try:
                    import canon
                    heads = ('Self', q.split('::')[0])
                    want = canon.canon(lex(txt), gp, heads)
                    if canon.canon(fn.body, fn_params(fn), heads) == want: return True
                    hs = private_helpers(src, f, imp, not_called_in=txt)
                    return bool(hs) and canon.canon(fn.body, fn_params(fn), heads, hs, caller_param_types(src, imp, fn)) == want
                except Exception:
                    return False
            if len(r) != 1 or not same(r[0][2], r[0][1]):
                ok = False; PT['diffs'].append('%s:%s' % (f, q))
        PT['forms'][g] = ok
    U = dict(tag1='BUnknown', tag2='BUnknown', test_first='BTUnknown', untag1='BUnknown', untag2='BUnknown', arms_ok=False)
    def tail_call_arg(file, q, callee):
        r = src.find_fn(file, q)
        if not r: return None
        body = fn_body(r[2]); t = body[2]
        if t is None: return None
        t = strip(t)
        if t[0] == 'unsafe': t = strip(t[1][2]) if t[1][2] is not None else None
        if t is not None and t[0] == 'call' and (call_path(t) or '') == callee and len(t[2]) == 1:
            return t[2][0]
        return None
    try:
        a = tail_call_arg('arc_union.rs', 'ArcUnion::from_first', 'Self::new')
        if a is not None: U['tag1'] = to_bexpr(a)
        a = tail_call_arg('arc_union.rs', 'ArcUnion::from_second', 'Self::new')
        if a is not None: U['tag2'] = to_bexpr(a)
        r = src.find_fn('arc_union.rs', 'ArcUnion::is_first')
        if r:
            t = strip(fn_body(r[2])[2])
            if t[0] == 'binary' and t[1] == '==' and strip(t[3])[0] == 'lit':
                U['test_first'] = '(BEq %s %d)' % (to_bexpr(t[2]), int(strip(t[3])[1], 0))
        # is_second is the negation of is_first (used when `borrow` tests it instead)
        second_is_not_first = False
        r = src.find_fn('arc_union.rs', 'ArcUnion::is_second')
        if r:
            t = strip(fn_body(r[2])[2]) if fn_body(r[2])[2] is not None else None
            if t is not None and not fn_body(r[2])[1] and t[0] == 'unary' and t[1] == '!':
                x = strip(t[2])
                second_is_not_first = x[0] == 'mcall' and x[2] == 'is_first' and is_path(strip(x[1]), 'self') and not x[4]
        r = src.find_fn('arc_union.rs', 'ArcUnion::borrow')
        if r:
            body = fn_body(r[2]); t = strip(body[2]) if body[2] is not None else None
            # leading `let x = <expr>;` statements name intermediate values (only pure forms are accepted by to_bexpr)
            outer = {}; outer_ok = all(st[0] == 'let' and st[3] is not None and st[1].strip().isidentifier() for st in body[1])
            if outer_ok:
                for st in body[1]: outer[st[1].strip()] = resolve(st[3], outer)
            if outer_ok and t is not None and t[0] == 'if' and t[3] is not None:
                c = strip(t[1]); neg = False
                while c[0] == 'unary' and c[1] == '!': c = strip(c[2]); neg = not neg
                first_then = None
                if c[0] == 'mcall' and is_path(strip(c[1]), 'self') and not c[4]:
                    if c[2] == 'is_first': first_then = not neg
                    elif c[2] == 'is_second' and second_is_not_first: first_then = neg
                def unwrap(x):
                    x = strip(x)
                    while x is not None and x[0] in ('unsafe', 'block'):
                        blk = x[1] if x[0] == 'unsafe' else x
                        if blk[1] or blk[2] is None: break
                        x = strip(blk[2])
                    return x
                def arm(b, variant):
                    b = strip(b) if b[0] != 'block' else b
                    if b[0] != 'block': return 'BUnknown', False
                    env = dict(outer); res = 'BUnknown'; ok = False
                    if not all(st[0] == 'let' and st[3] is not None and st[1].strip().isidentifier() for st in b[1]): return res, ok
                    for st in b[1]: env[st[1].strip()] = st[3]
                    tl = unwrap(b[2]) if b[2] is not None else None
                    if tl is not None and tl[0] == 'call' and (call_path(tl) or '') == 'ArcUnionBorrow::' + variant and len(tl[2]) == 1:
                        x = unwrap(tl[2][0])
                        if x[0] == 'path' and len(x[1]) == 1 and x[1][0] in env: x = unwrap(env[x[1][0]])
                        if x[0] == 'call' and (call_path(x) or '') == 'ArcBorrow::from_ptr' and len(x[2]) == 1:
                            res = to_bexpr(resolve(x[2][0], env)); ok = 'BUnknown' not in res
                    return res, ok
                if first_then is not None:
                    a1, a2 = (t[2], t[3]) if first_then else (t[3], t[2])
                    e1, ok1 = arm(a1, 'First'); e2, ok2 = arm(a2, 'Second')
                    U['untag1'] = e1; U['untag2'] = e2; U['arms_ok'] = ok1 and ok2
    except (ParseError, IndexError, TypeError) as ex:
        notes.append('pointers: arc_union.rs: %s' % ex)
    PT['union'] = U
    # the sized stand-in type behind ThinArc's thin pointer: its [T; 0] tail carries T's alignment, so that the
    # header (and the recorded length) sit at the same offsets as in the fat type
    S = facts.get('structs', {})
    tp = [type_text(ty).replace(' ', '') for nm, vis, ty in (S.get('ThinArc') or {}).get('fields', []) if nm == 'ptr']
    PT['thin_pointee'] = tp[0] if tp else None
    PT['thin_pointee_ok'] = tp == ['ptr::NonNull<ArcInner<HeaderSlice<HeaderWithLength<H>,[T;0]>>>']
    facts['pointers'] = PT

def emit_pointers(PT):
    b = lambda x: 'true' if x else 'false'
    out = ['(* --- pointer plumbing (compared with the bodies the model was written against) and ArcUnion tag arithmetic --- *)']
    for g in ['arc_raw', 'offset', 'borrow', 'thin', 'union', 'swap', 'ctor', 'cow', 'uninit']:
        out.append('Definition %s_forms_ok : bool := %s.' % (g, b(PT['forms'].get(g))))
    U = PT['union']
    out.append('Definition union_tag1 : bexpr := %s.' % U['tag1'])
    out.append('Definition union_tag2 : bexpr := %s.' % U['tag2'])
    out.append('Definition union_test_first : btest := %s.' % U['test_first'])
    out.append('Definition union_untag1 : bexpr := %s.' % U['untag1'])
    out.append('Definition union_untag2 : bexpr := %s.' % U['untag2'])
    out.append('Definition union_borrow_arms_ok : bool := %s.' % b(U['arms_ok']))
    out.append('Definition thin_pointee_ok : bool := %s.' % b(PT.get('thin_pointee_ok')))
    return out


# ----------------------------------------------------------------------------
# comparison / hashing / formatting impls: classification of each method body (C14)
# ----------------------------------------------------------------------------
CMP_KEY_ORDER = [('Arc', 'eq'), ('Arc', 'ne'), ('Arc', 'partial_cmp'), ('Arc', 'lt'), ('Arc', 'le'), ('Arc', 'gt'), ('Arc', 'ge'),
                 ('Arc', 'cmp'), ('Arc', 'Display::fmt'), ('Arc', 'Debug::fmt'), ('Arc', 'hash'), ('Arc', 'borrow'), ('Arc', 'as_ref'),
                 ('ArcBorrow', 'eq'), ('ArcBorrow', 'ne'), ('ArcBorrow', 'Debug::fmt'),
                 ('ArcUnion', 'eq'), ('ArcUnion', 'Debug::fmt'),
                 ('HeaderSliceWithLength', 'partial_cmp'), ('HeaderSliceWithLength', 'cmp'),
                 ('OffsetArc', 'Debug::fmt'), ('OffsetArc', 'eq'), ('OffsetArc', 'ne'),
                 ('ThinArc', 'eq'), ('ThinArc', 'partial_cmp'), ('ThinArc', 'cmp'), ('ThinArc', 'hash'), ('ThinArc', 'Debug::fmt')]
BINOPS = {'==': 'eq', '!=': 'ne', '<': 'lt', '<=': 'le', '>': 'gt', '>=': 'ge'}

def unwrap(e):
    e = strip(e)
    while e[0] == 'unsafe' and not e[1][1] and e[1][2] is not None:
        e = strip(e[1][2])
    return e

def pointee_of(e, who):
    """does `e` denote the value `who` (self/other/a/b) points to?  forms: **x, *(*x), *x.0.as_ptr()"""
    e = unwrap(e)
    if e[0] == 'unary' and e[1] == '*':
        x = unwrap(e[2])
        if x[0] == 'unary' and x[1] == '*' and is_path(unwrap(x[2]), who): return True
        if x[0] == 'mcall' and x[2] == 'as_ptr':
            y = unwrap(x[1])
            if y[0] == 'field' and y[2] == '0' and is_path(unwrap(y[1]), who): return True
    return False

def ref_pointee_of(e, who):
    e = unwrap(e)
    return e[0] == 'ref' and pointee_of(e[2], who)

def is_ptr_eq(e):
    e = unwrap(e)
    if e[0] == 'call' and (call_path(e) or '') in ('Self::ptr_eq', 'Arc::ptr_eq') and len(e[2]) == 2 and is_path(unwrap(e[2][0]), 'self') and is_path(unwrap(e[2][1]), 'other'):
        return True
    if e[0] == 'call' and (call_path(e) or '').endswith('ptr::addr_eq') and len(e[2]) == 2:
        def p(x, who):
            x = unwrap(x)
            if x[0] == 'mcall' and x[2] == 'as_ptr':
                y = unwrap(x[1]); return y[0] == 'field' and y[2] == '0' and is_path(unwrap(y[1]), who)
            return False
        return p(e[2][0], 'self') and p(e[2][1], 'other')
    return False

def classify_cmp(ty, meth, fn, helpers=None, caller_types=None):
    try:
        body = fn_body(fn)
        import canon
        if helpers: body = canon.inline_helpers(body, helpers, caller_types)
        # early returns and `if a { true } else { b }` spelled as the short-circuit operators they are
        if not (ty == 'ArcUnion' and meth == 'eq'):
            nb = canon.normalise_light(body)
            if isinstance(nb, tuple) and nb and nb[0] == 'block': body = nb
    except ParseError:
        return 'FUnknownForm'
    stm = [x for x in body[1] if x[0] != 'item']
    t = body[2]
    if t is None: return 'FUnknownForm'
    if stm and not (ty == 'ArcUnion' and meth == 'eq'):
        # named intermediate values: `let this = self.0.as_ptr();`, `let (a, b) = (x, y);`, `let v: &T = &*p;` whose
        # initialisers only read places are put back where they are used
        import canon
        nb = canon._strip_all(('block', stm, t))
        def pure(x):
            x = unwrap(x)
            if x[0] in ('path', 'lit'): return True
            if x[0] in ('field', 'cast', 'ptrcast'): return pure(x[1])
            if x[0] == 'ref': return pure(x[2])
            if x[0] == 'unary' and x[1] == '*': return pure(x[2])
            if x[0] == 'mcall' and x[2] in ('as_ptr', 'borrow') and not x[4]: return pure(x[1])
            return False
        if isinstance(nb, tuple) and nb[0] == 'block' and nb[2] is not None and all(st[0] == 'let' and isinstance(st[1], str) and st[1].strip().isidentifier() and st[3] is not None and pure(st[3]) for st in nb[1]):
            tt = nb[2]
            for st in reversed(nb[1]): tt = canon._subst(tt, st[1].strip(), ('paren', st[3]))
            stm = []; t = tt
    t = unwrap(t)
    opname = meth.split('::')[0] if '::' not in meth else meth
    # plain delegation by operator
    def deleg_binop(e, want, l='self', r='other'):
        e = unwrap(e)
        return e[0] == 'binary' and BINOPS.get(e[1]) == want and pointee_of(e[2], l) and pointee_of(e[3], r)
    if ty == 'ArcUnion' and meth == 'eq':
        txt = toks_text(fn.body).replace(' ', '')
        exp = 'usecrate::ArcUnionBorrow::*;match(self.borrow(),other.borrow()){(First(x),First(y))=>x==y,(Second(x),Second(y))=>x==y,(_,_)=>false,}'
        if txt == exp: return 'FUnionMatch'
        try:
            import canon
            exp_src = 'use crate::ArcUnionBorrow::*; match (self.borrow(), other.borrow()) { (First(x), First(y)) => x == y, (Second(x), Second(y)) => x == y, (_, _) => false, }'
            return 'FUnionMatch' if canon.canon(fn.body, ['other']) == canon.canon(lex(exp_src), ['other']) else 'FUnknownForm'
        except Exception:
            return 'FUnknownForm'
    if stm: return 'FUnknownForm'
    if meth in BINOPS.values():
        if deleg_binop(t, meth): return 'FDeleg'
        if t[0] == 'binary' and t[1] == '||' and is_ptr_eq(t[2]) and deleg_binop(t[3], meth): return 'FPtrEqOr'
        if t[0] == 'binary' and t[1] == '&&':
            n = unwrap(t[2])
            if n[0] == 'unary' and n[1] == '!' and is_ptr_eq(n[2]) and deleg_binop(t[3], meth): return 'FNotPtrEqAnd'
    if meth in ('partial_cmp', 'cmp'):
        if t[0] == 'mcall' and t[2] == meth and pointee_of(t[1], 'self') and len(t[4]) == 1 and ref_pointee_of(t[4][0], 'other'): return 'FDeleg'
        # tuple of field references
        if t[0] == 'mcall' and t[2] == meth and len(t[4]) == 1:
            def fields(e, who):
                e = unwrap(e)
                if e[0] == 'ref': e = unwrap(e[2])
                if e[0] != 'tuple': return None
                out = []
                for x in e[1]:
                    x = unwrap(x)
                    if x[0] != 'ref': return None
                    y = unwrap(x[2]); path = []
                    while y[0] == 'field': path.append(y[2]); y = unwrap(y[1])
                    if not is_path(y, who): return None
                    out.append({('header', 'header'): 'FldHeader', ('slice',): 'FldSlice', ('length', 'header'): 'FldLen'}.get(tuple(path)))
                return out
            a = fields(t[1], 'self'); b = fields(t[4][0], 'other')
            if a is not None and a == b and None not in a: return '(FTuple [%s])' % '; '.join(a)
    if meth == 'hash':
        if t[0] == 'mcall' and t[2] == 'hash' and pointee_of(t[1], 'self') and len(t[4]) == 1 and is_path(unwrap(t[4][0]), 'state'): return 'FDeleg'
    if meth in ('Debug::fmt', 'Display::fmt'):
        tr = meth.split('::')[0]
        if t[0] == 'call' and (call_path(t) or '') == 'fmt::%s::fmt' % tr and len(t[2]) == 2 and is_path(unwrap(t[2][1]), 'f'):
            if ref_pointee_of(t[2][0], 'self'): return 'FDeleg'
            a0 = unwrap(t[2][0])
            if a0[0] == 'ref':
                x = unwrap(a0[2])
                if x[0] == 'mcall' and x[2] == 'borrow' and is_path(unwrap(x[1]), 'self') and not x[4]: return 'FViaBorrow'
    if meth in ('borrow', 'as_ref') and is_path(t, 'self'): return 'FDeleg'
    # ThinArc: ThinArc::with_arc(self, |a| ThinArc::with_arc(other, |b| <inner>))
    if t[0] == 'call' and (call_path(t) or '') == 'ThinArc::with_arc' and len(t[2]) == 2 and is_path(unwrap(t[2][0]), 'self'):
        c1 = unwrap(t[2][1])
        if c1[0] == 'closure' and len(c1[1]) == 1:
            a = c1[1][0].strip(); inner = unwrap(c1[2])
            if meth == 'hash' and inner[0] == 'mcall' and inner[2] == 'hash' and is_path(unwrap(inner[1]), a) and len(inner[4]) == 1 and is_path(unwrap(inner[4][0]), 'state'):
                return 'FViaArc'
            if inner[0] == 'call' and (call_path(inner) or '') == 'ThinArc::with_arc' and len(inner[2]) == 2 and is_path(unwrap(inner[2][0]), 'other'):
                c2 = unwrap(inner[2][1])
                if c2[0] == 'closure' and len(c2[1]) == 1:
                    b = c2[1][0].strip(); e = unwrap(c2[2])
                    if meth == 'eq' and e[0] == 'binary' and e[1] == '==':
                        l = unwrap(e[2]); r = unwrap(e[3])
                        if l[0] == 'unary' and l[1] == '*' and is_path(unwrap(l[2]), a) and r[0] == 'unary' and r[1] == '*' and is_path(unwrap(r[2]), b): return 'FViaArc'
                    if meth in ('partial_cmp', 'cmp') and e[0] == 'mcall' and e[2] == meth and is_path(unwrap(e[1]), a) and len(e[4]) == 1 and is_path(unwrap(e[4][0]), b):
                        return 'FViaArc'
    return 'FUnknownForm'

def extract_cmp(src, facts, notes):
    table = {}
    for f, items in src.items.items():
        for it in walk_items(items):
            if it.kind != 'impl': continue
            info = src.impl_info(it)
            if not info or info['trait'] is None: continue
            tr = type_text(info['trait']).replace(' ', ''); st = type_text(info['self_ty']).replace(' ', '')
            trn = tr.split('<')[0].split('::')[-1]
            if trn not in ('PartialEq', 'PartialOrd', 'Ord', 'Hash', 'Debug', 'Display', 'Borrow', 'AsRef'): continue
            if it.cfg_test(): continue
            head = st.split('<')[0]
            if head == 'HeaderSlice':
                head = 'HeaderSliceWithLength' if st.startswith('HeaderSlice<HeaderWithLength<') else 'HeaderSlice'
            for c in it.children:
                if c.kind != 'fn': continue
                m = c.name
                if trn in ('Debug', 'Display') and m == 'fmt': m = trn + '::fmt'
                try:
                    form = classify_cmp(head, m, c, private_helpers(src, f, None), caller_param_types(src, it, c))
                except (IndexError, TypeError, KeyError):
                    form = 'FUnknownForm'
                table[(head, m)] = form
    rows = [(k, table.pop(k)) for k in CMP_KEY_ORDER if k in table]
    rows += sorted(table.items())          # anything unexpected comes last (and breaks the comparison with the expected table)
    facts['cmp'] = dict(rows=[[k[0], k[1], v] for k, v in rows])
    # derives that the model relies on
    S = facts.get('structs', {})
    facts['cmp']['derives'] = dict((d['name'], sorted(d.get('derives', []))) for d in S.get('decls', [])) if isinstance(S, dict) and 'decls' in S else {}

def emit_cmp(C):
    out = ['(* --- comparison / hash / format impls, classified --- *)']
    out.append('Definition cmp_impls : impls :=\n  ' + coq_list(['(%s, %s, %s)' % (coq_str(t), coq_str(m), f) for t, m, f in C['rows']], ';\n   ') + '.')
    return out

# ----------------------------------------------------------------------------
# serde impls (C17): the four bodies as small ASTs; closed world of serde impls
# ----------------------------------------------------------------------------
def ser_body(fn):
    """(sbody text, code for the case prefix)"""
    b = fn_body(fn)
    if b[1] or b[2] is None: return 'SOther', 0
    def classify(e):
        e = strip(e)
        if e[0] == 'mcall' and e[2] == 'serialize' and len(e[4]) == 1 and is_path(strip(e[4][0]), 'serializer'):
            r = strip(e[1]); n = 0
            while True:
                if r[0] == 'unary' and r[1] == '*': n += 1; r = strip(r[2])
                elif r[0] == 'unary' and r[1] == '&' and n == 0: r = strip(r[2])      # (&**self).serialize(..): auto-ref'd anyway
                elif r[0] == 'ref' and n == 0: r = strip(r[-1])
                else: break
            if is_path(r, 'self') and 1 <= n <= 9: return 'SDelegate %d' % n, n
            return None
        if e[0] == 'call' and (call_path(e) or '').endswith('::serialize') and len(e[2]) == 2 and is_path(strip(e[2][1]), 'serializer'):
            # T::serialize(&**self, serializer)
            r = strip(e[2][0]); n = 0
            if r[0] in ('ref',) : r = strip(r[-1])
            elif r[0] == 'unary' and r[1] == '&': r = strip(r[2])
            else: return None
            while r[0] == 'unary' and r[1] == '*': n += 1; r = strip(r[2])
            if is_path(r, 'self') and 1 <= n <= 9 and (call_path(e) or '').split('::')[0] in ('T', 'Serialize'): return 'SDelegate %d' % n, n
            return None
        if e[0] == 'mcall' and e[2] == 'serialize_newtype_struct' and is_path(strip(e[1]), 'serializer') and len(e[4]) == 2:
            inner = strip(e[4][1]); n = 0
            if inner[0] == 'unary' and inner[1] == '&': inner = strip(inner[2])
            elif inner[0] == 'ref': inner = strip(inner[-1])
            while inner[0] == 'unary' and inner[1] == '*': n += 1; inner = strip(inner[2])
            if is_path(inner, 'self') and n == 2: return 'SNewtype 99 (SDelegate 2)', 109
        return None
    try:
        r = classify(b[2])
    except (IndexError, TypeError):
        r = None
    return r if r else ('SOther', 0)

def de_body(fn, body=None):
    b = fn_body(fn) if body is None else body
    if b[1] or b[2] is None: return 'DOther', 0
    CT = {'Arc::new': ('CArcNew', 0), 'UniqueArc::new': ('CUniqueNew', 1), 'Self::new': None}
    def ctor_of(e, self_head):
        e = strip(e)
        if e[0] == 'path':
            p = '::'.join(e[1])
            if p == 'Self::new': p = self_head + '::new'
            if p in ('Arc::new', 'UniqueArc::new'): return CT[p]
        if e[0] == 'closure':
            return None
        return ('COtherCtor', 9)
    def is_tdeser(e):
        e = strip(e)
        return e[0] == 'call' and (call_path(e) or '') in ('T::deserialize', 'Deserialize::deserialize', '<T as Deserialize>::deserialize') and len(e[2]) == 1 and is_path(strip(e[2][0]), 'deserializer')
    def classify(e, self_head):
        e = strip(e)
        if e[0] == 'mcall' and e[2] == 'map' and len(e[4]) == 1 and is_tdeser(e[1]):
            c = ctor_of(e[4][0], self_head)
            if c is None: return None
            return ('DMap %s' % c[0], {0: 1, 1: 2, 9: 5}[c[1]])
        if e[0] == 'call' and (call_path(e) or '') == 'Ok' and len(e[2]) == 1:
            inner = strip(e[2][0])
            if inner[0] == 'call' and len(inner[2]) == 1:
                a = strip(inner[2][0])
                if a[0] == 'try' and is_tdeser(a[1]):
                    c = ctor_of(inner[1], self_head)
                    if c is None: return None
                    return ('DTry %s' % c[0], {0: 3, 1: 4, 9: 5}[c[1]])
        return None
    return classify

def extract_serde(src, facts, notes):
    S = dict(impls=[], ser_arc=('SOther', 0), ser_uniq=('SOther', 0), de_arc=('DOther', 0), de_uniq=('DOther', 0))
    for f, items in src.items.items():
        for it in walk_items(items):
            if it.kind != 'impl' or it.cfg_test(): continue
            info = src.impl_info(it)
            if not info or info['trait'] is None: continue
            tr = type_text(info['trait']).replace(' ', ''); st = type_text(info['self_ty']).replace(' ', '')
            trn = tr.split('<')[0].split('::')[-1]
            if trn not in ('Serialize', 'Deserialize'): continue
            head = st.split('<')[0]
            S['impls'].append([f, trn, st])
            fns = [c for c in it.children if c.kind == 'fn']
            if len(fns) != 1 or st not in ('Arc<T>', 'UniqueArc<T>'): continue
            try:
                if trn == 'Serialize' and fns[0].name == 'serialize':
                    S['ser_arc' if head == 'Arc' else 'ser_uniq'] = ser_body(fns[0])
                elif trn == 'Deserialize' and fns[0].name == 'deserialize':
                    b = fn_body(fns[0])
                    if b[1]:
                        # `let v = T::deserialize(d)?; Ok(Arc::new(v))` and the like: the normal form of the body
                        import canon
                        nb = canon.normalise(b, ())
                        b = nb if (isinstance(nb, tuple) and nb and nb[0] == 'block') else ('block', [], nb)
                    r = None
                    if not b[1] and b[2] is not None:
                        r = de_body(fns[0], b)(b[2], head) if callable(de_body(fns[0], b)) else None
                    S['de_arc' if head == 'Arc' else 'de_uniq'] = r if r else ('DOther', 0)
            except (ParseError, IndexError, TypeError, KeyError) as ex:
                notes.append('serde: %s %s for %s: %s' % (f, trn, st, ex))
    S['impls'].sort()
    S['closed'] = S['impls'] == [['arc.rs', 'Deserialize', 'Arc<T>'], ['arc.rs', 'Serialize', 'Arc<T>'], ['unique_arc.rs', 'Deserialize', 'UniqueArc<T>'], ['unique_arc.rs', 'Serialize', 'UniqueArc<T>']]
    S['codes'] = [S['ser_arc'][1], S['ser_uniq'][1], S['de_arc'][1], S['de_uniq'][1]]
    facts['serde'] = S

def emit_serde(S):
    out = ['(* --- serde impls --- *)']
    out.append('Definition ser_arc_body : sbody := %s.' % S['ser_arc'][0])
    out.append('Definition ser_uniq_body : sbody := %s.' % S['ser_uniq'][0])
    out.append('Definition de_arc_body : dbody := %s.' % S['de_arc'][0])
    out.append('Definition de_uniq_body : dbody := %s.' % S['de_uniq'][0])
    out.append('Definition serde_impls_closed : bool := %s.' % ('true' if S['closed'] else 'false'))
    out.append('Definition serde_body_codes : list N := [%s].' % '; '.join(str(c) for c in S['codes']))
    return out

# ----------------------------------------------------------------------------
# auto-trait impls and borrow signatures (C13)
# ----------------------------------------------------------------------------
def bounds_of(blist):
    out = []
    for b in blist:
        if b[0] == 'bmaybe' and b[1] == 'Sized': out.append('BMaybeSized')
        elif b[0] == 'btrait' and b[1][0] == 'tpath' and b[1][1][-1] in ('Send', 'Sync') and not b[1][2]: out.append('B' + b[1][1][-1])
        elif b[0] == 'blifetime': pass
        else: out.append('BOtherBound')
    return out

def extract_traits(src, facts, notes):
    T = dict(auto=[], sigs=[], markers={})
    # lifetime parameters of the crate's types (structs and enums)
    ltparams = {}
    for f, items in src.items.items():
        for it in walk_items(items):
            if it.kind in ('struct', 'enum'):
                try:
                    cur = Cur(it.header); cur.next(); cur.next()
                    g = parse_generic_params(skip_angle(cur)) if cur.at('<') else []
                    ltparams[it.name] = len([x for x in g if x[0] == 'lifetime'])
                except ParseError:
                    ltparams[it.name] = 0
    # ---- unsafe impl Send/Sync
    for f, items in src.items.items():
        for it in walk_items(items):
            if it.kind != 'impl' or it.cfg_test(): continue
            info = src.impl_info(it)
            if not info or info['trait'] is None: continue
            tr = type_text(info['trait']).replace(' ', '')
            if tr not in ('Send', 'Sync'): continue
            st = info['self_ty']
            head = st[1][-1] if st[0] == 'tpath' else type_text(st)
            gmap = dict((g[1], bounds_of(g[2])) for g in info['generics'] if g[0] == 'type')
            for w in info['where']:
                if w[0] in gmap: gmap[w[0]] += bounds_of(w[1])
                else: gmap.setdefault('?where', []).append('BOtherBound')
            params = []
            for a in (st[2] if st[0] == 'tpath' else []):
                if a[0] == 'tlifetime': continue
                if a[0] == 'tpath' and len(a[1]) == 1 and not a[2] and a[1][0] in gmap: params.append(gmap[a[1][0]])
                else: params.append(['BOtherBound'])
            if '?where' in gmap: params = [p + ['BOtherBound'] for p in params]
            T['auto'].append(dict(file=f, head=head, trait=tr, params=params, neg=bool(info.get('neg')), unsafe=bool(info.get('unsafe'))))
    T['auto'].sort(key=lambda d: (d['head'], d['trait']))
    # ---- PhantomData<T> markers of the owning handles (dropck: the handle owns its payload)
    S = facts.get('structs', {})
    for name in ('Arc', 'ThinArc', 'OffsetArc', 'ArcUnion', 'ArcBorrow'):
        d = S.get(name)
        if not d: T['markers'][name] = False; continue
        tparams = [g[1] for g in d['generics'] if g[0] == 'type']
        ph = ' '.join(type_text(ty).replace(' ', '') for nm, vis, ty in d['fields'] if type_text(ty).replace(' ', '').startswith('PhantomData<'))
        if name == 'ArcBorrow':
            T['markers'][name] = "PhantomData<&'aT>" in ph
        else:
            T['markers'][name] = all(re.search(r'[<(,]%s[>),]' % re.escape(tp), ph) for tp in tparams) and bool(tparams)
    d = S.get('UniqueArc')
    T['markers']['UniqueArc'] = bool(d) and [type_text(ty).replace(' ', '') for nm, vis, ty in d['fields']] == ['Arc<T>']
    # ---- signatures
    def lts_of(ty, names, self_ty):
        """lifetimes occurring in a type, in order"""
        if ty is None: return []
        k = ty[0]
        if k == 'tref':
            l = ty[1]
            me = 'LElided' if l in (None, "'_") else ('LStatic' if l == "'static" else ('(LVar %d)' % names[l] if l in names else '(LVar 999)'))
            return [me] + lts_of(ty[3], names, self_ty)
        if k == 'tpath':
            if ty[1] == ['Self'] and self_ty is not None: return lts_of(self_ty, names, None)
            out = []
            head = ty[1][-1]
            explicit = [a for a in ty[2] if a[0] == 'tlifetime']
            for a in explicit:
                l = a[1]
                out.append('LElided' if l == "'_" else ('LStatic' if l == "'static" else ('(LVar %d)' % names[l] if l in names else '(LVar 999)')))
            for _ in range(max(0, ltparams.get(head, 0) - len(explicit))): out.append('LElided')
            for a in ty[2]:
                if a[0] != 'tlifetime': out += lts_of(a, names, self_ty)
            return out
        if k in ('tslice', 'tarray'): return lts_of(ty[1], names, self_ty)
        if k == 'ttuple': return [x for t in ty[1] for x in lts_of(t, names, self_ty)]
        if k == 'tfntrait': return [x for t in ty[2] for x in lts_of(t, names, self_ty)] + lts_of(ty[3], names, self_ty)
        return []
    for f, imp, fn in src.fns:
        if fn.cfg_test() or (imp is not None and imp.cfg_test()): continue
        p = fn.parent
        skip = False
        while p is not None:
            if p.cfg_test(): skip = True
            p = p.parent
        if skip: continue
        try:
            sig = parse_fn_sig(fn.header)
        except ParseError as ex:
            notes.append('traits: signature of %s: %s' % (fn.name, ex)); continue
        info = src.impl_info(imp) if imp is not None else None
        is_trait_impl = bool(info and info['trait'] is not None)
        if 'unsafe' in sig['quals']: continue
        if not is_trait_impl and fn.vis != 'pub': continue
        names = {}
        impl_lts = []
        if info:
            for g in info['generics']:
                if g[0] == 'lifetime': names[g[1]] = len(names); impl_lts.append(names[g[1]])
        for g in sig['generics']:
            if g[0] == 'lifetime': names[g[1]] = len(names)
        self_ty = info['self_ty'] if info else None
        ret = lts_of(sig['ret'], names, self_ty)
        cbs = []; cb_plain = True
        tparams = [g[1] for g in sig['generics'] if g[0] == 'type']
        blists = [g[2] for g in sig['generics'] if g[0] == 'type'] + [w[1] for w in sig['where']]
        has_cb = False
        for bl in blists:
            for b in bl:
                if b[0] == 'btrait' and b[1][0] == 'tfntrait':
                    has_cb = True
                    for a in b[1][2]: cbs += lts_of(a, names, self_ty)
                    r = b[1][3]
                    if r is not None and not (r[0] == 'tpath' and len(r[1]) == 1 and not r[2] and r[1][0] in tparams) and not (r[0] == 'ttuple' and not r[1]):
                        cb_plain = False
        if not ret and not has_cb: continue
        inputs = [lts_of(ty, names, self_ty) for pn, ty in sig['params']]
        self_ref = bool(sig['params']) and sig['params'][0][0] == 'self' and sig['params'][0][1][0] == 'tref'
        T['sigs'].append(dict(file=f, name=src.qual_name(imp, fn) + ('' if not is_trait_impl else ' (%s)' % type_text(info['trait']).replace(' ', '')),
                              impl_lts=impl_lts, inputs=inputs, self_ref=self_ref, ret=ret, cb=cbs, cb_plain=cb_plain))
    T['sigs'].sort(key=lambda d: (d['file'], d['name']))
    facts['traits'] = T

def emit_traits(T):
    out = ['(* --- unsafe impl Send/Sync (closed world) and the signatures of every safe fn that returns a borrow or takes a callback --- *)']
    rows = ['mkAI %s %s %s' % (coq_str(a['head']), 'TrSend' if a['trait'] == 'Send' else 'TrSync', coq_list([coq_list(p) for p in a['params']]))
            for a in T['auto'] if not a['neg']]
    out.append('Definition auto_impls : list auto_impl :=\n  ' + coq_list(rows, ';\n   ') + '.')
    out.append('Definition negative_auto_impls : nat := %d.' % len([a for a in T['auto'] if a['neg']]))
    rows = ['(%s, mkSig %s %s %s %s %s %s)' % (coq_str(s['name']), coq_list(['%d' % x for x in s['impl_lts']]), coq_list([coq_list(i) for i in s['inputs']]),
                                               'true' if s['self_ref'] else 'false', coq_list(s['ret']), coq_list(s['cb']), 'true' if s['cb_plain'] else 'false')
            for s in T['sigs']]
    out.append('Definition borrow_sigs : list (string * sig) :=\n  ' + coq_list(rows, ';\n   ') + '.')
    out.append('Definition owning_markers_ok : bool := %s.' % ('true' if T['markers'] and all(T['markers'].values()) else 'false'))
    return out

# ----------------------------------------------------------------------------
# driver
# ----------------------------------------------------------------------------
HEADER = '''(* GENERATED by tools/extract.py from %s -- do not edit.
   source digest: %s *)
From Coq Require Import NArith List String.
From TV Require Import Layout SrcFacts Bits Conc ConcX Guard Cmp Serde Traits.
Import ListNotations.
Open Scope N_scope.
'''

# ----------------------------------------------------------------------------
# where owning handles and borrows are rebuilt from raw pointers: the provenance class of the pointer (C11, C12)
# ----------------------------------------------------------------------------
PROV_SINKS = ('Arc::from_raw', 'Self::from_raw', 'Arc::from_raw_slice', 'ArcBorrow::from_ptr', 'ThinArc::from_raw')
def prov_class(e, env, params, depth=0):
    """PParam: a parameter of the enclosing function (the caller's pointer, passed on); PStored: the pointer a handle or
    borrow stores (NonNull field, as_ptr / into_raw of an Arc, a copy of a stored NonNull), possibly cast, masked through
    an integer, or moved by a byte offset; PRef: derived from a reference to the value (`&*x`, `&**x`, NonNull::from(&..),
    as_ref()): such a pointer has no provenance over the count in front of the value; PUnknownProv: anything else"""
    e = strip(e)
    if e is None or depth > 8: return 'PUnknownProv'
    k = e[0]
    if k == 'path' and len(e[1]) == 1:
        n = e[1][0]
        if n in env: return prov_class(env[n], dict((a, b) for a, b in env.items() if a != n), params, depth + 1)
        if n in params: return 'PParam'
        return 'PUnknownProv'
    if k in ('cast', 'paren'): return prov_class(e[1], env, params, depth + 1)
    if k == 'ref': return 'PRef'
    if k == 'binary' and e[1] in ('&', '|'):
        a = prov_class(e[2], env, params, depth + 1)
        return a
    if k == 'field':
        # a stored NonNull (self.ptr / self.p / x.0) copied
        b = strip(e[1])
        if e[2] in ('ptr', 'p', '0') and b[0] == 'path' and len(b[1]) == 1: return 'PStored'
        if e[2] in ('ptr', 'p', '0') and b[0] == 'field': return 'PStored'
        return 'PUnknownProv'
    if k == 'mcall':
        if e[2] == 'as_ptr' and not e[4]:
            r = strip(e[1])
            if r[0] == 'field' and r[2] in ('ptr', 'p', '0'): return 'PStored'
            if r[0] == 'path' and len(r[1]) == 1: return 'PStored'          # self.as_ptr() / arc.as_ptr(): addr_of on the stored pointer
            return 'PUnknownProv'
        if e[2] in ('cast', 'cast_mut', 'cast_const', 'byte_sub', 'byte_add', 'add', 'sub', 'offset', 'replace_ptr'): return prov_class(e[1], env, params, depth + 1)
        if e[2] in ('as_ref', 'as_mut', 'deref', 'get'): return 'PRef'
        return 'PUnknownProv'
    if k == 'call':
        cp = call_path(e) or ''
        if cp in ('Arc::as_ptr', 'Arc::into_raw', 'Self::as_ptr', 'Self::into_raw', 'Arc::into_raw_inner') and len(e[2]) == 1: return 'PStored'
        if cp.endswith('NonNull::new_unchecked') and len(e[2]) == 1: return prov_class(e[2][0], env, params, depth + 1)
        if cp.endswith('NonNull::from') : return 'PRef'
        if cp.endswith('ManuallyDrop::new') and len(e[2]) == 1: return prov_class(e[2][0], env, params, depth + 1)
        return 'PUnknownProv'
    if k in ('unsafe', 'block'):
        b = e[1] if k == 'unsafe' else e
        if b[2] is not None:
            env2 = dict(env)
            for st in b[1]:
                if st[0] == 'let' and isinstance(st[1], str) and st[1].strip().isidentifier() and st[3] is not None: env2[st[1].strip()] = st[3]
            return prov_class(b[2], env2, params, depth + 1)
    return 'PUnknownProv'

def extract_prov(src, facts, notes):
    rows = []
    for f, imp, fn in src.fns:
        if fn.cfg_test() or any(a.replace(' ', '') == '#[test]' for a in fn.attrs): continue
        p = fn.parent
        in_test = False
        while p is not None:
            if p.cfg_test() or (p.kind == 'mod' and p.name == 'tests'): in_test = True
            p = p.parent
        if in_test: continue
        try:
            sig = parse_fn_sig(fn.header); body = fn_body(fn)
        except (ParseError, IndexError, TypeError):
            continue
        params = set()
        for pn, ty in sig['params']:
            pn = pn.strip()
            if pn.startswith('mut '): pn = pn[4:].strip()
            params.add(pn)
        qn = src.qual_name(imp, fn)
        sites = []
        def walk(e, env):
            # scoped: a `let` is visible to what follows it in its block (and in nested blocks)
            if isinstance(e, list):
                for x in e: walk(x, env)
                return
            if not isinstance(e, tuple) or not e: return
            if e[0] == 'block':
                env2 = dict(env)
                for st in e[1]:
                    if st[0] == 'let':
                        if st[3] is not None: walk(st[3], env2)
                        if isinstance(st[1], str) and st[1].strip().isidentifier() and st[3] is not None: env2[st[1].strip()] = st[3]
                    elif st[0] == 'expr': walk(st[1], env2)
                if e[2] is not None: walk(e[2], env2)
                return
            if e[0] == 'call':
                cp = call_path(e) or ''
                if cp in PROV_SINKS and len(e[2]) == 1: sites.append((cp.replace('Self::', qn.split('::')[0] + '::'), e[2][0], dict(env)))
                # a borrow built by hand: ArcBorrow(<NonNull>, PhantomData)
                if cp == 'ArcBorrow' and len(e[2]) == 2: sites.append(('ArcBorrow(..)', e[2][0], dict(env)))
            for x in e[1:]:
                if isinstance(x, (tuple, list)): walk(x, env)
        walk(body, {})
        for sink, arg, env in sites:
            rows.append([f, qn, sink, prov_class(arg, env, params)])
    # ordered by (file, sink): the property theorem compares that projection, so moving a site into a private helper
    # of the same file changes nothing
    rows.sort(key=lambda r: (r[0], r[2], r[3], r[1]))
    facts['prov'] = rows

def emit_prov(rows):
    out = ['(* --- where handles and borrows are rebuilt from raw pointers, and what the pointer was derived from --- *)']
    out.append('(* enclosing functions, in the same order: %s *)' % ', '.join(b for a, b, c, d in rows))
    out.append('Definition raw_sinks : list (string * string * string * prov) :=\n  ' + coq_list(['(%s, %s, %s, %s)' % (coq_str(a), coq_str(''), coq_str(c), d) for a, b, c, d in rows], ';\n   ') + '.')
    return out

def run(srcdir):
    src = Source(srcdir)
    facts = {}; notes = list(src.errors)
    extract_layout(src, facts, notes)
    extract_structs(src, facts, notes)
    extract_atomics(src, facts, notes)
    extract_protocol(src, facts, notes)
    extract_pointers(src, facts, notes)
    extract_cmp(src, facts, notes)
    extract_serde(src, facts, notes)
    extract_traits(src, facts, notes)
    extract_prov(src, facts, notes)
    import countprogs
    facts['count_progs'] = countprogs.extract_count_progs(src)
    facts['notes'] = notes
    h = hashlib.sha256()
    for f in sorted(os.listdir(srcdir)):
        if f.endswith('.rs'):
            h.update(f.encode()); h.update(open(os.path.join(srcdir, f), 'rb').read())
    facts['digest'] = h.hexdigest()
    lines = [HEADER % (srcdir, facts['digest'])]
    lines += emit_layout(facts['layout']); lines.append('')
    lines += emit_structs(facts['structs']); lines.append('')
    lines += emit_atomics(facts['atomics']); lines.append('')
    lines += emit_protocol(facts['protocol']); lines.append('')
    lines += emit_pointers(facts['pointers']); lines.append('')
    lines += emit_cmp(facts['cmp']); lines.append('')
    lines += emit_serde(facts['serde']); lines.append('')
    lines += emit_traits(facts['traits']); lines.append('')
    lines += emit_prov(facts['prov']); lines.append('')
    CP = facts['count_progs']
    lines.append('(* --- the counter protocol as programs: Arc::drop_inner, Arc::try_unique (through is_unique/count), the not-unique path of Arc::unwrap_or_clone --- *)')
    lines.append('Definition count_progs : progs := mkProgs %s %s %s.' % tuple(coq_list(['(%s)' % re.sub(r'^(IRetIf(?:Ne|Eq)) (\d+)$', r'\1 \2%nat', i) if ' ' in i else i for i in CP[k]]) for k in ('drop', 'uniq', 'uoc')))
    lines.append('')
    return facts, '\n'.join(lines) + '\n'

def jsonable(x):
    if isinstance(x, dict): return dict((k, jsonable(v)) for k, v in x.items())
    if isinstance(x, (list, tuple)): return [jsonable(v) for v in x]
    if isinstance(x, (str, int, float, bool)) or x is None: return x
    return repr(x)

def main():
    ap = argparse.ArgumentParser()
    ap.add_argument('--src', default='/repo/src')
    ap.add_argument('--out', default=os.path.join(os.path.dirname(os.path.abspath(__file__)), '..', 'coq', 'gen', 'Extracted.v'))
    ap.add_argument('--json', default=None)
    a = ap.parse_args()
    facts, text = run(a.src)
    out = os.path.abspath(a.out)
    os.makedirs(os.path.dirname(out), exist_ok=True)
    old = open(out).read() if os.path.exists(out) else None
    # the first comment line carries the digest; compare the rest so that unrelated source edits cost no rebuild
    def body(t): return t.split('*)', 1)[1] if t else None
    if old is None or body(old) != body(text):
        open(out, 'w').write(text)
        changed = True
    else:
        changed = False
    if a.json:
        json.dump(jsonable(facts), open(a.json, 'w'), indent=1, sort_keys=True)
    print('extract: %s (%s), %d notes' % (out, 'rewritten' if changed else 'unchanged', len(facts['notes'])))
    for n in facts['notes']:
        print('  note:', n)

if __name__ == '__main__':
    main()
