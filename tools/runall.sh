#!/bin/bash
# tools/runall.sh [tier] — run every registered check in order; prints one line per property
cd "$(dirname "$0")/.."
tier=${1:-quick}
rc=0
for p in C01 C02 C03 C04 C05 C06 C07 C08 C09 C10 C11 C12 C13 C14 C15 C16 C17; do
  ./check $p --tier $tier 2>&1 | grep -E "^(OK|VIOLATION|KNOWN-FINDING)" || rc=1
done
exit $rc
