#!/bin/bash
# tools/harmless.sh [patch ...] — apply each behaviour-preserving refactoring of harmless/ to /repo, run every quick check,
# report the checks that raise an alarm (none should), restore /repo and evidence/.
cd "$(dirname "$0")/.."
if ! git -C /repo diff --quiet; then echo "/repo has uncommitted changes; refusing"; exit 2; fi
rm -rf .cache/evidence.keep; cp -r evidence .cache/evidence.keep
trap 'pkill -P $$ 2>/dev/null; pkill -f tools/runall.sh 2>/dev/null; git -C /repo checkout -- . ; rm -rf evidence; mv .cache/evidence.keep evidence; echo "[harmless] /repo and evidence/ restored"' EXIT
for p in "${@:-harmless/*.diff}"; do
  for f in $p; do
    git -C /repo checkout -- .
    git -C /repo apply "$PWD/$f" || { echo "$f|does not apply"; continue; }
    alarms=$(tools/runall.sh 2>&1 | grep -E "^VIOLATION" | sed 's/ replay=[^ ]*//' | tr '\n' ';')
    echo "$(basename $f)|${alarms:-none}"
  done
done
