#!/usr/bin/env python3
"""Generator of handle-operation histories for the `mech` correspondence stream.

Every random choice comes from the `rng` passed in.  A light shadow of the
machine (kinds, modes, block ids, open callback frames) keeps most operations
applicable; a separate fraction of operations is deliberately malformed
(absent/consumed handle ids, inapplicable kinds).  Op codes: coq/theories/Mech.v `decode`."""
import random

SEP = 99999999

ARC_KINDS = {'Arc', 'ArcB', 'Fat', 'Prot', 'Erased', 'Dyn', 'MA', 'Slice', 'MAS', 'AH'}
UNIQ_KINDS = {'Uniq', 'MU', 'MUS', 'US', 'MUH', 'UH'}
RAW_KINDS = {'Raw', 'RawThin', 'RawSlice'}
CONV = {  # (code, from) -> to
    (0, 'Arc'): 'Raw', (1, 'Raw'): 'Arc', (2, 'Arc'): 'Off', (3, 'Off'): 'Arc', (4, 'Arc'): 'Un1', (5, 'ArcB'): 'Un2',
    (7, 'Fat'): 'Thin', (8, 'Thin'): 'Fat', (9, 'Thin'): 'RawThin', (10, 'RawThin'): 'Thin', (11, 'Arc'): 'Erased',
    (12, 'Erased'): 'Arc', (13, 'Uniq'): 'Arc', (13, 'US'): 'Slice', (13, 'UH'): 'AH', (13, 'MU'): 'MA', (13, 'MUS'): 'MAS',
    (15, 'Arc'): 'Dyn', (17, 'Slice'): 'RawSlice', (18, 'RawSlice'): 'Slice', (19, 'Thin'): 'Prot', (20, 'Prot'): 'Thin',
    (21, 'Arc'): 'Raw', (22, 'Raw'): 'Arc', (23, 'Thin'): 'RawThin', (24, 'RawThin'): 'Thin',
    (16, 'MU'): 'Uniq', (16, 'MA'): 'Arc', (16, 'MUS'): 'US', (16, 'MAS'): 'Slice', (16, 'MUH'): 'UH',
}
NEW = {0: 'Arc', 1: 'Uniq', 2: 'ArcB', 3: 'Fat', 4: 'Thin', 5: 'MU', 6: 'MA', 7: 'MUS', 8: 'MAS', 9: 'MUH', 10: 'Slice', 11: 'AH'}
CLONE_RES = {'Off': 'Off', 'Thin': 'Thin', 'Un1': 'Un1', 'Un2': 'Un2'}
BEGIN = {(0, 'Thin'): ('Fat', 'S'), (1, 'Thin'): ('Prot', 'M'), (2, 'Off'): ('Arc', 'S'), (3, 'Arc'): ('Off', 'S'),
         (4, 'Arc'): ('Arc', 'S'), (4, 'Off'): ('Arc', 'S')}


class Shadow(object):
    def __init__(self):
        self.t = []         # entries: None | [kind, block, mode]
        self.frames = []    # (h, prev kind, prev mode)
        self.nblocks = 0
        self.ncells = {}    # block -> number of cells
        self.written = {}   # block -> set of written slots (uninit blocks)

    def live(self, pred=lambda e: True):
        return [i for i, e in enumerate(self.t) if e is not None and pred(e)]

    def owners(self, b):
        return sum(1 for e in self.t if e is not None and e[1] == b)


def gen_history(rng, length, malformed=0.06, focus=None):
    """focus: None or a set of tags biasing the op mix ('thin', 'uninit', 'union', 'unique', 'with', 'raw')."""
    S = Shadow()
    ops = []
    focus = focus or set()

    def any_handle():
        if S.t and rng.random() > 0.15:
            l = S.live()
            if l: return rng.choice(l)
        return rng.randrange(0, max(1, len(S.t) + 2))

    def pick(kinds=None, modes=None):
        l = S.live(lambda e: (kinds is None or e[0] in kinds) and (modes is None or e[2] in modes))
        return rng.choice(l) if l else None

    def new_op():
        w = {0: 6, 1: 2, 2: 2, 3: 3, 4: 3, 5: 1, 6: 1, 7: 1, 8: 1, 9: 1, 10: 2, 11: 2}
        if 'thin' in focus: w[3] += 6; w[4] += 8
        if 'uninit' in focus:
            for c in (5, 6, 7, 8, 9): w[c] += 5
        if 'union' in focus: w[0] += 4; w[2] += 6
        if 'unique' in focus: w[0] += 6; w[1] += 4
        c = rng.choices(list(w), weights=list(w.values()))[0]
        n = rng.choice([0, 1, 1, 2, 2, 3, 4, 7])
        r = n
        if c == 3 and rng.random() < 0.25:
            r = rng.choice([n + 1, max(0, n - 1) if n > 0 else 5, 0 if n else 3, 2 ** 40])
        ops.append([0, c, n, r])
        ln = 1 if c in (0, 1, 2, 5, 6) else n
        S.t.append([NEW[c], S.nblocks, 'O'])
        S.ncells[S.nblocks] = ln
        S.written[S.nblocks] = set()
        S.nblocks += 1

    for _ in range(length):
        if rng.random() < malformed:
            code = rng.choice([20, 21, 22, 23, 24, 25, 26, 27, 28, 29, 30, 31, 32, 33, 34, 36, 37, 38, 40, 47, 41, 42, 43, 44, 45, 46, 48])
            h = any_handle()
            if code in (23, 25): ops.append([code, rng.randrange(0, 26), h])
            elif code in (34, 35, 36, 38, 40, 47, 44, 45): ops.append([code, h, rng.randrange(0, 3)])
            elif code == 41: ops.append([41, rng.randrange(0, 6), h])
            elif code in (42, 43): ops.append([code])
            else: ops.append([code, h])
            # shadow is not updated for malformed ops: they may desynchronise it slightly, which is fine
            continue
        if not S.live() or rng.random() < 0.10:
            new_op(); continue
        choice = rng.random()
        h = rng.choice(S.live())
        k, b, m = S.t[h]
        if choice < 0.16:          # clone
            if k in ARC_KINDS or k in CLONE_RES:
                ops.append([20, h]); S.t.append([CLONE_RES.get(k, k), b, 'O'])
            else:
                ops.append([20, h])
        elif choice < 0.30:        # drop
            ops.append([21, h])
            if m == 'O' and k not in RAW_KINDS and k != 'Forgotten': S.t[h] = None
        elif choice < 0.32:
            ops.append([22, h])
            if m == 'O' and k not in RAW_KINDS and k != 'Forgotten': S.t[h][0] = 'Forgotten'
        elif choice < 0.50:        # conversion applicable to this kind
            cands = [c for (c, f) in CONV if f == k]
            if cands and m == 'O':
                c = rng.choice(cands)
                if c == 16 and len(S.written[b]) < S.ncells[b] and rng.random() < 0.8:
                    # write the missing slots first
                    i = rng.choice([x for x in range(S.ncells[b]) if x not in S.written[b]])
                    if k in ('MU', 'MUS', 'MUH'): ops.append([40, h, i]); S.written[b].add(i)
                    else:
                        ops.append([38, h, i])
                        if S.owners(b) == 1: S.written[b].add(i)
                    continue
                if c == 16 and k in ('MA', 'MAS') and len(S.written[b]) >= S.ncells[b] and rng.random() < 0.35:
                    # a fully written uninitialised Arc is shared before it is assumed initialised (assume_init is a
                    # pure type change: it must not care)
                    ops.append([20, h]); S.t.append([k, b, 'O'])
                    continue
                ops.append([23, c, h])
                if c == 16:
                    if len(S.written[b]) >= S.ncells[b]: S.t[h][0] = CONV[(c, k)]
                elif c == 7:
                    S.t[h][0] = 'Thin'   # may panic in the implementation (recorded length); shadow drifts, fine
                else:
                    S.t[h][0] = CONV[(c, k)]
            else:
                ops.append([23, rng.randrange(0, 25), h])
        elif choice < 0.55:
            ops.append([24, h])
            if k in ('Arc', 'Off', 'Un1'): S.t.append(['Arc', b, 'O'])
            elif k in ('ArcB', 'Un2'): S.t.append(['ArcB', b, 'O'])
        elif choice < 0.66:
            ops.append([25, rng.choice([0, 1, 1, 2]), h])
        elif choice < 0.69:
            ops.append([26, h])
        elif choice < 0.75:
            ops.append([27, h])
        elif choice < 0.78:
            ops.append([28, h])
        elif choice < 0.86:        # uniqueness-gated family
            code = rng.choice([29, 29, 30, 31, 32, 33, 34, 34, 35, 36, 37, 47])
            pf = 1 if rng.random() < 0.2 else 0
            want = {29: ARC_KINDS - {'MA', 'MAS'}, 30: {'Arc'}, 31: {'Arc'}, 32: {'Arc'}, 33: {'Arc'}, 34: {'Arc', 'Off'}, 35: {'Arc'},
                    36: {'Arc'}, 37: {'Uniq'}, 47: {'Uniq', 'US', 'UH'}}[code]
            if rng.random() < 0.85:
                hh = pick(want)
                if hh is not None:
                    h = hh; k, b, m = S.t[h]
            if code in (34, 35, 36): ops.append([code, h, pf])
            elif code == 47: ops.append([47, h, rng.randrange(0, 3)])
            else: ops.append([code, h])
            uniq = S.owners(b) == 1
            if m == 'O':
                if code in (31, 33) and k == 'Arc' and uniq: S.t[h][0] = 'Uniq'
                elif code == 32 and k == 'Arc' and uniq: S.t[h] = None
                elif code == 36 and k == 'Arc': S.t[h] = None
                elif code == 37 and k == 'Uniq': S.t[h] = None
            if code in (34, 35) and k in ('Arc', 'Off') and m != 'S' and not uniq and not pf:
                S.t[h][1] = S.nblocks; S.ncells[S.nblocks] = 1; S.written[S.nblocks] = set(); S.nblocks += 1
        elif choice < 0.90:        # uninit writes
            if rng.random() < 0.85:
                hh = pick({'MA', 'MAS', 'MU', 'MUS', 'MUH'})
                if hh is not None:
                    h = hh; k, b, m = S.t[h]
            i = rng.randrange(0, max(1, S.ncells.get(b, 1) + 1))
            if k in ('MA', 'MAS'):
                ops.append([38, h, i])
                if S.owners(b) == 1 and i < S.ncells[b]: S.written[b].add(0 if k == 'MA' else i)
            elif k in ('MU', 'MUS', 'MUH'):
                ops.append([40, h, i])
                if k == 'MU': S.written[b].add(0)
                elif i < S.ncells[b]: S.written[b].add(i)
            else:
                ops.append([rng.choice([38, 40]), h, i])
        elif choice < 0.96:        # callbacks
            r = rng.random()
            if S.frames and r < 0.45:
                ops.append([42]); fh, pk, pm = S.frames.pop()
                if S.t[fh] is not None: S.t[fh][0] = pk; S.t[fh][2] = pm
            elif S.frames and r < 0.55:
                ops.append([43])
                while S.frames:
                    fh, pk, pm = S.frames.pop()
                    if S.t[fh] is not None: S.t[fh][0] = pk; S.t[fh][2] = pm
                # the model skips up to the matching OEnds: close them right away most of the time
            else:
                cands = [w for (w, f) in BEGIN if f == k]
                if cands and not (1 in cands and m != 'O' and len(cands) == 1):
                    w = rng.choice(cands)
                    if w == 1 and m != 'O': w = 0
                    ops.append([41, w, h]); vk, vm = BEGIN[(w, k)]
                    S.frames.append((h, k, m)); S.t[h][0] = vk; S.t[h][2] = vm
                else:
                    ops.append([41, rng.randrange(0, 5), h]); ops.append([42])
        elif choice < 0.98:        # replace / assign inside with_arc_mut
            hp = pick({'Prot'}, {'M'}); ht = pick({'Thin'}, {'O'})
            if hp is not None and ht is not None:
                code = rng.choice([44, 45]); ops.append([code, hp, ht])
                if code == 44: S.t[hp][1], S.t[ht][1] = S.t[ht][1], S.t[hp][1]
                else: S.t[hp][1] = S.t[ht][1]; S.t[ht] = None
            else:
                ops.append([rng.choice([44, 45]), any_handle(), any_handle()])
        else:
            hh = pick({'Un1', 'Un2'})
            ops.append([46, hh if hh is not None and rng.random() < 0.8 else h])
    # close callbacks most of the time
    if rng.random() < 0.8:
        for _ in S.frames: ops.append([42])
    return ops


def gen_cases(rng, n, minlen=8, maxlen=120, prefix='M'):
    cases = []
    focuses = [None, {'thin', 'with'}, {'uninit'}, {'union'}, {'unique'}, {'thin'}, None]
    for i in range(n):
        ln = rng.randrange(minlen, maxlen)
        cases.append(('%s%d' % (prefix, i), gen_history(rng, ln, focus=focuses[i % len(focuses)])))
    return cases


def split_obs(o):
    """observation -> (status, rets, events) ; final lines have no separator"""
    if SEP in o:
        k = o.index(SEP)
        return o[0], o[1:k], o[k + 1:]
    return None, o, []


def parse_events(ev):
    """flat event codes -> list of tuples"""
    out = []; i = 0
    ar = {1: 1, 2: 1, 3: 2, 4: 1, 5: 2, 6: 0, 7: 5, 8: 0, 9: 1, 10: 0, 11: 1, 13: 0}
    while i < len(ev):
        c = ev[i]
        n = ar.get(c)
        if n is None: out.append(('?', ev[i:])); break
        out.append(tuple([c] + ev[i + 1:i + 1 + n])); i += 1 + n
    return out


# ----------------------------------------------------------------------------
# systematic scenarios: every operation on every handle kind, sole owner and shared in several ways,
# followed by reads/counts through every remaining handle and by releasing everything
# ----------------------------------------------------------------------------
RECIPES = {
    'Arc': [[0, 0, 0, 0]], 'Uniq': [[0, 1, 0, 0]], 'ArcB': [[0, 2, 0, 0]], 'Fat': [[0, 3, 2, 2]], 'FatBad': [[0, 3, 2, 5]],
    'Fat0': [[0, 3, 0, 0]], 'Thin': [[0, 4, 2, 0]], 'Thin0': [[0, 4, 0, 0]], 'MU': [[0, 5, 0, 0]], 'MA': [[0, 6, 0, 0]],
    'MUS': [[0, 7, 2, 0]], 'MAS': [[0, 8, 2, 0]], 'MUH': [[0, 9, 2, 0]], 'Slice': [[0, 10, 2, 0]], 'Slice0': [[0, 10, 0, 0]], 'AH': [[0, 11, 2, 0]],
    'Off': [[0, 0, 0, 0], [23, 2, 0]], 'Un1': [[0, 0, 0, 0], [23, 4, 0]], 'Un2': [[0, 2, 0, 0], [23, 5, 0]],
    'Raw': [[0, 0, 0, 0], [23, 0, 0]], 'RawThin': [[0, 4, 2, 0], [23, 9, 0]], 'Prot': [[0, 4, 2, 0], [23, 19, 0]],
    'Erased': [[0, 0, 0, 0], [23, 11, 0]], 'Dyn': [[0, 0, 0, 0], [23, 15, 0]], 'RawSlice': [[0, 10, 2, 0], [23, 17, 0]],
    'US': [[0, 7, 2, 0], [40, 0, 0], [40, 0, 1], [23, 16, 0]], 'UH': [[0, 9, 2, 0], [40, 0, 0], [40, 0, 1], [23, 16, 0]],
    'MUw': [[0, 5, 0, 0], [40, 0, 0]], 'MAw': [[0, 6, 0, 0], [38, 0, 0]], 'MASw': [[0, 8, 2, 0], [38, 0, 0], [38, 0, 1]],
}
SHARINGS = [[], [[20, 0]], [[24, 0]], [[20, 0], [23, 2, 1]], [[20, 0], [23, 0, 1]], [[20, 0], [22, 1]], [[20, 0], [20, 0]],
            [[24, 0], [23, 4, 1]], [[20, 0], [23, 9, 1]]]

def _single_ops():
    ops = [[20, 0], [21, 0], [22, 0], [24, 0], [26, 0], [27, 0], [28, 0], [29, 0], [30, 0], [31, 0], [32, 0], [33, 0], [37, 0], [46, 0]]
    ops += [[23, c, 0] for c in range(0, 25)]
    ops += [[25, a, 0] for a in range(0, 3)]
    for code in (34, 35, 36):
        ops += [[code, 0, 0], [code, 0, 1]]
    for code in (38, 40, 47):
        ops += [[code, 0, 0], [code, 0, 1], [code, 0, 5]]
    return [[o] for o in ops]

def _with_ops():
    out = []
    bodies = [[], [[20, 0]], [[25, 1, 0]], [[25, 0, 0], [26, 0]], [[29, 0]], [[24, 0]], [[43]], [[20, 0], [43]], [[27, 0], [28, 0]],
              [[41, 3, 0], [20, 0], [42]], [[41, 2, 0], [25, 1, 0], [43], [42]], [[41, 4, 0], [20, 0], [25, 2, 0], [42]], [[21, 0]], [[23, 8, 0]]]
    for w in range(0, 5):
        for b in bodies:
            out.append([[41, w, 0]] + b + [[42]])
    return out

def _with_mut_replace():
    """with_arc_mut on thin 0 with a second thin K available: replace / assign, then return or panic"""
    out = []
    for pre in ([], [[20, 0]], [[20, 'K']]):
        for act in ([44, 0, 'K'], [45, 0, 'K']):
            for tail in ([], [[43]], [[29, 0]], [[20, 0], [43]], [[25, 1, 0], [43]]):
                out.append(('K', pre, [[41, 1, 0], act] + tail + [[42]]))
    return out

BASE_KIND = {'FatBad': 'Fat', 'Fat0': 'Fat', 'Thin0': 'Thin', 'Slice0': 'Slice', 'MUw': 'MU', 'MAw': 'MA', 'MASw': 'MAS'}
UNINIT = {'MU', 'MA', 'MUS', 'MAS', 'MUH'}

def applicable(kind, op):
    k = BASE_KIND.get(kind, kind); c = op[0]
    if c == 20: return k in ARC_KINDS or k in CLONE_RES
    if c in (21, 22, 27): return k not in RAW_KINDS
    if c == 23: return (op[1], k) in CONV or (op[1] == 16 and k in UNINIT)
    if c == 24: return k in ('Arc', 'Off', 'Un1', 'Un2', 'ArcB')
    if c == 25: return [k in ARC_KINDS, k in ARC_KINDS or k in ('Thin', 'Off', 'Un1', 'Un2'), k in ('Arc', 'Off', 'ArcB', 'Un1', 'Un2')][op[1]]
    if c == 26: return k in ARC_KINDS
    if c == 28: return True
    if c == 29: return k in ARC_KINDS and k not in ('MA', 'MAS')
    if c in (30, 31, 32, 33, 35, 36): return k == 'Arc'
    if c == 34: return k in ('Arc', 'Off')
    if c == 37: return k == 'Uniq'
    if c == 38: return k in ('MA', 'MAS')
    if c == 40: return k in ('MU', 'MUS', 'MUH')
    if c == 47: return k in ('Uniq', 'US', 'UH')
    if c == 46: return k in ('Un1', 'Un2')
    if c == 41: return (op[1], k) in BEGIN
    return False

def systematic_cases(prefix='Y'):
    cases = []
    n = 0
    def finish(ops, nh):
        # observe through everything, then release everything (raws are converted back first)
        tail = []
        for h in range(nh):
            tail += [[25, 1, h], [27, h]]
        for h in range(nh):
            tail += [[23, 1, h], [23, 10, h], [23, 18, h], [21, h]]
        return ops + tail
    singles = _single_ops(); withs = _with_ops()
    for kind, rec in RECIPES.items():
        for sh in SHARINGS:
            if sh and not applicable(kind, sh[0]): continue
            for body in singles + withs:
                if not applicable(kind, body[0]): continue
                ops = [list(o) for o in rec + sh + body]
                nh = 1 + len(sh) + sum(1 for o in body if o[0] in (20, 24))
                cases.append(('%s%d' % (prefix, n), finish(ops, nh))); n += 1
    # one inapplicable operation per kind (malformed stream)
    for kind, rec in RECIPES.items():
        for body in singles[::7]:
            if applicable(kind, body[0]): continue
            cases.append(('%s%d' % (prefix, n), finish([list(o) for o in rec + body], 2))); n += 1
    # replace/assign inside with_arc_mut
    for (_, pre, body) in _with_mut_replace():
        for base_share in ([], [[20, 0]]):
            ops0 = [[0, 4, 2, 0]] + base_share
            k = len(ops0)   # id of the second thin
            ops = ops0 + [[0, 4, 3, 0]]
            sub = lambda o: [k if x == 'K' else x for x in o]
            ops += [sub(o) for o in pre] + [sub(o) for o in body]
            cases.append(('%s%d' % (prefix, n), finish(ops, 6))); n += 1
    return cases
