#!/usr/bin/env python3
"""Generator of handle-operation histories for the `mech` correspondence stream.

Every random choice comes from the `rng` passed in.  A light shadow of the
machine (kinds, modes, block ids, open callback frames) keeps most operations
applicable; a separate fraction of operations is deliberately malformed
(absent/consumed handle ids, inapplicable kinds).  Op codes: coq/theories/Mech.v `decode`."""
import random

SEP = 99999999

ARC_KINDS = {'Arc', 'ArcB', 'Fat', 'Prot', 'Erased', 'Dyn', 'MA', 'Slice', 'MAS', 'AH'}
UNIQ_KINDS = {'Uniq', 'MU', 'MUS', 'US', 'MUH', 'UH'}
RAW_KINDS = {'Raw', 'RawThin', 'RawSlice'}
CONV = {  # (code, from) -> to
    (0, 'Arc'): 'Raw', (1, 'Raw'): 'Arc', (2, 'Arc'): 'Off', (3, 'Off'): 'Arc', (4, 'Arc'): 'Un1', (5, 'ArcB'): 'Un2',
    (7, 'Fat'): 'Thin', (8, 'Thin'): 'Fat', (9, 'Thin'): 'RawThin', (10, 'RawThin'): 'Thin', (11, 'Arc'): 'Erased',
    (12, 'Erased'): 'Arc', (13, 'Uniq'): 'Arc', (13, 'US'): 'Slice', (13, 'UH'): 'AH', (13, 'MU'): 'MA', (13, 'MUS'): 'MAS',
    (15, 'Arc'): 'Dyn', (17, 'Slice'): 'RawSlice', (18, 'RawSlice'): 'Slice', (19, 'Thin'): 'Prot', (20, 'Prot'): 'Thin',
    (21, 'Arc'): 'Raw', (22, 'Raw'): 'Arc', (23, 'Thin'): 'RawThin', (24, 'RawThin'): 'Thin',
    (16, 'MU'): 'Uniq', (16, 'MA'): 'Arc', (16, 'MUS'): 'US', (16, 'MAS'): 'Slice', (16, 'MUH'): 'UH',
}
NEW = {0: 'Arc', 1: 'Uniq', 2: 'ArcB', 3: 'Fat', 4: 'Thin', 5: 'MU', 6: 'MA', 7: 'MUS', 8: 'MAS', 9: 'MUH', 10: 'Slice', 11: 'AH'}
CLONE_RES = {'Off': 'Off', 'Thin': 'Thin', 'Un1': 'Un1', 'Un2': 'Un2'}
BEGIN = {(0, 'Thin'): ('Fat', 'S'), (1, 'Thin'): ('Prot', 'M'), (2, 'Off'): ('Arc', 'S'), (3, 'Arc'): ('Off', 'S'),
         (4, 'Arc'): ('Arc', 'S'), (4, 'Off'): ('Arc', 'S')}


class Shadow(object):
    def __init__(self):
        self.t = []         # entries: None | [kind, block, mode]
        self.frames = []    # (h, prev kind, prev mode)
        self.nblocks = 0
        self.ncells = {}    # block -> number of cells
        self.written = {}   # block -> set of written slots (uninit blocks)

    def live(self, pred=lambda e: True):
        return [i for i, e in enumerate(self.t) if e is not None and pred(e)]

    def owners(self, b):
        return sum(1 for e in self.t if e is not None and e[1] == b)


def gen_history(rng, length, malformed=0.06, focus=None):
    """focus: None or a set of tags biasing the op mix ('thin', 'uninit', 'union', 'unique', 'with', 'raw')."""
    S = Shadow()
    ops = []
    focus = focus or set()

    def any_handle():
        if S.t and rng.random() > 0.15:
            l = S.live()
            if l: return rng.choice(l)
        return rng.randrange(0, max(1, len(S.t) + 2))

    def pick(kinds=None, modes=None):
        l = S.live(lambda e: (kinds is None or e[0] in kinds) and (modes is None or e[2] in modes))
        return rng.choice(l) if l else None

    def new_op():
        w = {0: 6, 1: 2, 2: 2, 3: 3, 4: 3, 5: 1, 6: 1, 7: 1, 8: 1, 9: 1, 10: 2, 11: 2}
        if 'thin' in focus: w[3] += 6; w[4] += 8
        if 'uninit' in focus:
            for c in (5, 6, 7, 8, 9): w[c] += 5
        if 'union' in focus: w[0] += 4; w[2] += 6
        if 'unique' in focus: w[0] += 6; w[1] += 4
        c = rng.choices(list(w), weights=list(w.values()))[0]
        n = rng.choice([0, 1, 1, 2, 2, 3, 4, 7])
        r = n
        if c == 3 and rng.random() < 0.25:
            r = rng.choice([n + 1, max(0, n - 1) if n > 0 else 5, 0 if n else 3, 2 ** 40])
        ops.append([0, c, n, r])
        ln = 1 if c in (0, 1, 2, 5, 6) else n
        S.t.append([NEW[c], S.nblocks, 'O'])
        S.ncells[S.nblocks] = ln
        S.written[S.nblocks] = set()
        S.nblocks += 1

    for _ in range(length):
        if rng.random() < malformed:
            code = rng.choice([20, 21, 22, 23, 24, 25, 26, 27, 28, 29, 30, 31, 32, 33, 34, 36, 37, 38, 40, 47, 41, 42, 43, 44, 45, 46, 48])
            h = any_handle()
            if code in (23, 25): ops.append([code, rng.randrange(0, 26), h])
            elif code in (34, 35, 36, 38, 40, 47, 44, 45): ops.append([code, h, rng.randrange(0, 3)])
            elif code == 41: ops.append([41, rng.randrange(0, 6), h])
            elif code in (42, 43): ops.append([code])
            else: ops.append([code, h])
            # shadow is not updated for malformed ops: they may desynchronise it slightly, which is fine
            continue
        if not S.live() or rng.random() < 0.10:
            new_op(); continue
        choice = rng.random()
        h = rng.choice(S.live())
        k, b, m = S.t[h]
        if choice < 0.16:          # clone
            if k in ARC_KINDS or k in CLONE_RES:
                ops.append([20, h]); S.t.append([CLONE_RES.get(k, k), b, 'O'])
            else:
                ops.append([20, h])
        elif choice < 0.30:        # drop
            ops.append([21, h])
            if m == 'O' and k not in RAW_KINDS and k != 'Forgotten': S.t[h] = None
        elif choice < 0.32:
            ops.append([22, h])
            if m == 'O' and k not in RAW_KINDS and k != 'Forgotten': S.t[h][0] = 'Forgotten'
        elif choice < 0.50:        # conversion applicable to this kind
            cands = [c for (c, f) in CONV if f == k]
            if cands and m == 'O':
                c = rng.choice(cands)
                if c == 16 and len(S.written[b]) < S.ncells[b] and rng.random() < 0.8:
                    # write the missing slots first
                    i = rng.choice([x for x in range(S.ncells[b]) if x not in S.written[b]])
                    if k in ('MU', 'MUS', 'MUH'): ops.append([40, h, i]); S.written[b].add(i)
                    else:
                        ops.append([38, h, i])
                        if S.owners(b) == 1: S.written[b].add(i)
                    continue
                ops.append([23, c, h])
                if c == 16:
                    if len(S.written[b]) >= S.ncells[b]: S.t[h][0] = CONV[(c, k)]
                elif c == 7:
                    S.t[h][0] = 'Thin'   # may panic in the implementation (recorded length); shadow drifts, fine
                else:
                    S.t[h][0] = CONV[(c, k)]
            else:
                ops.append([23, rng.randrange(0, 25), h])
        elif choice < 0.55:
            ops.append([24, h])
            if k in ('Arc', 'Off', 'Un1'): S.t.append(['Arc', b, 'O'])
            elif k in ('ArcB', 'Un2'): S.t.append(['ArcB', b, 'O'])
        elif choice < 0.66:
            ops.append([25, rng.choice([0, 1, 1, 2]), h])
        elif choice < 0.69:
            ops.append([26, h])
        elif choice < 0.75:
            ops.append([27, h])
        elif choice < 0.78:
            ops.append([28, h])
        elif choice < 0.86:        # uniqueness-gated family
            code = rng.choice([29, 29, 30, 31, 32, 33, 34, 34, 35, 36, 37, 47])
            pf = 1 if rng.random() < 0.2 else 0
            want = {29: ARC_KINDS - {'MA', 'MAS'}, 30: {'Arc'}, 31: {'Arc'}, 32: {'Arc'}, 33: {'Arc'}, 34: {'Arc', 'Off'}, 35: {'Arc'},
                    36: {'Arc'}, 37: {'Uniq'}, 47: {'Uniq', 'US', 'UH'}}[code]
            if rng.random() < 0.85:
                hh = pick(want)
                if hh is not None:
                    h = hh; k, b, m = S.t[h]
            if code in (34, 35, 36): ops.append([code, h, pf])
            elif code == 47: ops.append([47, h, rng.randrange(0, 3)])
            else: ops.append([code, h])
            uniq = S.owners(b) == 1
            if m == 'O':
                if code in (31, 33) and k == 'Arc' and uniq: S.t[h][0] = 'Uniq'
                elif code == 32 and k == 'Arc' and uniq: S.t[h] = None
                elif code == 36 and k == 'Arc': S.t[h] = None
                elif code == 37 and k == 'Uniq': S.t[h] = None
            if code in (34, 35) and k in ('Arc', 'Off') and m != 'S' and not uniq and not pf:
                S.t[h][1] = S.nblocks; S.ncells[S.nblocks] = 1; S.written[S.nblocks] = set(); S.nblocks += 1
        elif choice < 0.90:        # uninit writes
            if rng.random() < 0.85:
                hh = pick({'MA', 'MAS', 'MU', 'MUS', 'MUH'})
                if hh is not None:
                    h = hh; k, b, m = S.t[h]
            i = rng.randrange(0, max(1, S.ncells.get(b, 1) + 1))
            if k in ('MA', 'MAS'):
                ops.append([38, h, i])
                if S.owners(b) == 1 and i < S.ncells[b]: S.written[b].add(0 if k == 'MA' else i)
            elif k in ('MU', 'MUS', 'MUH'):
                ops.append([40, h, i])
                if k == 'MU': S.written[b].add(0)
                elif i < S.ncells[b]: S.written[b].add(i)
            else:
                ops.append([rng.choice([38, 40]), h, i])
        elif choice < 0.96:        # callbacks
            r = rng.random()
            if S.frames and r < 0.45:
                ops.append([42]); fh, pk, pm = S.frames.pop()
                if S.t[fh] is not None: S.t[fh][0] = pk; S.t[fh][2] = pm
            elif S.frames and r < 0.55:
                ops.append([43])
                while S.frames:
                    fh, pk, pm = S.frames.pop()
                    if S.t[fh] is not None: S.t[fh][0] = pk; S.t[fh][2] = pm
                # the model skips up to the matching OEnds: close them right away most of the time
            else:
                cands = [w for (w, f) in BEGIN if f == k]
                if cands and not (1 in cands and m != 'O' and len(cands) == 1):
                    w = rng.choice(cands)
                    if w == 1 and m != 'O': w = 0
                    ops.append([41, w, h]); vk, vm = BEGIN[(w, k)]
                    S.frames.append((h, k, m)); S.t[h][0] = vk; S.t[h][2] = vm
                else:
                    ops.append([41, rng.randrange(0, 5), h]); ops.append([42])
        elif choice < 0.98:        # replace / assign inside with_arc_mut
            hp = pick({'Prot'}, {'M'}); ht = pick({'Thin'}, {'O'})
            if hp is not None and ht is not None:
                code = rng.choice([44, 45]); ops.append([code, hp, ht])
                if code == 44: S.t[hp][1], S.t[ht][1] = S.t[ht][1], S.t[hp][1]
                else: S.t[hp][1] = S.t[ht][1]; S.t[ht] = None
            else:
                ops.append([rng.choice([44, 45]), any_handle(), any_handle()])
        else:
            hh = pick({'Un1', 'Un2'})
            ops.append([46, hh if hh is not None and rng.random() < 0.8 else h])
    # close callbacks most of the time
    if rng.random() < 0.8:
        for _ in S.frames: ops.append([42])
    return ops


def gen_cases(rng, n, minlen=8, maxlen=120, prefix='M'):
    cases = []
    focuses = [None, {'thin', 'with'}, {'uninit'}, {'union'}, {'unique'}, {'thin'}, None]
    for i in range(n):
        ln = rng.randrange(minlen, maxlen)
        cases.append(('%s%d' % (prefix, i), gen_history(rng, ln, focus=focuses[i % len(focuses)])))
    return cases


def split_obs(o):
    """observation -> (status, rets, events) ; final lines have no separator"""
    if SEP in o:
        k = o.index(SEP)
        return o[0], o[1:k], o[k + 1:]
    return None, o, []


def parse_events(ev):
    """flat event codes -> list of tuples"""
    out = []; i = 0
    ar = {1: 1, 2: 1, 3: 2, 4: 1, 5: 2, 6: 0, 7: 5, 8: 0, 9: 1, 10: 0, 11: 1}
    while i < len(ev):
        c = ev[i]
        n = ar.get(c)
        if n is None: out.append(('?', ev[i:])); break
        out.append(tuple([c] + ev[i + 1:i + 1 + n])); i += 1 + n
    return out
