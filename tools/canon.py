"""A canonical form of a function body, used when a body is compared with the body a hand model was transcribed from.
Two bodies with the same canonical form differ only by refactorings that cannot change behaviour:
  * comments, parentheses, `unsafe { }` wrappers (anywhere), single-expression blocks;
  * consistent renaming of parameters, `let` bindings, closure parameters, `for` variables and match-arm bindings;
  * a `let x = e;` whose only use is the first thing the NEXT statement evaluates (naming an intermediate value);
  * `if !c { a } else { b }`  versus  `if c { b } else { a }`;  `if c {} else { b }` versus `if !c { b }`;  `!(a == 3)`
    versus `a != 3` (integers only);  at the top level of the body, `if c { return X; } rest` versus
    `if c { X } else { rest }`;
  * `match E { Ok(x) => x, Err(y) => B }` versus `E.unwrap_or_else(|y| B)` and `match E { Ok(x) => Ok(F(x)), Err(y) =>
    Err(y) }` versus `E.map(F)`;
  * `let _ = f(..);` versus `drop(f(..));`;  `x as *mut T` / `x as *const T` / `x.cast::<T>()`;
  * a block in tail position of a block versus its contents in place;
  * `p.add(n)` versus `p.offset(n)` (raw pointers: the same function for a non-negative literal);
  * `Self::f(x, ..)` / `<this impl's type>::f(x, ..)` versus `x.f(..)` for the first argument `self` / `this` /
    a parameter (inherent methods are found before any auto-deref);
  * `_` versus `(_, _)` as the last match arm;
  * a call of a private helper function of the same file that the reference body does not call, versus the helper's
    body in its place (see inline_helpers for the conditions).
Anything else is a difference.  The canonical form is a nested tuple; it is only ever compared for equality."""
from rustparse import *

def _item_digest(it):
    """an item nested in a body (a guard struct, its Drop impl ..): its header and, for functions, the canonical form of
    the body; never ignored"""
    try:
        head = toks_text(it.header) if getattr(it, 'header', None) is not None else ''
        if getattr(it, 'children', None):
            return (it.kind, head, tuple(_item_digest(c) for c in it.children))
        if it.kind == 'fn' and it.body is not None:
            try:
                ps = [pn for pn, ty in parse_fn_sig(it.header)['params'] if pn != 'self']
                return ('fn', head, canon(it.body, ps))
            except Exception:
                return ('fn', head, toks_text(it.body))
        return (it.kind, head, toks_text(it.body) if it.body is not None else '')
    except Exception:
        return ('?', repr(it))

def _strip_all(e):
    """strip parentheses / unsafe / single-tail blocks at every level"""
    if isinstance(e, tuple):
        e = strip(e)
        if e is None: return None
        if e and e[0] == 'block':
            stmts = []
            for st in e[1]:
                if st[0] == 'let':
                    init = _strip_all(st[3]) if st[3] is not None else None
                    m = re.match(r'^\(\s*((?:mut\s+)?[a-z_][A-Za-z0-9_]*(?:\s*,\s*(?:mut\s+)?[a-z_][A-Za-z0-9_]*)+)\s*,?\s*\)$', st[1].strip()) if isinstance(st[1], str) else None
                    if m and st[2] is None and isinstance(init, tuple) and init and init[0] == 'tuple' and len(init[1]) == len(m.group(1).split(',')):
                        # `let (a, b) = (x, y);` evaluates x then y and binds them: two lets
                        for nm, x in zip(m.group(1).split(','), init[1]): stmts.append(('let', nm.strip(), None, x))
                    else:
                        stmts.append(('let', st[1], st[2], init))
                elif st[0] == 'expr': stmts.append(('expr', _strip_all(st[1])))
                else: stmts.append(st if st[0] != 'item' or isinstance(st[1], tuple) else ('item', _item_digest(st[1])))
            tail = _strip_all(e[2]) if e[2] is not None else None
            # a block statement `unsafe { a; b; }` in statement position: splice its statements (no scoping effect on
            # values that are dropped at once; `let` inside keeps its block to stay sound)
            out = []
            for st in stmts:
                x = st[1] if st[0] == 'expr' else None
                if x is not None and isinstance(x, tuple) and x and x[0] == 'block' and x[2] is None and all(s[0] == 'expr' for s in x[1]):
                    out += list(x[1])
                else:
                    out.append(st)
            # a block in TAIL position of a block: its statements and tail continue the enclosing block (its locals
            # are declared after, hence dropped before, the enclosing block's locals either way, and the temporaries of
            # a tail expression outlive both)
            if tail is not None and isinstance(tail, tuple) and tail and tail[0] == 'block':
                out = out + list(tail[1]); tail = tail[2]
            if not out and tail is not None: return tail
            if len(out) == 1 and tail is None and out[0][0] == 'expr' and isinstance(out[0][1], tuple) and out[0][1][:2] == ('call', ('path', ['drop'], [[]])):
                return out[0][1]          # `{ drop(x); }` and `drop(x)` are both `()` after dropping x
            return ('block', out, tail)
        return tuple(_strip_all(x) for x in e)
    if isinstance(e, list): return [_strip_all(x) for x in e]
    return e

def _reach(e, name):
    """evaluate `e` in order: 'found' when the variable is reached before anything that computes, 'blocked' when a call,
    method call, macro, assignment, dereference or index is evaluated first, 'absent' when `e` is pure and does not
    mention it"""
    if not isinstance(e, tuple) or not e: return 'absent'
    k = e[0]
    if k == 'path': return 'found' if e[1] == [name] else 'absent'
    if k == 'lit': return 'absent'
    def seq(parts, then_impure):
        for x in parts:
            r = _reach(x, name)
            if r != 'absent': return r
        return 'blocked' if then_impure else 'absent'
    if k == 'paren': return _reach(e[1], name)
    if k in ('cast', 'ptrcast'): return _reach(e[1], name)
    if k == 'ref': return _reach(e[2], name)
    if k == 'field': return _reach(e[1], name)
    if k == 'unary': return seq([e[2]], e[1] == '*')
    if k == 'binary': return seq([e[2], e[3]], False) if e[1] not in ('&&', '||') else seq([e[2]], True)
    if k == 'tuple' or k == 'array': return seq(list(e[1]), False)
    if k == 'call': return seq(([] if e[1][0] == 'path' else [e[1]]) + list(e[2]), True)
    if k == 'mcall': return seq([e[1]] + list(e[4]), True)
    if k == 'try' or k == 'index': return seq(list(e[1:]), True)
    if k == 'if': return seq([e[1]], True)
    if k == 'match': return seq([e[1]], True)
    if k == 'return': return seq([e[1]] if e[1] is not None else [], True)
    if k == 'struct': return seq([f[1] for f in e[3] if isinstance(f, (tuple, list)) and len(f) >= 2], False)
    if k == 'block':
        first = e[1][0] if e[1] else (('expr', e[2]) if e[2] is not None else None)
        if first is None: return 'absent'
        x = first[3] if first[0] == 'let' else (first[1] if first[0] == 'expr' else None)
        if x is None: return 'blocked'
        r = _reach(x, name)
        return r if r != 'absent' else 'blocked'
    return 'blocked'

def _first_leaf(e):
    return None

def _count(e, name):
    if isinstance(e, tuple):
        if e and e[0] == 'path' and e[1] == [name]: return 1
        if e and e[0] == 'macro': return 5 if re.search(r'\b%s\b' % re.escape(name), e[3] if len(e) > 3 and isinstance(e[3], str) else '') else 0   # opaque: never inline into it
        if e and e[0] == 'closure': return 5 if _count(e[2], name) else 0                                            # not across a closure
        return sum(_count(x, name) for x in e)
    if isinstance(e, list): return sum(_count(x, name) for x in e)
    return 0

def _subst(e, name, val):
    if isinstance(e, tuple):
        if e and e[0] == 'path' and e[1] == [name]: return val
        return tuple(_subst(x, name, val) for x in e)
    if isinstance(e, list): return [_subst(x, name, val) for x in e]
    return e

def _inline_lets(e):
    if isinstance(e, tuple) and e and e[0] == 'block':
        stmts = [(_inline_lets_stmt(s)) for s in e[1]]
        tail = _inline_lets(e[2]) if e[2] is not None else None
        items = stmts + ([('expr', tail)] if tail is not None else [])
        changed = True
        while changed:
            changed = False
            for i in range(len(items) - 1):
                st = items[i]
                if st[0] == 'let' and st[3] is not None and st[2] is None and isinstance(st[1], str):      # an annotated let is a coercion site: never inlined
                    name = st[1].strip()
                    if not re.match(r'^[a-z_][A-Za-z0-9_]*$', name) or name.startswith('_'): continue
                    nxt = items[i + 1]
                    target = nxt[3] if nxt[0] == 'let' else (nxt[1] if nxt[0] == 'expr' else None)
                    if target is None: continue
                    uses_later = sum(_count(x, name) for x in items[i + 2:])
                    if _count(target, name) == 1 and uses_later == 0 and _reach(target, name) == 'found':
                        new_t = _subst(target, name, st[3])
                        items[i + 1] = ('let', nxt[1], nxt[2], new_t) if nxt[0] == 'let' else ('expr', new_t)
                        del items[i]; changed = True; break
        if tail is not None:
            tail = items[-1][1]; stmts = items[:-1]
        else:
            stmts = items
        if not stmts and tail is not None: return tail
        return ('block', stmts, tail)
    if isinstance(e, tuple): return tuple(_inline_lets(x) for x in e)
    if isinstance(e, list): return [_inline_lets(x) for x in e]
    return e
def _inline_lets_stmt(s):
    if s[0] == 'let': return ('let', s[1], s[2], _inline_lets(s[3]) if s[3] is not None else None)
    if s[0] == 'expr': return ('expr', _inline_lets(s[1]))
    return s

def _is_lit_int(e):
    e = strip(e) if isinstance(e, tuple) else e
    return isinstance(e, tuple) and e and e[0] == 'lit' and re.match(r'^[0-9][0-9_]*(usize|isize|u\d+|i\d+)?$', e[1] or '') is not None

def _int_cmp(c):
    """`a == 3` / `a != 3`: a comparison of integers (one side is an integer literal), where `!=` is the negation of `==`"""
    return isinstance(c, tuple) and c and c[0] == 'binary' and c[1] in ('==', '!=') and (_is_lit_int(c[2]) or _is_lit_int(c[3]))

def _neg(c):
    if isinstance(c, tuple) and c and c[0] == 'unary' and c[1] == '!': return c[2]
    if _int_cmp(c): return ('binary', '!=' if c[1] == '==' else '==', c[2], c[3])
    return ('unary', '!', c)

def _empty_block(b):
    return isinstance(b, tuple) and b and b[0] == 'block' and not b[1] and b[2] is None

def _is_bool_lit(b, val):
    b = strip(b) if isinstance(b, tuple) else b
    return isinstance(b, tuple) and b and ((b[0] == 'lit' and b[1] == val) or (b[0] == 'path' and b[1] == [val]))

def _norm_if(c, a, b):
    """`if !c {a} else {b}` = `if c {b} else {a}`;  `if c {} else {b}` = `if !c {b}`"""
    if b is not None and _empty_block(a): return _norm_if(_neg(c), b, None)
    if b is not None and _empty_block(b): b = None
    if b is not None and isinstance(c, tuple) and c and c[0] == 'unary' and c[1] == '!': return _norm_if(c[2], b, a)
    # `if a { true } else { b }` is `a || b`, `if a { false } else { b }` is `!a && b` (the literal makes both bool)
    if b is not None and _is_bool_lit(a, 'true'): return ('binary', '||', c, strip(b))
    if b is not None and _is_bool_lit(a, 'false'): return ('binary', '&&', _neg(c), strip(b))
    if b is not None and _is_bool_lit(b, 'false'): return ('binary', '&&', c, strip(a))
    if b is not None and _is_bool_lit(b, 'true'): return ('binary', '||', _neg(c), strip(a))
    return ('if', c, a, b)

def _result_match(e):
    """`match E { Ok(x) => x, Err(y) => B }` is `E.unwrap_or_else(|y| B)` and `match E { Ok(x) => Ok(F(x)), Err(y) =>
    Err(y) }` is `E.map(F)`: the definitions of those two methods of Result (the patterns fix the type)"""
    arms = e[2]
    if len(arms) != 2 or any(len(a) < 3 or a[1] is not None for a in arms): return None
    pats = [a[0].strip() if isinstance(a[0], str) else '' for a in arms]
    mo = [re.match(r'^Ok\s*\(\s*([a-z_][A-Za-z0-9_]*)\s*\)$', p) for p in pats]
    me = [re.match(r'^Err\s*\(\s*([a-z_][A-Za-z0-9_]*)\s*\)$', p) for p in pats]   # `Err(_)` binds nothing: see the `ok` form
    me = [m or (re.match(r'^Err\s*\(\s*(_)\s*\)$', p)) for m, p in zip(me, pats)]
    if mo[0] and me[1]: ok, err, x, y = arms[0], arms[1], mo[0].group(1), me[1].group(1)
    elif mo[1] and me[0]: ok, err, x, y = arms[1], arms[0], mo[1].group(1), me[0].group(1)
    else: return None
    okb = strip(ok[2]); errb = strip(err[2])
    def is_var(t, n): return isinstance(t, tuple) and t and t[0] == 'path' and t[1] == [n]
    if isinstance(okb, tuple) and okb[0] == 'call' and okb[1][0] == 'path' and okb[1][1] == ['Some'] and len(okb[2]) == 1 and is_var(strip(okb[2][0]), x) \
            and isinstance(errb, tuple) and errb[0] == 'path' and errb[1] == ['None'] and _count_raw(err[2], y) == 0:
        return ('mcall', e[1], 'ok', [], [])
    if is_var(okb, x):
        return ('mcall', e[1], 'unwrap_or_else', [], [('closure', [y], err[2])])
    if isinstance(okb, tuple) and okb[0] == 'call' and okb[1][0] == 'path' and okb[1][1] == ['Ok'] and len(okb[2]) == 1 \
            and isinstance(errb, tuple) and errb[0] == 'call' and errb[1][0] == 'path' and errb[1][1] == ['Err'] and len(errb[2]) == 1 and is_var(strip(errb[2][0]), y):
        inner = strip(okb[2][0])
        if isinstance(inner, tuple) and inner[0] == 'call' and inner[1][0] == 'path' and len(inner[2]) == 1 and is_var(strip(inner[2][0]), x):
            return ('mcall', e[1], 'map', [], [inner[1]])
    return None

def _early_returns(e):
    """at the top level of a function body: `if c { ..; return X; } REST` is `if c { ..; X } else { REST }`"""
    if not (isinstance(e, tuple) and e and e[0] == 'block'): return e
    stmts = list(e[1]); tail = e[2]
    i = len(stmts) - 1
    while i >= 0:
        st = stmts[i]
        if st[0] == 'expr' and isinstance(st[1], tuple) and st[1] and st[1][0] == 'if' and st[1][3] is None:
            a = st[1][2]
            if isinstance(a, tuple) and a and a[0] == 'return': a = ('block', [], a)
            if isinstance(a, tuple) and a and a[0] == 'block':
                pre = list(a[1]); last = a[2]
                if last is None and pre and pre[-1][0] == 'expr': last = pre[-1][1]; pre = pre[:-1]
                else: last = last
                if isinstance(last, tuple) and last and last[0] == 'return':
                    x = last[1] if len(last) > 1 else None
                    rest = ('block', stmts[i + 1:], tail)
                    tail = _norm_if(st[1][1], ('block', pre, x), rest)
                    stmts = stmts[:i]
        i -= 1
    return ('block', stmts, tail)

def _try_map(e):
    """the whole body `Ok(F(E?))` is `E.map(F)` (same signature, hence the same error type: `?` converts nothing)"""
    t = e[2] if isinstance(e, tuple) and e and e[0] == 'block' and not e[1] else e
    t = strip(t) if isinstance(t, tuple) else t
    if isinstance(t, tuple) and t and t[0] == 'call' and t[1][0] == 'path' and t[1][1] == ['Ok'] and len(t[2]) == 1:
        inner = strip(t[2][0])
        if isinstance(inner, tuple) and inner[0] == 'call' and inner[1][0] == 'path' and len(inner[2]) == 1:
            q = strip(inner[2][0])
            if isinstance(q, tuple) and q[0] == 'try':
                return ('mcall', q[1], 'map', [], [inner[1]])
    return e

def _is_value_call(e):
    return isinstance(e, tuple) and e and e[0] in ('call', 'mcall')

def _rewrite(e, self_heads):
    """if-negation, add/offset, path-call versus method-call, wildcard arm, `let _ = f(..)` versus `drop(f(..))`,
    raw-pointer casts"""
    if isinstance(e, list): return [_rewrite(x, self_heads) for x in e]
    if not isinstance(e, tuple) or not e: return e
    e = tuple(_rewrite(x, self_heads) for x in e)
    k = e[0]
    # `let _ = <call>;` drops the temporary at the end of the statement, which is what `drop(<call>);` does
    if k == 'let' and isinstance(e[1], str) and e[1].strip() == '_' and e[2] is None and _is_value_call(e[3]):
        return ('expr', ('call', ('path', ['drop'], [[]]), [e[3]]))
    # `x as *mut T` / `x as *const T` / `x.cast::<T>()`: the same address with the pointee type T (mutability of a raw
    # pointer type is not behaviour)
    if k == 'cast' and isinstance(e[2], tuple) and e[2] and e[2][0] == 'tptr':
        return ('ptrcast', e[1], e[2][2])
    if k == 'mcall' and e[2] == 'cast' and len(e[3]) == 1 and not e[4]:
        return ('ptrcast', e[1], e[3][0])
    if k == 'if': return _norm_if(e[1], e[2], e[3])
    if k == 'unary' and e[1] == '!' and isinstance(e[2], tuple) and e[2] and e[2][0] == 'unary' and e[2][1] == '!': return e[2][2]
    if k == 'unary' and e[1] == '!' and _int_cmp(e[2]): return _neg(e[2])
    if k == 'mcall' and e[2] == 'add' and len(e[4]) == 1 and isinstance(e[4][0], tuple) and e[4][0][0] == 'lit':
        return ('mcall', e[1], 'offset', e[3], e[4])
    if k == 'call' and e[1][0] == 'path' and len(e[1][1]) == 2 and e[1][1][0] in self_heads and e[2] and isinstance(e[2][0], tuple):
        return ('mcall', e[2][0], e[1][1][1], [], list(e[2][1:]))
    if k == 'match':
        r = _result_match(e)
        if r is not None: return r
        arms = list(e[2])
        if arms:
            last = arms[-1]
            pat = last[0] if isinstance(last, (tuple, list)) and last else None
            if isinstance(pat, str) and re.match(r'^\(\s*_\s*(,\s*_\s*)*\)$', pat.strip()):
                arms[-1] = ('_',) + tuple(last[1:])
        return ('match', e[1], arms)
    return e

def _alpha(e, params):
    """scoped renaming: a binder introduced when k names are in scope becomes `$k`; sibling scopes reuse numbers"""
    def pat_names(p):
        out = []
        if isinstance(p, str):
            for n in re.findall(r'[A-Za-z_][A-Za-z0-9_]*', p):
                if n[0].islower() and n not in ('mut', 'ref', 'self', '_') and n not in out: out.append(n)
        elif isinstance(p, (list, tuple)):
            for x in p:
                for n in pat_names(x):
                    if n not in out: out.append(n)
        return out
    def extend(env, names):
        env = dict(env)
        for n in names: env[n] = '$%d' % len(env)
        return env
    def ren_pat(p, env):
        if isinstance(p, str):
            return re.sub(r'[A-Za-z_][A-Za-z0-9_]*', lambda m: env.get(m.group(0), m.group(0)), p)
        if isinstance(p, list): return [ren_pat(x, env) for x in p]
        if isinstance(p, tuple): return tuple(ren_pat(x, env) for x in p)
        return p
    def ren(e, env):
        if isinstance(e, list): return [ren(x, env) for x in e]
        if not isinstance(e, tuple) or not e: return e
        k = e[0]
        if k == 'path' and len(e[1]) == 1 and e[1][0] in env: return ('path', [env[e[1][0]]], e[2])
        if k == 'block':
            out = []; cur = env
            for st in e[1]:
                if st[0] == 'let':
                    init = ren(st[3], cur) if st[3] is not None else None
                    cur = extend(cur, pat_names(st[1]))
                    out.append(('let', ren_pat(st[1], cur), st[2], init))
                elif st[0] == 'expr': out.append(('expr', ren(st[1], cur)))
                else: out.append(st)
            return ('block', out, ren(e[2], cur) if e[2] is not None else None)
        if k == 'closure':
            env2 = extend(env, pat_names(e[1])); return ('closure', ren_pat(e[1], env2), ren(e[2], env2))
        if k == 'for':
            env2 = extend(env, pat_names(e[1])); return ('for', ren_pat(e[1], env2), ren(e[2], env), ren(e[3], env2))
        if k == 'match':
            arms = []
            for a in e[2]:
                env2 = extend(env, pat_names(a[0]))
                arms.append((ren_pat(a[0], env2),) + tuple(ren(x, env2) for x in a[1:]))
            return ('match', ren(e[1], env), arms)
        if k == 'struct':
            return ('struct', e[1], e[2], [((f[0], ren(f[1], env)) + tuple(f[2:])) if isinstance(f, (tuple, list)) and len(f) >= 2 and isinstance(f[0], str) else ren(f, env) for f in e[3]])
        if k == 'macro': return ('macro', e[1], ren(e[2], env), ren_pat(e[3], env) if isinstance(e[3], str) else e[3])
        if k == 'mcall': return ('mcall', ren(e[1], env), e[2], e[3], ren(e[4], env))
        if k == 'field': return ('field', ren(e[1], env), e[2])
        return (k,) + tuple(ren(x, env) for x in e[1:])
    env0 = extend({}, [p.strip()[4:].strip() if p.strip().startswith('mut ') else p.strip() for p in params if re.match(r'^(mut )?[a-z_][A-Za-z0-9_]*$', p.strip())])
    return ren(e, env0)


# ----------------------------------------------------------------------------
# private helper functions: a call is replaced by the helper's body
# ----------------------------------------------------------------------------
def _idents(e, out=None):
    if out is None: out = set()
    if isinstance(e, tuple):
        if e and e[0] == 'path': out.update(x for x in e[1] if isinstance(x, str))
        for x in e: _idents(x, out)
    elif isinstance(e, list):
        for x in e: _idents(x, out)
    return out

def _bound_names(e, out=None):
    """names bound anywhere inside (let, closure parameters, for variables, match-arm patterns)"""
    if out is None: out = set()
    def pat(p):
        if isinstance(p, str): out.update(n for n in re.findall(r'[A-Za-z_][A-Za-z0-9_]*', p) if n[0].islower() or n[0] == '_')
        elif isinstance(p, (list, tuple)):
            for x in p: pat(x)
    if isinstance(e, tuple) and e:
        if e[0] == 'block':
            for st in e[1]:
                if st[0] == 'let': pat(st[1]); _bound_names(st[3], out)
                elif st[0] == 'expr': _bound_names(st[1], out)
            _bound_names(e[2], out); return out
        if e[0] in ('closure', 'for'): pat(e[1])
        if e[0] == 'match':
            for a in e[2]: pat(a[0])
        for x in e[1:]: _bound_names(x, out)
    elif isinstance(e, list):
        for x in e: _bound_names(x, out)
    return out

def _has_tag(e, tags):
    if isinstance(e, tuple):
        if e and isinstance(e[0], str) and e[0] in tags: return True
        return any(_has_tag(x, tags) for x in e)
    if isinstance(e, list): return any(_has_tag(x, tags) for x in e)
    return False

def _place_kind(a):
    """'var' for a variable, 'place' for a field chain / reference of a variable / literal, None otherwise"""
    a = strip(a)
    if a is None: return None
    if a[0] == 'path' and len(a[1]) == 1 and a[1][0][0].islower(): return 'var'
    if a[0] == 'lit': return 'place'
    if a[0] == 'field': return 'place' if _place_kind(a[1]) else None
    if a[0] == 'ref': return 'place' if _place_kind(a[2]) else None
    return None

def _count_raw(e, name):
    if isinstance(e, tuple):
        if e and e[0] == 'path' and e[1] == [name]: return 1
        if e and e[0] == 'macro': return 5 if re.search(r'\b%s\b' % re.escape(name), e[3] if len(e) > 3 and isinstance(e[3], str) else '') else 0
        return sum(_count_raw(x, name) for x in e)
    if isinstance(e, list): return sum(_count_raw(x, name) for x in e)
    return 0

def _called_once(e, name):
    """`name` occurs as the callee of a call whose arguments are places"""
    if isinstance(e, tuple):
        if e and e[0] == 'call' and isinstance(e[1], tuple) and e[1] and e[1][0] == 'path' and e[1][1] == [name]:
            return all(_place_kind(a) for a in e[2])
        return any(_called_once(x, name) for x in e)
    if isinstance(e, list): return any(_called_once(x, name) for x in e)
    return False

def _beta(e):
    """`(|a, b| body)(x, y)` with place arguments: body with a, b replaced"""
    if isinstance(e, list): return [_beta(x) for x in e]
    if not isinstance(e, tuple) or not e: return e
    e = tuple(_beta(x) for x in e)
    if e[0] == 'call':
        f = strip(e[1])
        if isinstance(f, tuple) and f and f[0] == 'closure' and len(f[1]) == len(e[2]) and all(_place_kind(a) for a in e[2]):
            names = [p.strip() for p in f[1]]
            argids = set()
            for a in e[2]: _idents(a, argids)
            if len(set(names)) == len(names) and not (_bound_names(f[2]) & argids):
                tmp = f[2]
                for i, n in enumerate(names): tmp = _subst(tmp, n, ('path', ['\x02%d' % i], [[]]))
                for i, a in enumerate(e[2]): tmp = _subst(tmp, '\x02%d' % i, ('paren', a))
                return tmp
    return e

def inline_helpers(e, helpers, caller_types=None, depth=0):
    """helpers: {path tuple: dict(params=[(name, type text)], body=AST)} - private functions of the same file that the
    body compared against does not call.  A call `h(a, b)` whose arguments are variables, field chains, references of
    those or literals is replaced by h's body with the parameters replaced by the arguments, provided that
      * h has no `return`, `?`, `break`, `continue`, loop labels or macros hiding control flow (`return`/`?` inside),
      * no name bound inside h occurs in an argument (no capture),
      * a field-chain argument is only passed to a helper whose body assigns nothing (it is re-read at each use),
      * where the argument is a parameter of the caller, its declared type is the parameter's declared type.
    Evaluation order and the number of evaluations of anything with an effect are then unchanged."""
    if isinstance(e, list): return [inline_helpers(x, helpers, caller_types, depth) for x in e]
    if not isinstance(e, tuple) or not e: return e
    e = tuple(inline_helpers(x, helpers, caller_types, depth) for x in e)
    if e[0] == 'mcall' and depth < 3 and isinstance(strip(e[1]), tuple) and strip(e[1])[0] == 'path' and strip(e[1])[1] == ['self']:
        # `self.h(a, b)` for an inherent method h of the same type taking `self` by reference or by value: the body
        # with the parameters replaced; `self` stays `self` (auto-referencing a receiver does not evaluate anything)
        h = helpers.get(('.self', e[2]))
        if h is not None and len(h['params']) == len(e[4]) and not e[3]:
            e = ('call', ('path', ['\x01method', e[2]], [[], []]), list(e[4]))
            helpers = dict(helpers); helpers[('\x01method', e[1][1][1])] = h
    if e[0] == 'call' and isinstance(e[1], tuple) and e[1] and e[1][0] == 'path' and depth < 3:
        h = helpers.get(tuple(e[1][1]))
        if h is not None and len(h['params']) == len(e[2]):
            body = h['body']
            kinds = [_place_kind(a) for a in e[2]]
            pnames = [pn for pn, _ in h['params']]
            # an argument that is not a place is bound by a `let` in front of the body, in argument order: that IS
            # call-by-value; single-use bindings then disappear through the ordinary `let` rule
            # a closure argument whose parameter is called exactly once in the body (and used nowhere else) is put in
            # place of that call (beta reduction: the closure is evaluated at the call either way)
            closure_args = [i for i, a in enumerate(e[2]) if isinstance(strip(a), tuple) and strip(a)[0] == 'closure']
            for i in closure_args:
                cl = strip(e[2][i])
                if _count_raw(body, pnames[i]) != 1 or not _called_once(body, pnames[i]) or _has_tag(cl[2], ('return', 'try', 'break', 'continue')): return e
                if not all(isinstance(pp, str) and re.match(r'^[a-z_][A-Za-z0-9_]*$', pp.strip()) for pp in cl[1]): return e
                kinds[i] = 'closure'
            bound_args = [i for i, k in enumerate(kinds) if not k]
            if any(_has_tag(e[2][i], ('closure', 'return', 'try', 'break', 'continue')) for i in bound_args): return e
            if not _has_tag(body, ('return', 'try', 'break', 'continue', 'macro', 'loop', 'while', 'await')):
                if 'place' in kinds and _has_tag(body, ('assign',)): return e
                bound = _bound_names(body); argids = set()
                for i, a in enumerate(e[2]):
                    if i in closure_args:
                        cl = strip(a); inner = set(); _idents(cl[2], inner)
                        argids |= inner - set(pp.strip() for pp in cl[1]) - _bound_names(cl[2])
                    else:
                        _idents(a, argids)
                if bound & argids: return e
                if len(set(pnames)) != len(pnames) or (set(pnames) & bound): return e
                if bound_args and (set(pnames[i] for i in bound_args) & argids): return e
                for (pn, pty), a in zip(h['params'], e[2]):
                    a0 = strip(a)
                    if caller_types is not None and a0[0] == 'path' and a0[1][0] in caller_types and caller_types[a0[1][0]] != pty \
                            and not (caller_types[a0[1][0]].startswith('&mut') and '&' + caller_types[a0[1][0]][4:] == pty): return e
                # simultaneous substitution of the place arguments
                tmp = body
                for i, pn in enumerate(pnames):
                    if i not in bound_args: tmp = _subst(tmp, pn, ('path', ['\x00%d' % i], [[]]))
                for i, a in enumerate(e[2]):
                    if i not in bound_args: tmp = _subst(tmp, '\x00%d' % i, ('paren', a))
                if closure_args: tmp = _beta(tmp)
                if bound_args:
                    lets = [('let', pnames[i], None, e[2][i]) for i in bound_args]
                    tb = strip(tmp) if isinstance(tmp, tuple) and tmp and tmp[0] in ('paren', 'unsafe') else tmp
                    if isinstance(tb, tuple) and tb and tb[0] == 'block': tmp = ('block', lets + list(tb[1]), tb[2])
                    else: tmp = ('block', lets, tb)
                return inline_helpers(tmp, helpers, caller_types, depth + 1)
    return e

def canon(body_toks, params=(), self_heads=('Self',), helpers=None, caller_types=None):
    """canonical form of a function body given as tokens"""
    e = parse_block_tokens(list(body_toks))
    return repr(_alpha(normalise(e, self_heads, helpers, caller_types), params))

def normalise_light(e):
    """wrappers, early returns, if / boolean normal form only (for the classifiers, which look at call forms)"""
    e = _strip_all(e)
    if isinstance(e, tuple) and e and e[0] != 'block': e = ('block', [], e)
    e = _early_returns(e)
    e = _rewrite_light(e)
    return e

def _rewrite_light(e):
    if isinstance(e, list): return [_rewrite_light(x) for x in e]
    if not isinstance(e, tuple) or not e: return e
    e = tuple(_rewrite_light(x) for x in e)
    if e[0] == 'if': return _norm_if(e[1], e[2], e[3])
    return e

def normalise(e, self_heads=('Self',), helpers=None, caller_types=None):
    """the canonical AST of a function body (before renaming)"""
    if helpers: e = inline_helpers(e, helpers, caller_types)
    e = _strip_all(e)
    if isinstance(e, tuple) and e and e[0] != 'block': e = ('block', [], e)
    e = _early_returns(e)
    e = _rewrite(e, set(self_heads))
    e = _inline_lets(e)
    e = _strip_all(e)
    e = _rewrite(e, set(self_heads))
    e = _strip_all(e)
    e = _try_map(e)
    return e
