"""Delta-debugging of a failing case of a multi-operation stream (mech): every sub-list of a history is a history
(operations on consumed handles are Skips on both sides), so operations are removed in shrinking chunks while the
case keeps failing in the same way (the implementation-side oracle still objects, or model and implementation still
disagree).  Used only to make the replay file readable; the verdict never depends on it."""
import os, subprocess, tempfile
import vlib

def _run(exe, stream, prefix, ops, tag):
    d = os.path.join(vlib.CACHE, 'run', 'shrink-' + tag)
    os.makedirs(d, exist_ok=True)
    cf = os.path.join(d, 'case.txt')
    vlib.write_cases(cf, [('s', prefix + ops)])
    res = []
    for cmd in ([exe, stream, cf], [os.path.join(vlib.OCAMLDIR, 'modelrun'), stream, cf]):
        try:
            p = subprocess.run(cmd, env=vlib.ENV, stdout=subprocess.PIPE, stderr=subprocess.DEVNULL, timeout=60)
            obs, _ = vlib.parse_obs(p.stdout.decode('utf-8', 'replace'))
            res.append((p.returncode, obs.get('s')))
        except subprocess.TimeoutExpired:
            res.append((-9, None))
    return res

def shrink(exe, stream, prefix, ops, fails, tag, budget=400):
    """ops: list of operations (without the prefix ops such as [100, d]); fails(ops, impl_obs, model_obs, impl_rc) -> bool.
    Returns a (locally) minimal failing sub-list."""
    def bad(cand):
        (rc_i, io), (rc_m, mo) = _run(exe, stream, prefix, cand, tag)
        return fails(cand, io, mo, rc_i)
    if not bad(ops): return ops
    n = 2; cur = list(ops); runs = 0
    while len(cur) >= 2 and runs < budget:
        chunk = max(1, len(cur) // n); reduced = False
        for i in range(0, len(cur), chunk):
            cand = cur[:i] + cur[i + chunk:]
            runs += 1
            if cand and bad(cand):
                cur = cand; n = max(n - 1, 2); reduced = True; break
            if runs >= budget: break
        if not reduced:
            if chunk == 1: break
            n = min(len(cur), n * 2)
    return cur
