"""Translate the three small functions that speak the counter protocol — Arc::drop_inner, Arc::try_unique (through
is_unique / count) and the not-unique path of Arc::unwrap_or_clone — into programs of coq/theories/ConcX.v
(IDec / IInc / ILoad / IRetIfNe / IRetIfEq / IDestroyFree / IGrant / ICloneVal / IDropHandle).  Anything outside the
small grammar becomes IUnknown (never a guess)."""
import re
from rustparse import *
from extract import strip, is_path, call_path, fn_body

ORD = {'Relaxed': 'ORlx', 'Acquire': 'OAcq', 'Release': 'ORel', 'AcqRel': 'OAcqRel', 'SeqCst': 'OAcqRel'}

class Unk(Exception):
    pass

def atomic_of(e, src, depth=0):
    """-> (instr constructor, ordering) when `e` is an atomic access to the count (directly or through
    Arc::count / Arc::strong_count / is_unique's operand)"""
    e = strip(e)
    if e[0] == 'mcall' and e[2] in ('fetch_sub', 'fetch_add', 'load'):
        recv = strip(e[1])
        if not (recv[0] == 'field' and recv[2] == 'count'): raise Unk()
        args = e[4]
        if e[2] == 'load':
            if len(args) != 1: raise Unk()
            o = strip(args[0])
        else:
            if len(args) != 2 or strip(args[0]) != ('lit', '1'): raise Unk()
            o = strip(args[1])
        if o[0] != 'path' or o[1][-1] not in ORD: raise Unk()
        return {'fetch_sub': 'IDec', 'fetch_add': 'IInc', 'load': 'ILoad'}[e[2]], ORD[o[1][-1]]
    # Self::count(self) / Arc::count(&this) / this.count(): follow one level of delegation
    name = None
    if e[0] == 'call' and (call_path(e) or '').split('::')[-1] in ('count', 'strong_count') and len(e[2]) == 1:
        name = (call_path(e) or '').split('::')[-1]
    if name and depth < 3:
        r = src.find_fn('arc.rs', 'Arc::' + name)
        if r:
            b = fn_body(r[2])
            if not b[1] and b[2] is not None: return atomic_of(b[2], src, depth + 1)
    raise Unk()

def cond_of(e, src, env):
    """a boolean expression over one counter access: -> (instrs that load the register, n, positive) meaning
    `reg == n` (positive) or `reg != n`"""
    e = strip(e)
    if e[0] == 'unary' and e[1] == '!':
        ins, n, pos = cond_of(e[2], src, env); return ins, n, not pos
    if e[0] == 'path' and len(e[1]) == 1 and e[1][0] in env:
        return [], env[e[1][0]][0], env[e[1][0]][1]
    if e[0] == 'mcall' and e[2] == 'is_unique' and not e[4]:
        r = src.find_fn('arc.rs', 'Arc::is_unique')
        if not r: raise Unk()
        b = fn_body(r[2])
        if b[1] or b[2] is None: raise Unk()
        return cond_of(b[2], src, {})
    if e[0] == 'binary' and e[1] in ('==', '!='):
        rhs = strip(e[3])
        if rhs[0] != 'lit': raise Unk()
        try: n = int(rhs[1].replace('_', ''), 0)
        except ValueError: raise Unk()
        k, o = atomic_of(e[2], src)
        return ['%s %s true' % (k, o)], n, e[1] == '=='
    raise Unk()

def is_return(b):
    b = strip(b)
    if b[0] == 'return': return True
    return b[0] == 'block' and len(b[1]) == 1 and b[2] is None and b[1][0][0] == 'expr' and strip(b[1][0][1])[0] == 'return'

def stmts_of(block):
    """(statements, tail expression) of a block; `strip` has already removed unsafe{} and single-tail blocks"""
    b = strip(block)
    if b[0] != 'block': return [], b
    return list(b[1]), b[2]

def drop_prog(src, body=None):
    r = src.find_fn('arc.rs', 'Arc::drop_inner')
    if not r: return ['IUnknown']
    if body is not None: return drop_prog_nested(src, body)
    out = []; env = {}
    try:
        st, tail = stmts_of(fn_body(r[2]))
        items = st + ([('expr', tail)] if tail is not None else [])
        for s in items:
            if s[0] == 'let' and s[3] is not None and s[2] is None and re.match(r'^[a-z_][A-Za-z0-9_]*$', s[1].strip()):
                # `let old = <counter access>;` : the register, under a name
                k, o = atomic_of(s[3], src)
                out.append('%s %s true' % (k, o)); env = {s[1].strip(): 'reg'}
                continue
            if s[0] != 'expr': raise Unk()
            e = strip(s[1])
            if e[0] == 'block':
                inner_st, inner_tail = stmts_of(e)
                es = [strip(x[1]) for x in inner_st if x[0] == 'expr'] + ([strip(inner_tail)] if inner_tail is not None else [])
                if len(es) != len(inner_st) + (1 if inner_tail is not None else 0): raise Unk()
            else:
                es = [e]
            for e in es:
                if e[0] == 'if' and e[3] is None and is_return(e[2]):
                    c = strip(e[1])
                    if c[0] == 'binary' and c[1] in ('==', '!=') and strip(c[2])[0] == 'path' and len(strip(c[2])[1]) == 1 \
                            and env.get(strip(c[2])[1][0]) == 'reg' and strip(c[3])[0] == 'lit':
                        n = int(strip(c[3])[1].replace('_', ''), 0)
                        out.append('IRetIfEq %d' % n if c[1] == '==' else 'IRetIfNe %d' % n)
                        continue
                    ins, n, pos = cond_of(e[1], src, {})
                    out += ins + ['IRetIfEq %d' % n if pos else 'IRetIfNe %d' % n]
                elif e[0] == 'mcall' and e[2] == 'drop_slow' and is_path(strip(e[1]), 'self'):
                    out.append('IDestroyFree')
                else:
                    k, o = atomic_of(e, src)
                    out.append('%s %s false' % (k, o))
    except (Unk, IndexError, TypeError):
        return out + ['IUnknown']
    return out

def is_ok_unique(b):
    """`Ok(UniqueArc::from_arc(this))`, possibly inside unsafe/blocks"""
    b = strip(b)
    return b[0] == 'call' and (call_path(b) or '') == 'Ok'
def is_err_this(b):
    b = strip(b)
    return b[0] == 'call' and (call_path(b) or '') == 'Err' and len(b[2]) == 1 and is_path(strip(b[2][0]), 'this')

def uniq_prog(src, body=None):
    r = src.find_fn('arc.rs', 'Arc::try_unique')
    if not r: return ['IUnknown']
    out = []; env = {}
    try:
        st, tail = stmts_of(fn_body(r[2]) if body is None else body)
        for s in st:
            if s[0] == 'let':
                name = s[1].strip(); init = s[3]
                if init is None: raise Unk()
                ins, n, pos = cond_of(init, src, env)
                out += ins; env[name] = (n, pos)
            elif s[0] == 'expr':
                k, o = atomic_of(s[1], src); out.append('%s %s false' % (k, o))
            else: raise Unk()
        t = strip(tail) if tail is not None else None
        if t is None or t[0] != 'if' or t[3] is None: raise Unk()
        ins, n, pos = cond_of(t[1], src, env)
        out += ins
        if is_ok_unique(t[2]) and is_err_this(t[3]):
            out += ['IRetIfNe %d' % n if pos else 'IRetIfEq %d' % n, 'IGrant']
        elif is_ok_unique(t[3]) and is_err_this(t[2]):
            out += ['IRetIfEq %d' % n if pos else 'IRetIfNe %d' % n, 'IGrant']
        else: raise Unk()
    except (Unk, IndexError, TypeError):
        return out + ['IUnknown']
    return out

def mentions(e, pred):
    if isinstance(e, tuple):
        if pred(e): return True
        return any(mentions(x, pred) for x in e)
    if isinstance(e, list): return any(mentions(x, pred) for x in e)
    return False

def uoc_prog(src, body=None):
    r = src.find_fn('arc.rs', 'Arc::unwrap_or_clone')
    if not r: return ['IUnknown']
    out = []
    try:
        b = fn_body(r[2]) if body is None else (body if body[0] == 'block' else ('block', [], body))
        if b[1] or b[2] is None: raise Unk()
        e = strip(b[2])
        if not (e[0] == 'mcall' and e[2] == 'unwrap_or_else' and len(e[4]) == 1): raise Unk()
        head = strip(e[1])
        if not ((head[0] == 'call' and (call_path(head) or '').endswith('try_unwrap')) or (head[0] == 'mcall' and head[2] == 'try_unwrap' and not head[4])): raise Unk()
        cl = strip(e[4][0])
        if cl[0] != 'closure' or len(cl[1]) != 1 or not re.match(r'^[a-z_][A-Za-z0-9_]*$', cl[1][0].strip()): raise Unk()
        def is_clone(x):
            x = strip(x)
            return (x[0] == 'call' and (call_path(x) or '') in ('T::clone', 'Clone::clone') and len(x[2]) == 1) or \
                   (x[0] == 'mcall' and x[2] == 'clone' and not x[4])
        body = strip(cl[2])
        st, tail = stmts_of(body)
        items = st + ([('expr', tail)] if tail is not None else [])
        forgotten = mentions(body, lambda t: t[0] == 'call' and (call_path(t) or '') in ('ManuallyDrop::new', 'mem::forget', 'core::mem::forget', 'forget'))
        for s in items:
            x = strip(s[3]) if s[0] == 'let' else strip(s[1])
            if x is None: raise Unk()
            if is_clone(x): out.append('ICloneVal'); continue
            if x[0] == 'path' and len(x[1]) == 1: continue            # the value returned
            # a counter access reached through ManuallyDrop::new(this).inner().count
            if x[0] == 'mcall' and x[2] in ('fetch_sub', 'fetch_add', 'load'):
                recv = strip(x[1])
                if recv[0] == 'field' and recv[2] == 'count':
                    fake = ('mcall', ('field', ('path', ['self'], [[]]), 'count'), x[2], x[3], x[4])
                    k, o = atomic_of(fake, src); out.append('%s %s false' % (k, o)); continue
            raise Unk()
        if 'ICloneVal' not in out: raise Unk()
        if not forgotten: out.append('IDropHandle')
    except (Unk, IndexError, TypeError):
        return out + ['IUnknown']
    return out

def drop_prog_nested(src, body):
    """the drop protocol read off the NORMALISED body (tools/canon.py: early returns turned into nested ifs, single-use
    lets inlined): a sequence of counter accesses, `if <counter test> { rest }` as the last thing of a sequence (return
    unless the test holds), and `self.drop_slow()`"""
    out = []
    def walk_seq(items):
        for idx, s in enumerate(items):
            last = idx == len(items) - 1
            if s[0] == 'let' and s[3] is not None and s[2] is None and isinstance(s[1], str) and re.match(r'^[a-z_][A-Za-z0-9_]*$', s[1].strip()):
                k, o = atomic_of(s[3], src); out.append('%s %s true' % (k, o)); env[s[1].strip()] = 'reg'; continue
            if s[0] != 'expr': raise Unk()
            e = strip(s[1])
            if e[0] == 'block':
                if not last: raise Unk()
                st, tail = stmts_of(e); walk_seq(st + ([('expr', tail)] if tail is not None else [])); continue
            if e[0] == 'if':
                if e[3] is not None or not last: raise Unk()
                c = strip(e[1])
                if c[0] == 'binary' and c[1] in ('==', '!=') and strip(c[2])[0] == 'path' and len(strip(c[2])[1]) == 1 \
                        and env.get(strip(c[2])[1][0]) == 'reg' and strip(c[3])[0] == 'lit':
                    n = int(strip(c[3])[1].replace('_', ''), 0); pos = c[1] == '=='
                else:
                    ins, n, pos = cond_of(c, src, {}); out.extend(ins)
                out.append('IRetIfNe %d' % n if pos else 'IRetIfEq %d' % n)
                st, tail = stmts_of(e[2]); walk_seq(st + ([('expr', tail)] if tail is not None else []))
            elif e[0] == 'mcall' and e[2] == 'drop_slow' and is_path(strip(e[1]), 'self'):
                out.append('IDestroyFree')
            else:
                k, o = atomic_of(e, src); out.append('%s %s false' % (k, o))
    env = {}
    try:
        st, tail = stmts_of(body)
        walk_seq(st + ([('expr', tail)] if tail is not None else []))
    except (Unk, IndexError, TypeError, ValueError):
        return out + ['IUnknown']
    return out

def extract_count_progs(src):
    """each program is read off the body as written; when that fails, off the body's normal form (tools/canon.py), so
    that a rewrite which cannot change behaviour does not change the program"""
    res = dict(drop=drop_prog(src), uniq=uniq_prog(src), uoc=uoc_prog(src))
    fns = dict(drop='Arc::drop_inner', uniq='Arc::try_unique', uoc='Arc::unwrap_or_clone')
    for k, f in (('drop', drop_prog), ('uniq', uniq_prog), ('uoc', uoc_prog)):
        if 'IUnknown' in res[k]:
            r = src.find_fn('arc.rs', fns[k])
            if not r: continue
            try:
                import canon
                nb = canon.normalise(fn_body(r[2]), ('Self', 'Arc'))
                if not (isinstance(nb, tuple) and nb and nb[0] == 'block'): nb = ('block', [], nb)
                alt = f(src, nb)
                if 'IUnknown' not in alt: res[k] = alt
            except Exception:
                pass
    return res

GOOD = dict(drop=['IDec ORel true', 'IRetIfNe 1', 'ILoad OAcq false', 'IDestroyFree'],
            uniq=['ILoad OAcq true', 'IRetIfNe 1', 'IGrant'],
            uoc=['ICloneVal', 'IDropHandle'])

if __name__ == '__main__':
    import sys, extract
    print(extract_count_progs(extract.Source(sys.argv[1] if len(sys.argv) > 1 else '/repo/src')))
