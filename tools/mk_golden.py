#!/usr/bin/env python3
"""Print the GOLDEN entry (normalised body text) for the functions listed on the command line as
file:Qual::name[@impl-header-substring]; paste the output into golden_forms.py deliberately, after
re-validating the hand model against the new code.  Never run by the checks."""
import sys, extract
src = extract.Source('/repo/src')
for a in sys.argv[1:]:
    fq, _, hdr = a.partition('@')
    f, _, q = fq.partition(':')
    r = [x for x in src.find_fns(f, q) if not hdr or (x[1] is not None and hdr in extract.toks_text(x[1].header))]
    if len(r) != 1:
        print('# %s: %d matches' % (a, len(r))); continue
    t = extract.toks_text(r[0][2].body)
    print('  (%r, %r, %r%s),' % (f, q, t, (', %r' % hdr) if hdr else ''))
