#!/usr/bin/env python3
"""Per-property definitions: side obligations on the translated facts, case
generators for the correspondence streams, direct property oracles on the
implementation's observations, failing-input searches."""
import os, sys, json, random, time, shutil
import vlib
from vlib import log

PROPS = {}

# ============================================================================
# generic tie-2 runner
# ============================================================================
def load_corpus(stream):
    d = os.path.join(vlib.CORPUS, stream)
    cases = []
    if os.path.isdir(d):
        for f in sorted(os.listdir(d)):
            for ln, l in enumerate(open(os.path.join(d, f))):
                l = l.strip()
                if not l or l.startswith('#') or '|' not in l: continue
                cid, rest = l.split('|', 1)
                ops = [[int(x) for x in part.split()] for part in rest.split(';') if part.strip()]
                cases.append(('c%s_%d' % (f.replace('.txt', ''), ln), ops))
    return cases

def run_tie2(prop, P, tier, rng, replay=None, facts=None):
    cov = dict(evaluations=0, distinct_nontrivial=0, rule='', samples=[], streams={})
    problems = []; known = []
    specs = P.get('streams', [])
    if not specs:
        return dict(coverage=cov, problems=problems, known=known)
    with vlib.Lock():
        rc, out = vlib.build_modelrun()
        if rc != 0:
            problems.append(('build', 'extracted model does not build: ' + out[-1500:], dict(kind='unproved', stage='modelrun-build', output=out[-3000:])))
            return dict(coverage=cov, problems=problems, known=known)
    rules = []
    seen_nontrivial = set()
    for spec in specs:
        stream = spec['stream']
        if 'custom' in spec:
            r = spec['custom'](tier, rng, facts or {}, replay) if spec.get('custom_replay') else spec['custom'](tier, rng, facts or {})
            cov['streams'][stream] = r['coverage']; cov['evaluations'] += r['evaluations']
            seen_nontrivial.update(r['nontrivial']); problems += r['problems']; rules.append('%s: %s' % (stream, spec['rule']))
            cov['samples'] += r.get('samples', [])
            continue
        cfgs = spec.get('cfgs', {}).get(tier, [('cfg_default', 'debug')])
        cases = []
        if replay:
            rp = json.load(open(replay))
            fi = rp.get('failing_input') or {}
            if fi.get('stream') == stream and 'case' in fi:
                cases = [('replay', fi['case'])]
        if not cases:
            cases = load_corpus(stream) + spec['gen'](tier, rng)
        rules.append('%s: %s' % (stream, spec['rule']))
        scov = dict(cases=len(cases), configs=[], disagreements=0, oracle_failures=0, crashes=0)
        if 'distribution' in spec:
            scov['distribution'] = spec['distribution'](cases)
        for cfg, profile in cfgs:
            with vlib.Lock():
                rc, out, exe = vlib.build_harness(cfg, profile)
            if rc != 0:
                problems.append(('build', 'harness does not build against /repo (%s/%s): %s' % (cfg, profile, out[-1500:]),
                                 dict(kind='unproved', stage='harness-build', cfg=cfg, profile=profile, output=out[-4000:])))
                continue
            env = spec.get('env', lambda cfg, profile: {})(cfg, profile)
            run_cases = spec['prep'](cases, cfg, profile) if 'prep' in spec else cases
            if 'prep_facts' in spec: run_cases = spec['prep_facts'](run_cases, facts or {})
            impl, model, crashes, stray = vlib.run_both(stream, run_cases, exe, '%s-%s-%s-%s' % (prop, stream, cfg, profile), extra_env=env,
                                                        timeout=spec.get('timeout', {}).get(tier, 900))
            if 'impl_map' in spec:
                impl = dict((cid, spec['impl_map'](io)) for cid, io in impl.items())
            if 'model_map' in spec:
                try:
                    model = dict((cid, spec['model_map'](mo, facts or {})) for cid, mo in model.items())
                except Exception as ex:
                    problems.append(('model-map', 'cannot relate the atomic sites of the model to the source: %s' % ex,
                                     dict(kind='unproved', stage='tie2-site-map', detail=str(ex))))
            scov['configs'].append('%s/%s' % (cfg, profile))
            cov['evaluations'] += len(cases)
            casemap = dict(cases)
            nfail = 0; noracle = 0
            for cid, rcode, err in crashes:
                scov['crashes'] += 1
                if nfail < 5:
                    problems.append(('crash', 'harness process died (rc=%s) on %s case %s' % (rcode, stream, cid),
                                     dict(kind='impl-counterexample', stream=stream, cfg=cfg, profile=profile, case=casemap.get(cid),
                                          observation='process died rc=%s' % rcode, stderr=err[-1500:])))
                nfail += 1
            for l in stray[:3]:
                problems.append(('stray', 'unexpected output line: ' + l[:300], dict(kind='unproved', stage='tie2', line=l[:1000])))
            for cid, ops in cases:
                io = impl.get(cid); mo = model.get(cid)
                if io is None:
                    if not any(c[0] == cid for c in crashes):
                        problems.append(('missing', 'no implementation output for case %s' % cid, dict(kind='unproved', stage='tie2', case=ops)))
                    continue
                ctx = dict(cfg=cfg, profile=profile); ctx.update(spec.get('ctx', {}))
                # direct property oracle on the implementation's observation
                why = spec['oracle'](ops, io, ctx) if 'oracle' in spec else None
                kn = spec['known'](ops, io, mo, ctx) if 'known' in spec else None
                if kn:
                    line, io2, mo2 = kn[0], kn[1], kn[2]
                    if line and line not in known: known.append(line)
                    io, mo = io2, mo2
                    if why and len(kn) > 3 and why.startswith(kn[3]): why = None
                if why:
                    scov['oracle_failures'] += 1
                    # concrete failing inputs are never crowded out by model/implementation disagreements
                    if noracle < 5:
                        problems.append(('oracle', '%s: %s' % (cid, why),
                                         dict(kind='impl-counterexample', stream=stream, cfg=cfg, profile=profile, case=ops,
                                              impl_observation=io, model_observation=mo, why=why)))
                    noracle += 1
                elif mo is not None and io != mo and 'refine' in spec and spec['refine'](ops, io, mo, ctx):
                    # a disagreement that is, read against the property, a failure of the implementation
                    why2 = spec['refine'](ops, io, mo, ctx)
                    scov['oracle_failures'] += 1
                    if noracle < 5:
                        problems.append(('oracle', '%s: %s' % (cid, why2),
                                         dict(kind='impl-counterexample', stream=stream, cfg=cfg, profile=profile, case=ops,
                                              impl_observation=io, model_observation=mo, why=why2)))
                    noracle += 1
                elif mo is None or io != mo:
                    scov['disagreements'] += 1
                    if nfail < 5:
                        problems.append(('correspondence', 'model and implementation disagree on %s case %s' % (stream, cid),
                                         dict(kind='correspondence', stream=stream, cfg=cfg, profile=profile, case=ops,
                                              impl_observation=io, model_observation=mo)))
                    nfail += 1
                if spec['nontrivial'](ops, io):
                    seen_nontrivial.add(json.dumps(ops))
            # make the first failing multi-operation history readable: delta-debug it (the verdict does not depend on this)
            if stream == 'mech':
                for idx, (k, d, pl) in enumerate(problems):
                    if k in ('oracle', 'correspondence') and pl.get('stream') == 'mech' and pl.get('cfg') == cfg and pl.get('profile') == profile \
                            and isinstance(pl.get('case'), list) and len(pl['case']) > 6 and 'shrunk_from' not in pl:
                        try:
                            import shrink
                            prefix = spec['prep']([('x', [])], cfg, profile)[0][1] if 'prep' in spec else []
                            want_oracle = (k == 'oracle')
                            def fails(cand, io2, mo2, rc):
                                if io2 is None: return rc != 0
                                if 'impl_map' in spec: io2 = spec['impl_map'](io2)
                                if 'model_map' in spec and mo2 is not None:
                                    try: mo2 = spec['model_map'](mo2, facts or {})
                                    except Exception: return False
                                ctx2 = dict(cfg=cfg, profile=profile); ctx2.update(spec.get('ctx', {}))
                                w = spec['oracle'](cand, io2, ctx2) if 'oracle' in spec else None
                                return bool(w) if want_oracle else (mo2 is None or io2 != mo2)
                            small = shrink.shrink(exe, stream, prefix, pl['case'], fails, '%s-%s-%s' % (prop, cfg, profile))
                            if len(small) < len(pl['case']):
                                pl['shrunk_from'] = len(pl['case']); pl['original_case'] = pl['case']; pl['case'] = small
                                problems[idx] = (k, d + ' (history shrunk from %d to %d operations)' % (pl['shrunk_from'], len(small)), pl)
                        except Exception as ex:
                            pl['shrink_error'] = str(ex)
                        break
        cov['streams'][spec.get('label', stream)] = scov
        for cid, ops in cases[:2] + cases[-1:]:
            cov['samples'].append(dict(stream=stream, case=ops, impl=impl.get(cid) if 'impl' in dir() else None))
    cov['distinct_nontrivial'] = len(seen_nontrivial)
    cov['rule'] = ' | '.join(rules)
    cov['traces_validated_against_impl'] = cov['evaluations']
    return dict(coverage=cov, problems=problems, known=known)

# ============================================================================
# layout stream (C05, C11, C12)
# ============================================================================
SHAPES = [(0, 0), (1, 0), (2, 0), (3, 0), (2, 1), (4, 2), (12, 2), (8, 3), (24, 3), (16, 4), (32, 5), (64, 6), (0, 2), (0, 4), (6, 1), (64, 4)]
HIDX = [0, 1, 3, 5, 7, 9, 10, 13]
CTOR_CLASS = {0: 0, 1: 2, 2: 2, 3: 2, 4: 3, 5: 3, 6: 4, 7: 6, 8: 0, 9: 7, 10: 7, 11: 7, 12: 7, 13: 8, 14: 9, 15: 10, 16: 1, 17: 5}
REL_OK = {0: [0, 1, 2, 3, 4, 5, 6, 7, 8, 13, 15], 1: [0, 7, 12], 2: [0, 1, 2], 3: [0, 1, 2, 10, 11, 14], 4: [0, 9, 12], 5: [0, 9],
          6: [0, 9, 12], 7: [0, 1, 2, 6], 8: [0, 9, 12], 9: [0, 1, 2], 10: [0, 1, 2, 6]}
LENS = [0, 1, 2, 3, 7]

def gen_layout(tier, rng):
    cases = []
    n = 0
    def add(h, t, ln, c, r):
        nonlocal n
        cases.append(('L%d' % n, [[h, t, ln, c, r]])); n += 1
    if tier == 'thorough':
        for h in HIDX:
            for t in range(len(SHAPES)):
                for c in sorted(CTOR_CLASS):
                    for r in REL_OK[CTOR_CLASS[c]]:
                        for ln in ([0, 1, 2, 3, 5, 7, 17] if CTOR_CLASS[c] not in (0, 1, 4, 5) else [1]):
                            add(h, t, ln, c, r)
    else:
        for _ in range(1400):
            h = rng.choice(HIDX); t = rng.randrange(len(SHAPES)); c = rng.choice(sorted(CTOR_CLASS))
            r = rng.choice(REL_OK[CTOR_CLASS[c]]); ln = rng.choice(LENS + [rng.randrange(0, 18)])
            add(h, t, ln, c, r)
    # overflowing requests (only uninit-slice constructors can be asked for them without materialising a source)
    over = []
    for t in range(len(SHAPES)):
        ts = SHAPES[t][0]
        if ts == 0:
            over.append((t, 2 ** 63 + 5)); over.append((t, 2 ** 64 - 1))
            continue
        q = (2 ** 63) // ts
        for d in (0, 1, 2, 1000):
            over.append((t, q + d))
        over.append((t, 2 ** 64 - 1)); over.append((t, min(2 ** 64 - 1, (2 ** 64) // ts + 1)))
    if tier != 'thorough':
        over = rng.sample(over, min(len(over), 60))
    for t, ln in over:
        for c in (7, 13):
            add(rng.choice(HIDX), t, ln, c, 0)
    return cases

def oracle_layout(ops, io, ctx):
    """C05 stated directly on what the allocator saw (independent of the model)."""
    op = ops[0]; o = io[0]
    if len(o) != 12: return 'malformed observation %s' % o
    h, t, ln, c, r = op
    st, asz, aal, dsz, dal, doff, hoff, loff, soff, apoff, hpoff, aok = o
    hs, hk = SHAPES[h]; ts, tk = SHAPES[t]
    cls = CTOR_CLASS.get(c)
    if st == 3: return 'constructor left %d live allocations instead of one block' % asz
    if st == 5: return 'something was written past the end of the block (%d bytes requested): it is too short for its contents' % asz
    if st == 1 or st == 2 and asz == 0: return None
    # exact content that must fit
    if cls in (0, 1, 4, 5): need = ts
    elif cls in (2, 6): need = hs + ts * ln
    elif cls == 3: need = hs + 8 + ts * ln
    elif cls in (7, 8): need = ts * ln
    elif cls == 9: need = hs + ln
    else: need = ln
    if 8 + need >= 2 ** 63:
        return 'a request of exact size >= isize::MAX was not refused (block of %d bytes)' % asz
    if ln > 4096: return None
    if asz < doff + (soff - doff) + (0 if cls in (0, 1, 4, 5) else 0) or doff < 8:
        return 'data offset %d / block size %d inconsistent' % (doff, asz)
    elem = 1 if cls in (9, 10) else ts
    cnt = 1 if cls in (0, 1, 4, 5) else ln
    if soff + elem * cnt > asz: return 'elements end at %d beyond the block of %d bytes' % (soff + elem * cnt, asz)
    if cls in (2, 3, 6, 9) and hoff + hs > soff: return 'header overlaps the slice'
    if cls == 3 and not (hoff + hs <= loff and loff + 8 <= soff): return 'length word overlaps header or slice'
    if aok == 2: return 'the header the handle shows (at offset %d) is not the one the constructor was given: it was written somewhere else' % hoff
    if not aok: return 'an address handed out is misaligned'
    if aal < 8 or aal < 2 ** tk and cls not in (9, 10) or (cls in (2, 3, 6, 9) and aal < 2 ** hk): return 'block alignment %d too small' % aal
    if st == 0 and (asz, aal) != (dsz, dal):
        return 'allocated with (size=%d, align=%d) but released with (size=%d, align=%d)' % (asz, aal, dsz, dal)
    return None

def nontrivial_layout(ops, io):
    h, t, ln, c, r = ops[0]
    hs, hk = SHAPES[h]; ts, tk = SHAPES[t]
    return hs == 0 or ts == 0 or hk > 3 or tk > 3 or hs % 8 != 0 or ts % 8 != 0 or ln == 0 or ln > 4096 or r != 0

def dist_layout(cases):
    d = dict(ctor={}, rel={}, len_class={}, zst_elem=0, overaligned=0)
    for cid, ops in cases:
        h, t, ln, c, r = ops[0]
        d['ctor'][str(c)] = d['ctor'].get(str(c), 0) + 1
        d['rel'][str(r)] = d['rel'].get(str(r), 0) + 1
        k = 'zero' if ln == 0 else 'small' if ln <= 4096 else 'overflowing'
        d['len_class'][k] = d['len_class'].get(k, 0) + 1
        if SHAPES[t][0] == 0: d['zst_elem'] += 1
        if SHAPES[t][1] > 3 or SHAPES[h][1] > 3: d['overaligned'] += 1
    return d

LAYOUT_STREAM = dict(stream='layout', gen=gen_layout, oracle=oracle_layout, nontrivial=nontrivial_layout, distribution=dist_layout,
                     rule='(header shape, element shape, length, constructor, release path) drawn from the 8x16 size/alignment matrix, 18 constructors and 16 release paths (thorough: the full product); non-trivial = zero-sized, over-aligned or odd-sized header/element, length 0 or overflowing, or a release path other than a plain drop; distinct = distinct case tuples',
                     cfgs=dict(quick=[('cfg_default', 'debug'), ('cfg_default', 'release')], thorough=[('cfg_default', 'debug'), ('cfg_default', 'release'), ('cfg_nostd', 'debug'), ('cfg_nostd', 'release'), ('cfg_all', 'release')]))

def c05_side(facts):
    L = facts.get('layout', {})
    out = []
    out.append(('null_check_present', bool(L.get('tafl_null_checked')) and bool(L.get('new_uninit_null_checked')),
                'try_allocate_for_layout / new_uninit check the allocator result for null'))
    return out

def c05_facts(facts):
    L = facts.get('layout', {})
    return dict((k, L.get(k)) for k in ['afl_chain', 'tafl_alloc_arg', 'afhs_value_chain', 'new_uninit_alloc_arg', 'from_box_value_chain',
                                          'from_box_release', 'arc_new_form', 'drop_slow_form', 'into_inner_form', 'afl_forwards_param'])

PROPS['C05'] = dict(
    streams=[LAYOUT_STREAM], side_obligations=c05_side, facts_view=c05_facts,
    assumptions=['rustc lays out repr(C) structs by extend+pad_to_align and keeps the layout under repr(transparent)/MaybeUninit/ManuallyDrop (validated on every run by the layout stream against Layout::for_value and the allocator)',
                 'core::alloc::Layout arithmetic as modelled in coq/theories/Layout.v', '64-bit target'])


# ============================================================================
# mech stream (C01 C03 C04 C08 C09 C10 C12 C15, and the footprint half of C02/C16)
# ============================================================================
import mechgen

ORD_CODE = {'Rlx': 0, 'Rel': 1, 'Acq': 2, 'AcqRel': 3, 'SC': 4}
METHOD_CODE = {'load': 1, 'fetch_add': 2, 'fetch_sub': 3}
SITE_KEYS = [('Arc::strong_count', 'load'), ('Arc::clone', 'fetch_add'), ('Arc::count', 'load'),
             ('Arc::drop_inner', 'fetch_sub'), ('Arc::drop_inner', 'load')]

def site_codes(facts):
    """model site number -> the (op, ordering) code the hook reports, from the translated source"""
    sites = (facts.get('atomics') or {}).get('sites', [])
    out = {}
    for i, (fn, meth) in enumerate(SITE_KEYS):
        m = [s for s in sites if s['fn'] == fn and s['method'] == meth]
        if len(m) != 1 or len(m[0]['orderings']) != 1 or m[0]['orderings'][0] not in ORD_CODE:
            raise ValueError('atomic site %s.%s not found exactly once in the source' % (fn, meth))
        out[i] = METHOD_CODE[meth] * 10 + ORD_CODE[m[0]['orderings'][0]]
    return out

def mech_model_map(obs, facts):
    sc = site_codes(facts)
    res = []
    for o in obs:
        st, rets, ev = mechgen.split_obs(o)
        if st is None:
            res.append(o); continue
        out = []
        for e in mechgen.parse_events(ev):
            if e[0] == 5: out += [5, sc[e[1]], e[2]]
            elif e[0] == '?': out += list(e[1])
            else: out += list(e)
        res.append([st] + rets + [mechgen.SEP] + out)
    return res

def strip_orderings(obs):
    """atomic events -> (op kind, old value) only: for the properties that do not depend on memory orderings"""
    res = []
    for o in obs:
        st, rets, ev = mechgen.split_obs(o)
        if st is None:
            res.append(o); continue
        out = []
        for e in mechgen.parse_events(ev):
            if e[0] == 5: out += [5, (e[1] // 10) * 10, e[2]]
            elif e[0] == '?': out += list(e[1])
            else: out += list(e)
        res.append([st] + rets + [mechgen.SEP] + out)
    return res

SITE_KIND = {0: 10, 1: 20, 2: 10, 3: 30, 4: 10}   # model site -> op kind (load / fetch_add / fetch_sub), ordering digit dropped

def mech_model_map_noord(obs, facts):
    res = []
    for o in obs:
        st, rets, ev = mechgen.split_obs(o)
        if st is None:
            res.append(o); continue
        out = []
        for e in mechgen.parse_events(ev):
            if e[0] == 5: out += [5, SITE_KIND[e[1]], e[2]]
            elif e[0] == '?': out += list(e[1])
            else: out += list(e)
        res.append([st] + rets + [mechgen.SEP] + out)
    return res

def mech_prep(cases, cfg, profile):
    d = 1 if profile == 'debug' else 0
    return [(cid, [[100, d]] + ops) for cid, ops in cases]

BAD_EVENTS = {7: 'block released with a layout different from the one it was allocated with',
              8: 'release of a pointer that is not a live allocation', 9: 'destructor ran on a value that is not live (double drop or garbage)',
              11: 'read of a value that is not live (use after free / uninitialised)', 13: 'write past the end of a block (the block is too short for its contents)'}

def oracle_mech(ops, io, ctx):
    """C01/C04 stated directly on what the instrumented implementation did (independent of the model)."""
    dtors = set()
    for k, o in enumerate(io[:-1]):
        st, rets, ev = mechgen.split_obs(o)
        for e in mechgen.parse_events(ev):
            if e[0] in BAD_EVENTS: return 'op %d %s: %s' % (k, ops[k] if k < len(ops) else '?', BAD_EVENTS[e[0]])
            if e[0] == 1:
                if e[1] in dtors: return 'op %d: value %d destroyed twice' % (k, e[1])
                dtors.add(e[1])
        if ctx.get('count_oracle', True) and st == 0 and k < len(ops) and ops[k] and ops[k][0] == 25 and len(rets) == 2 and rets[0] != rets[1]:
            return 'op %d %s: the count accessor reports %d but %d owning handles refer to that value' % (k, ops[k], rets[0], rets[1])
        if ctx.get('assume_init_oracle') and st == 2 and k < len(ops) and len(ops[k]) == 3 and ops[k][0] == 23 and ops[k][1] == 16:
            return 'op %d %s: assume_init panicked; it changes the type of the handle and nothing else, whatever the sharing state' % (k, ops[k])
        if 9999 in rets and st == 0: return 'op %d %s: a handle points outside every known block' % (k, ops[k] if k < len(ops) else '?')
        if 777 in rets and st == 3: return 'op %d: a declined unwrap returned a different handle' % k
    fin = io[-1]
    if len(fin) % 2 == 1 or 12 in fin[len(fin) - 2:len(fin) - 1]:
        pass
    i = 0
    while i + 1 < len(fin):
        alive, owners = fin[i], fin[i + 1]
        if alive == 12: return '%d handles point into no known block at the end of the history' % owners
        if alive == 1 and owners == 0: return 'block %d leaked: still allocated although no owning handle is left' % (i // 2)
        if alive == 0 and owners > 0: return 'block %d was released although %d owning handles still refer to it' % (i // 2, owners)
        i += 2
    return None

def refine_mech(ops, io, mo, ctx):
    """the deprecated Arc::write / as_mut_slice on a handle that is not the sole owner must decline with a panic (C03,
    C15): the model says so from the history; an implementation that goes on instead is a failure, not just a difference"""
    for k, (a, b) in enumerate(zip(io[:-1], mo[:-1])):
        if a == b: continue
        if k < len(ops) and ops[k] and ops[k][0] == 38:
            sa = mechgen.split_obs(a)[0]; sb = mechgen.split_obs(b)[0]
            if sb == 2 and sa == 0:
                return 'op %d %s: the deprecated write through a handle that is not the sole owner went ahead instead of panicking (mutable access to a shared value)' % (k, ops[k])
        return None
    return None

def nontrivial_mech(ops, io):
    kinds = set(op[0] for op in ops)
    return len(kinds & {23, 24, 34, 35, 36, 41, 43, 44, 45, 38, 40}) >= 2

def dist_mech(cases):
    d = dict(op={}, lengths=dict(min=10 ** 9, max=0, total=0), with_callbacks=0, with_panic=0, with_conversion=0)
    for cid, ops in cases:
        for op in ops: d['op'][str(op[0])] = d['op'].get(str(op[0]), 0) + 1
        d['lengths']['min'] = min(d['lengths']['min'], len(ops)); d['lengths']['max'] = max(d['lengths']['max'], len(ops)); d['lengths']['total'] += len(ops)
        codes = set(op[0] for op in ops)
        if 41 in codes: d['with_callbacks'] += 1
        if 43 in codes: d['with_panic'] += 1
        if 23 in codes: d['with_conversion'] += 1
    return d

def gen_mech_for(focuses):
    def gen(tier, rng):
        n = 300 if tier != 'thorough' else 12000
        cases = mechgen.systematic_cases()
        for i in range(n):
            ln = rng.randrange(8, 120 if tier != 'thorough' else 200)
            cases.append(('M%d' % i, mechgen.gen_history(rng, ln, focus=focuses[i % len(focuses)])))
        return cases
    return gen

def mech_stream(focuses, orderings=False, count_oracle=True, ctx_extra=None):
    extra = dict(model_map=mech_model_map) if orderings else dict(model_map=mech_model_map_noord, impl_map=strip_orderings)
    extra['ctx'] = dict(count_oracle=count_oracle)
    if ctx_extra: extra['ctx'].update(ctx_extra)
    return dict(stream='mech', gen=gen_mech_for(focuses), oracle=oracle_mech, refine=refine_mech, nontrivial=nontrivial_mech, distribution=dist_mech,
                prep=mech_prep, **extra,
                rule='2953 systematic scenarios (every operation on every handle kind, sole owner and shared in 9 ways, callbacks with 14 bodies, replace/assign inside with_arc_mut with and without a panic; tools/mechgen.py systematic_cases) followed by random histories of 8..120 (thorough: ..200) handle operations from one PRNG over all 23 handle kinds, 12 constructors, 26 conversion edges, 5 callback forms with nested bodies, injected panics and ~6% malformed operations (tools/mechgen.py); observation per op = status, results, destructor/clone/alloc/dealloc/atomic events; non-trivial = uses at least two of {conversion, borrow-promotion, make_mut/make_unique, unwrap_or_clone, callback, panic, replace/assign, uninit write}; distinct = distinct op lists',
                cfgs=dict(quick=[('cfg_default', 'debug'), ('cfg_default', 'release')],
                          thorough=[('cfg_default', 'debug'), ('cfg_default', 'release'), ('cfg_nostd', 'debug'), ('cfg_nostd', 'release'), ('cfg_all', 'debug'), ('cfg_all', 'release')]))

def atomics_side(facts):
    """closed world of atomic sites + orderings (shared by every property that relies on the counter protocol)"""
    A = facts.get('atomics') or {}
    out = []
    try:
        sc = site_codes(facts); ok = True; det = 'five modelled sites found: %s' % sc
    except Exception as ex:
        ok = False; det = str(ex)
    out.append(('atomic_sites_are_the_five_modelled', ok and len(A.get('sites', [])) == 5 and not A.get('other'),
                det + '; %d sites, other accesses to the counter: %s' % (len(A.get('sites', [])), A.get('other'))))
    out.append(('counter_initialised_to_one', all(i.get('value') == '1' for i in A.get('inits', [])) and len(A.get('inits', [])) >= 3, 'inits: %s' % A.get('inits')))
    return out

MECH_ASSUME = ['Rust move/drop/unwind semantics as transcribed in coq/theories/Mech.v (ManuallyDrop, mem::forget, ptr::read = no drop; scope ends = explicit drops); validated on every run by the mech stream',
               'the model and the implementation are compared on sampled histories (tie 2), the theorems hold for all histories of the model',
               'pointer provenance / aliasing rules are not modelled: they are checked by miri on scenario programs (and, in the thorough tier, on the harness streams), which is testing']

def mech_prop(focuses, extra_side=None, orderings=False, count_oracle=True, ctx_extra=None):
    def side(facts):
        return (atomics_side(facts) if orderings else []) + (extra_side(facts) if extra_side else [])
    return dict(streams=[mech_stream(focuses, orderings, count_oracle, ctx_extra)], side_obligations=side,
                facts_view=lambda facts: dict(atomic_sites=[(s['fn'], s['method'], s['orderings']) for s in (facts.get('atomics') or {}).get('sites', [])]),
                assumptions=MECH_ASSUME)

PROPS['C01'] = mech_prop([None, {'thin', 'with'}, {'union'}, {'unique'}, {'raw'}, {'uninit'}, None], count_oracle=False)
PROPS['C04'] = mech_prop([None, {'with'}, {'thin', 'with'}, {'union'}, None])


# ============================================================================
# concurrency (C02 and the schedule halves of C03 C08 C09)
# ============================================================================
def protocol_side(facts):
    P = facts.get('protocol') or {}
    out = []
    out.append(('atomic_sites_closed_world', bool(P.get('closed')), 'sites outside the modelled functions: %s' % P.get('unmodelled_sites')))
    out.append(('drop_inner_shape', bool(P.get('drop_shape')), 'decrement %s, then %s %s unconditionally, then drop_slow' % (P.get('dec_ord'), P.get('acq_kind'), P.get('acq_ord'))))
    out.append(('decrement_is_release', P.get('dec_ord') in ('Rel', 'AcqRel', 'SC'), 'fetch_sub ordering: %s' % P.get('dec_ord')))
    out.append(('acquire_after_last_decrement', P.get('acq_ord') in ('Acq', 'AcqRel', 'SC') and bool(P.get('drop_shape')), '%s ordering: %s' % (P.get('acq_kind'), P.get('acq_ord'))))
    return out

def cow_side(facts):
    PT = facts.get('pointers') or {}
    return [('uniqueness_and_copy_on_write_functions_are_the_modelled_ones', bool((PT.get('forms') or {}).get('cow')),
             'functions differing from the bodies Mech.v was written against: %s' % PT.get('diffs'))]

def uniq_side(facts):
    P = facts.get('protocol') or {}
    return [('uniqueness_test_is_acquire', P.get('uniq_ord') in ('Acq', 'AcqRel', 'SC') and bool(P.get('uniq_shape')),
             'is_unique -> count -> load ordering: %s' % P.get('uniq_ord'))]

def search_progs(facts, tier):
    """bounded exploration of the counter protocol AS WRITTEN (ConcX.v, programs translated from the source)"""
    import countprogs, re
    CP = facts.get('count_progs') or {}
    if not CP or all(CP.get(k) == countprogs.GOOD[k] for k in ('drop', 'uniq', 'uoc')): return None
    if any('IUnknown' in CP.get(k, ['IUnknown']) for k in ('drop', 'uniq', 'uoc')): return None
    d2, d3 = (10, 8) if tier != 'thorough' else (11, 9)
    body = ('From Coq Require Import List. Import ListNotations.\nFrom TV Require Import Layout SrcFacts Conc ConcX Extracted.\n'
            'Eval vm_compute in (match xexplore Extracted.count_progs 2 %d xinit [] with Some w => Some w | None => xexplore Extracted.count_progs 3 %d xinit [] end).\n' % (d2, d3))
    rc, out = vlib.coq_eval(body, 'xexplore', timeout=1500)
    if rc != 0: return None
    txt = ' '.join(out.split())
    m = re.search(r'Some\s*\[([^\]]*)\]', txt)
    if not m: return None
    sched = [x.strip() for x in m.group(1).split(';') if x.strip()]
    return dict(description='the counter protocol as written in the source (drop_inner = %s; try_unique = %s; unwrap_or_clone, not unique = %s) has a schedule ending in a data race, an access after free, a double destroy/free or a lost value: %s'
                % (CP['drop'], CP['uniq'], CP['uoc'], '; '.join(sched)),
                payload=dict(kind='model-counterexample', model='coq/theories/ConcX.v', programs=CP, schedule=sched,
                             replay='Eval vm_compute in option_map bad (xexec Extracted.count_progs xinit [%s])' % '; '.join(sched)))

def search_conc(facts, tier, rng):
    """bounded exploration of the extracted-configuration machine for a racy schedule (search only)"""
    found = search_progs(facts, tier)
    if found: return found
    # the ordering-parametrised machine is only meaningful when the translator recognised the protocol's shape and
    # every ordering: otherwise its configuration would be made of defaults, and a schedule found for it says nothing
    # about the code
    P0 = facts.get('protocol') or {}
    if not (P0.get('drop_shape') and P0.get('uniq_shape') and P0.get('dec_ord') and P0.get('acq_ord') and P0.get('uniq_ord')):
        return None
    depth2, depth3 = (9, 7) if tier != 'thorough' else (10, 8)
    body = ('From Coq Require Import List. Import ListNotations.\nFrom TV Require Import Layout SrcFacts Conc Extracted.\n'
            'Eval vm_compute in (explore Extracted.conc_cfg 2 %d cinit [], explore Extracted.conc_cfg 3 %d cinit []).\n' % (depth2, depth3))
    rc, out = vlib.coq_eval(body, 'explore', timeout=900)
    if rc != 0: return None
    txt = ' '.join(out.split())
    import re
    m = re.search(r'Some\s*\[([^\]]*)\]', txt)
    if not m: return None
    sched = [x.strip() for x in m.group(1).split(';') if x.strip()]
    P = facts.get('protocol') or {}
    return dict(description='the view machine under the orderings found in the source (decrement %s, acquire site %s %s, uniqueness test %s) has a racy schedule: %s'
                % (P.get('dec_ord'), P.get('acq_kind'), P.get('acq_ord'), P.get('uniq_ord'), '; '.join(sched)),
                payload=dict(kind='model-counterexample', model='coq/theories/Conc.v', config=dict(dec=P.get('dec_ord'), acq=P.get('acq_ord'), uniq=P.get('uniq_ord')),
                             schedule=sched, replay='Eval vm_compute in raced_after Extracted.conc_cfg [%s]' % '; '.join(sched)))

# ============================================================================
# schedule stream (C02 C03 C08 C09): real threads of the crate, serialised by the harness, against the ConcX machine
# ============================================================================
SCHED_CODE = {'IDec': 1, 'IInc': 2, 'ILoad': 3, 'IRetIfNe': 4, 'IRetIfEq': 5, 'IDestroyFree': 6, 'IGrant': 7, 'ICloneVal': 8, 'IDropHandle': 9, 'IUnknown': 0}
SCHED_ORD = {'ORlx': 0, 'ORel': 1, 'OAcq': 2, 'OAcqRel': 3}
SCHED_KIND = {0: 'clone', 1: 'read', 2: 'write', 3: 'ungrant', 4: 'move-out', 5: 'send', 6: 'start drop', 7: 'start try_unique', 8: 'start unwrap_or_clone', 9: 'step',
              10: 'start make_mut', 11: 'start get_mut', 12: 'start try_unwrap', 13: 'start is_unique'}
def sched_enc_prog(instrs):
    out = []
    for i in instrs:
        w = i.split(); c = SCHED_CODE.get(w[0], 0)
        if c in (1, 2, 3): out += [c, SCHED_ORD.get(w[1], 0), 1 if w[2] == 'true' else 0]
        elif c in (4, 5): out += [c, int(w[1]), 0]
        else: out += [c, 0, 0]
    return out

# what each property's schedules are made of (weights of the ten label kinds)
# guided schedules also start make_mut (kind 10), get_mut (kind 11) and try_unwrap (kind 12)
SCHED_PROFILES = {
    'cow':    [[2, 4, 4, 3, 0, 4, 3, 2, 0, 17, 6, 1], [5, 4, 3, 2, 0, 8, 3, 1, 0, 14, 5, 2], [2, 3, 3, 2, 1, 4, 2, 3, 2, 16, 4, 1]],
    'drops':  [[3, 5, 0, 0, 0, 5, 5, 0, 0, 18], [6, 4, 0, 0, 0, 8, 4, 0, 0, 14]],
    'unique': [[2, 4, 4, 3, 2, 4, 3, 4, 0, 16, 2, 3], [5, 4, 3, 2, 1, 8, 3, 3, 0, 14, 1, 3]],
    'unwrap': [[2, 4, 1, 1, 4, 4, 3, 2, 5, 18, 0, 0, 4], [5, 3, 1, 1, 3, 8, 3, 2, 4, 14, 0, 0, 4], [2, 3, 3, 2, 4, 4, 2, 4, 3, 16, 0, 1, 3]],
}
# free schedules (no model in the loop) use more of make_mut (10), get_mut (11), try_unwrap (12), and is_unique (13), which
# the machine has no label for; added to the weights above
SCHED_FREE_EXTRA = {'drops': [0] * 13 + [1], 'unique': [0] * 10 + [2, 1, 2, 2], 'unwrap': [0] * 10 + [2, 1, 1, 1], 'cow': [0] * 12 + [1, 1]}
def sched_gen(rng, profile, n, length, free=False):
    W = rng.choice(SCHED_PROFILES[profile])
    W = W + [0] * (14 - len(W))
    if free: W = [a + b for a, b in zip(W, SCHED_FREE_EXTRA[profile])]
    labels = []
    for _ in range(length):
        t = rng.randrange(n); k = rng.choices(range(len(W)), weights=W)[0]
        if k == 5: a = rng.randrange(n)
        elif k == 9: a = rng.randrange(0, 6) if rng.random() < 0.25 else 1000
        else: a = 0
        labels.append([k, t, a])
    return labels

def sched_run(exe, cases, tag, timeout=600):
    """run cases on one binary, sharded over the cores; -> (observations, crashed case ids, stray lines)"""
    import concurrent.futures
    tmpd = os.path.join(vlib.CACHE, 'run', tag)
    shutil.rmtree(tmpd, ignore_errors=True); os.makedirs(tmpd)
    n = max(1, min(vlib.NPROC, len(cases) // 100 + 1))
    parts = [cases[i::n] for i in range(n)]
    def one(i):
        cf = os.path.join(tmpd, 'cases%d.txt' % i); vlib.write_cases(cf, parts[i])
        rc, out, err = vlib.run_side(exe, 'sched', cf, timeout=timeout)
        obs, stray = vlib.parse_obs(out)
        crashed = []
        if rc != 0:
            rest = [c for c in parts[i] if c[0] not in obs]
            if rest: crashed.append((rest[0][0], rc, err[-1500:]))
            for c in rest[1:]:
                cf1 = os.path.join(tmpd, 'single%d.txt' % i); vlib.write_cases(cf1, [c])
                rc1, o1, e1 = vlib.run_side(exe, 'sched', cf1, timeout=60)
                o1, _ = vlib.parse_obs(o1); obs.update(o1)
                if rc1 != 0: crashed.append((c[0], rc1, e1[-1500:]))
        return obs, crashed, stray
    obs = {}; crashed = []; stray = []
    with concurrent.futures.ThreadPoolExecutor(max_workers=n) as ex:
        for o, c, st in ex.map(one, range(n)):
            obs.update(o); crashed += c; stray += st
    return obs, crashed, stray

def sched_verdict(o):
    """what the implementation-side bookkeeping says about one run (None: nothing wrong)"""
    if o is None: return 'no output'
    s900 = [l for l in o if l and l[0] == 900]; s901 = [l for l in o if l and l[0] == 901]
    if not s900 or not s901: return 'no summary'
    a, b = s900[0], s901[0]
    why = []
    if len(a) > 3 and a[3]: why.append('two accesses to the value or its block are not ordered by happens-before (data race), or something touched the block after its release, or the value was destroyed or released twice')
    if len(a) > 4 and a[4]: why.append('no handle is left and the block was never released (leak)')
    if len(b) > 1 and b[1]: why.append('a read found the payload destroyed')
    if len(b) > 2 and b[2]: why.append('the destructor ran on a destroyed payload')
    if len(b) > 3 and b[3]: why.append('the block was released although it was not live (double release)')
    if len(b) > 4 and b[4]: why.append('a call panicked')
    return '; '.join(why) or None

def sched_describe(labels):
    out = []
    for l in labels:
        if l[0] >= 900: continue
        d = 'T%d %s' % (l[1], SCHED_KIND.get(l[0], '?'))
        if l[0] == 5: d += ' to T%d' % l[2]
        if l[0] == 9 and len(l) >= 8:
            if l[3] == 2: d += ': %s(%s) read %d%s' % ({1: 'load', 2: 'fetch_add', 3: 'fetch_sub'}.get(l[5], '?'), {0: 'Relaxed', 1: 'Release', 2: 'Acquire', 3: 'AcqRel'}.get(l[6], '?'), l[7], ' (message %d)' % l[2] if l[5] == 1 else '')
            elif l[3] == 3: d += ': destroys the value and releases the block'
            elif l[3] == 4: d += ': clones the value'
            elif l[4] == 1: d += ': returns'
        if l[0] == 0 and len(l) >= 8: d += ': fetch_add(%s) read %d' % ({0: 'Relaxed', 1: 'Release', 2: 'Acquire', 3: 'AcqRel'}.get(l[6], '?'), l[7])
        out.append(d)
    return out

def sched_shrink(exe, head, labels, budget=250):
    """delta-debugging of a failing free-mode schedule (readability of the replay only)"""
    tmp = os.path.join(vlib.CACHE, 'run', 'sched-shrink'); os.makedirs(tmp, exist_ok=True)
    def bad(cand):
        cf = os.path.join(tmp, 'c.txt'); vlib.write_cases(cf, [('x', [head] + cand)])
        rc, out, err = vlib.run_side(exe, 'sched', cf, timeout=60)
        obs, _ = vlib.parse_obs(out)
        return rc != 0 or sched_verdict(obs.get('x')) is not None
    cur = list(labels); n = 2; runs = 0
    if not bad(cur): return cur
    while len(cur) >= 2 and runs < budget:
        chunk = max(1, len(cur) // n); reduced = False
        for i in range(0, len(cur), chunk):
            cand = cur[:i] + cur[i + chunk:]; runs += 1
            if cand and bad(cand):
                cur = cand; n = max(n - 1, 2); reduced = True; break
            if runs >= budget: break
        if not reduced:
            if chunk == 1: break
            n = min(len(cur), n * 2)
    return cur

def make_custom_sched(profile):
    def custom(tier, rng, facts, replay=None):
        import collections
        cov = dict(profile=profile, guided_cases=0, accepted_labels=0, free_cases=0, configs=[], disagreements=0, oracle_failures=0, crashes=0,
                   label_kinds={}, stale_loads=0, final_states={}, payloads={'with destructor': 0, 'without drop glue': 0},
                   handles_held_as={'Arc': 0, 'OffsetArc': 0, 'OffsetArc on odd threads': 0})
        problems = []; nontrivial = set(); samples = []
        CP = facts.get('count_progs') or {}
        if not all(k in CP for k in ('drop', 'uniq', 'uoc')):
            problems.append(('model', 'the counter programs were not translated', dict(kind='unproved', stage='tie2-sched')))
            return dict(coverage=cov, evaluations=0, nontrivial=nontrivial, problems=problems, samples=samples)
        prefix = [[200] + sched_enc_prog(CP['drop']), [201] + sched_enc_prog(CP['uniq']), [202] + sched_enc_prog(CP['uoc'])]
        modelrun = os.path.join(vlib.OCAMLDIR, 'modelrun')
        ng, nf = (800, 1500) if tier != 'thorough' else (8000, 20000)
        rp_case = None
        if replay:
            fi = (json.load(open(replay)).get('failing_input') or {})
            if fi.get('stream') == 'sched' and 'case' in fi: rp_case = fi['case']
        guided = []; free = []
        if rp_case is not None:
            (free if all(len(l) == 3 for l in rp_case[1:]) else guided).append(('replay', rp_case))
        else:
            for stream_cases, tag, cnt in ((guided, 'g', ng), (free, 'f', nf)):
                for cid, ops in load_corpus('sched-' + profile):
                    if (tag == 'f') == all(len(l) == 3 for l in ops[1:]): stream_cases.append((cid, ops))
                for i in range(cnt):
                    n = rng.choice([2, 3, 3]); pay = rng.choice([0, 0, 1]); hk = rng.choice([0, 0, 1, 2])
                    stream_cases.append(('%s%d' % (tag, i), [[199, n, pay, hk]] + sched_gen(rng, profile, n, rng.randrange(40, 400), free=(tag == 'f'))))
        # the model accepts a sub-sequence of each guided raw stream and says what each accepted label looks like
        mobs = {}
        raw_guided = [c for c in guided if all(len(l) == 3 for l in c[1][1:])]
        if raw_guided:
            mobs, mcr, mstray = sched_run(modelrun, [(cid, [ops[0]] + prefix + ops[1:]) for cid, ops in raw_guided], 'sched-model-' + profile)
            for cid, rc, err in mcr[:2]:
                problems.append(('model', 'the extracted machine died on schedule %s' % cid, dict(kind='unproved', stage='tie2-sched', output=err)))
        real_guided = []
        for cid, ops in guided:
            if cid in mobs:
                acc = [l for l in mobs[cid] if l and l[0] < 900]
                real_guided.append((cid, [ops[0]] + [l[:5] for l in acc]))
                cov['accepted_labels'] += len(acc)
                for l in acc:
                    cov['label_kinds'][SCHED_KIND[l[0]]] = cov['label_kinds'].get(SCHED_KIND[l[0]], 0) + 1
                    if l[0] == 9 and l[5] == 1: cov['stale_loads'] += 1
                fin = [l for l in mobs[cid] if l and l[0] == 900]
                if fin:
                    key = 'destroyed=%d freed=%d raced=%d leaked=%d' % tuple(fin[0][1:5]); cov['final_states'][key] = cov['final_states'].get(key, 0) + 1
                if len(acc) >= 4: nontrivial.add(json.dumps(acc))
            elif all(len(l) == 5 for l in ops[1:]):      # a replayed guided case carries its classes already
                real_guided.append((cid, ops))
        for cid, ops in guided + free:
            cov['payloads']['without drop glue' if len(ops[0]) > 2 and ops[0][2] == 1 else 'with destructor'] += 1
            cov['handles_held_as'][['Arc', 'OffsetArc', 'OffsetArc on odd threads'][ops[0][3] if len(ops[0]) > 3 and ops[0][3] < 3 else 0]] += 1
        cov['guided_cases'] = len(real_guided); cov['free_cases'] = len(free)
        cfgs = [('cfg_default', 'debug'), ('cfg_default', 'release')] + ([('cfg_nostd', 'release'), ('cfg_all', 'release')] if tier == 'thorough' else [])
        evaluations = 0
        for cfg, prof in cfgs:
            with vlib.Lock():
                rc, out, exe = vlib.build_harness(cfg, prof)
            if rc != 0:
                problems.append(('build', 'harness does not build against /repo (%s/%s): %s' % (cfg, prof, out[-1500:]), dict(kind='unproved', stage='harness-build', cfg=cfg, profile=prof, output=out[-4000:])))
                continue
            cov['configs'].append('%s/%s' % (cfg, prof))
            iobs, crashes, stray = sched_run(exe, real_guided + free, 'sched-impl-%s-%s-%s' % (profile, cfg, prof))
            evaluations += len(real_guided) + len(free)
            casemap = dict(real_guided + free)
            for cid, rcode, err in crashes[:3]:
                cov['crashes'] += 1
                problems.append(('crash', 'harness process died (rc=%s) on schedule %s' % (rcode, cid),
                                 dict(kind='impl-counterexample', stream='sched', cfg=cfg, profile=prof, case=casemap.get(cid), observation='process died rc=%s' % rcode, stderr=err)))
            for l in stray[:2]:
                problems.append(('stray', 'unexpected output line: ' + l[:300], dict(kind='unproved', stage='tie2-sched', line=l[:1000])))
            if 'free_label_kinds' not in cov:
                fk = {}
                for cid, ops in free:
                    for l in (iobs.get(cid) or []):
                        if l and l[0] < 900: fk[SCHED_KIND.get(l[0], '?')] = fk.get(SCHED_KIND.get(l[0], '?'), 0) + 1
                cov['free_label_kinds'] = fk
            noracle = 0; ncorr = 0; first_free_fail = None
            for cid, ops in real_guided + free:
                io = iobs.get(cid)
                if io is not None:
                    used = [l for l in io if l and l[0] == 902]
                    io = [l for l in io if not (l and l[0] == 902)]
                    want = [902, 0 if (len(ops[0]) > 2 and ops[0][2] == 1) else 1, ops[0][3] if len(ops[0]) > 3 else 0]
                    if used != [want] and not any(p[0] == 'harness' for p in problems):
                        problems.append(('harness', 'the schedule harness did not use the payload / handle kind the case asks for (%s instead of %s)' % (used, want),
                                         dict(kind='unproved', stage='tie2-sched', case=ops[:1])))
                if io is None:
                    if not any(c[0] == cid for c in crashes):
                        problems.append(('missing', 'no implementation output for schedule %s' % cid, dict(kind='unproved', stage='tie2-sched', case=ops)))
                    continue
                why = sched_verdict(io)
                is_free = all(len(l) == 3 for l in ops[1:])
                if why:
                    cov['oracle_failures'] += 1
                    if is_free and first_free_fail is None: first_free_fail = (cid, ops, io, why)
                    elif not is_free and noracle < 3:
                        problems.append(('oracle', 'schedule %s on the real crate (%s/%s): %s' % (cid, cfg, prof, why),
                                         dict(kind='impl-counterexample', stream='sched', cfg=cfg, profile=prof, case=ops, impl_observation=io, model_observation=mobs.get(cid),
                                              schedule=sched_describe(io), why=why)))
                        noracle += 1
                elif not is_free:
                    mo = mobs.get(cid)
                    if mo is not None and io != mo:
                        cov['disagreements'] += 1
                        if ncorr < 3:
                            problems.append(('correspondence', 'the crate and the machine running the translated counter programs disagree on schedule %s (%s/%s)' % (cid, cfg, prof),
                                             dict(kind='correspondence', stream='sched', cfg=cfg, profile=prof, case=ops, impl_observation=io, model_observation=mo,
                                                  first_difference=next((i for i, (x, y) in enumerate(zip(io, mo)) if x != y), min(len(io), len(mo))))))
                        ncorr += 1
            if first_free_fail is not None:
                cid, ops, io, why = first_free_fail
                small = ops[1:]
                try: small = sched_shrink(exe, ops[0], ops[1:])
                except Exception: pass
                cf = os.path.join(vlib.CACHE, 'run', 'sched-shrink', 'final.txt'); vlib.write_cases(cf, [('x', [ops[0]] + small)])
                rc2, out2, _ = vlib.run_side(exe, 'sched', cf, timeout=60); o2, _ = vlib.parse_obs(out2)
                io2 = o2.get('x') or io
                problems.append(('oracle', 'schedule %s on the real crate (%s/%s), shrunk from %d to %d labels: %s' % (cid, cfg, prof, len(ops) - 1, len(small), sched_verdict(io2) or why),
                                 dict(kind='impl-counterexample', stream='sched', cfg=cfg, profile=prof, case=[ops[0]] + small, original_case=ops, impl_observation=io2,
                                      schedule=sched_describe(io2), why=sched_verdict(io2) or why,
                                      how_to_read='threads of the real crate are released one visible step at a time (after each atomic operation on the counter, at the payload destructor, at the payload clone); happens-before is computed from the orderings the crate used')))
            if len(samples) < 2 and real_guided:
                cid, ops = real_guided[len(real_guided) // 2]
                samples.append(dict(stream='sched', case=ops, impl=iobs.get(cid), schedule=sched_describe(iobs.get(cid) or [])))
        return dict(coverage=cov, evaluations=evaluations, nontrivial=nontrivial, problems=problems[:8], samples=samples)
    return custom

def SCHED_STREAM(profile):
    return dict(stream='sched-' + profile, custom=make_custom_sched(profile), custom_replay=True,
                rule='real threads of the real crate (Arc<payload> with and without drop glue, 2-3 threads, handles held as Arc or as OffsetArc between operations) are serialised by the harness: a thread is released up to its next atomic operation on the counter, to the payload destructor or to the payload clone; loads may be handed any older value of the counter that the thread\'s view allows. GUIDED schedules: random label streams filtered by the ConcX machine running the counter programs translated from the source; every accepted label is compared (operation, ordering, value read, what the step does, whether the function returns) and so is the final state (destroyed, released, raced, leaked, handles per thread), the implementation side computing happens-before from the orderings the crate really used. FREE schedules: the same on the implementation alone, as a search for a failing schedule. Profile %s. distinct = distinct accepted guided schedules of 4 or more labels' % profile)

# ============================================================================
# miri scenarios: the abstract machine as an oracle on the real crate (provenance, uninitialised reads, the layout a
# block is released with, data races between real threads, leaks)
# ============================================================================
MIRI_DIR = os.path.join(vlib.ROOT, 'miri')
def miri_tests():
    import re
    out = {}
    for f in ('scenarios', 'leaky', 'more'):
        txt = open(os.path.join(MIRI_DIR, 'tests', f + '.rs')).read()
        for m in re.finditer(r'#\[test\]\s*fn\s+(c\d\d_\w+)\s*\(\)\s*\{', txt):
            # the body, for the replay file
            i = m.end(); depth = 1
            while i < len(txt) and depth:
                depth += {'{': 1, '}': -1}.get(txt[i], 0); i += 1
            out[m.group(1)] = (f, txt[m.start():i])
    return out

def miri_env():
    env = dict(vlib.ENV)
    env.pop('RUSTFLAGS', None)                       # the crate as shipped: no verification hooks under miri
    env['CARGO_TARGET_DIR'] = os.path.join(vlib.TARGET, 'miri')
    env['MIRI_SYSROOT'] = os.path.join(vlib.CACHE, 'miri-sysroot')
    return env

def miri_ready():
    """build miri's sysroot (offline, from rust-src) when it is not there; -> (ok, message)"""
    env = miri_env()
    if os.path.isdir(os.path.join(env['MIRI_SYSROOT'], 'lib')): return True, 'sysroot present'
    lock = os.path.join(MIRI_DIR, 'Cargo.lock')
    if not os.path.exists(lock) and os.path.exists(os.path.join(vlib.HARNESS, 'Cargo.lock')): shutil.copy(os.path.join(vlib.HARNESS, 'Cargo.lock'), lock)
    with vlib.Lock():
        if os.path.isdir(os.path.join(env['MIRI_SYSROOT'], 'lib')): return True, 'sysroot present'
        rc, out = vlib.run(['cargo', '+nightly', 'miri', 'setup'], cwd=MIRI_DIR, timeout=900, env=env)
    return rc == 0, vlib.strip_noise(out)[-1500:]

def miri_harness_runs(streams, rng):
    """run the harness itself under miri (no tracking allocator there: only undefined behaviour is looked at)"""
    import concurrent.futures, re
    cov = dict(streams=list(streams), cases=0, shards=0, undefined_behaviour=0); problems = []
    env = miri_env(); env['RUSTFLAGS'] = '--cfg triomphe_verif'; env['CARGO_TARGET_DIR'] = os.path.join(vlib.TARGET, 'miri-harness')
    env['MIRIFLAGS'] = '-Zmiri-disable-isolation -Zmiri-ignore-leaks'
    base = ['cargo', '+nightly', 'miri', 'run', '--offline', '--no-default-features', '--features', 'cfg_default', '--']
    tmpd = os.path.join(vlib.CACHE, 'run', 'miri-harness'); shutil.rmtree(tmpd, ignore_errors=True); os.makedirs(tmpd)
    jobs = []
    for st in streams:
        if st == 'mech':
            foc = [None, {'thin', 'with'}, {'uninit'}, {'union'}, {'unique'}, {'thin'}, {'raw'}]
            cases = [('M%d' % i, [[100, 1]] + mechgen.gen_history(rng, rng.randrange(8, 60), focus=foc[i % 7])) for i in range(240)] + \
                    [(cid, [[100, 1]] + ops) for cid, ops in load_corpus('mech')[:60]]
        elif st == 'ptr':
            cases = PTR_STREAM_C10['gen']('quick', rng); rng.shuffle(cases); cases = cases[:240]
        elif st == 'cmp':
            cases = EFFECTS_STREAM['gen']('quick', rng) + UNION_CMP_STREAM['gen']('quick', rng); rng.shuffle(cases); cases = cases[:240]
        else:
            continue
        cov['cases'] += len(cases)
        n = 8
        for i in range(n):
            part = cases[i::n]
            if not part: continue
            cf = os.path.join(tmpd, '%s%d.txt' % (st, i)); vlib.write_cases(cf, part)
            jobs.append((st, cf, part))
    if not jobs: return dict(coverage=cov, problems=problems)
    with vlib.Lock():
        empty = os.path.join(tmpd, 'empty.txt'); open(empty, 'w').write('')
        rc, out = vlib.run(base + ['mech', empty], cwd=vlib.HARNESS, timeout=1500, env=env)
    if rc != 0:
        problems.append(('build', 'the harness does not build / start under miri: %s' % vlib.strip_noise(out)[-800:], dict(kind='unproved', stage='miri-harness', output=vlib.strip_noise(out)[-2500:])))
        return dict(coverage=cov, problems=problems)
    def one(job):
        st, cf, part = job
        rc, out = vlib.run(base + [st, cf], cwd=vlib.HARNESS, timeout=2400, env=env)
        return job, rc, out
    with concurrent.futures.ThreadPoolExecutor(max_workers=8) as ex:
        results = list(ex.map(one, jobs))
    for (st, cf, part), rc, out in results:
        cov['shards'] += 1
        txt = vlib.strip_noise(out)
        if 'Undefined Behavior' not in txt: continue
        cov['undefined_behaviour'] += 1
        lines = txt.split('\n')
        k = next(i for i, l in enumerate(lines) if 'Undefined Behavior' in l)
        loc = next((l.strip() for l in lines[k:k + 6] if l.strip().startswith('-->')), '')
        done = set(re.findall(r'^(\w+)\.\d+\|', txt, re.M))
        culprit = next((c for c in part if c[0] not in done), part[-1])
        in_crate = '/repo/src/' in loc
        if in_crate and len([p for p in problems if p[0] == 'oracle']) < 3:
            problems.append(('oracle', '%s case %s under miri: %s (%s)' % (st, culprit[0], lines[k].strip()[:300], loc),
                             dict(kind='impl-counterexample', stream=st, case=culprit[1], miri_report=[l.strip() for l in lines[k:k + 25] if l.strip()][:25], why=lines[k].strip()[:600],
                                  how_to_rerun='the case through `cargo +nightly miri run` of harness/ (see tools/propdefs.py miri_harness_runs)')))
        elif not in_crate and not any(p[0] == 'harness-ub' for p in problems):
            problems.append(('harness-ub', 'undefined behaviour reported inside the harness itself while running %s under miri: %s %s' % (st, lines[k].strip()[:200], loc),
                             dict(kind='unproved', stage='miri-harness', report=[l.strip() for l in lines[k:k + 15]])))
    return dict(coverage=cov, problems=problems)

def make_custom_miri(prefixes, harness_streams=()):
    def custom(tier, rng, facts, replay=None):
        import concurrent.futures, re
        cov = dict(available=True, tests=0, passed=0, failed=0, runs=0, modes=[], names=[])
        problems = []; nontrivial = set(); samples = []
        ok, msg = miri_ready()
        if not ok:
            cov['available'] = False; cov['note'] = 'miri is not usable here (%s): the scenarios were not run' % msg[-300:]
            return dict(coverage=cov, evaluations=0, nontrivial=nontrivial, problems=problems, samples=samples)
        tests = miri_tests()
        names = sorted(n for n in tests if any(n.startswith(p) for p in prefixes))
        if replay:
            fi = (json.load(open(replay)).get('failing_input') or {})
            if fi.get('stream') == 'miri' and fi.get('test') in tests: names = [fi['test']]
        # threaded scenarios also run without debug assertions (as a release build: the crate's debug assertions re-read
        # the count with Acquire, which can supply a happens-before edge that release builds do not have)
        modes = [('stacked-borrows', ''), ('stacked-borrows, no debug assertions, threaded', '')] + \
                ([('tree-borrows', '-Zmiri-tree-borrows'), ('stacked-borrows, 6 schedules', '-Zmiri-many-seeds=0..6'),
                  ('stacked-borrows, no debug assertions, threaded, 6 schedules', '-Zmiri-many-seeds=0..6')] if tier == 'thorough' else [])
        cov['modes'] = [m for m, _ in modes]; cov['names'] = names; cov['tests'] = len(names)
        env0 = miri_env()
        # build once (the test binaries), then run the tests one by one: a report of undefined behaviour ends the process
        with vlib.Lock():
            rc, out = vlib.run(['cargo', '+nightly', 'miri', 'test', '--offline', '--no-run'], cwd=MIRI_DIR, timeout=900, env=env0)
        if rc != 0:
            problems.append(('build', 'the miri scenarios do not build against /repo: %s' % vlib.strip_noise(out)[-1200:], dict(kind='unproved', stage='miri-build', output=vlib.strip_noise(out)[-3000:])))
            return dict(coverage=cov, evaluations=0, nontrivial=nontrivial, problems=problems, samples=samples)
        jobs = [(n, m, fl) for n in names for m, fl in modes if not (('schedules' in m or 'threaded' in m) and not re.search(r'thread::spawn', tests[n][1]))]
        def one(job):
            n, m, fl = job
            env = dict(env0)
            flags = fl + (' -Zmiri-ignore-leaks' if tests[n][0] == 'leaky' else '')
            if flags.strip(): env['MIRIFLAGS'] = flags.strip()
            if 'no debug assertions' in m:
                env['CARGO_PROFILE_DEV_DEBUG_ASSERTIONS'] = 'false'; env['CARGO_PROFILE_TEST_DEBUG_ASSERTIONS'] = 'false'
                env['CARGO_TARGET_DIR'] = env0['CARGO_TARGET_DIR'] + '-nda'
            rc, out = vlib.run(['cargo', '+nightly', 'miri', 'test', '--offline', '--test', tests[n][0], '--', '--exact', n], cwd=MIRI_DIR, timeout=600, env=env)
            return job, rc, out
        with concurrent.futures.ThreadPoolExecutor(max_workers=max(1, min(vlib.NPROC, len(jobs)))) as ex:
            results = list(ex.map(one, jobs))
        for (n, m, fl), rc, out in results:
            cov['runs'] += 1
            # (with several seeds the runs' outputs interleave: the exit status decides)
            good = rc == 0 and 'Undefined Behavior' not in out and ('schedules' in m or re.search(r'test result: ok\. 1 passed', out) is not None)
            if good:
                cov['passed'] += 1; nontrivial.add(n); continue
            cov['failed'] += 1
            txt = vlib.strip_noise(out)
            errs = [l.strip() for l in txt.split('\n') if ('Undefined Behavior' in l or 'memory leaked' in l or l.startswith('error')) and 'test failed' not in l and 'aborting due' not in l and 'occurred here' not in l]
            errs = [re.sub(r'^test \S+ \.\.\. ', '', l) for l in errs]
            where = [l.strip() for l in txt.split('\n') if '/repo/src/' in l][:6]
            panic = [l.strip() for l in txt.split('\n') if 'panicked at' in l][:2]
            why = (errs[0] if errs else (panic[0] if panic else 'the scenario did not pass')) 
            if len([p for p in problems if p[0] == 'oracle']) < 4:
                problems.append(('oracle', 'scenario %s under miri (%s): %s' % (n, m, why[:300]),
                                 dict(kind='impl-counterexample', stream='miri', test=n, mode=m, program=tests[n][1], miri_report=errs[:4] + where, panic=panic,
                                      how_to_rerun='cd /verif/miri && %scargo +nightly miri test --offline --test %s -- --exact %s' % (('MIRIFLAGS="%s" ' % fl) if fl else '', tests[n][0], n), why=why[:600])))
        # thorough tier: the harness's own random histories (mech), pointer cases (ptr) and comparison cases (cmp) run under
        # miri as well: the same operation mixes the streams use, judged by the abstract machine instead of by observations
        if tier == 'thorough' and harness_streams and not replay:
            hres = miri_harness_runs(harness_streams, rng)
            cov['harness_under_miri'] = hres['coverage']; cov['runs'] += hres['coverage'].get('cases', 0)
            problems += hres['problems']
        if names: samples.append(dict(stream='miri', test=names[0], program=tests[names[0]][1][:1500]))
        return dict(coverage=cov, evaluations=cov['runs'], nontrivial=nontrivial, problems=problems, samples=samples)
    return custom

def MIRI_STREAM(prefixes, harness_streams=()):
    return dict(stream='miri', custom=make_custom_miri(prefixes, harness_streams), custom_replay=True,
                rule='scenario programs over the public API (miri/tests/*.rs: %s) run under miri against /repo as shipped (no hooks): Stacked Borrows pointer provenance, reads of uninitialised memory, the layout every block is released with, double frees, leaks at exit (except in the scenarios whose documented behaviour leaks), data races between real threads under the orderings the crate uses; thorough tier: also Tree Borrows and 6 schedules of the threaded scenarios. An oracle on the implementation, not a proof; distinct = scenarios that passed' % ', '.join(p + '*' for p in prefixes))

def facts_protocol(facts):
    P = facts.get('protocol') or {}
    return dict((k, P.get(k)) for k in ['dec_ord', 'acq_kind', 'acq_ord', 'uniq_ord', 'inc_ord', 'strong_ord', 'closed', 'drop_shape', 'unmodelled_sites'])

CONC_ASSUME = MECH_ASSUME + ['the memory model is the promise-free view semantics of release/acquire + relaxed RMWs on one counter (RC11 without load buffering), coq/theories/Conc.v',
                             'real threads of the crate are run serialised, one visible step at a time, against the machine (schedule stream) and as a few miri scenarios; truly parallel executions are not explored: beyond those samples the tie is the translated orderings and counter programs, the closed world of atomic sites and the atomic footprint of every call',
                             'the happens-before bookkeeping of the schedule harness and miri\'s data-race detector are oracles on sampled executions, not proofs']

def conc_prop(focuses, with_uniq):
    P = mech_prop(focuses, extra_side=(lambda f: protocol_side(f) + ((uniq_side(f) + cow_side(f)) if with_uniq else [])), orderings=True)
    P['search'] = search_conc
    P['facts_view'] = facts_protocol
    P['assumptions'] = CONC_ASSUME
    return P

PROPS['C02'] = conc_prop([None, {'thin'}, {'union'}, {'raw'}, None], with_uniq=False)
PROPS['C03'] = conc_prop([{'unique'}, None, {'thin', 'with'}, {'uninit'}, {'unique'}], with_uniq=True)
PROPS['C08'] = conc_prop([{'unique'}, None, {'raw'}, {'union'}], with_uniq=True)
PROPS['C09'] = conc_prop([{'unique'}, None, {'unique'}, {'raw'}], with_uniq=True)
def c10_side(facts):
    PT = facts.get('pointers') or {}
    return [('thin_functions_unchanged', bool((PT.get('forms') or {}).get('thin')), 'differing: %s' % PT.get('diffs')),
            ('thin_pointee_is_the_zero_length_stand_in', bool(PT.get('thin_pointee_ok')), str(PT.get('thin_pointee')))]
PROPS['C10'] = mech_prop([{'thin', 'with'}, {'thin'}, None, {'thin', 'with'}], extra_side=c10_side)
PROPS['C15'] = mech_prop([{'uninit'}, None, {'uninit'}, {'unique'}], ctx_extra=dict(assume_init_oracle=True))


# ============================================================================
# ptr stream (C11, C12)
# ============================================================================
def gen_ptr(tier, rng):
    cases = []; n = 0
    def add(h, t, f, ln):
        nonlocal n
        cases.append(('P%d' % n, [[h, t, f, ln]])); n += 1
    lens = [0, 1, 2, 3, 7] if tier != 'thorough' else [0, 1, 2, 3, 5, 7, 17, 64]
    for t in range(len(SHAPES)):
        add(0, t, 0, 0); add(0, t, 2, 0)
        for ln in lens: add(0, t, 1, ln)
        for h in HIDX:
            for ln in lens[:4] if tier != 'thorough' else lens: add(h, t, 3, ln)
            add(h, t, 4, 0); add(h, t, 5, 0); add(h, t, 6, 2); add(h, t, 6, 0)
    # malformed
    add(2, 1, 0, 0); add(0, 40, 0, 0); add(0, 1, 9, 0); add(0, 1, 1, 100)
    return cases

def oracle_ptr(ops, io, ctx):
    """C11/C12 stated directly on the implementation's answers (F3 is handled by known_ptr)"""
    h, t, f, ln = ops[0]; o = io[0]
    if o[0] != 0: return None
    hs, hk = SHAPES[h] if h < len(SHAPES) else (0, 0); ts, tk = SHAPES[t] if t < len(SHAPES) else (0, 0)
    if f == 0:
        if o[2] != 1: return 'Arc::as_ptr differs from the address Deref yields'
        if o[1] < 8 or o[1] % (2 ** tk) != 0: return 'value address offset %d is not >= 8 and aligned to %d' % (o[1], 2 ** tk)
        if o[3] != o[1]: return 'into_raw (%d) differs from as_ptr (%d)' % (o[3], o[1])
        if o[4] != 1: return 'from_raw(into_raw(a)) does not recover the same allocation, contents and count'
        if o[5] != o[1] or o[6] != o[1]: return 'the bit pattern of OffsetArc/ArcBorrow (%d/%d) is not the value address (%d)' % (o[5], o[6], o[1])
        if o[7] != 1: return 'clone_arc / from_raw_offset do not lead back to the same allocation'
        if o[8] != 0: return 'heap_ptr is not the block start'
        if o[9:16] != [8] * 7: return 'a handle type or its Option is not one word: %s' % o[9:16]
        if o[16] != 1: return 'the address changed across clone/move'
        if o[17] != 1: return 'the block was not released with the layout it was allocated with'
    if f in (1, 2):
        if o[1] < 8: return 'value address inside the count'
        if o[-1] != 1: return 'the block was not released with its layout after the raw round trip'
        if (f == 1 and (o[2] != 1 or o[3] != 1 or o[4:6] != [16, 16])) or (f == 2 and (o[2] != 1 or o[3:5] != [16, 16])):
            return 'raw round trip of a slice / trait-object Arc failed or the handle is not two words: %s' % o
    if f == 3:
        if o[3] != 0 or o[5] != 1 or o[6:8] != [8, 8] or o[8] != 1: return 'ThinArc raw round trip / width / release failed: %s' % o
        if o[1] != o[4]: return 'ThinArc::as_ptr and into_raw differ'
        if o[1] != o[2]: return 'F3-class: ThinArc::as_ptr/into_raw yield offset %d but the value (what Deref yields) lives at offset %d' % (o[1], o[2])
    if f == 6 and len(o) >= 11:
        if o[1] != o[2]: return 'arc-swap glue of Arc<T>: RefCnt::as_ptr (offset %d) and into_ptr (offset %d) differ' % (o[1], o[2])
        if o[1] < 8 or o[1] % (2 ** tk) != 0: return 'arc-swap glue of Arc<T>: the raw form is offset %d, not the value address (what Arc::as_ptr / into_raw give and from_raw takes)' % o[1]
        if o[3] != 1: return 'arc-swap glue of Arc<T>: from_ptr(into_ptr(a)) does not recover the same allocation and count'
        if o[4] != o[5]: return 'arc-swap glue of ThinArc: RefCnt::as_ptr (offset %d) and into_ptr (offset %d) differ, so arc-swap cannot recognise its own debts' % (o[4], o[5])
        if o[6] != 1: return 'arc-swap glue of ThinArc: from_ptr(into_ptr(t)) does not recover the same allocation and count'
        if o[7:9] != [2, 1]: return 'a value held by an ArcSwapAny<Arc<T>> and one more handle: the count is %d after load guards / load_full came and went (2 expected; 0 as second number = stopped there), %d once the ArcSwapAny is gone (1 expected)' % (o[7], o[8])
        if o[9:11] != [2, 1]: return 'a value held by an ArcSwapAny<ThinArc> and one more handle: the count is %d after load guards / load_full came and went (2 expected; 0 as second number = stopped there), %d once the ArcSwapAny is gone (1 expected): a guard released a count it never owned' % (o[9], o[10])
    if f in (4, 5):
        exp = [1, 0, 1, 0] if f == 4 else [0, 1, 0, 1]
        if o[1:5] != exp: return 'ArcUnion built by %s reports %s through is_first/is_second/as_first/as_second' % ('from_first' if f == 4 else 'from_second', o[1:5])
        k = tk if f == 4 else hk
        if o[5] < 8 or o[5] % (2 ** k) != 0: return 'ArcUnion::borrow yields offset %d, not the value address' % o[5]
        if o[6] != 2 or o[8] != 1: return 'cloning/dropping the union moved the count to %d then %d (expected 2 then 1)' % (o[6], o[8])
        if o[7] != 1: return 'the clone of the union is not the same allocation and variant'
        if o[9] != 1: return 'dropping the union did not release the block with its layout'
        if o[10:12] != [8, 8]: return 'ArcUnion or Option<ArcUnion> is not one word: %s' % o[10:12]
    return None

def known_ptr(ops, io, mo, ctx):
    """F3: the ThinArc raw forms give the block start; mask exactly that and report it"""
    h, t, f, ln = ops[0]; o = io[0]
    if f == 3 and o[0] == 0 and len(o) >= 3 and o[1] == 0 and o[2] != 0:
        line = 'KNOWN-FINDING: property=C11 F3 ThinArc::as_ptr/into_raw (and the arc-swap glue) return the block start, not the address of the value that Deref yields'
        return (line if ctx.get('report_f3', True) else None, io, mo, 'F3-class')
    return None

PTR_STREAM = dict(stream='ptr', gen=gen_ptr, oracle=oracle_ptr, known=known_ptr,
                  nontrivial=lambda ops, io: ops[0][2] != 0 or SHAPES[ops[0][1] % len(SHAPES)][1] > 3 or SHAPES[ops[0][1] % len(SHAPES)][0] % 8 != 0,
                  rule='exhaustive over the matrix: 16 payload shapes x 8 header/second-type shapes x 7 forms (sized Arc with OffsetArc/ArcBorrow forms; slice; trait object; ThinArc; ArcUnion first / second; arc-swap glue) x slice lengths; observation = offsets relative to the allocator block, round-trip verdicts, handle and Option sizes, release layout; non-trivial = not a word-shaped sized payload; distinct = distinct case tuples',
                  cfgs=dict(quick=[('cfg_default', 'debug'), ('cfg_default', 'release'), ('cfg_all', 'debug')],
                            thorough=[('cfg_default', 'debug'), ('cfg_default', 'release'), ('cfg_nostd', 'release'), ('cfg_all', 'debug'), ('cfg_all', 'release')]))

def c11_side(facts):
    PT = facts.get('pointers') or {}; L = facts.get('layout') or {}
    F = PT.get('forms', {})
    out = [('%s_functions_unchanged' % g, bool(F.get(g)), 'differing: %s' % [d for d in PT.get('diffs', [])]) for g in ['arc_raw', 'offset', 'borrow', 'thin', 'swap']]
    out.append(('offset_of_data_translated', L.get('ood') not in (None, 'OUnknown'), str(L.get('ood'))))
    out.append(('from_raw_as_ptr_heap_ptr_forms', L.get('from_raw_form') == 'FRByteSubOffsetOfData' and L.get('as_ptr_form') == 'APAddrOfData' and L.get('heap_ptr_form') == 'HPBlockStart',
                '%s %s %s' % (L.get('from_raw_form'), L.get('as_ptr_form'), L.get('heap_ptr_form'))))
    return out

def c12_side(facts):
    PT = facts.get('pointers') or {}; U = PT.get('union', {})
    out = [('union_bit_expressions_translated', all('Unknown' not in str(U.get(k)) for k in ['tag1', 'tag2', 'test_first', 'untag1', 'untag2']), str(U)),
           ('borrow_arms_match_variants', bool(U.get('arms_ok')), ''),
           ('union_functions_unchanged', bool(PT.get('forms', {}).get('union')) and bool(PT.get('forms', {}).get('borrow')), 'differing: %s' % PT.get('diffs'))]
    return out

PROPS['C11'] = dict(streams=[PTR_STREAM, LAYOUT_STREAM], side_obligations=c11_side,
                    facts_view=lambda f: dict(ood=(f.get('layout') or {}).get('ood'), forms=(f.get('pointers') or {}).get('forms'), diffs=(f.get('pointers') or {}).get('diffs')),
                    assumptions=['transparent-over-NonNull implies one word with a null niche: a rustc layout guarantee encoded as a definition and validated by the ptr stream (size_of, Option size_of)',
                                 'rustc lays out repr(C) structs by extend+pad_to_align (validated by the layout and ptr streams)', '64-bit target'])
PTR_STREAM_C12 = dict(PTR_STREAM); PTR_STREAM_C12['ctx'] = dict(report_f3=False)
PROPS['C12'] = dict(streams=[PTR_STREAM_C12, mech_stream([{'union'}, None, {'union'}])], side_obligations=c12_side,
                    facts_view=lambda f: (f.get('pointers') or {}).get('union'),
                    assumptions=MECH_ASSUME + ['blocks from the global allocator are at least 8-aligned (the request always has alignment >= 8: C05)'])


# ============================================================================
# abort stream (C16): child processes
# ============================================================================
import subprocess
ABORT_COUNTS = [1, 2, 2 ** 31, 2 ** 32, 2 ** 63 - 2, 2 ** 63 - 1, 2 ** 63, 2 ** 63 + 1, 2 ** 64 - 2, 2 ** 64 - 1]
ABORT_ENTRIES = {0: 'Arc<T>::clone', 1: 'Arc<[T]>::clone', 2: 'Arc<dyn>::clone', 3: 'ThinArc::clone', 4: 'OffsetArc::clone', 5: 'OffsetArc::clone_arc',
                 6: 'ArcBorrow::clone_arc', 7: 'ArcUnion::clone (first)', 8: 'ArcUnion::clone (second)', 9: 'clone inside ThinArc::with_arc',
                 10: 'clone inside with_raw_offset_arc', 11: 'clone inside ArcBorrow::with_arc', 12: 'Arc<HeaderSlice<H,[T]>>::clone'}

def custom_abort(tier, rng, facts):
    cov = dict(children=0, aborted=0, succeeded=0, configs=[]); problems = []; nontrivial = set(); samples = []
    cfgs = [('cfg_default', 'debug'), ('cfg_nostd', 'debug')] if tier != 'thorough' else [('cfg_default', 'debug'), ('cfg_default', 'release'), ('cfg_nostd', 'debug'), ('cfg_nostd', 'release'), ('cfg_all', 'release')]
    for cfg, profile in cfgs:
        with vlib.Lock():
            rc, out, exe = vlib.build_harness(cfg, profile)
        if rc != 0:
            problems.append(('build', 'harness does not build (%s/%s): %s' % (cfg, profile, out[-800:]), dict(kind='unproved', stage='harness-build', output=out[-3000:]))); continue
        cov['configs'].append('%s/%s' % (cfg, profile))
        # ... and, for the counts above the limit, again with a standard error stream that cannot be written to (a pipe
        # whose reader is gone): whatever the process does on its way down must not turn the abort into a panic
        jobs = [(e, c, False) for e in sorted(ABORT_ENTRIES) for c in ABORT_COUNTS] + \
               [(e, c, True) for e in (0, 3, 4, 7, 9) for c in ABORT_COUNTS if c > 2 ** 63 - 1]
        procs = []
        def launch(e, c, broken):
            if not broken:
                return subprocess.Popen([exe, 'abortchild', str(e), str(c)], stdout=subprocess.PIPE, stderr=subprocess.DEVNULL, env=vlib.ENV)
            r, w = os.pipe(); os.close(r)
            try:
                return subprocess.Popen([exe, 'abortchild', str(e), str(c)], stdout=subprocess.PIPE, stderr=w, env=vlib.ENV)
            finally:
                os.close(w)
        i = 0
        results = []
        while i < len(jobs) or procs:
            while i < len(jobs) and len(procs) < vlib.NPROC:
                procs.append((jobs[i], launch(*jobs[i]))); i += 1
            (e, c, broken), p = procs.pop(0)
            try:
                so, _ = p.communicate(timeout=60)
            except subprocess.TimeoutExpired:
                p.kill(); so = b'TIMEOUT'
            results.append((e, c, broken, p.returncode, so.decode('utf-8', 'replace').split()))
        for e, c, broken, rc2, words in results:
            cov['children'] += 1
            if broken: cov['with_unwritable_stderr'] = cov.get('with_unwritable_stderr', 0) + 1
            expect_abort = c > 2 ** 63 - 1
            case = dict(stream='abort', cfg=cfg, profile=profile, entry=ABORT_ENTRIES[e], start_count=c, stderr='a pipe without a reader' if broken else 'discarded')
            nontrivial.add('%d:%d:%d' % (e, c, broken))
            if len(samples) < 3: samples.append(dict(case, exit=rc2, output=words))
            if expect_abort:
                if rc2 == -6 and words == ['MARK']:
                    cov['aborted'] += 1
                else:
                    why = ('a clone through %s with the count at %d did not abort the process: exit=%s output=%s' % (ABORT_ENTRIES[e], c, rc2, words))
                    if 'CAUGHT' in words: why = 'a clone through %s with the count at %d raised a CATCHABLE panic instead of aborting' % (ABORT_ENTRIES[e], c)
                    problems.append(('oracle', why, dict(case, kind='impl-counterexample', exit=rc2, output=words, why=why)))
            else:
                if rc2 == 0 and words == ['MARK', 'AFTER', str(c + 1)]:
                    cov['succeeded'] += 1
                else:
                    why = 'a clone through %s with the count at %d (below the limit) did not succeed with count %d: exit=%s output=%s' % (ABORT_ENTRIES[e], c, c + 1, rc2, words)
                    problems.append(('oracle', why, dict(case, kind='impl-counterexample', exit=rc2, output=words, why=why)))
    return dict(coverage=cov, evaluations=cov['children'], nontrivial=nontrivial, problems=problems[:8], samples=samples)

def c16_side(facts):
    P = facts.get('protocol') or {}
    return [('guard_compares_old_value_with_isize_max', P.get('guard', {}).get('form') == 'GuardOldGt' and P.get('max_refcount_val') == 2 ** 63 - 1 and bool(P.get('clone_shape')),
             'guard %s, MAX_REFCOUNT = %s' % (P.get('guard'), P.get('max_refcount'))),
            ('guard_action_is_abort', P.get('guard', {}).get('action') == 'abort', str(P.get('guard'))),
            ('abort_is_process_abort_or_double_panic', P.get('abort_std') == 'AbortProcess' and P.get('abort_nostd') == 'AbortDoublePanic', '%s / %s' % (P.get('abort_std'), P.get('abort_nostd'))),
            ('atomic_sites_closed_world', bool(P.get('closed')), 'sites outside the modelled functions: %s' % P.get('unmodelled_sites'))]

PROPS['C16'] = dict(streams=[dict(stream='abort', custom=custom_abort,
                                  rule='one child process per (clone entry point, starting count): 13 entry points (Arc of sized/slice/trait object/header-slice, ThinArc, OffsetArc::clone/clone_arc, ArcBorrow::clone_arc, ArcUnion first/second, clones inside the three callback forms) x 10 starting counts {1, 2, 2^31, 2^32, isize::MAX-1, isize::MAX, +1, +2, usize::MAX-1, usize::MAX} preset through the counter address the hook reports, in std and no_std builds, and for the counts above the limit once more with a standard error stream that cannot be written to; expected: count+1, or SIGABRT with no output after the marker; every case is non-trivial; distinct = distinct (entry, count)')],
                    side_obligations=c16_side, facts_view=lambda f: dict((k, (f.get('protocol') or {}).get(k)) for k in ['guard', 'max_refcount', 'abort_std', 'abort_nostd', 'inc_ord']),
                    assumptions=['a panic raised while a panic is already unwinding aborts the process (Rust runtime behaviour; exercised by the no_std children)',
                                 'the count is preset by writing to the address the verification hook reports for the counter'])


# ============================================================================
# cmp stream (C14)
# ============================================================================
import itertools
def all_slices(maxlen):
    out = [[]]
    for n in range(1, maxlen + 1):
        out += [list(t) for t in itertools.product(range(3), repeat=n)]
    return out

def effects_cases():
    out = []
    for kind in range(6):
        for which in range(8):
            for mode in (0, 1): out.append([9, kind, which, mode])
    for x in range(3):
        for y in range(3): out.append([8, x, y])
    out += [[9, 6, 0, 0], [9, 0, 8, 0], [9, 0, 0, 2], [9, 1], [8, 3, 0], [8, 1]]
    return out

def gen_effects(tier, rng):
    return [('E%d' % i, [op]) for i, op in enumerate(effects_cases())]

def gen_cmp(tier, rng):
    cases = []; n = 0
    def add(op):
        nonlocal n
        cases.append(('K%d' % n, [op])); n += 1
    for cls in range(3):
        # exhaustive: Arc / OffsetArc / ArcBorrow over all value pairs, same and distinct allocations
        for kind in range(3):
            for x in range(3):
                add([cls, kind, 1, x, x])
                for y in range(3): add([cls, kind, 0, x, y])
        for xv in range(2):
            for x in range(3):
                add([cls, 3, 1, xv, x, xv, x])
                for yv in range(2):
                    for y in range(3): add([cls, 3, 0, xv, x, yv, y])
    vals = [(h, s) for h in range(3) for s in all_slices(3)]     # 3 x 40 = 120 header-slice values
    pairs = [(a, b) for a in vals for b in vals]
    if tier != 'thorough':
        pairs = rng.sample(pairs, 700)
    for (ha, sa), (hb, sb) in pairs:
        for cls in range(3):
            for kind in (4, 5, 6):
                same = 1 if (rng.random() < 0.08) else 0
                ra = len(sa); rb = len(sb)
                if kind == 5 and rng.random() < 0.5:
                    ra = rng.choice([len(sa), len(sa) + 1, 0, 5]); rb = rng.choice([len(sb), len(sb) + 2, 1, 5])
                add([cls, kind, same, ha, ra, len(sa)] + sa + [hb, rb, len(sb)] + sb)
    for op in effects_cases(): add(op)
    # the F2 witness and malformed cases
    add([0, 5, 0, 1, 5, 2, 1, 2, 1, 2, 2, 1, 2]); add([0, 5, 0, 1, 2, 2, 1, 2, 1, 5, 2, 1, 2])
    add([0, 0, 0, 7, 1]); add([5, 0, 0, 1, 1]); add([0, 9, 0, 1, 1]); add([0, 4, 0, 1, 1, 1])
    return cases

def oracle_cmp(ops, io, ctx):
    """C14 on the implementation's own answers, for the lawful classes (0 and 1): consistency of the operators"""
    op = ops[0]; o = io[0]
    if op[0] == 9:
        if len(o) != 4: return None
        kinds = ['Arc', 'OffsetArc', 'ArcBorrow', 'ArcUnion', 'ThinArc', 'Arc<HeaderSlice>']
        whichs = ['==', '!=', 'partial_cmp', '<', 'cmp', 'hash', 'Debug', 'Display']
        if len(op) != 4 or op[1] > 5 or op[2] > 7: return None
        what = '%s through %s with a payload impl that %s' % (whichs[op[2]], kinds[op[1]], 'panics' if op[3] else 'answers')
        if o[1] != 1: return '%s: a reference count changed during or after the operation' % what
        if o[2] != 0: return '%s: %d accesses to dead values / bogus releases' % (what, o[2])
        if o[3] != (2 if op[1] <= 3 else 6): return '%s: %d values destroyed once everything is released (expected %d)' % (what, o[3], 2 if op[1] <= 3 else 6)
        return None
    if op[0] == 8:
        if len(o) == 4 and (o[0] != 0 or o[1] != 1): return 'ArcUnion<T,T>: the same allocation held as First and as Second compares equal (== %d, != %d)' % (o[0], o[1])
        if len(o) == 4 and (o[2] != 1 or o[3] != 0): return 'ArcUnion<T,T>: First(a)==First(a) is %d, First(a)==Second(b) is %d' % (o[2], o[3])
        return None
    if op[0] in (0, 1) and op[1] in (1, 2, 3) and len(o) >= 2 and o[0] <= 1:
        # handles of plain values: the answer must be the values' own (same allocation counts as equal for ArcBorrow/ArcUnion)
        same = op[2] != 0
        if op[1] == 3:
            xv, x, yv, y = op[3:7]
            if same: yv, y = xv, x
            veq = (xv == yv) and x == y and not (op[0] == 1 and x == 2)
            want = 1 if ((same and xv == yv) or veq) else 0
            if o[0] != want: return 'ArcUnion == answers %d for %s(%d) vs %s(%d)%s; the values say %d' % (o[0], 'First' if xv == 0 else 'Second', x, 'First' if yv == 0 else 'Second', y, ' (same allocation)' if same else '', want)
            if o[1] != 1: return 'ArcUnion Debug does not print the value'
        else:
            x, y = op[3], (op[3] if same else op[4])
            veq = x == y and not (op[0] == 1 and x == 2)
            want = 1 if (veq or (same and op[1] == 2)) else 0
            if o[0] != want: return '%s == answers %d for values %d and %d%s; the values say %d' % ('OffsetArc' if op[1] == 1 else 'ArcBorrow', o[0], x, y, ' (same allocation)' if same else '', want)
            if o[2] != 1: return '%s Debug does not print the value' % ('OffsetArc' if op[1] == 1 else 'ArcBorrow')
        return None
    if len(o) < 7 or op[0] not in (0, 1) or op[1] not in (0, 4, 5, 6): return None
    eq, ne, lt, le, gt, ge, pc = o[:7]
    if op[1] in (4, 5, 6):
        # reference ordering: the header, then the slice (element-wise, then by length), then - for the fat Arc with a
        # recorded length - the recorded length; class 1 is a float-like payload in which the value 2 is NaN
        try:
            ha, ra, la = op[3:6]; sa = op[6:6 + la]; rest = op[6 + la:]
            hb, rb, lb = rest[0:3]; sb = rest[3:3 + lb]
            if op[2] != 0: hb, rb, sb = ha, ra, sa
            def pv(x, y):
                if op[0] == 1 and (x == 2 or y == 2): return 0
                return 1 if x < y else (3 if x > y else 2)
            def lex():
                r = pv(ha, hb)
                if r != 2: return r
                for x, y in zip(sa, sb):
                    r = pv(x, y)
                    if r != 2: return r
                if len(sa) != len(sb): return 1 if len(sa) < len(sb) else 3
                if op[1] == 5 and ra != rb: return 1 if ra < rb else 3
                return 2
            want = lex()
            if pc != want:
                names = ['None', 'Less', 'Equal', 'Greater']
                return 'partial_cmp of header-slice values (header %d slice %s) vs (header %d slice %s) through %s is %s; header-then-slice ordering gives %s' % (
                    ha, sa, hb, sb, {4: 'ThinArc', 5: 'the fat Arc', 6: 'HeaderSlice'}[op[1]], names[pc] if pc < 4 else pc, names[want])
        except (IndexError, ValueError):
            pass
    same = op[2] != 0
    if ne != 1 - eq: return '!= is not the negation of == (%d, %d)' % (eq, ne)
    nan_involved = op[0] == 1 and 2 in op[3:]
    if not (same and nan_involved):
        if (eq == 1) != (pc == 2): return '== is %d but partial_cmp is %s' % (eq, ['None', 'Less', 'Equal', 'Greater'][pc])
    if lt != (1 if pc == 1 else 0) or gt != (1 if pc == 3 else 0) or le != (1 if pc in (1, 2) else 0) or ge != (1 if pc in (2, 3) else 0):
        return 'relational operators (%d %d %d %d) disagree with partial_cmp = %s' % (lt, le, gt, ge, ['None', 'Less', 'Equal', 'Greater'][pc])
    if op[0] == 0 and len(o) >= 10:
        cm = o[8] if op[1] in (4, 5, 6) else o[10]
        if cm != pc: return 'cmp (%d) disagrees with partial_cmp (%d)' % (cm, pc)
        if op[1] in (4, 5, 6) and eq == 1 and o[9] != 1: return 'equal values hash differently'
    return None

CMP_STREAM = dict(stream='cmp', gen=gen_cmp, oracle=oracle_cmp,
                  nontrivial=lambda ops, io: len(ops[0]) > 2 and (ops[0][1] >= 3 or ops[0][0] >= 1 or ops[0][2] == 1),
                  rule='exhaustive: Arc/OffsetArc/ArcBorrow/ArcUnion over all pairs of a 3-letter alphabet x same/distinct allocation x 3 payload classes (total order, float with NaN, deliberately unlawful); header-slice values: headers x slices up to length 3 over 3 letters (120 values) in ThinArc, fat Arc with recorded length equal and unequal, and derived HeaderSlice: all 14400 pairs in thorough, 700 sampled pairs in quick, x 3 classes x 3 kinds; observation: == != < <= > >= partial_cmp cmp, hash/Debug/Display agreement with the plain value, HashMap/BTreeMap lookups through Borrow; non-trivial = not (Arc of a totally ordered payload in distinct allocations); distinct = distinct tuples',
                  cfgs=dict(quick=[('cfg_default', 'debug')], thorough=[('cfg_default', 'debug'), ('cfg_default', 'release'), ('cfg_all', 'release')]))

def c14_side(facts):
    C = facts.get('cmp') or {}
    rows = C.get('rows', [])
    unknown = [r for r in rows if 'Unknown' in r[2]]
    return [('every_comparison_impl_classified', len(rows) == 28 and not unknown, '%d methods, unclassified: %s' % (len(rows), unknown))]

PROPS['C14'] = dict(streams=[CMP_STREAM], side_obligations=c14_side,
                    facts_view=lambda f: dict(impls=(f.get('cmp') or {}).get('rows')),
                    assumptions=['what #[derive(PartialEq, PartialOrd, Ord, Hash, Debug)] and the slice/tuple impls of core expand to is modelled in Cmp.v / CmpCases.v (field-wise, lexicographic, length-prefixed hashing) and validated by the cmp stream',
                                 'ArcUnion Debug prints the value under the variant name (First(..)/Second(..)); the property is read as requiring the value part to be the payload\'s Debug'])


# ============================================================================
# ctor stream (C06, C07): constructors fed by scripted iterators / vectors / boxes / slices / strings
# ============================================================================
CT_SEP = 99999999
def ctor_case(ctor, n, panic_at=0, extra=0, lens=(), hints=()):
    op = [ctor, n, panic_at, extra, len(lens)] + list(lens) + [len(hints)]
    for lo, hi in hints: op += [lo, 0 if hi is None else hi + 1]
    return op

def gen_ctor(tier, rng):
    cases = []; k = 0
    def add(op):
        nonlocal k
        cases.append(('T%d' % k, [op])); k += 1
    def lens_opts(n):
        o = [[], [n + 1], [n + 2], [max(n - 1, 0)], [max(n - 2, 0)], [n, n + 1], [n + 1, n], [n, max(n - 1, 0)], [max(n - 1, 0), n], [0], [n, n, n + 3]]
        seen = []; [seen.append(x) for x in o if x not in seen]; return seen
    def hint_opts(n):
        o = [[], [(n, n)], [(0, None)], [(1, 9)], [(n, n), (n + 1, n + 1)], [(n, n), (n, n), (max(n - 1, 0), max(n - 1, 0))], [(n + 1, n + 1)], [(max(n - 1, 0), max(n - 1, 0))],
             [(n, n + 1)], [(n, n), (0, None)], [(n + 2, n + 2), (n, n)], [(n, n), (n + 2, n + 2), (n + 2, n + 2)]]
        seen = []; [seen.append(x) for x in o if x not in seen]; return seen
    small = range(0, 5) if tier != 'thorough' else range(0, 8)
    # systematic: fat / thin from_header_and_iter under every script for len(), panics at every position
    for n in small:
        for ctor in (0, 1):
            for ls in lens_opts(n):
                for pa in range(0, n + 3):
                    add(ctor_case(ctor, n, pa, 0, ls))
        for ctor in (2, 3):
            for hs in hint_opts(n):
                for pa in range(0, n + 3):
                    add(ctor_case(ctor, n, pa, 0, [], hs))
    # honest, every length up to 64 (the model's and the harness's bound on one case; the theorems have none)
    for n in range(0, 65):
        for ctor in (0, 1, 2, 3):
            add(ctor_case(ctor, n)); add(ctor_case(ctor, n, 0, 0, [], [(0, None)]))
        for extra in (0, 1, 3, 17):
            add(ctor_case(4, n, 0, extra)); add(ctor_case(5, n, 0, extra))
        for ctor in (11, 12, 13, 14, 15): add(ctor_case(ctor, n))
    for n in (0, 1, 5):
        for ctor in (6, 7, 8, 9): add(ctor_case(ctor, n))
    # random scripts
    R = 1500 if tier != 'thorough' else 30000
    for i in range(R):
        n = rng.choice([0, 1, 2, 3, 5, 8, 13, 21, 40, 64]) if rng.random() < 0.6 else rng.randrange(0, 65)
        ctor = rng.choice([0, 0, 1, 1, 2, 2, 3, 3, 4, 5])
        def near(): return max(0, min(64, n + rng.choice([0, 0, 0, 1, -1, 2, -2, 5, -n])))
        lens = [near() for _ in range(rng.choice([0, 1, 1, 2, 3]))] if ctor in (0, 1) else []
        hints = []
        if ctor in (2, 3):
            for _ in range(rng.choice([0, 1, 1, 2, 3, 4])):
                lo = near(); hi = rng.choice([lo, lo, lo, None, near()])
                hints.append((lo, hi))
        pa = 0 if rng.random() < 0.6 else rng.randrange(1, n + 3)
        add(ctor_case(ctor, n, pa, rng.choice([0, 0, 2, 9]) if ctor in (4, 5) else 0, lens, hints))
    # malformed
    for op in ([0, 3], [0, 70, 0, 0, 0, 0], [0, 3, 0, 0, 2, 1, 0], [10, 3, 0, 0, 0, 0], [2, 3, 0, 0, 0, 1, 2], [77, 1, 0, 0, 0, 0]): add(op)
    return cases

BAD_CT = {777777: 'destructor ran on a value that is not live (double drop or garbage)', 888888: 'read of a value that is not live (uninitialised or freed)',
          666666: 'release of a block that is not a live allocation / with the wrong layout', 555555: 'write past the end of a block (the block is too short for what was written into it)'}
def ct_split(o):
    parts = [[]]
    for x in o:
        if x == CT_SEP: parts.append([])
        else: parts[-1].append(x)
    return parts

def oracle_ctor(ops, io, ctx):
    """C06/C07 on what the implementation itself did: contents = items in order, every token destroyed at most once
    (exactly once when a handle came back and was released), no stray allocation, no access to a dead value."""
    op = ops[0]; o = io[0]
    if len(op) < 6 or not o or o[0] > 1: return None
    ctor, n = op[0], op[1]
    parts = ct_split(o)
    for p in parts[1:]:
        for x in p:
            if x in BAD_CT: return 'ctor %d, %d items: %s' % (ctor, n, BAD_CT[x])
    if o[0] == 1:
        d = parts[1] if len(parts) > 1 else []
        if len(set(d)) != len(d): return 'ctor %d: a value was destroyed twice while the constructor unwound: %s' % (ctor, d)
        return None
    if len(parts) != 4: return 'malformed observation'
    head, dropped, left, final = parts
    if ctor in (0, 1, 2, 3, 4, 5):
        hdr, rl, nc, cells = head[1], head[2], head[3], head[4:]
        if nc != n or cells != list(range(1, n + 1)): return 'ctor %d: the handle holds %s, the input was the %d items 1..%d in order' % (ctor, cells, n, n)
        if ctor in (0, 1, 4) and hdr != 0: return 'ctor %d: the handle holds header %d, not the header passed in' % (ctor, hdr)
        if ctor == 1 and rl != n: return 'ThinArc::from_header_and_iter: recorded length %d for %d items' % (rl, n)
        alld = dropped + final
        if len(set(alld)) != len(alld): return 'ctor %d: a value was destroyed twice: during construction %s, at release %s' % (ctor, dropped, final)
        if sorted(alld) != list(range(0, n + 1)): return 'ctor %d: after releasing the handle the destroyed values are %s; every input value must be destroyed exactly once' % (ctor, sorted(alld))
        if set(dropped) & set(cells): return 'ctor %d: values %s were destroyed during construction although the handle holds them (moved and dropped)' % (ctor, sorted(set(dropped) & set(cells)))
    if left and left[0] != 0: return 'ctor %d: %d allocations besides the result are still live after construction' % (ctor, left[0] if left[0] < 2 ** 63 else left[0] - 2 ** 64)
    return None

def dist_ctor(cases):
    d = dict(ctor={}, lying_len=0, inexact_hint=0, panicking=0, spare_capacity=0, max_items=0)
    for cid, ops in cases:
        op = ops[0]
        d['ctor'][str(op[0])] = d['ctor'].get(str(op[0]), 0) + 1
        if len(op) >= 6:
            n = op[1]; d['max_items'] = max(d['max_items'], n)
            if op[2]: d['panicking'] += 1
            if op[3]: d['spare_capacity'] += 1
            nl = op[4]
            if nl and any(x != n for x in op[5:5 + nl]): d['lying_len'] += 1
            if len(op) > 5 + nl and op[5 + nl]: d['inexact_hint'] += 1
    return d

CTOR_STREAM = dict(stream='ctor', gen=gen_ctor, oracle=oracle_ctor, prep=mech_prep, distribution=dist_ctor,
                   nontrivial=lambda ops, io: len(ops[0]) >= 6 and (ops[0][1] >= 2 or ops[0][2] > 0),
                   rule='systematic: Arc/ThinArc::from_header_and_iter for 0..4 (thorough 0..7) items x 11 scripts of len() answers (honest, over/under by 1 and 2, changing between the two calls of the thin form) x a panic at every next() position; collect() into Arc<[T]>/UniqueArc<[T]> x 12 size_hint scripts (exact, inexact, unbounded, changing between the three calls, lying) x every panic position; every honest length 0..64 through iter/exact and inexact collect/Vec with spare capacity {0,1,3,17}/slice/str/String; Box, T, UniqueArc::new; 1500 (thorough 30000) random scripts; items are drop-counting identity tokens under the tracking allocator; observation: status, header, recorded length, cells, tokens destroyed during construction, allocations left besides the result, tokens destroyed at release; non-trivial = at least 2 items or a panic; distinct = distinct cases',
                   cfgs=dict(quick=[('cfg_default', 'debug'), ('cfg_default', 'release')], thorough=[('cfg_default', 'debug'), ('cfg_default', 'release'), ('cfg_nostd', 'release'), ('cfg_all', 'debug')]))

ALLOCFAIL_CTORS = {0: 'Arc::new', 1: 'Arc::from_header_and_iter', 2: 'ThinArc::from_header_and_iter', 3: 'collect::<Arc<[T]>> (exact)', 4: 'collect::<Arc<[T]>> (inexact)',
                   5: 'Arc::from_header_and_vec', 6: 'Arc::from(Box<T>)', 7: 'UniqueArc::new_uninit', 8: 'UniqueArc::new_uninit_slice', 9: 'UniqueArc::from_header_and_uninit_slice',
                   10: 'Arc::<[T]>::from(&[T])', 11: 'Arc::from_header_and_str', 12: 'Arc::make_mut (shared)', 13: 'Arc::new_uninit'}
def custom_allocfail(tier, rng, facts):
    """C07, allocation failure: the k-th allocation made by a constructor returns null; the process must abort through
    handle_alloc_error (SIGABRT) right there, never continue with a null block."""
    cov = dict(children=0, aborted=0, completed=0, configs=[]); problems = []; nontrivial = set(); samples = []
    cfgs = [('cfg_default', 'debug')] if tier != 'thorough' else [('cfg_default', 'debug'), ('cfg_default', 'release'), ('cfg_nostd', 'release')]
    for cfg, profile in cfgs:
        with vlib.Lock():
            rc, out, exe = vlib.build_harness(cfg, profile)
        if rc != 0:
            problems.append(('build', 'harness does not build (%s/%s): %s' % (cfg, profile, out[-800:]), dict(kind='unproved', stage='harness-build', output=out[-3000:]))); continue
        cov['configs'].append('%s/%s' % (cfg, profile))
        jobs = [(c, k) for c in sorted(ALLOCFAIL_CTORS) for k in (1, 2, 3)]
        procs = []; results = []; i = 0
        while i < len(jobs) or procs:
            while i < len(jobs) and len(procs) < vlib.NPROC:
                c, k = jobs[i]
                procs.append((jobs[i], subprocess.Popen([exe, 'allocfail', str(c), str(k)], stdout=subprocess.PIPE, stderr=subprocess.PIPE, env=vlib.ENV))); i += 1
            (c, k), p = procs.pop(0)
            try:
                so, se = p.communicate(timeout=60)
            except subprocess.TimeoutExpired:
                p.kill(); so, se = b'TIMEOUT', b''
            results.append((c, k, p.returncode, so.decode('utf-8', 'replace').split(), se.decode('utf-8', 'replace')))
        firsts = {}
        for c, k, rc2, words, err in results:
            cov['children'] += 1
            case = dict(stream='allocfail', cfg=cfg, profile=profile, ctor=ALLOCFAIL_CTORS[c], failing_allocation=k)
            if len(samples) < 3: samples.append(dict(case, exit=rc2, output=words, stderr=err[:200]))
            if rc2 == -6 and words == ['MARK'] and 'memory allocation of' in err:
                cov['aborted'] += 1; nontrivial.add('%d:%d' % (c, k)); firsts.setdefault(c, k)
            elif rc2 == 0 and words == ['MARK', 'DONE']:
                cov['completed'] += 1
            else:
                why = '%s with its allocation #%d failing did not abort through handle_alloc_error: exit=%s stdout=%s stderr=%s' % (ALLOCFAIL_CTORS[c], k, rc2, words, err[:300])
                problems.append(('oracle', why, dict(case, kind='impl-counterexample', exit=rc2, output=words, stderr=err[:600], why=why)))
        for c in sorted(ALLOCFAIL_CTORS):
            if c not in firsts and not any(p[2].get('ctor') == ALLOCFAIL_CTORS[c] for p in problems):
                why = '%s never hit a failing allocation (k = 1..3): the harness exercises nothing' % ALLOCFAIL_CTORS[c]
                problems.append(('oracle', why, dict(kind='unproved', stage='allocfail-coverage', why=why)))
    return dict(coverage=cov, evaluations=cov['children'], nontrivial=nontrivial, problems=problems[:8], samples=samples)

ALLOCFAIL_STREAM = dict(stream='allocfail', custom=custom_allocfail,
                        rule='one child process per (constructor, k): 14 allocating entry points x the k-th allocation (k = 1, 2, 3) made inside the call returns null; expected: SIGABRT after the marker with the handle_alloc_error message, or normal completion when the call makes fewer than k allocations; non-trivial = the failure was actually injected; distinct = (constructor, k)')

def ctor_side(facts):
    L = facts.get('layout') or {}
    PT = facts.get('pointers') or {}
    return [('constructor_bodies_are_the_modelled_ones', bool((PT.get('forms') or {}).get('ctor')),
             'functions differing from the bodies Ctor.v was written against: %s' % [d for d in PT.get('diffs', [])]),
            ('allocation_result_checked_for_null', bool(L.get('tafl_null_checked')) and bool(L.get('new_uninit_null_checked')),
             'allocate_for_layout: %s, new_uninit: %s' % (L.get('tafl_null_checked'), L.get('new_uninit_null_checked')))]

CTOR_ASSUME = ['an iterator is modelled by its script: the answers of successive len()/size_hint() calls, the items next() yields and the call at which it panics; whatever else user code does inside those calls is outside the model',
               'Vec/Box/slice sources: ptr::copy_nonoverlapping + set_len(0) / Box<ManuallyDrop<T>> are modelled as a move of every element (validated by the ctor stream with drop-counting tokens)',
               'allocation failure is observed on child processes of the real code (tie 2 only); the model has the facts that the result of alloc is null-checked before any write']
PROPS['C06'] = dict(streams=[CTOR_STREAM, LAYOUT_STREAM], side_obligations=ctor_side,
                    facts_view=lambda f: dict(ctor_forms=((f.get('pointers') or {}).get('forms') or {}).get('ctor')), assumptions=CTOR_ASSUME)
PROPS['C07'] = dict(streams=[CTOR_STREAM, mech_stream([{'with'}, {'thin', 'with'}, {'unique'}, None], count_oracle=False), ALLOCFAIL_STREAM], side_obligations=ctor_side,
                    facts_view=lambda f: dict(ctor_forms=((f.get('pointers') or {}).get('forms') or {}).get('ctor')), assumptions=CTOR_ASSUME + MECH_ASSUME)


# ============================================================================
# serde stream (C17)
# ============================================================================
def sv_u(n): return [1, n]
def sv_s(s): return [2, len(s)] + [ord(c) for c in s]
def sv_seq(items):
    out = [3, len(items)]
    for i in items: out += i
    return out
def sv_map(ents):
    out = [4, len(ents)]
    for k, v in ents: out += [len(k)] + [ord(c) for c in k] + v
    return out
SV_UNIT = [5]

def sv_gen(rng, ty, mut=0.0, depth=0):
    """a value of the wire form type `ty` expects (with probability `mut`, something else)"""
    def word(): return ''.join(rng.choice('abcxyz _09') for _ in range(rng.choice([0, 1, 2, 3, 5, 8, 13])))
    if rng.random() < mut:
        return rng.choice([sv_u(rng.randrange(0, 100)), sv_s(word()), sv_seq([]), SV_UNIT, sv_map([]), sv_u(2 ** 32), sv_u(2 ** 40 + 7),
                           sv_seq([sv_u(1)]), sv_seq([sv_s('a'), sv_u(2)])])
    def rec():
        f = [('id', sv_u(rng.randrange(0, 1000))), ('name', sv_s(word())), ('tags', sv_seq([sv_u(rng.randrange(0, 50)) for _ in range(rng.choice([0, 1, 2, 4]))]))]
        r = rng.random()
        if r < 0.45: return sv_seq([v for _, v in f])
        rng.shuffle(f)
        if rng.random() < mut * 3 + 0.08:
            c = rng.choice(['drop', 'dup', 'unknown', 'badval'])
            if c == 'drop': f.pop()
            elif c == 'dup': f.insert(rng.randrange(0, len(f) + 1), rng.choice(f))
            elif c == 'unknown': f.insert(rng.randrange(0, len(f) + 1), (rng.choice(['idx', 'Name', '', 'tag']), sv_u(1)))
            else: f[0] = (f[0][0], SV_UNIT)
        return sv_map(f)
    if ty == 0: return sv_u(rng.choice([0, 1, 7, 255, 65536, 2 ** 32 - 1, rng.randrange(0, 2 ** 32)]))
    if ty == 1: return sv_s(word())
    if ty in (2, 8): return sv_seq([sv_u(rng.randrange(0, 99)), sv_s(word())][:rng.choice([2, 2, 2, 2, 1, 0])] + ([sv_u(3)] if rng.random() < 0.1 else []))
    if ty == 3: return sv_seq([sv_gen(rng, 0, mut / 2) for _ in range(rng.choice([0, 1, 2, 3, 6]))])
    if ty == 4: return rec()
    if ty == 5:
        return sv_seq([rec(), sv_seq([sv_u(rng.randrange(0, 9)), sv_u(rng.randrange(0, 9))]), sv_seq([rec() for _ in range(rng.choice([0, 1, 2]))])][:rng.choice([3, 3, 3, 3, 2])])
    if ty == 6: return SV_UNIT
    if ty == 7: return sv_seq([sv_gen(rng, 1, mut / 2) for _ in range(rng.choice([0, 1, 2, 4]))])
    if ty == 9: return sv_seq([sv_gen(rng, 2, mut / 2) for _ in range(rng.choice([0, 1, 2, 3]))])
    return SV_UNIT

def gen_serde(tier, rng):
    cases = []; n = 0
    def add(op):
        nonlocal n
        cases.append(('S%d' % n, [op])); n += 1
    base = random.Random(4242)       # the systematic part does not depend on the seed
    # every type x a few well-formed values x handle x {ser, de} x failure at every callback 0..K
    for ty in range(10):
        vals = [sv_gen(base, ty) for _ in range(3 if tier != 'thorough' else 8)]
        for v in vals:
            for handle in (0, 1):
                for k in range(0, 34 if ty in (4, 5, 9) else 14):
                    add([1, handle, ty, k] + v); add([2, handle, ty, k] + v)
    # ill-typed / malformed inputs: the error comes from the payload's own deserialiser
    for ty in range(10):
        for _ in range(12 if tier != 'thorough' else 60):
            v = sv_gen(base, ty, mut=0.5)
            for handle in (0, 1):
                add([2, handle, ty, 0] + v); add([2, handle, ty, base.randrange(1, 9)] + v); add([1, handle, ty, 0] + v)
    for handle in (0, 1):
        for which in range(11): add([3, handle, which])
    # deserialize_in_place into a handle that (for Arc) has another owner: a fresh sole owner or nothing changes
    for ty in range(10):
        for _ in range(4 if tier != 'thorough' else 12):
            v1 = sv_gen(base, ty); v2 = sv_gen(base, ty, mut=0.15)
            for handle in (0, 1):
                for k in (0, 1, 2, 3, 5, 8):
                    add([4, handle, ty, k] + v1 + v2)
    R = 1500 if tier != 'thorough' else 40000
    for i in range(R):
        ty = rng.randrange(0, 10); v = sv_gen(rng, ty, mut=0.08)
        k = 0 if rng.random() < 0.35 else rng.randrange(1, 60)
        add([rng.choice([1, 2, 2]), rng.randrange(0, 2), ty, k] + v)
    for op in ([1, 0], [1, 2, 0, 0, 1, 5], [2, 0, 11, 0, 5], [2, 0, 0, 0, 1], [2, 0, 0, 0, 1, 5, 5], [4, 0, 0, 0, 5], [2, 0, 1, 0, 2, 2, 7, 200], [3, 0], [2, 0, 3, 0, 3, 40], [1, 1, 0, 20000, 1, 5]): add(op)
    return cases

def oracle_serde(ops, io, ctx):
    op = ops[0]; o = io[0]
    if len(op) < 3 or len(o) < 4: return None
    who = 'Arc' if op[1] == 0 else 'UniqueArc'
    if op[0] == 1 and o[0] <= 1:
        if o[3] != 1: return 'serialising %s<T%d> (failure injected at call %d) drives the serializer differently from serialising the value itself: %s' % (who, op[2], op[3], o)
    if op[0] == 2 and o[0] <= 1 and len(o) >= 10:
        st, code, at, same, count, unique, extra, live, bad, dt = o[:10]
        if bad: return 'deserialising %s<T%d>: %d accesses to dead or uninitialised values / bogus releases' % (who, op[2], bad)
        if same != 1: return 'deserialising %s<T%d> (failure at callback %d): result or callback sequence differs from the payload\'s own deserialiser' % (who, op[2], op[3])
        if live != 0: return 'deserialising %s<T%d>: %d allocations left behind' % (who, op[2], live if live < 2 ** 63 else live - 2 ** 64)
        if st == 0 and (count != 1 or unique != 1): return 'deserialised %s<T%d> is not a sole owner: count %d' % (who, op[2], count)
        if st == 0 and extra != 1: return 'deserialising %s<T%d> makes %d allocations more than the payload alone (expected exactly the block)' % (who, op[2], extra if extra < 2 ** 63 else extra - 2 ** 64)
        if st == 1 and extra != 0: return 'deserialising %s<T%d> failed but made %d allocations the payload\'s deserialiser does not make' % (who, op[2], extra if extra < 2 ** 63 else extra - 2 ** 64)
    if op[0] == 4 and o[0] <= 1 and len(o) >= 9:
        st, code, at, wit, plc, pc, wc, same, bad = o[:9]
        if bad: return 'deserialize_in_place into %s<T%d>: %d bad accesses' % (who, op[2], bad)
        if wit != 1: return 'deserialize_in_place into a shared %s<T%d> (failure at callback %d) changed the value another owner sees' % (who, op[2], op[3])
        if plc != 1: return 'deserialize_in_place into %s<T%d>: the place holds neither the new value (on success) nor the old one (on error)' % (who, op[2])
        if st == 0 and (pc != 1 or same != 0): return 'deserialize_in_place into a shared %s<T%d> did not produce a fresh sole owner: count %d, same allocation %d' % (who, op[2], pc, same)
    if op[0] == 3 and len(o) == 7:
        st, same, count, unique, extra, live, bad = o
        if bad or same != 1 or live != 0 or (st == 0 and (count, unique, extra) != (1, 1, 1)) or (st == 1 and extra != 0):
            return '%s from serde::de::value deserializer #%d: %s' % (who, op[2], o)
    return None

def dist_serde(cases):
    d = dict(op={}, ty={}, with_failure=0, ill_typed_guess=0, max_len=0)
    for cid, ops in cases:
        op = ops[0]
        d['op'][str(op[0])] = d['op'].get(str(op[0]), 0) + 1
        if len(op) > 3 and op[0] in (1, 2):
            d['ty'][str(op[2])] = d['ty'].get(str(op[2]), 0) + 1
            if op[3]: d['with_failure'] += 1
            d['max_len'] = max(d['max_len'], len(op))
    return d

def serde_prep(cases, facts):
    codes = (facts.get('serde') or {}).get('codes') or [0, 0, 0, 0]
    return [(cid, [[101] + list(codes)] + ops) for cid, ops in cases]

SERDE_STREAM = dict(stream='serde', gen=gen_serde, oracle=oracle_serde, distribution=dist_serde, prep_facts=serde_prep,
                    nontrivial=lambda ops, io: len(ops[0]) > 6 and ops[0][0] in (1, 2),
                    rule='payload family: u32, String, (u32,String), Vec<u32>, Vec<String>, Vec<(u32,String)>, (), hand-written struct Rec (from sequences and from maps with permuted, missing, duplicate and unknown keys), nested hand-written struct, a token-carrying tuple struct; recording serializer and recording self-describing deserializer (harness/src/serdes.rs) failing at the k-th callback, k = 0..13 / 0..33 systematically on 3 (thorough 8) values per type and random beyond; ill-typed inputs (error raised by the payload\'s own deserialiser); serde::de::value deserializers (10 fixed cases); for Arc and UniqueArc; observation: status, error code and position, equality with the plain value run, count, uniqueness, allocations beyond the payload\'s own, live allocations afterwards, bad accesses, destructor count, full callback trace; the model is run with the four impl bodies the translator extracted; non-trivial = a structured value; distinct = distinct cases',
                    cfgs=dict(quick=[('cfg_default', 'debug'), ('cfg_default', 'release')], thorough=[('cfg_default', 'debug'), ('cfg_default', 'release'), ('cfg_all', 'release')]))

def c17_side(facts):
    S = facts.get('serde') or {}
    return [('serde_impls_are_the_four_modelled', bool(S.get('closed')), 'impls found: %s' % S.get('impls')),
            ('serialize_bodies_delegate_to_the_payload', S.get('codes', [0, 0])[:2] == [2, 2], 'Arc: %s, UniqueArc: %s' % (S.get('ser_arc'), S.get('ser_uniq'))),
            ('deserialize_bodies_map_through_new', all(c in (1, 2, 3, 4) for c in S.get('codes', [0, 0, 0, 0])[2:]), 'Arc: %s, UniqueArc: %s' % (S.get('de_arc'), S.get('de_uniq'))),
            ('constructor_bodies_are_the_modelled_ones', bool(((facts.get('pointers') or {}).get('forms') or {}).get('ctor')), 'Arc::new / UniqueArc::new golden bodies')]

PROPS['C17'] = dict(streams=[SERDE_STREAM], side_obligations=c17_side, facts_view=lambda f: f.get('serde'),
                    assumptions=['serde\'s own Serialize/Deserialize impls for the payload family (u32, String, tuples, Vec, unit) are modelled in Serde.v as the call sequences they make; validated call-for-call by the stream',
                                 'equality of the deserialised value with the payload\'s own result is observed on the implementation (PartialEq of the payload), not modelled'] + MECH_ASSUME[:1])


# ============================================================================
# probes stream (C13): rustc verdicts on generated client programs vs the model's verdicts
# ============================================================================
import probes as probes_mod
def model_verdicts(auto, names):
    """evaluate handle_has / bounded inside Coq on the extracted tables"""
    def b(x): return 'true' if x else 'false'
    exprs = []; specs = []
    for p in auto:
        tr = 'TrSend' if p['trait'] == 'Send' else 'TrSync'
        pl = ['cls3 %s %s %s' % (b(s), b(y), b(z)) for s, y, z in p['payloads']]
        if p['head'] == 'ArcBorrow*2':
            exprs.append('(handle_has Extracted.auto_impls "ArcBorrow" %s [%s] && handle_has Extracted.auto_impls "ArcBorrow" %s [%s])' % (tr, pl[0], tr, pl[1]))
            specs.append('(spec_has "ArcBorrow" %s [%s] && spec_has "ArcBorrow" %s [%s])' % (tr, pl[0], tr, pl[1]))
        else:
            exprs.append('handle_has Extracted.auto_impls "%s" %s [%s]' % (p['head'], tr, '; '.join(pl)))
            specs.append('spec_has "%s" %s [%s]' % (p['head'], tr, '; '.join(pl)))
    body = ('From Coq Require Import NArith List Bool String. Import ListNotations. Open Scope string_scope.\n'
            'From TV Require Import Layout SrcFacts Bits Conc Guard Cmp Serde Traits Extracted.\n'
            'Eval vm_compute in (map (fun b : bool => if b then 1%%N else 0%%N) [%s]).\n'
            'Eval vm_compute in (map (fun x => (fst x, bounded (snd x))) Extracted.borrow_sigs).\n'
            'Eval vm_compute in (map (fun b : bool => if b then 1%%N else 0%%N) [%s]).\n' % (';\n '.join(exprs), ';\n '.join(specs)))
    rc, out = vlib.coq_eval(body, 'traits', timeout=600)
    if rc != 0: return None, None, out
    txt = ' '.join(out.split())
    import re
    parts = re.split(r'(?:^|\s)=\s(?=\[)', txt)
    if len(parts) < 4: return None, None, out
    av = [int(x) for x in re.findall(r'\b([01])(?:%N)?\s*[;\]]', parts[1])]
    sv = [int(x) for x in re.findall(r'\b([01])(?:%N)?\s*[;\]]', parts[3])]
    if len(sv) != len(auto): return None, None, 'cannot parse %d spec verdicts (got %d)' % (len(auto), len(sv))
    av = list(zip(av, sv))
    bv = dict((n, v == 'true') for n, v in re.findall(r'\(\s*"([^"]*)"(?:%string)?\s*,\s*(true|false)\s*\)', parts[2]))
    if len(av) != len(auto): return None, None, 'cannot parse %d verdicts (got %d): %s' % (len(auto), len(av), parts[1][:300])
    return av, bv, ''

def custom_probes(tier, rng, facts):
    cov = dict(probes=0, auto_trait=0, escapes=0, controls=0, accepted=0, rejected=0, accessors_probed=0, accessors_without_probe=[]); problems = []; nontrivial = set(); samples = []
    auto = probes_mod.auto_probes(tier); life = probes_mod.lifetime_probes()
    av, bv, err = model_verdicts(auto, None)
    if av is None:
        problems.append(('model', 'the model cannot be evaluated on the extracted impl table / signatures: %s' % err[-800:], dict(kind='unproved', stage='coq-eval', output=err[-3000:])))
        return dict(coverage=cov, evaluations=0, nontrivial=nontrivial, problems=problems, samples=samples)
    root = os.path.join(vlib.CACHE, 'probes')
    ok, res, rerr = probes_mod.run_probes(auto + life, root, vlib.REPO, os.path.join(vlib.TARGET, 'probes'), vlib.ENV, lockfile=os.path.join(vlib.HARNESS, 'Cargo.lock'))
    if not ok:
        problems.append(('build', 'probe build failed: %s' % rerr, dict(kind='unproved', stage='probe-build', output=rerr)))
        return dict(coverage=cov, evaluations=0, nontrivial=nontrivial, problems=problems, samples=samples)
    def src_of(p): return p['src'][len(probes_mod.PRELUDE):].strip()
    for p, (mwant, want) in zip(auto, av):
        cov['probes'] += 1; cov['auto_trait'] += 1
        r = res.get(p['name'])
        if r is None:
            problems.append(('missing', 'no rustc verdict for probe %s' % p['desc'], dict(kind='unproved', stage='probes', probe=p['desc']))); continue
        acc, codes, msg = r
        cov['accepted' if acc else 'rejected'] += 1
        nontrivial.add(p['desc'])
        if len(samples) < 3: samples.append(dict(stream='probes', probe=p['desc'], program=src_of(p), rustc='accepted' if acc else 'rejected %s' % codes, model='has the trait' if want else 'does not have the trait'))
        if acc and not want:
            why = 'rustc accepts `%s` although soundness forbids it: safe code can %s a handle whose payload lacks the required auto traits' % (p['desc'], 'send' if p['trait'] == 'Send' else 'share')
            problems.append(('oracle', why, dict(kind='impl-counterexample', stream='probes', probe=p['desc'], program=p['src'], rustc='accepted', expected='rejected (E0277)', why=why)))
        elif not acc and want:
            if any(c != 'E0277' for c in codes):
                problems.append(('probe', 'probe `%s` fails for an unrelated reason: %s %s' % (p['desc'], codes, msg), dict(kind='unproved', stage='probes', probe=p['desc'], program=p['src'], codes=codes, message=msg)))
            else:
                why = 'rustc rejects `%s` although the payload is %s: the handle is not %s exactly when it should be' % (p['desc'], 'Send and Sync as required', p['trait'])
                problems.append(('oracle', why, dict(kind='impl-counterexample', stream='probes', probe=p['desc'], program=p['src'], rustc='rejected %s: %s' % (codes, msg), expected='accepted', why=why)))
        if acc != bool(mwant) and acc == bool(want):
            problems.append(('correspondence', 'the model of the extracted impls and rustc disagree on `%s`' % p['desc'], dict(kind='correspondence', stream='probes', probe=p['desc'], program=p['src'], rustc=acc, model=bool(mwant))))
        elif not acc and any(c != 'E0277' for c in codes):
            problems.append(('probe', 'probe `%s` is rejected, but not by a trait-bound error: %s %s' % (p['desc'], codes, msg), dict(kind='unproved', stage='probes', probe=p['desc'], program=p['src'], codes=codes, message=msg)))
    probed = set()
    for p in life:
        cov['probes'] += 1
        r = res.get(p['name'])
        if r is None:
            problems.append(('missing', 'no rustc verdict for probe %s' % p['desc'], dict(kind='unproved', stage='probes', probe=p['desc']))); continue
        acc, codes, msg = r
        cov['accepted' if acc else 'rejected'] += 1
        nontrivial.add(p['desc'])
        missing = [n for n in p['needs'] if n not in bv]
        if missing:
            problems.append(('model', 'accessor(s) %s used by probe `%s` are not among the extracted signatures' % (missing, p['desc']), dict(kind='unproved', stage='probes', probe=p['desc'], missing=missing)))
            continue
        probed.update(p['needs'])
        if p['kind'] == 'control':
            cov['controls'] += 1
            if not acc:
                problems.append(('probe', 'control probe `%s` does not compile: %s %s' % (p['desc'], codes, msg), dict(kind='unproved', stage='probes', probe=p['desc'], program=p['src'], codes=codes, message=msg)))
            continue
        cov['escapes'] += 1
        model_rejects = all(bv[n] for n in p['needs'])
        if len(samples) < 5: samples.append(dict(stream='probes', probe=p['desc'], program=src_of(p), rustc='accepted' if acc else 'rejected %s' % codes, model='escape impossible' if model_rejects else 'escape possible'))
        if acc:
            why = 'rustc accepts a program in which %s: a borrow escapes the handle or callback it came from' % p['desc']
            problems.append(('oracle', why, dict(kind='impl-counterexample', stream='probes', probe=p['desc'], program=p['src'], rustc='accepted', expected='rejected by the borrow checker', model='bounded' if model_rejects else 'unbounded', why=why)))
        else:
            bad = [c for c in codes if c not in probes_mod.BORROWCK]
            if bad:
                problems.append(('probe', 'escape probe `%s` is rejected for an unrelated reason: %s %s' % (p['desc'], codes, msg), dict(kind='unproved', stage='probes', probe=p['desc'], program=p['src'], codes=codes, message=msg)))
            elif not model_rejects:
                problems.append(('correspondence', 'the model says `%s` can escape but rustc rejects the probe' % p['desc'], dict(kind='correspondence', stream='probes', probe=p['desc'], program=p['src'], codes=codes)))
    cov['accessors_probed'] = len(probed)
    cov['accessors_without_probe'] = sorted(n for n in bv if n not in probed)
    return dict(coverage=cov, evaluations=cov['probes'], nontrivial=nontrivial, problems=problems[:8], samples=samples)

PROBES_STREAM = dict(stream='probes', custom=custom_probes,
                     rule='client programs type-checked by rustc (cargo check of one example per probe) against /repo as a dependency with default features: Send and Sync of Arc, OffsetArc, ArcBorrow, UniqueArc at 4 witness payloads (u32, Cell<u32>, MutexGuard<u32>, Rc<u32>), their slices and dyn Any (+Send/+Sync) where the kind admits unsized payloads, Arc<HeaderSlice<H,[T]>>, ThinArc and ArcUnion at all 16 pairs, ArcUnionBorrow, and generically `fn g<T: B>()` for B in {-, Send, Sync, Send+Sync} with and without ?Sized; 47 ways of letting a borrow escape (outlive the handle, stored or returned out of a callback, used across a conflicting use, sent to an unscoped thread, payload borrowing shorter-lived data, drop order) each with a control that differs only by the escape; the expected verdict of every probe is computed in Coq from the extracted impl table and signatures; distinct = distinct probes, all non-trivial')

def c13_side(facts):
    T = facts.get('traits') or {}
    heads = sorted(set((a['head'], a['trait']) for a in T.get('auto', [])))
    want = sorted((h, t) for h in ['Arc', 'ArcBorrow', 'ArcInner', 'ArcUnion', 'OffsetArc', 'ThinArc', 'UniqueArc'] for t in ['Send', 'Sync'])
    return [('auto_trait_impls_closed_world', heads == want and len(T.get('auto', [])) == 14 and not any(a['neg'] for a in T.get('auto', [])), 'impls: %s' % heads),
            ('owning_markers_present', bool(T.get('markers')) and all(T['markers'].values()), 'PhantomData markers: %s' % T.get('markers'))]

PROPS['C13'] = dict(streams=[PROBES_STREAM], side_obligations=c13_side,
                    facts_view=lambda f: dict(auto=[(a['head'], a['trait'], a['params']) for a in (f.get('traits') or {}).get('auto', [])], signatures=len((f.get('traits') or {}).get('sigs', []))),
                    assumptions=['rustc enforces trait bounds and lifetimes of the declared signatures on every client program (soundness of the Rust type system and borrow checker); the probes sample that enforcement, the theorems are about the declared bounds and signatures',
                                 'what a second thread can do with each kind of handle (Traits.v, caps) is a hand-written capability table: shared kinds may leave clones behind and destroy or move the payload anywhere; UniqueArc is Box-like',
                                 'the unstable_dropck_eyepatch feature (nightly only) is off'])


# destructor-panic cases (C01, C15): part of the ctor stream's case language
def gen_dpanic(tier, rng):
    cases = []; n = 0
    for kind in range(0, 9):
        for ln in (range(0, 4) if tier != 'thorough' else range(0, 9)):
            if kind in (0, 4, 5) and ln > 0: continue
            for k in range(0, ln + 3):
                cases.append(('D%d' % n, [[20 + kind, ln, k]])); n += 1
    # the other owner is released DURING the payload's Clone inside unwrap_or_clone / make_mut / make_unique / OffsetArc::make_mut
    for j in range(0, 4): cases.append(('D%d' % n, [[40 + j, 0, 0]])); n += 1
    # ... and the old value's destructor panics when the operation releases the old handle, which has become the last one
    for j in range(1, 4): cases.append(('D%d' % n, [[40 + j, 0, 1]])); n += 1
    # copy-on-write / unwrap_or_clone of a shared value whose type has no drop glue, is not Copy, and whose Clone is not a bitwise copy
    for j in range(0, 4): cases.append(('D%d' % n, [[44 + j, 0, 0]])); n += 1
    # zero-sized headers / payloads with drop glue through the constructors
    for j in range(0, 22): cases.append(('D%d' % n, [[48 + j, 0, 0]])); n += 1
    # counts read inside the payload's comparison / hash / format, per handle kind
    for j in range(0, 6): cases.append(('D%d' % n, [[70 + j, 0, 0]])); n += 1
    for op in ([29, 1, 0], [20, 40, 0], [45, 1, 1], [40, 1, 0], [79, 0, 0], [48, 1, 0], [76, 0, 0], [67, 0, 1], [70, 1, 0]): cases.append(('D%d' % n, [op])); n += 1
    return cases

def oracle_dpanic(ops, io, ctx):
    op = ops[0]; o = io[0]
    if len(op) != 3 or op[0] < 20: return oracle_ctor(ops, io, ctx)      # an ordinary constructor case (from the corpus)
    if len(o) < 4 or o[0] > 1: return None
    parts = ct_split(o)
    if len(parts) != 3: return 'malformed observation'
    d = parts[1]
    if 70 <= op[0] < 76:
        what = ['Arc<T>', 'OffsetArc<T>', 'ArcBorrow<T>', 'ThinArc<H,T>', 'ArcUnion<A,B>', 'Arc<HeaderSlice<H,[T]>>'][op[0] - 70]
        if len(parts[2]) < 5: return 'malformed observation'
        consulted, before, lo, hi, after = parts[2][:5]
        if o[0] != 0: return 'comparing / hashing / formatting two %s handles panicked' % what
        if consulted != 1: return 'comparing / hashing / formatting two %s handles (distinct allocations) never consulted the values' % what
        if before != 2 or after != 2: return '%s: two owning handles per value, but the count reads %d before and %d after the comparisons' % (what, before, after)
        if lo != 2 or hi != 2: return '%s: the count read through another handle WHILE a comparison, hash or format of the handle is in use is %d..%d, but 2 owning handles refer to the value' % (what, lo, hi)
        return None
    if 67 <= op[0] < 70:
        what = 'Arc::into_thin on zero-sized elements behind a recorded length that is not the real one (%s)' % ['recorded 5, real 2', 'recorded 0, real 3', 'thin, fat again, relabelled 7 through get_mut, real 2'][op[0] - 67]
        if len(parts[2]) < 5: return 'malformed observation'
        during, total, sixth, bad, outstanding = parts[2][:5]
        real = [2, 3, 2][op[0] - 67]
        if o[0] != 1: return '%s: the conversion did not refuse; the thin handle reports %d elements for %d real ones and %d destructors ran for %d values' % (what, max(bad - 1, 0), real, total, real + 1)
        if total != real + 1: return '%s: %d destructor calls for the header and %d elements (each exactly once expected)' % (what, total, real)
        if bad or outstanding: return '%s: a block was left behind or a dead value touched' % what
        return None
    if 65 <= op[0] < 67:
        what = 'UniqueArc::from_header_and_uninit_slice with a length whose layout cannot be represented (%s)' % ['the slice alone overflows', 'header and count push it over'][op[0] - 65]
        if len(parts[2]) < 5: return 'malformed observation'
        during, total, sixth, bad, outstanding = parts[2][:5]
        if o[0] != 1: return '%s: the constructor did not refuse with a panic' % what
        if total != 1: return '%s: the header handed to the failed constructor was destroyed %d times (exactly once expected)' % (what, total)
        if bad or outstanding: return '%s: a block was left behind or a dead value touched' % what
        return None
    if 60 <= op[0] < 65:
        what = ['Arc<[T]>::from(Vec<T>)', 'Arc::from_header_and_vec', 'collecting an inexact iterator', 'Arc::make_mut on a shared value', 'OffsetArc::make_mut on a shared value'][op[0] - 60]
        if len(parts[2]) < 5: return 'malformed observation'
        during, total, sixth, bad, outstanding = parts[2][:5]
        if outstanding: return '%s with zero-sized values: %d block(s) allocated and never released' % (what, outstanding if outstanding < 2 ** 63 else outstanding - 2 ** 64)
        if op[0] < 63:
            if during != 0: return '%s with zero-sized elements that have a destructor: %d of them were destroyed by the constructor, while the handle is alive (they are moved into the handle, which destroys them)' % (what, during)
            if total != 3: return '%s with zero-sized elements that have a destructor: %d destructor calls for 3 values' % (what, total)
            if bad: return '%s with zero-sized elements: wrong length, or an access to a dead value' % what
            return None
        if sixth != 1: return '%s of a zero-sized type: Clone was called %d times (the copy must be made with Clone, once)' % (what, sixth)
        if bad: return '%s of a zero-sized type: the handle was not redirected to a block of its own (the counts are not 1 and 1)' % what
        if total != 2: return '%s of a zero-sized type: %d values destroyed in the end (2 expected)' % (what, total)
        return None
    if 48 <= op[0] < 60:
        what = ['UniqueArc::from_header_and_uninit_slice (dropped uninitialised)', 'from_header_and_uninit_slice + assume_init_slice_with_header, shared', 'Arc::from_header_and_iter',
                'Arc::from_header_and_vec', 'Arc::from(Box<T>)', 'Arc::new', 'Arc::try_unwrap by the sole owner', 'Arc::unwrap_or_clone by the sole owner',
                'Arc::try_unique + UniqueArc::into_inner', 'UniqueArc::new + into_inner', 'UniqueArc::try_from + into_inner', 'Arc::unwrap_or_clone of a shared value'][op[0] - 48]
        if len(parts[2]) < 5: return 'malformed observation'
        during, total, elems, bad, outstanding = parts[2][:5]
        want = 2 if op[0] == 59 else 1
        if outstanding: return '%s with a zero-sized value: %d block(s) allocated and never released (the block of a zero-sized payload still holds the count)' % (what, outstanding if outstanding < 2 ** 63 else outstanding - 2 ** 64)
        if op[0] >= 54:
            if bad: return '%s with a zero-sized value: %d accesses to dead values or releases of memory that was never allocated' % (what, bad)
            if during != 0: return '%s with a zero-sized value: the value was destroyed %d times before the caller got it' % (what, during)
            if total != want: return '%s with a zero-sized value: destroyed %d times in all (%d expected)' % (what, total, want)
            return None
        if bad: return '%s with a zero-sized value: %d accesses to dead values or releases of memory that was never allocated' % (what, bad)
        if during != 0: return '%s with a zero-sized header/payload that has a destructor: it is destroyed %d times during construction, while the handle is alive' % (what, during)
        if total != 1: return '%s with a zero-sized header/payload that has a destructor: destroyed %d times in all (exactly once expected)' % (what, total)
        return None
    if 44 <= op[0] < 48:
        what = ['Arc::make_mut', 'OffsetArc::make_mut', 'Arc::make_unique', 'Arc::unwrap_or_clone'][op[0] - 44]
        if len(parts[2]) < 4: return 'malformed observation'
        calls, own, untouched, cnt = parts[2][:4]
        if calls != 1 or own != 1: return '%s on a shared value without drop glue: Clone::clone was called %d times and the copy %s its result (the copy must be made with Clone)' % (what, calls, 'is' if own else 'is NOT')
        if untouched != 1: return '%s on a shared value without drop glue: a write through the result is seen through the other owner' % what
        return None
    if op[0] >= 40:
        what = ['unwrap_or_clone', 'make_mut', 'make_unique', 'OffsetArc::make_mut'][op[0] - 40] if op[0] < 44 else '?'
        if any(x in BAD_CT for x in d): return '%s with the other owner released during the clone: access to a dead value' % what
        if op[2] == 1:
            # ... and the old value's destructor panics while the operation releases the old handle (the last one)
            if o[0] != 1: return '%s: the panic of the old value\'s destructor did not propagate' % what
            if d.count(0) != 1: return '%s when the old value\'s destructor panics: the original value is destroyed %d times' % (what, d.count(0))
            if d != [0, 1]: return '%s when the old value\'s destructor panics after the old allocation was released: the fresh copy is destroyed %d times before the handle is gone (the handle must own the fresh copy: lost copy, or a handle left pointing at the released block)' % (what, d.count(1))
            if parts[2][:1] == [666666]: return '%s when the old value\'s destructor panics: the original block was released with a wrong layout or twice, or its counter was touched after the block had gone back to the allocator (a handle left pointing at the released block)' % what
            if parts[2][:1] != [1]: return '%s when the old value\'s destructor panics: the original block is returned %s times' % (what, parts[2][:1])
            return None
        if d != [0]: return '%s on a shared value whose other owner is released during the clone: the original value is destroyed %d times (it is neither handed out nor destroyed: lost)' % (what, d.count(0)) if 0 not in d or d.count(0) > 1 else None
        if parts[2][:1] != [1]: return '%s on a shared value whose other owner is released during the clone: the original block is returned %s times' % (what, parts[2][:1])
        return None
    if any(x in BAD_CT for x in d): return 'kind %d: a destructor ran on a value that is not live while the panic unwound' % (op[0] - 20)
    if len(set(d)) != len(d): return 'kind %d, %d elements, destructor of value %d panics: a value was destroyed twice: %s' % (op[0] - 20, op[1], op[2], d)
    rel = parts[2][0] if parts[2] else 0
    if rel == 666666: return 'kind %d: the block was released with a wrong layout or twice while the panic unwound' % (op[0] - 20)
    if rel != 1: return 'kind %d, %d elements: the destructor of value %d panics while the last handle is released: the block is returned %d times (it leaks)' % (op[0] - 20, op[1], op[2], rel)
    return None

DPANIC_STREAM = dict(stream='ctor', label='ctor-scenarios', gen=gen_dpanic, oracle=oracle_dpanic, prep=mech_prep,
                     nontrivial=lambda ops, io: len(io[0]) > 3 and io[0][0] == 1,
                     rule='destructor-panic cases: the last handle (Arc<T>, Arc<[T]> from a Vec, ThinArc, Arc<HeaderSlice>, OffsetArc, ArcUnion, Arc<[T]> built through UniqueArc<[MaybeUninit<T>]> and assume_init_slice, a never-assumed-init UniqueArc<HeaderSlice<H,[MaybeUninit<T>]>>, a clone pair) of a block with 0..3 (thorough 0..8) elements is released and the destructor of value k panics, for every k; observation: panic propagated, values destroyed in order, how often the block was returned with its own layout; non-trivial = the panic fired',
                     cfgs=dict(quick=[('cfg_default', 'debug'), ('cfg_default', 'release')], thorough=[('cfg_default', 'debug'), ('cfg_default', 'release'), ('cfg_nostd', 'release')]))
PROPS['C01']['streams'] = PROPS['C01']['streams'] + [DPANIC_STREAM]
PROPS['C15']['streams'] = PROPS['C15']['streams'] + [DPANIC_STREAM]
PROPS['C06']['streams'] = PROPS['C06']['streams'] + [DPANIC_STREAM]
# C05 "the block is large enough for what is written into it" and C10 "the recorded length is the slice length" also under
# iterators that misreport their length: the constructor stream with red zones behind every block
CTOR_STREAM_C05 = dict(CTOR_STREAM); CTOR_STREAM_C05['label'] = 'ctor-lying-iterators'
PROPS['C05']['streams'] = PROPS['C05']['streams'] + [CTOR_STREAM_C05]
PROPS['C10']['streams'] = PROPS['C10']['streams'] + [CTOR_STREAM_C05]
EFFECTS_STREAM = dict(stream='cmp', label='cmp-effects', gen=gen_effects, oracle=oracle_cmp, nontrivial=lambda ops, io: len(ops[0]) == 4 and ops[0][0] == 9 and ops[0][3] == 1,
                      rule='comparison / hash / format through every handle kind (Arc, OffsetArc, ArcBorrow, ArcUnion, ThinArc, fat header-slice Arc) x {==, !=, partial_cmp, <, cmp, hash, Debug, Display} x payload impl answers / panics: panic propagated, every count read before, during (from inside the operation where possible) and after is unchanged, no dead access, every value destroyed once afterwards; non-trivial = the impl panicked',
                      cfgs=dict(quick=[('cfg_default', 'debug'), ('cfg_default', 'release')], thorough=[('cfg_default', 'debug'), ('cfg_default', 'release'), ('cfg_all', 'release')]))
def gen_union_cmp(tier, rng):
    cases = []; n = 0
    for cls in range(3):
        for xv in range(2):
            for x in range(3):
                cases.append(('U%d' % n, [[cls, 3, 1, xv, x, xv, x]])); n += 1
                for yv in range(2):
                    for y in range(3): cases.append(('U%d' % n, [[cls, 3, 0, xv, x, yv, y]])); n += 1
    for x in range(3):
        for y in range(3): cases.append(('U%d' % n, [[8, x, y]])); n += 1
    return cases
UNION_CMP_STREAM = dict(stream='cmp', label='cmp-union', gen=gen_union_cmp, oracle=oracle_cmp, nontrivial=lambda ops, io: True,
                        rule='ArcUnion == / != / Debug over all pairs of (variant, value) from a 3-letter alphabet x 3 payload classes, same and distinct allocations, and for ArcUnion<T,T> the same allocation held as First and as Second; distinct = distinct cases',
                        cfgs=dict(quick=[('cfg_default', 'debug')], thorough=[('cfg_default', 'debug'), ('cfg_default', 'release')]))
PROPS['C12']['streams'] = PROPS['C12']['streams'] + [UNION_CMP_STREAM]
PROPS['C04']['streams'] = PROPS['C04']['streams'] + [EFFECTS_STREAM]
# the count accessors that go through a borrow (ArcBorrow / ArcUnion / ArcUnionBorrow ::strong_count) on every payload
# shape, over-aligned ones included: the union cases of the pointer stream; and their bodies are the transcribed ones
PROPS['C04']['streams'] = PROPS['C04']['streams'] + [PTR_STREAM_C12]
_c04_old_side = PROPS['C04']['side_obligations']
PROPS['C04']['side_obligations'] = lambda facts: _c04_old_side(facts) + [
    ('count_accessors_through_borrows_are_the_modelled_ones', bool(((facts.get('pointers') or {}).get('forms') or {}).get('borrow')) and bool(((facts.get('pointers') or {}).get('forms') or {}).get('union')),
     'differing: %s' % (facts.get('pointers') or {}).get('diffs'))]
PROPS['C07']['streams'] = PROPS['C07']['streams'] + [EFFECTS_STREAM]
def c15_side(facts):
    PT = facts.get('pointers') or {}
    return [('uninit_constructors_and_assume_init_are_the_modelled_ones', bool((PT.get('forms') or {}).get('uninit')), 'differing: %s' % PT.get('diffs'))]
_c15_old_side = PROPS['C15']['side_obligations']
PROPS['C15']['side_obligations'] = lambda facts: _c15_old_side(facts) + c15_side(facts)
PROPS['C09']['streams'] = PROPS['C09']['streams'] + [DPANIC_STREAM]
# miri scenarios per property
for _pid, _pre in (('C01', ['c01_', 'c04_']), ('C02', ['c02_']), ('C03', ['c03_']), ('C04', ['c04_']), ('C05', ['c05_', 'c06_', 'c01_thin', 'c01_union', 'c09_']),
                   ('C06', ['c06_']), ('C07', ['c07_']), ('C08', ['c08_']), ('C09', ['c09_']), ('C10', ['c10_', 'c01_thin']), ('C11', ['c11_']),
                   ('C12', ['c12_', 'c01_union', 'c14_', 'c04_counts', 'c05_shapes']), ('C14', ['c14_']), ('C15', ['c15_']), ('C17', ['c17_'])):
    PROPS[_pid]['streams'] = PROPS[_pid]['streams'] + [MIRI_STREAM(_pre, {'C01': ('mech',), 'C11': ('ptr',), 'C14': ('cmp',)}.get(_pid, ()))]
# the schedule stream: real threads against the machine of the translated counter programs
PROPS['C02']['streams'] = PROPS['C02']['streams'] + [SCHED_STREAM('drops')]
PROPS['C03']['streams'] = PROPS['C03']['streams'] + [SCHED_STREAM('unique')]
PROPS['C08']['streams'] = PROPS['C08']['streams'] + [SCHED_STREAM('cow')]
PROPS['C09']['streams'] = PROPS['C09']['streams'] + [SCHED_STREAM('unwrap')]
PROPS['C08']['streams'] = PROPS['C08']['streams'] + [DPANIC_STREAM]
PROPS['C10']['streams'] = PROPS['C10']['streams'] + [DPANIC_STREAM]
PROPS['C04']['streams'] = PROPS['C04']['streams'] + [DPANIC_STREAM]
# C15: the header given to an uninit constructor is where the handle shows it, for every header/element shape
PROPS['C15']['streams'] = PROPS['C15']['streams'] + [LAYOUT_STREAM]
# C05 also for the blocks the serde impls request and (when the payload's deserialiser refuses) give back
PROPS['C05']['streams'] = PROPS['C05']['streams'] + [SERDE_STREAM]
PROPS['C01']['assumptions'] = PROPS['C01']['assumptions'] + ['a panicking payload destructor: Rust drop glue destroys the remaining fields and elements while unwinding and Box frees its memory on the unwind path (Ctor.run_dpanic; validated by the destructor-panic cases)']

# C10 also holds for every header/element shape: the thin forms of the ptr stream and the layout stream (thin constructors)
PTR_STREAM_C10 = dict(PTR_STREAM); PTR_STREAM_C10['ctx'] = dict(report_f3=False)
PROPS['C10']['streams'] = PROPS['C10']['streams'] + [PTR_STREAM_C10, LAYOUT_STREAM]
# C01 for sized, over-aligned, zero-sized, slice and trait-object payloads: the raw-pointer round trips of the ptr stream
# recover a handle whose release returns exactly the block (the mech stream has one payload shape only)
PROPS['C01']['streams'] = PROPS['C01']['streams'] + [PTR_STREAM_C10]
