"""C13 tie 2: client programs type-checked by rustc against the crate as it is now.
Each probe is one example file of a generated cargo package (.cache/probes); `cargo check --examples --keep-going`
compiles them in parallel and reports per target.  The expected verdict of every probe comes from the Coq model
(handle_has / bounded evaluated on the extracted impl table and signatures), never from a table in this file."""
import os, json, shutil, subprocess, re

PRELUDE = '''#![allow(unused, dropping_references, dropping_copy_types, forgetting_references)]
use triomphe::*;
type SS = u32;
type SendOnly = std::cell::Cell<u32>;
type SyncOnly = std::sync::MutexGuard<'static, u32>;
type Neither = std::rc::Rc<u32>;
fn need_send<T: ?Sized + Send>() {}
fn need_sync<T: ?Sized + Sync>() {}
fn use_it<T>(_: T) {}
'''
CLASSES = [('SS', True, True), ('SendOnly', True, False), ('SyncOnly', False, True), ('Neither', False, False)]
BORROWCK = set(['E0597', 'E0505', 'E0515', 'E0521', 'E0716', 'E0499', 'E0502', 'E0506', 'E0373', 'E0310', 'E0311', 'E0503', 'E0713', 'E0712', 'E0621', 'E0700', None])

def auto_probes(tier):
    """-> list of dict(name, src, kind='auto', head, trait, payloads=[(send, sync, sized)..])"""
    out = []
    def add(desc, ty, tr, head, payloads, generic=None):
        fn = 'need_send' if tr == 'Send' else 'need_sync'
        if generic is None:
            body = 'fn main() { %s::<%s>(); }\n' % (fn, ty)
        else:
            body = 'fn g<%s>() { %s::<%s>(); }\nfn main() {}\n' % (generic, fn, ty)
        out.append(dict(name='a%03d' % len(out), src=PRELUDE + body, kind='auto', desc=desc, head=head, trait=tr, payloads=payloads))
    for tr in ('Send', 'Sync'):
        for cn, s, y in CLASSES:
            for head, ty in (('Arc', 'Arc<%s>'), ('OffsetArc', 'OffsetArc<%s>'), ('ArcBorrow', "ArcBorrow<'static, %s>"), ('UniqueArc', 'UniqueArc<%s>')):
                add('%s: %s' % (ty % cn, tr), ty % cn, tr, head, [(s, y, True)])
            for head, ty in (('Arc', 'Arc<[%s]>'), ('ArcBorrow', "ArcBorrow<'static, [%s]>"), ('UniqueArc', 'UniqueArc<[%s]>')):
                add('%s: %s' % (ty % cn, tr), ty % cn, tr, head, [(s, y, False)])
            # Arc<HeaderSlice<H, [T]>>: the payload is Send/Sync when both parts are
            add('Arc<HeaderSlice<%s, [SS]>>: %s' % (cn, tr), 'Arc<HeaderSlice<%s, [SS]>>' % cn, tr, 'Arc', [(s, y, False)])
            add('Arc<HeaderSlice<SS, [%s]>>: %s' % (cn, tr), 'Arc<HeaderSlice<SS, [%s]>>' % cn, tr, 'Arc', [(s, y, False)])
        for dyn, s, y in (('dyn std::any::Any', False, False), ('dyn std::any::Any + Send', True, False), ('dyn std::any::Any + Sync', False, True), ('dyn std::any::Any + Send + Sync', True, True)):
            add('Arc<%s>: %s' % (dyn, tr), 'Arc<%s>' % dyn, tr, 'Arc', [(s, y, False)])
            add('UniqueArc<%s>: %s' % (dyn, tr), 'UniqueArc<%s>' % dyn, tr, 'UniqueArc', [(s, y, False)])
        for an, sa, ya in CLASSES:
            for bn, sb, yb in CLASSES:
                add('ThinArc<%s, %s>: %s' % (an, bn, tr), 'ThinArc<%s, %s>' % (an, bn), tr, 'ThinArc', [(sa, ya, True), (sb, yb, True)])
                add('ArcUnion<%s, %s>: %s' % (an, bn, tr), 'ArcUnion<%s, %s>' % (an, bn), tr, 'ArcUnion', [(sa, ya, True), (sb, yb, True)])
                if an == 'SS' or bn == 'SS' or tier == 'thorough':
                    # derived: an enum of two ArcBorrows
                    add("ArcUnionBorrow<'static, %s, %s>: %s" % (an, bn, tr), "ArcUnionBorrow<'static, %s, %s>" % (an, bn), tr, 'ArcBorrow*2', [(sa, ya, True), (sb, yb, True)])
        # generic: for all T satisfying a bound
        for bn, s, y in (('', False, False), ('Send', True, False), ('Sync', False, True), ('Send + Sync', True, True)):
            for head, ty in (('Arc', 'Arc<T>'), ('OffsetArc', 'OffsetArc<T>'), ('ArcBorrow', "ArcBorrow<'static, T>"), ('UniqueArc', 'UniqueArc<T>')):
                add('forall T: %s . %s: %s' % (bn or '-', ty, tr), ty, tr, head, [(s, y, True)], generic="T: 'static" + (' + ' + bn if bn else ''))
            for head, ty in (('Arc', 'Arc<T>'), ('ArcBorrow', "ArcBorrow<'static, T>"), ('UniqueArc', 'UniqueArc<T>')):
                add('forall T: ?Sized + %s . %s: %s' % (bn or '-', ty, tr), ty, tr, head, [(s, y, False)], generic="T: ?Sized + 'static" + (' + ' + bn if bn else ''))
            for bn2, s2, y2 in (('', False, False), ('Send + Sync', True, True)):
                add('forall H: %s, T: %s . ThinArc<H, T>: %s' % (bn or '-', bn2 or '-', tr), 'ThinArc<H, T>', tr, 'ThinArc', [(s, y, True), (s2, y2, True)],
                    generic="H: 'static" + (' + ' + bn if bn else '') + ", T: 'static" + (' + ' + bn2 if bn2 else ''))
                add('forall A: %s, B: %s . ArcUnion<A, B>: %s' % (bn2 or '-', bn or '-', tr), 'ArcUnion<A, B>', tr, 'ArcUnion', [(s2, y2, True), (s, y, True)],
                    generic="A: 'static" + (' + ' + bn2 if bn2 else '') + ", B: 'static" + (' + ' + bn if bn else ''))
    return out

# (name, needs = accessors whose bounded signature makes the escape impossible, escape body, control body or None)
LIFETIME = [
 ('borrow_arc outlives the Arc', ['Arc::borrow_arc'],
  'let b; { let a = Arc::new(1u32); b = a.borrow_arc(); } use_it(b);',
  'let a = Arc::new(1u32); let b = a.borrow_arc(); use_it(b);'),
 ('&T from Deref outlives the Arc', ['Arc::deref (Deref)'],
  'let r: &u32; { let a = Arc::new(1u32); r = &*a; } use_it(r);',
  'let a = Arc::new(1u32); let r: &u32 = &*a; use_it(r);'),
 ('&T from Borrow outlives the Arc', ['Arc::borrow (borrow::Borrow<T>)'],
  'let r: &u32; { let a = Arc::new(1u32); r = std::borrow::Borrow::borrow(&a); } use_it(r);',
  'let a = Arc::new(1u32); let r: &u32 = std::borrow::Borrow::borrow(&a); use_it(r);'),
 ('&T from AsRef outlives the Arc', ['Arc::as_ref (AsRef<T>)'],
  'let r: &u32; { let a = Arc::new(1u32); r = a.as_ref(); } use_it(r);',
  'let a = Arc::new(1u32); let r: &u32 = a.as_ref(); use_it(r);'),
 ('ArcBorrow::get outlives the Arc', ['ArcBorrow::get', 'Arc::borrow_arc'],
  'let r; { let a = Arc::new(1u32); let b = a.borrow_arc(); r = b.get(); } use_it(r);',
  "let a = Arc::new(1u32); let r; { let b = a.borrow_arc(); r = b.get(); } use_it(r);"),
 ('&T from ArcBorrow Deref outlives the ArcBorrow', ['ArcBorrow::deref (Deref)'],
  'let a = Arc::new(1u32); let r: &u32; { let b = a.borrow_arc(); r = &*b; } use_it(r);',
  'let a = Arc::new(1u32); let b = a.borrow_arc(); let r: &u32 = &*b; use_it(r);'),
 ('ArcBorrow copy outlives the Arc', ['ArcBorrow::clone (Clone)', 'Arc::borrow_arc'],
  'let c; { let a = Arc::new(1u32); let b = a.borrow_arc(); c = b.clone(); } use_it(c);',
  'let a = Arc::new(1u32); let c; { let b = a.borrow_arc(); c = b.clone(); } use_it(c);'),
 ('ArcBorrow::with_arc: the lent &Arc stored outside', ['ArcBorrow::with_arc'],
  'let a = Arc::new(1u32); let b = a.borrow_arc(); let mut out = None; b.with_arc(|x| { out = Some(x); }); use_it(out);',
  'let a = Arc::new(1u32); let b = a.borrow_arc(); let n = b.with_arc(|x| Arc::strong_count(x)); use_it(n);'),
 ('ArcBorrow::with_arc: the lent &Arc returned', ['ArcBorrow::with_arc'],
  'let a = Arc::new(1u32); let b = a.borrow_arc(); let r = b.with_arc(|x| x); use_it(r);',
  'let a = Arc::new(1u32); let b = a.borrow_arc(); let r = b.with_arc(|x| x.clone()); use_it(r);'),
 ('ThinArc::with_arc: stored outside', ['ThinArc::with_arc'],
  'let t = ThinArc::from_header_and_slice(1u32, &[1u8, 2]); let mut out = None; t.with_arc(|x| { out = Some(x); }); use_it(out);',
  'let t = ThinArc::from_header_and_slice(1u32, &[1u8, 2]); let n = t.with_arc(|x| x.slice.len()); use_it(n);'),
 ('ThinArc::with_arc: returned', ['ThinArc::with_arc'],
  'let t = ThinArc::from_header_and_slice(1u32, &[1u8, 2]); let r = t.with_arc(|x| x); use_it(r);',
  'let t = ThinArc::from_header_and_slice(1u32, &[1u8, 2]); let r = t.with_arc(|x| x.clone()); use_it(r);'),
 ('ThinArc::with_arc_mut: the lent &mut Arc stored outside', ['ThinArc::with_arc_mut'],
  'let mut t = ThinArc::from_header_and_slice(1u32, &[1u8, 2]); let mut out = None; t.with_arc_mut(|x| { out = Some(x); }); use_it(out);',
  'let mut t = ThinArc::from_header_and_slice(1u32, &[1u8, 2]); let n = t.with_arc_mut(|x| x.slice().len()); use_it(n);'),
 ('ThinArc::with_arc_mut: a slice borrowed from the lent Arc stored outside', ['ThinArc::with_arc_mut', 'HeaderSliceWithLengthProtected::slice'],
  'let mut t = ThinArc::from_header_and_slice(1u32, &[1u8, 2]); let mut out = None; t.with_arc_mut(|x| { out = Some(x.slice()); }); use_it(out);', None),
 ('ThinArc::with_arc_mut: header borrowed from the lent Arc returned', ['ThinArc::with_arc_mut', 'HeaderSliceWithLengthProtected::header'],
  'let mut t = ThinArc::from_header_and_slice(1u32, &[1u8, 2]); let r = t.with_arc_mut(|x| x.header()); use_it(r);', None),
 ('OffsetArc::with_arc: stored outside', ['OffsetArc::with_arc'],
  'let o = Arc::into_raw_offset(Arc::new(1u32)); let mut out = None; o.with_arc(|x| { out = Some(x); }); use_it(out);',
  'let o = Arc::into_raw_offset(Arc::new(1u32)); let n = o.with_arc(|x| Arc::strong_count(x)); use_it(n);'),
 ('Arc::with_raw_offset_arc: stored outside', ['Arc::with_raw_offset_arc'],
  'let a = Arc::new(1u32); let mut out = None; a.with_raw_offset_arc(|x| { out = Some(x); }); use_it(out);',
  'let a = Arc::new(1u32); let n = a.with_raw_offset_arc(|x| **x); use_it(n);'),
 ('Arc::with_raw_offset_arc: returned', ['Arc::with_raw_offset_arc'],
  'let a = Arc::new(1u32); let r = a.with_raw_offset_arc(|x| x); use_it(r);', None),
 ('get_mut: the &mut T used while the Arc is cloned', ['Arc::get_mut'],
  'let mut a = Arc::new(1u32); let m = Arc::get_mut(&mut a).unwrap(); let c = a.clone(); *m = 2; use_it(c);',
  'let mut a = Arc::new(1u32); let m = Arc::get_mut(&mut a).unwrap(); *m = 2; let c = a.clone(); use_it(c);'),
 ('make_mut: the &mut T used after the Arc is dropped', ['Arc::make_mut'],
  'let mut a = Arc::new(1u32); let m = Arc::make_mut(&mut a); drop(a); *m = 2;',
  'let mut a = Arc::new(1u32); let m = Arc::make_mut(&mut a); *m = 2; drop(a);'),
 ('make_mut: the &mut T outlives the Arc', ['Arc::make_mut'],
  'let m; { let mut a = Arc::new(1u32); m = Arc::make_mut(&mut a); } *m = 2;', None),
 ('make_unique: the &mut UniqueArc outlives the Arc', ['Arc::make_unique'],
  'let u; { let mut a = Arc::new(1u32); u = Arc::make_unique(&mut a); } **u = 2;',
  'let mut a = Arc::new(1u32); let u = Arc::make_unique(&mut a); **u = 2;'),
 ('get_unique: used while the Arc is cloned', ['Arc::get_unique'],
  'let mut a = Arc::new(1u32); let u = Arc::get_unique(&mut a).unwrap(); let c = a.clone(); **u = 2; use_it(c);',
  'let mut a = Arc::new(1u32); let u = Arc::get_unique(&mut a).unwrap(); **u = 2; let c = a.clone(); use_it(c);'),
 ('UniqueArc: &mut T used after shareable()', ['UniqueArc::deref_mut (DerefMut)'],
  'let mut u = UniqueArc::new(1u32); let m = &mut *u; let a = u.shareable(); *m = 3; use_it(a);',
  'let mut u = UniqueArc::new(1u32); let m = &mut *u; *m = 3; let a = u.shareable(); use_it(a);'),
 ('UniqueArc: &T outlives the handle', ['UniqueArc::deref (Deref)'],
  'let r: &u32; { let u = UniqueArc::new(1u32); r = &*u; } use_it(r);',
  'let u = UniqueArc::new(1u32); let r: &u32 = &*u; use_it(r);'),
 ('UniqueArc<MaybeUninit>::write: the &mut T outlives the handle', ['UniqueArc::write'],
  'let r; { let mut u = UniqueArc::<u32>::new_uninit(); r = u.write(1); } use_it(r);',
  'let mut u = UniqueArc::<u32>::new_uninit(); let r = u.write(1); use_it(r);'),
 ('Arc<MaybeUninit>::write: the &mut T outlives the handle', ['Arc::write'],
  'let r; { let mut a = Arc::<std::mem::MaybeUninit<u32>>::new_uninit(); r = a.write(1); } use_it(r);',
  'let mut a = Arc::<std::mem::MaybeUninit<u32>>::new_uninit(); let r = a.write(1); use_it(r);'),
 ('Arc<[MaybeUninit]>::as_mut_slice outlives the handle', ['Arc::as_mut_slice'],
  'let r; { let mut a = Arc::<[std::mem::MaybeUninit<u32>]>::new_uninit_slice(2); r = a.as_mut_slice(); } use_it(r);',
  'let mut a = Arc::<[std::mem::MaybeUninit<u32>]>::new_uninit_slice(2); let r = a.as_mut_slice(); use_it(r);'),
 ('ArcUnion::borrow outlives the union', ['ArcUnion::borrow'],
  'let b; { let u = ArcUnion::<u32, u64>::from_first(Arc::new(1u32)); b = u.borrow(); } use_it(b);',
  'let u = ArcUnion::<u32, u64>::from_first(Arc::new(1u32)); let b = u.borrow(); use_it(b);'),
 ('ArcUnion::as_first outlives the union', ['ArcUnion::as_first'],
  'let b; { let u = ArcUnion::<u32, u64>::from_first(Arc::new(1u32)); b = u.as_first(); } use_it(b);',
  'let u = ArcUnion::<u32, u64>::from_first(Arc::new(1u32)); let b = u.as_first(); use_it(b);'),
 ('ArcUnion::as_second outlives the union', ['ArcUnion::as_second'],
  'let b; { let u = ArcUnion::<u32, u64>::from_second(Arc::new(1u64)); b = u.as_second(); } use_it(b);',
  'let u = ArcUnion::<u32, u64>::from_second(Arc::new(1u64)); let b = u.as_second(); use_it(b);'),
 ('OffsetArc::borrow_arc outlives the handle', ['OffsetArc::borrow_arc'],
  'let b; { let o = Arc::into_raw_offset(Arc::new(1u32)); b = o.borrow_arc(); } use_it(b);',
  'let o = Arc::into_raw_offset(Arc::new(1u32)); let b = o.borrow_arc(); use_it(b);'),
 ('OffsetArc: &T outlives the handle', ['OffsetArc::deref (Deref)'],
  'let r: &u32; { let o = Arc::into_raw_offset(Arc::new(1u32)); r = &*o; } use_it(r);',
  'let o = Arc::into_raw_offset(Arc::new(1u32)); let r: &u32 = &*o; use_it(r);'),
 ('OffsetArc::make_mut: the &mut T outlives the handle', ['OffsetArc::make_mut'],
  'let m; { let mut o = Arc::into_raw_offset(Arc::new(1u32)); m = o.make_mut(); } *m = 2;',
  'let mut o = Arc::into_raw_offset(Arc::new(1u32)); let m = o.make_mut(); *m = 2;'),
 ('ThinArc: a reference into the slice outlives the handle', ['ThinArc::deref (Deref)'],
  'let r; { let t = ThinArc::from_header_and_slice(1u32, &[1u8, 2]); r = &t.slice; } use_it(r);',
  'let t = ThinArc::from_header_and_slice(1u32, &[1u8, 2]); let r = &t.slice; use_it(r);'),
 ('an ArcBorrow sent to a thread that may outlive the Arc', ['Arc::borrow_arc'],
  'let a = Arc::new(1u32); let b = a.borrow_arc(); let h = std::thread::spawn(move || { use_it(*b); }); h.join().unwrap();',
  'let a = Arc::new(1u32); let b = a.borrow_arc(); std::thread::scope(|s| { s.spawn(move || { use_it(*b); }); });'),
 # a handle cannot outlive data its payload borrows (well-formedness of generic types; no accessor involved)
 ('Arc<&T> outlives the referent', [], 'let a; { let x = 5u32; a = Arc::new(&x); } use_it(a);', 'let x = 5u32; let a = Arc::new(&x); use_it(a);'),
 ('UniqueArc<&T> outlives the referent', [], 'let a; { let x = 5u32; a = UniqueArc::new(&x); } use_it(a);', 'let x = 5u32; let a = UniqueArc::new(&x); use_it(a);'),
 ('ThinArc<&H, T> outlives the referent', [], 'let t; { let x = 5u32; t = ThinArc::from_header_and_slice(&x, &[1u8]); } use_it(t);', 'let x = 5u32; let t = ThinArc::from_header_and_slice(&x, &[1u8]); use_it(t);'),
 ('ThinArc<H, &T> outlives the referent', [], 'let t; { let x = 5u32; t = ThinArc::from_header_and_slice(1u8, &[&x]); } use_it(t);', None),
 ('OffsetArc<&T> outlives the referent', [], 'let o; { let x = 5u32; o = Arc::into_raw_offset(Arc::new(&x)); } use_it(o);', 'let x = 5u32; let o = Arc::into_raw_offset(Arc::new(&x)); use_it(o);'),
 ('ArcUnion<&A, B> outlives the referent', [], 'let u; { let x = 5u32; u = ArcUnion::<&u32, u64>::from_first(Arc::new(&x)); } use_it(u);', 'let x = 5u32; let u = ArcUnion::<&u32, u64>::from_first(Arc::new(&x)); use_it(u);'),
 ('Arc<[&T]> from an iterator outlives the referent', [], 'let a: Arc<[&u32]>; { let x = 5u32; a = std::iter::once(&x).collect(); } use_it(a);', None),
 ('an Arc<&T> declared before its referent is dropped after it (drop check)', [], 'let a; let x = 5u32; a = Arc::new(&x);', 'let x = 5u32; let a; a = Arc::new(&x);'),
 ('a ThinArc<&H, T> declared before its referent is dropped after it (drop check)', [], 'let t; let x = 5u32; t = ThinArc::from_header_and_slice(&x, &[1u8]);', None),
 ('a UniqueArc<&T> declared before its referent is dropped after it (drop check)', [], 'let u; let x = 5u32; u = UniqueArc::new(&x);', None),
]

def lifetime_probes():
    out = []
    for i, (desc, needs, esc, ctl) in enumerate(LIFETIME):
        out.append(dict(name='l%03de' % i, src=PRELUDE + 'fn main() { %s }\n' % esc, kind='escape', desc=desc, needs=needs))
        if ctl is not None:
            out.append(dict(name='l%03dc' % i, src=PRELUDE + 'fn main() { %s }\n' % ctl, kind='control', desc=desc + ' (control: the same use without the escape)', needs=needs))
    return out

CARGO_TOML = '''[package]
name = "tvprobes"
version = "0.1.0"
edition = "2021"
publish = false
[workspace]
[dependencies]
triomphe = { path = "%s" }
'''

def run_probes(probes, root, repo, target, env, lockfile=None, timeout=1200):
    """-> (ok, results{name: (accepted, [error codes], first message)}, raw_error)"""
    shutil.rmtree(root, ignore_errors=True)
    os.makedirs(os.path.join(root, 'examples')); os.makedirs(os.path.join(root, 'src'))
    open(os.path.join(root, 'Cargo.toml'), 'w').write(CARGO_TOML % repo)
    open(os.path.join(root, 'src', 'lib.rs'), 'w').write('')
    if lockfile and os.path.exists(lockfile): shutil.copy(lockfile, os.path.join(root, 'Cargo.lock'))
    for p in probes:
        open(os.path.join(root, 'examples', p['name'] + '.rs'), 'w').write(p['src'])
    e = dict(env); e['CARGO_TARGET_DIR'] = target
    e.pop('RUSTFLAGS', None)        # probes see the crate as a client does (no verification hooks)
    try:
        pr = subprocess.run(['cargo', 'check', '--offline', '--examples', '--keep-going', '--message-format=json'], cwd=root, env=e,
                            stdout=subprocess.PIPE, stderr=subprocess.PIPE, timeout=timeout)
    except subprocess.TimeoutExpired:
        return False, {}, 'cargo check timed out'
    res = {}; lib_ok = False; lib_err = []
    for l in pr.stdout.decode('utf-8', 'replace').split('\n'):
        if not l.startswith('{'): continue
        try: m = json.loads(l)
        except ValueError: continue
        if m.get('reason') == 'compiler-artifact':
            t = m['target']
            if 'example' in t['kind']: res.setdefault(t['name'], [True, [], ''])
            if t['name'] == 'triomphe': lib_ok = True
        elif m.get('reason') == 'compiler-message' and m['message'].get('level') == 'error':
            t = m['target']; msg = m['message']
            code = (msg.get('code') or {}).get('code')
            if 'example' in t['kind']:
                r = res.setdefault(t['name'], [False, [], ''])
                r[0] = False
                if not msg['message'].startswith('aborting due to'):
                    r[1].append(code)
                    if not r[2]: r[2] = msg['message'][:200]
            elif t['name'] == 'triomphe':
                lib_err.append(msg['message'][:300])
    if not lib_ok:
        return False, res, 'the crate itself does not type-check for a client build: %s %s' % (lib_err[:3], pr.stderr.decode('utf-8', 'replace')[-600:])
    return True, dict((k, tuple(v)) for k, v in res.items()), ''
