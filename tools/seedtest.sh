#!/bin/bash
# usage: tools/seedtest.sh <seed-id> <prop> [<prop>...]   -- apply seeded/<seed-id>/patch.diff to /repo, run the checks, undo.
set -u
id=$1; shift
cd /verif
if ! git -C /repo diff --quiet; then echo "/repo has uncommitted changes; refusing"; exit 2; fi
git -C /repo apply /verif/seeded/$id/patch.diff || { echo "patch does not apply"; exit 2; }
rm -rf .cache/evidence.keep; cp -r evidence .cache/evidence.keep
trap 'git -C /repo checkout -- . ; rm -rf evidence; mv .cache/evidence.keep evidence; echo "[seedtest] /repo and evidence/ restored"' EXIT
for p in "$@"; do
  echo "=== $p on $id"
  ./check $p 2>&1 | grep -E "^(VIOLATION|OK|KNOWN)|PROBLEM" | cut -c1-400
done
