#!/usr/bin/env python3
"""Regenerates /verif/MANIFEST.json from the table below (run by hand after claiming a property)."""
import json, os
ROOT = os.path.dirname(os.path.dirname(os.path.abspath(__file__)))
TECH = 'machine-checked proof in Coq 8.16 (model tied to the source by a translator and by a correspondence check against the implementation)'
NOTE_MECH = ('Trusted: Coq kernel; the hand model coq/theories/Mech.v of Rust move/drop/unwind semantics and of the crate\'s functions '
             '(tied to the code by differential runs of the real crate with tracked payloads, tracking allocator and atomic hook); '
             'tools/extract.py for the atomic-site facts; 64-bit target.')
CLAIMS = {
 'C05': dict(text='Coq theorems (all header/element sizes, alignments and lengths over unbounded N) that the Layout chains extracted from the source on every run equal rustc\'s layout of the ArcInner type used at release, that the block covers its contents and that oversized requests panic; tied to the code by the translator and by a differential run of the real crate under a layout-checking allocator against the extracted model.',
             note='Trusted: Coq kernel; translator tools/extract.py; rustc repr(C)/transparent layout rules and core::alloc::Layout arithmetic as modelled in Layout.v (validated dynamically each run); 64-bit target.'),
 'C01': dict(text='Coq theorems over an executable machine of all owning-handle operations (23 handle kinds, 26 conversion edges, 5 callback forms with nesting and panics): for every finite history, no use-after-free/double free, count = number of owners > 0 for every live block, no owner of a released block, every block released in the log exactly once and exactly when ownerless, last release destroys header/elements then frees. Tied to the code by running the real crate and the extracted model on the same generated histories (tracked payload identities, tracking allocator, atomic footprint) and by the translated closed world of atomic sites.',
             note=NOTE_MECH + ' Not yet proved in Coq: pairwise distinctness of destroyed payload tokens across the whole log (checked dynamically by the harness oracle).'),
 'C04': dict(text='Coq theorems for every history of the handle machine: every count accessor through every handle kind (also inside callback bodies) returns exactly the number of owning table entries (raw pointers and forgotten handles included) and changes nothing; conversions/borrows/moves leave every owner count unchanged; clone-style ops add exactly one, releases remove exactly one. Tied to the code by differential runs with a count read after random steps and by the atomic-site translation.',
             note=NOTE_MECH),
}
NOTE_CONC = NOTE_MECH + ' Memory model: promise-free view semantics of release/acquire with relaxed RMWs on one counter (RC11 without load buffering), coq/theories/Conc.v; the orderings, the closed world of atomic sites and the shape of drop_inner are re-extracted from /repo/src on every run; real multi-threaded executions are not part of the quick check.'
CLAIMS.update({
 'C02': dict(text='Coq theorem over a view-based release/acquire machine with ANY number of threads, every interleaving, stale loads, release sequences through relaxed RMWs and arbitrary extra synchronisation: under the orderings extracted from the source on every run, no access races with another access, the destruction or the deallocation, nothing is touched after the free, the value is destroyed at most once and exactly once at quiescence; plus closed-world and funnel obligations (every handle kind clones/drops through Arc\'s primitives, proved on the sequential machine) and tightness witnesses. Tied to the code by the translator and by comparing the atomic footprint (operation, ordering, old value) of every call in generated histories. On a break: bounded exploration of the machine under the extracted orderings yields a racy schedule as the replay.',
             note=NOTE_CONC),
 'C03': dict(text='Sequential half: Coq theorems for every history that is_unique/try_unique/TryFrom/get_mut (through every Arc-typed kind, also inside with_arc_mut)/try_unwrap/deprecated writers succeed iff the value has exactly one owning table entry of any kind, that declining leaves table and heap unchanged, and that UniqueArc-like handles are always sole owners. Schedule half: on the view machine, a uniqueness test that reads 1 read the last message (no stale 1), its caller is the sole holder and afterwards knows every access ever made, so the granted write cannot race (uniq_sound + conc_safe, any number of threads), with the Acquire on the test shown necessary. Tied by translator (gate shape, effective load ordering through delegations) and the mech stream with verdict observations and footprints.',
             note=NOTE_CONC),
 'C08': dict(text='Coq theorem for every history: make_mut on Arc and OffsetArc keeps the block and calls no Clone when the handle is the sole owner; otherwise exactly one Clone call, a fresh block with count 1, the old block keeps its cells and loses exactly one count, every other block is unchanged (so every other handle reads what it read before); a panicking Clone changes nothing. Schedule half by conc_safe. Tied by the mech stream (co-owners of all kinds, values read through all handles, Clone-call events, allocation identity, clone panics) and footprints.',
             note=NOTE_CONC),
 'C09': dict(text='Coq theorems for every history with explicit event logs: try_unwrap/into_inner/unwrap_or_clone/try_unique/TryFrom hand the value (or sole ownership) out only for a sole owner, with no destructor before the hand-over and the block released exactly then; otherwise the same handle/table/heap (unwrap_or_clone: one Clone call, one owner released, also when Clone panics). Schedule half: destroyed-or-moved-out at most once always and exactly once at quiescence on the view machine; closed world of atomic sites. Tied by the mech stream and footprints.',
             note=NOTE_CONC),
 'C10': dict(text='Coq theorems for every history: every ThinArc / raw thin pointer / Protected Arc records the true slice length; thin and fat views of a block coincide; thin<->fat<->Protected<->raw conversions are count-neutral; into_thin on a wrong recorded length panics and releases that Arc properly; with_arc_mut writes the (possibly replaced) pointer back on return and on unwind. Tied by the mech stream (systematic replace/assign/panic scenarios inside with_arc_mut, wrong recorded lengths) ; addresses/offsets are covered by C05/C11.',
             note=NOTE_MECH),
 'C15': dict(text='Coq theorems for every history with explicit event logs: dropping a MaybeUninit-typed handle (5 kinds) runs no element destructor whatever was written, destroys the header once and frees once; initialised-typed handles destroy every element once in order; assume_init (5 forms) changes only the type; the deprecated writers on a shared handle panic leaving table and heap unchanged. Tied by the mech stream (uninit kinds, slot writes, assume_init, sharing states).',
             note=NOTE_MECH),
})
CLAIMS.update({
 'C11': dict(text='Coq theorems for every payload shape (unbounded sizes/alignments, ZST, over-aligned, slices of any length, trait objects): the offset subtracted by from_raw (the offset_of_data chain translated from the source each run) is exactly the compiler offset of the data field that as_ptr/into_raw add, that address is >= 8 and aligned, heap_ptr is the block start, thin and fat offsets agree, every handle struct has exactly one NonNull field besides PhantomData (one word, null niche), and in every history the address a handle yields depends only on block and kind. The remaining raw forms (OffsetArc, ArcBorrow, from_raw_slice, ThinArc, arc-swap) are tied by comparing their bodies with the ones the model was written against. Dynamic tie: exhaustive ptr stream over the 16x8 shape matrix x 7 forms (offsets vs the allocator block, round trips, size_of/Option) and the layout stream. One clause is a recorded KNOWN FINDING (F3: ThinArc raw forms return the block start) with a witness theorem.',
             note='Trusted: Coq kernel; tools/extract.py incl. the golden-body comparison (tools/golden_forms.py); rustc layout rules as in Layout.v and transparent-over-NonNull => one word with niche (both validated dynamically by the ptr stream); 64-bit target.'),
 'C12': dict(text='Coq theorems: the value address of every payload shape is even (so bit 0 is free) for any 8-aligned block; for the four bit expressions translated from arc_union.rs each run, on every even 64-bit address: from_first tests first and borrows the same address, from_second tests second and borrows the address with the tag stripped, and the two stored words never coincide; borrow() dispatches to the variant of the same name and clone/drop/accessors go through it; in every history of the handle machine a union handle views a block built as its variant\'s type, reports its variant, clones to the same variant and block. Dynamic tie: ptr stream over all ordered pairs of 16x8 shapes (byte-aligned, ZST and equal types included) for both constructors, and the mech stream with unions interleaved with plain Arcs.',
             note=NOTE_MECH + ' Blocks are at least 8-aligned because every request has alignment >= 8 (C05).'),
})
CLAIMS.update({
 'C16': dict(text='Coq theorems with the increment modelled modulo 2^64 and the guard (compared value, operator, constant, action) and both abort definitions translated from the source each run: for EVERY starting count below 2^64, a clone at or below isize::MAX succeeds with count+1 and no wrap, above it aborts and produces no handle; no sequence of clones ever brings the count back to a smaller value; abort is process abort (std) or a panic raised while a Drop-panicking guard is live (no_std); every clone path of every handle kind is the guarded increment (funnel theorems on the handle machine + closed world of atomic sites). Tied dynamically by child processes: 13 clone entry points x 10 boundary counts preset through the hook-reported counter address, in std and no_std builds, observing SIGABRT with no output after the marker or count+1.',
             note='Trusted: Coq kernel; tools/extract.py; "panic while panicking aborts" (Rust runtime; exercised by the no_std children); the handle-machine funnel lemmas are tied to the code by the mech stream of C01/C02.'),
})
CLAIMS.update({
 'C14': dict(text='Coq theorems for ARBITRARY payload types (records of arbitrary functions, no law assumed: NaN-like and deliberately unlawful payloads included): with the 28 comparison/hash/format method bodies classified by the translator on every run, Arc answers ==, !=, <, <=, >, >=, partial_cmp, cmp, Hash, Debug, Display, Borrow/AsRef as the payload does on the dereferenced values, differing only for two handles to one allocation whose value is unequal to itself; OffsetArc and ArcBorrow likewise; ArcUnion compares same variants by value and different variants unequal, Debug under the variant name; ThinArc is the fat Arc on the header-slice payload, which orders as header then slice (recorded length as last tie-break, never deciding for a ThinArc); for lawful header/element types the header-slice payload is mutually consistent (!= vs ==, == vs partial_cmp Equal, the four operators vs partial_cmp, cmp vs partial_cmp, equal => equal hashes) on every publicly constructible value. Two genuine defects found and repaired by fix: commits in /repo (F1 ArcBorrow/ArcUnion by address, F2 equality vs ordering of HeaderSlice<HeaderWithLength>) with a refutation theorem kept for F2. Dynamic tie: cmp stream, exhaustive over the small domain for three payload classes (total, float with NaN, unlawful) through every handle kind incl. HashMap/BTreeMap lookups.',
             note='Trusted: Coq kernel; tools/extract.py (classification of impl bodies); the expansion of #[derive] and core\'s slice/tuple impls as modelled in Cmp.v/CmpCases.v (validated by the cmp stream, e.g. slice == walks elements with !=).'),
})
ORDER = ['C%02d' % i for i in range(1, 18)]
NA_REASON = 'check under construction; not claimed yet (see DESIGN.md section 6 for the planned theorem)'

def main():
    checks = []
    for pid in ORDER:
        if pid not in CLAIMS: continue
        c = CLAIMS[pid]
        checks.append(dict(property_id=pid, quick_cmd='./check %s' % pid, thorough_cmd='./check %s --tier thorough' % pid,
                           evidence_file='evidence/%s.json' % pid, replay_cmd_template='./check %s --replay {path}' % pid,
                           engine='coq+tie2',
                           level_claimed=dict(category='proof', text=c['text'], design_ref='DESIGN.md section 6 %s' % pid),
                           level_note=c['note'], technique=TECH))
    man = dict(version=1, setup_cmd='./setup',
               hooks=dict(guard='triomphe_verif', enable='RUSTFLAGS="--cfg triomphe_verif" (set by ./check for every harness build)',
                          baseline_off_cmd='cd /repo && cargo test --workspace --no-fail-fast --offline',
                          source_commits=['223624b'], add_only=True),
               engines=[dict(name='coq+tie2', path='check', serves_properties=[p for p in ORDER if p in CLAIMS],
                             kind_free_text='Coq 8.16 proofs over models tied to /repo by a source translator (tools/extract.py) and a harness-vs-extracted-model correspondence check')],
               checks=checks, notes='see DESIGN.md',
               not_applicable=[dict(property_id=p, reason=NA_REASON) for p in ORDER if p not in CLAIMS])
    json.dump(man, open(os.path.join(ROOT, 'MANIFEST.json'), 'w'), indent=1)
    print('claimed:', [p for p in ORDER if p in CLAIMS])

if __name__ == '__main__':
    main()
