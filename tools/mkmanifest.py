#!/usr/bin/env python3
"""Regenerates /verif/MANIFEST.json from the table below (run by hand after claiming a property)."""
import json, os
ROOT = os.path.dirname(os.path.dirname(os.path.abspath(__file__)))
TECH = 'machine-checked proof in Coq 8.16 (model tied to the source by a translator and by a correspondence check against the implementation)'
NOTE_MECH = ('Trusted: Coq kernel; the hand model coq/theories/Mech.v of Rust move/drop/unwind semantics and of the crate\'s functions '
             '(tied to the code by differential runs of the real crate with tracked payloads, tracking allocator and atomic hook); '
             'tools/extract.py for the atomic-site facts; 64-bit target.')
CLAIMS = {
 'C05': dict(text='Coq theorems (all header/element sizes, alignments and lengths over unbounded N) that the Layout chains extracted from the source on every run equal rustc\'s layout of the ArcInner type used at release, that the block covers its contents and that oversized requests panic; tied to the code by the translator and by a differential run of the real crate under a layout-checking allocator against the extracted model.',
             note='Trusted: Coq kernel; translator tools/extract.py; rustc repr(C)/transparent layout rules and core::alloc::Layout arithmetic as modelled in Layout.v (validated dynamically each run); 64-bit target.'),
 'C01': dict(text='Coq theorems over an executable machine of all owning-handle operations (23 handle kinds, 26 conversion edges, 5 callback forms with nesting and panics): for every finite history, no use-after-free/double free, count = number of owners > 0 for every live block, no owner of a released block, every block released in the log exactly once and exactly when ownerless, last release destroys header/elements then frees. Tied to the code by running the real crate and the extracted model on the same generated histories (tracked payload identities, tracking allocator, atomic footprint) and by the translated closed world of atomic sites.',
             note=NOTE_MECH + ' Not yet proved in Coq: pairwise distinctness of destroyed payload tokens across the whole log (checked dynamically by the harness oracle).'),
 'C04': dict(text='Coq theorems for every history of the handle machine: every count accessor through every handle kind (also inside callback bodies) returns exactly the number of owning table entries (raw pointers and forgotten handles included) and changes nothing; conversions/borrows/moves leave every owner count unchanged; clone-style ops add exactly one, releases remove exactly one. Tied to the code by differential runs with a count read after random steps and by the atomic-site translation.',
             note=NOTE_MECH),
}
ORDER = ['C%02d' % i for i in range(1, 18)]
NA_REASON = 'check under construction; not claimed yet (see DESIGN.md section 6 for the planned theorem)'

def main():
    checks = []
    for pid in ORDER:
        if pid not in CLAIMS: continue
        c = CLAIMS[pid]
        checks.append(dict(property_id=pid, quick_cmd='./check %s' % pid, thorough_cmd='./check %s --tier thorough' % pid,
                           evidence_file='evidence/%s.json' % pid, replay_cmd_template='./check %s --replay {path}' % pid,
                           engine='coq+tie2',
                           level_claimed=dict(category='proof', text=c['text'], design_ref='DESIGN.md section 6 %s' % pid),
                           level_note=c['note'], technique=TECH))
    man = dict(version=1, setup_cmd='./setup',
               hooks=dict(guard='triomphe_verif', enable='RUSTFLAGS="--cfg triomphe_verif" (set by ./check for every harness build)',
                          baseline_off_cmd='cd /repo && cargo test --workspace --no-fail-fast --offline',
                          source_commits=['223624b'], add_only=True),
               engines=[dict(name='coq+tie2', path='check', serves_properties=[p for p in ORDER if p in CLAIMS],
                             kind_free_text='Coq 8.16 proofs over models tied to /repo by a source translator (tools/extract.py) and a harness-vs-extracted-model correspondence check')],
               checks=checks, notes='see DESIGN.md',
               not_applicable=[dict(property_id=p, reason=NA_REASON) for p in ORDER if p not in CLAIMS])
    json.dump(man, open(os.path.join(ROOT, 'MANIFEST.json'), 'w'), indent=1)
    print('claimed:', [p for p in ORDER if p in CLAIMS])

if __name__ == '__main__':
    main()
