#!/usr/bin/env python3
"""For each behaviour-preserving refactoring in harmless/: apply it to a scratch copy of /repo/src, run the translator,
and list the generated definitions that differ from those of the unchanged tree (an empty list means: every proof
obligation and side obligation is literally the same, so no check can alarm on the proof side)."""
import sys, os, subprocess, shutil, glob, re, tempfile
sys.path.insert(0, os.path.dirname(os.path.abspath(__file__)))
import extract
def defs(text):
    text = text.split('*)', 1)[1]
    text = re.sub(r'\(\* enclosing functions[^\n]*\*\)', '', text)
    out = {}
    for m in re.finditer(r'^Definition (\w+)[^\n]*?:=(.*?)\.\s*$', text, re.S | re.M):
        out[m.group(1)] = ' '.join(m.group(2).split())
    return out
d0 = tempfile.mkdtemp(prefix='hq_')
subprocess.run('git -C /repo archive HEAD src | tar -x -C %s' % d0, shell=True, check=True)
base = defs(extract.run(os.path.join(d0, 'src'))[1])
shutil.rmtree(d0, ignore_errors=True)
for p in sorted(glob.glob(os.path.join(os.path.dirname(os.path.abspath(__file__)), '..', 'harmless', '*.diff'))):
    d = tempfile.mkdtemp(prefix='hq_')
    try:
        subprocess.run('git -C /repo archive HEAD src | tar -x -C %s' % d, shell=True, check=True)
        if subprocess.run('patch -p1 -s < %s' % os.path.abspath(p), shell=True, cwd=d, stdout=subprocess.DEVNULL, stderr=subprocess.DEVNULL).returncode != 0:
            print('%-20s %s' % (os.path.basename(p), 'does not apply to the repaired tree (it refactors a function that a fix: commit changed)'))
            continue
        cur = defs(extract.run(os.path.join(d, 'src'))[1])
        diff = sorted(k for k in set(base) | set(cur) if base.get(k) != cur.get(k))
        print('%-20s %s' % (os.path.basename(p), diff if diff else 'identical'))
    finally:
        shutil.rmtree(d, ignore_errors=True)
