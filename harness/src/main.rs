//! Harness: runs case files against the real crate and prints canonical observation lines.
//!
//!   tvharness <stream> <casefile>
//!
//! case file:   `<id>|a b c;d e f;...`      (one case per line, ops separated by `;`)
//! output:      `<id>.<k>|x y z`            (one line per observation)
#![allow(dead_code, dangerous_implicit_autorefs, unused_unsafe, static_mut_refs)]
mod abortchild;
mod cmps;
mod ctors;
mod dpanic;
mod layout;
mod mech;
mod ptrs;
mod sched;
#[cfg(feature = "cfg_default")]
mod serdes;
mod tok;
mod shapes;
mod talloc;

#[cfg_attr(not(miri), global_allocator)]
static GLOBAL: talloc::Tracking = talloc::Tracking;

use std::io::{BufRead, Write};

fn parse_case(line: &str) -> Option<(String, Vec<Vec<u64>>)> {
    let mut it = line.splitn(2, '|');
    let id = it.next()?.trim().to_string();
    let rest = it.next()?;
    let mut ops = Vec::new();
    for part in rest.split(';') {
        let p = part.trim();
        if p.is_empty() {
            continue;
        }
        let mut v = Vec::new();
        for w in p.split_whitespace() {
            v.push(w.parse::<u64>().ok()?);
        }
        ops.push(v);
    }
    Some((id, ops))
}

fn main() {
    let args: Vec<String> = std::env::args().collect();
    if args.len() == 4 && args[1] == "abortchild" {
        std::panic::set_hook(Box::new(|_| {}));
        abortchild::main(args[2].parse().unwrap_or(99), args[3].parse().unwrap_or(1));
    }
    if args.len() == 4 && args[1] == "allocfail" {
        ctors::allocfail_main(args[2].parse().unwrap_or(99), args[3].parse().unwrap_or(1));
    }
    if args.len() < 3 {
        eprintln!("usage: tvharness <stream> <casefile>");
        std::process::exit(2);
    }
    // quiet panics: they are expected observations
    std::panic::set_hook(Box::new(|_| {}));
    let stream = args[1].as_str();
    let f = std::fs::File::open(&args[2]).expect("cannot open case file");
    let stdout = std::io::stdout();
    let mut out = std::io::BufWriter::new(stdout.lock());
    for line in std::io::BufReader::new(f).lines() {
        let line = line.unwrap();
        if line.trim().is_empty() || line.starts_with('#') {
            continue;
        }
        let (id, ops) = match parse_case(&line) {
            Some(x) => x,
            None => {
                writeln!(out, "?|bad case line").unwrap();
                continue;
            }
        };
        let obs: Vec<Vec<u64>> = match stream {
            "layout" => layout::run_case(&ops),
            "mech" => mech::run_case(&ops),
            "ptr" => ptrs::run_case(&ops),
            "cmp" => cmps::run_case(&ops),
            "ctor" => ctors::run_case(&ops),
            "sched" => sched::run_case(&ops),
            #[cfg(feature = "cfg_default")]
            "serde" => serdes::run_case(&ops),
            _ => {
                eprintln!("unknown stream {}", stream);
                std::process::exit(2);
            }
        };
        for (k, o) in obs.iter().enumerate() {
            let s: Vec<String> = o.iter().map(|x| x.to_string()).collect();
            writeln!(out, "{}.{}|{}", id, k, s.join(" ")).unwrap();
        }
        out.flush().unwrap();
    }
    if talloc::overflowed() {
        writeln!(out, "!|event log overflow").unwrap();
    }
}
