//! `mech` stream: histories of handle operations over every handle kind, executed against the real
//! crate with identity-tracked payloads, the tracking allocator and the atomic-footprint hook.
//! One observation line per operation: `status rets.. 99999999 events..`, and a final line with
//! `(alive, owners)` per block from the harness's own bookkeeping.
//!
//! The op codes and the skip rules mirror coq/theories/Mech.v (`decode`, `step`).
use crate::talloc::{self, Ev};
use crate::tok::{self, Tok, TokB, TokLike};
use std::ffi::c_void;
use std::mem::MaybeUninit;
use std::panic::{catch_unwind, AssertUnwindSafe};
use triomphe::{Arc, ArcUnion, ArcUnionBorrow, HeaderSlice, HeaderSliceWithLengthProtected, HeaderWithLength, OffsetArc, ThinArc, UniqueArc};

type Hsl = HeaderSlice<HeaderWithLength<Tok>, [Tok]>;
type Prot = HeaderSliceWithLengthProtected<Tok, Tok>;
type Hs = HeaderSlice<Tok, [Tok]>;
type HsU = HeaderSlice<Tok, [MaybeUninit<Tok>]>;

pub const S_OK: u64 = 0;
pub const S_SKIP: u64 = 1;
pub const S_PANIC: u64 = 2;
pub const S_DECLINED: u64 = 3;

#[allow(dead_code)]
enum H {
    Arc(Arc<Tok>),
    Uniq(UniqueArc<Tok>),
    Off(OffsetArc<Tok>),
    Un(ArcUnion<Tok, TokB>),
    Raw(*const Tok),
    ArcB(Arc<TokB>),
    Fat(Arc<Hsl>),
    Thin(ThinArc<Tok, Tok>),
    RawThin(*const c_void),
    Prot(Arc<Prot>),
    Erased(Arc<HeaderSlice<(), Tok>>),
    Dyn(Arc<dyn TokLike>),
    MU(UniqueArc<MaybeUninit<Tok>>),
    MA(Arc<MaybeUninit<Tok>>),
    Slice(Arc<[Tok]>),
    RawSlice(*const [Tok]),
    MUS(UniqueArc<[MaybeUninit<Tok>]>),
    MAS(Arc<[MaybeUninit<Tok>]>),
    US(UniqueArc<[Tok]>),
    MUH(UniqueArc<HsU>),
    UH(UniqueArc<Hs>),
    AH(Arc<Hs>),
    Forgotten(usize),
}

/// a borrowed view of a handle: a tagged raw pointer to the handle value (owned slot or transient)
#[derive(Clone, Copy)]
enum P {
    Arc(*mut Arc<Tok>),
    Uniq(*mut UniqueArc<Tok>),
    Off(*mut OffsetArc<Tok>),
    Un(*mut ArcUnion<Tok, TokB>),
    Raw(*const Tok),
    ArcB(*mut Arc<TokB>),
    Fat(*mut Arc<Hsl>),
    Thin(*mut ThinArc<Tok, Tok>),
    RawThin(*const c_void),
    Prot(*mut Arc<Prot>),
    Erased(*mut Arc<HeaderSlice<(), Tok>>),
    Dyn(*mut Arc<dyn TokLike>),
    MU(*mut UniqueArc<MaybeUninit<Tok>>),
    MA(*mut Arc<MaybeUninit<Tok>>),
    Slice(*mut Arc<[Tok]>),
    RawSlice(*const [Tok]),
    MUS(*mut UniqueArc<[MaybeUninit<Tok>]>),
    MAS(*mut Arc<[MaybeUninit<Tok>]>),
    US(*mut UniqueArc<[Tok]>),
    MUH(*mut UniqueArc<HsU>),
    UH(*mut UniqueArc<Hs>),
    AH(*mut Arc<Hs>),
    Forgotten(usize),
}

#[derive(Clone, Copy, PartialEq)]
enum Mode {
    Owned,
    Shared,
    Mut,
}

fn p_of(h: &mut H) -> P {
    match h {
        H::Arc(a) => P::Arc(a),
        H::Uniq(a) => P::Uniq(a),
        H::Off(a) => P::Off(a),
        H::Un(a) => P::Un(a),
        H::Raw(a) => P::Raw(*a),
        H::ArcB(a) => P::ArcB(a),
        H::Fat(a) => P::Fat(a),
        H::Thin(a) => P::Thin(a),
        H::RawThin(a) => P::RawThin(*a),
        H::Prot(a) => P::Prot(a),
        H::Erased(a) => P::Erased(a),
        H::Dyn(a) => P::Dyn(a),
        H::MU(a) => P::MU(a),
        H::MA(a) => P::MA(a),
        H::Slice(a) => P::Slice(a),
        H::RawSlice(a) => P::RawSlice(*a),
        H::MUS(a) => P::MUS(a),
        H::MAS(a) => P::MAS(a),
        H::US(a) => P::US(a),
        H::MUH(a) => P::MUH(a),
        H::UH(a) => P::UH(a),
        H::AH(a) => P::AH(a),
        H::Forgotten(i) => P::Forgotten(*i),
    }
}

struct Block {
    base: usize,
    size: usize,
    alive: bool,
    written: Vec<bool>,
    /// index (in `pending`) of the Alloc event that created this block, until that event is flushed
    born: Option<usize>,
}

struct Interp<'a> {
    ops: &'a [Vec<u64>],
    pos: usize,
    table: Vec<*mut Option<H>>,
    views: Vec<(usize, P, Mode)>,
    obs: Vec<Vec<u64>>,
    blocks: Vec<Block>,
    /// events not yet attributed to an observation
    pending: Vec<Ev>,
}

struct Unwind;

fn ord_code(o: std::sync::atomic::Ordering) -> u64 {
    use std::sync::atomic::Ordering::*;
    match o {
        Relaxed => 0,
        Release => 1,
        Acquire => 2,
        AcqRel => 3,
        SeqCst => 4,
        _ => 9,
    }
}

#[cfg(triomphe_verif)]
fn observer(addr: usize, op: u8, ord: std::sync::atomic::Ordering, old: usize, new: usize) {
    if op != 0 {
        talloc::push(Ev::Atomic { addr, op, ord: ord_code(ord) as u8, old, new });
    }
}

pub fn install_observer() {
    #[cfg(triomphe_verif)]
    triomphe::verif_atomic::set_observer(Some(observer));
}

/// the start of the block a `P` refers to, as the crate itself reports it (`heap_ptr`) where it can;
/// for data-pointer kinds an address inside the block (no dereference of the block)
fn addr_of(p: P) -> Option<usize> {
    unsafe {
        Some(match p {
            P::Arc(a) => (*a).heap_ptr() as usize,
            P::Uniq(a) => (*(a as *const Arc<Tok>)).heap_ptr() as usize,
            P::Off(a) => std::ptr::read(a as *const usize),
            P::Un(a) => std::ptr::read(a as *const usize) & !1usize,
            P::Raw(a) => a as usize,
            P::ArcB(a) => (*a).heap_ptr() as usize,
            P::Fat(a) => (*a).heap_ptr() as usize,
            P::Thin(a) => (*a).heap_ptr() as usize,
            P::RawThin(a) => a as usize,
            P::Prot(a) => (*a).heap_ptr() as usize,
            P::Erased(a) => (*a).heap_ptr() as usize,
            P::Dyn(a) => (*a).heap_ptr() as usize,
            P::MU(a) => (*(a as *const Arc<MaybeUninit<Tok>>)).heap_ptr() as usize,
            P::MA(a) => (*a).heap_ptr() as usize,
            P::Slice(a) => (*a).heap_ptr() as usize,
            P::RawSlice(a) => (a as *const u8 as usize).wrapping_sub(8),
            P::MUS(a) => (*(a as *const Arc<[MaybeUninit<Tok>]>)).heap_ptr() as usize,
            P::MAS(a) => (*a).heap_ptr() as usize,
            P::US(a) => (*(a as *const Arc<[Tok]>)).heap_ptr() as usize,
            P::MUH(a) => (*(a as *const Arc<HsU>)).heap_ptr() as usize,
            P::UH(a) => (*(a as *const Arc<Hs>)).heap_ptr() as usize,
            P::AH(a) => (*a).heap_ptr() as usize,
            P::Forgotten(_) => return None,
        })
    }
}

/// the address the kind's `as_ptr` / `into_raw` / `Deref` yields
fn value_addr(p: P) -> Option<usize> {
    unsafe {
        Some(match p {
            P::Arc(a) => {
                let v = Arc::as_ptr(&*a) as usize;
                if v != &**a as *const Tok as usize {
                    usize::MAX
                } else {
                    v
                }
            }
            P::Uniq(a) => &**a as *const Tok as usize,
            P::Off(o) => &**o as *const Tok as usize,
            P::Un(u) => match (*u).borrow() {
                ArcUnionBorrow::First(x) => &*x as *const Tok as usize,
                ArcUnionBorrow::Second(x) => &*x as *const TokB as usize,
            },
            P::Raw(a) => a as usize,
            P::ArcB(a) => Arc::as_ptr(&*a) as *const u8 as usize,
            P::Fat(a) => Arc::as_ptr(&*a) as *const u8 as usize,
            P::Thin(t) => (*t).as_ptr() as usize,
            P::RawThin(a) => a as usize,
            P::Prot(a) => Arc::as_ptr(&*a) as *const u8 as usize,
            P::Erased(a) => Arc::as_ptr(&*a) as *const u8 as usize,
            P::Dyn(a) => Arc::as_ptr(&*a) as *const u8 as usize,
            P::MU(a) => &**a as *const MaybeUninit<Tok> as usize,
            P::MA(a) => Arc::as_ptr(&*a) as *const u8 as usize,
            P::Slice(a) => Arc::as_ptr(&*a) as *const u8 as usize,
            P::RawSlice(a) => a as *const u8 as usize,
            P::MUS(a) => (**a).as_ptr() as usize,
            P::MAS(a) => Arc::as_ptr(&*a) as *const u8 as usize,
            P::US(a) => (**a).as_ptr() as usize,
            P::MUH(a) => &**a as *const HsU as *const u8 as usize,
            P::UH(a) => &**a as *const Hs as *const u8 as usize,
            P::AH(a) => Arc::as_ptr(&*a) as *const u8 as usize,
            P::Forgotten(_) => return None,
        })
    }
}

impl<'a> Interp<'a> {
    fn block_idx_of_addr(&self, a: usize) -> Option<usize> {
        // exact block start first, then containment; prefer a live block, else the most recent dead one
        for exact in [true, false] {
            let mut dead = None;
            for (i, b) in self.blocks.iter().enumerate().rev() {
                if (exact && b.base == a) || (!exact && b.base <= a && a < b.base + b.size) {
                    if b.alive {
                        return Some(i);
                    } else if dead.is_none() {
                        dead = Some(i);
                    }
                }
            }
            if dead.is_some() {
                return dead;
            }
        }
        None
    }

    fn block_of(&self, p: P) -> Option<usize> {
        match p {
            P::Forgotten(i) => Some(i),
            _ => addr_of(p).and_then(|a| self.block_idx_of_addr(a)),
        }
    }

    /// pull the events logged so far into `pending`
    fn collect(&mut self) {
        let evs = talloc::drain();
        self.pending.extend(evs);
    }

    /// a freshly created handle may sit in a new block: find its allocation event and register it
    fn register_new_block(&mut self, p: P, ncells: usize) {
        self.collect();
        let a = match addr_of(p) {
            Some(a) => a,
            None => return,
        };
        if let Some(i) = self.block_idx_of_addr(a) {
            if self.blocks[i].alive {
                return;
            }
        }
        // the latest Alloc event whose range contains the address
        for (j, ev) in self.pending.iter().enumerate().rev() {
            if let Ev::Alloc { ptr, size, .. } = *ev {
                if ptr <= a && a < ptr + size {
                    self.blocks.push(Block { base: ptr, size, alive: true, written: vec![false; ncells], born: Some(j) });
                    return;
                }
            }
        }
    }

    /// turn the pending events into observation codes, updating block liveness
    fn flush_events(&mut self) -> Vec<u64> {
        self.collect();
        let evs = std::mem::take(&mut self.pending);
        let mut out = Vec::new();
        for (j, ev) in evs.into_iter().enumerate() {
            match ev {
                Ev::Alloc { .. } => {
                    // only the allocation that created a block registered since the last flush is reported
                    if let Some(i) = self.blocks.iter().position(|b| b.born == Some(j)) {
                        out.push(4);
                        out.push(i as u64);
                    }
                }
                Ev::Dealloc { ptr, .. } => {
                    if let Some(i) = self.blocks.iter().position(|b| b.alive && b.base == ptr && b.born.map_or(true, |k| j > k)) {
                        self.blocks[i].alive = false;
                        out.push(2);
                        out.push(i as u64);
                    }
                }
                Ev::BadDealloc { ptr, size, align, asize, aalign } => {
                    out.extend_from_slice(&[7, ptr as u64 & 0xfff, size as u64, align as u64, asize as u64, aalign as u64]);
                    if let Some(i) = self.blocks.iter().position(|b| b.alive && b.base == ptr) {
                        self.blocks[i].alive = false;
                    }
                }
                Ev::UnknownDealloc { .. } => out.push(8),
                Ev::Overrun { .. } => out.push(13),
                Ev::AllocFail { .. } => out.push(10),
                Ev::Dtor { id } => {
                    out.push(1);
                    out.push(id);
                }
                Ev::BadDtor { id, .. } => {
                    out.push(9);
                    out.push(id & 0xffffff);
                }
                Ev::CloneCall { id, new_id } => {
                    out.push(3);
                    out.push(id);
                    out.push(new_id);
                }
                Ev::BadRead { id, .. } => {
                    out.push(11);
                    out.push(id & 0xffffff);
                }
                Ev::Atomic { op, ord, old, .. } => {
                    out.push(5);
                    out.push(op as u64 * 10 + ord as u64);
                    out.push(old as u64);
                }
                Ev::None => {}
            }
        }
        for b in self.blocks.iter_mut() {
            b.born = None;
        }
        out
    }

    fn emit(&mut self, status: u64, rets: &[u64]) {
        let mut o = vec![status];
        o.extend_from_slice(rets);
        o.push(99999999);
        let ev = self.flush_events();
        o.extend(ev);
        self.obs.push(o);
    }

    fn emit_skip(&mut self) {
        // events (there should be none) stay pending and show up in the next observation
        self.obs.push(vec![S_SKIP, 99999999]);
    }

    fn slot(&mut self, h: usize) -> Option<*mut Option<H>> {
        self.table.get(h).copied()
    }

    fn resolve(&mut self, h: usize) -> Option<(P, Mode)> {
        for (vh, p, m) in self.views.iter().rev() {
            if *vh == h {
                return Some((*p, *m));
            }
        }
        let sp = self.slot(h)?;
        unsafe { (*sp).as_mut().map(|x| (p_of(x), Mode::Owned)) }
    }

    fn viewed(&self, h: usize) -> bool {
        self.views.iter().any(|(vh, _, _)| *vh == h)
    }

    /// take an owned handle out of the table (None when absent or currently borrowed by a callback)
    fn take_owned(&mut self, h: usize) -> Option<H> {
        if self.viewed(h) {
            return None;
        }
        let sp = self.slot(h)?;
        unsafe { (*sp).take() }
    }

    fn put(&mut self, h: usize, x: H) {
        let sp = self.table[h];
        unsafe {
            *sp = Some(x);
        }
    }

    fn push(&mut self, x: H) -> usize {
        let b = Box::into_raw(Box::new(Some(x)));
        self.table.push(b);
        self.table.len() - 1
    }

    fn push_new(&mut self, x: H, ncells: usize) -> u64 {
        let i = self.push(x);
        let p = unsafe { p_of((*self.table[i]).as_mut().unwrap()) };
        self.register_new_block(p, ncells);
        self.block_of(p).map(|b| b as u64).unwrap_or(9999)
    }

    // ------------------------------------------------------------------
    fn run_seq(&mut self, depth: usize) {
        while self.pos < self.ops.len() {
            let op = self.ops[self.pos].clone();
            self.pos += 1;
            let code = op.first().copied().unwrap_or(u64::MAX);
            match code {
                42 => {
                    if depth > 0 {
                        self.emit(S_OK, &[]);
                        return;
                    } else {
                        self.emit_skip();
                    }
                }
                43 => {
                    if depth > 0 {
                        self.emit(S_PANIC, &[]);
                        std::panic::panic_any(Unwind);
                    } else {
                        self.emit_skip();
                    }
                }
                41 if op.len() == 3 => self.do_begin(op[1], op[2] as usize, depth),
                _ => {
                    let me: *mut Interp = self;
                    let r = catch_unwind(AssertUnwindSafe(|| unsafe { (*me).do_op(&op) }));
                    tok::set_clone_panic(false);
                    match r {
                        Ok(()) => {}
                        Err(_) => self.emit(S_PANIC, &[]),
                    }
                }
            }
        }
    }

    /// skip ops until `n` pending OEnd have been consumed
    fn skip_body(&mut self, mut n: usize) {
        while n > 0 && self.pos < self.ops.len() {
            let code = self.ops[self.pos].first().copied().unwrap_or(u64::MAX);
            self.pos += 1;
            self.emit_skip();
            match code {
                41 => n += 1,
                42 => n -= 1,
                _ => {}
            }
        }
    }

    fn do_begin(&mut self, w: u64, h: usize, depth: usize) {
        let me: *mut Interp = self;
        let target = self.resolve(h);
        // the body runs inside the crate's callback, with the transient registered as a view of `h`
        macro_rules! body {
            ($p:expr, $m:expr) => {
                unsafe {
                    (*me).emit(S_OK, &[]);
                    (*me).views.push((h, $p, $m));
                    (*me).run_seq(depth + 1);
                    (*me).views.pop();
                }
            };
        }
        let nviews = self.views.len();
        let applicable = match (w, target) {
            (0, Some((P::Thin(_), _))) => true,
            (1, Some((P::Thin(_), Mode::Owned))) => true,
            (2, Some((P::Off(_), _))) => true,
            (3, Some((P::Arc(_), _))) => true,
            (4, Some((P::Arc(_), _))) | (4, Some((P::Off(_), _))) => true,
            _ => false,
        };
        if !applicable {
            self.emit_skip();
            self.skip_body(1);
            return;
        }
        let (p, _) = target.unwrap();
        let r = catch_unwind(AssertUnwindSafe(|| unsafe {
            match (w, p) {
                (0, P::Thin(t)) => (*t).with_arc(|a| body!(P::Fat(a as *const Arc<Hsl> as *mut Arc<Hsl>), Mode::Shared)),
                (1, P::Thin(t)) => (*t).with_arc_mut(|a| body!(P::Prot(a as *mut Arc<Prot>), Mode::Mut)),
                (2, P::Off(o)) => (*o).with_arc(|a| body!(P::Arc(a as *const Arc<Tok> as *mut Arc<Tok>), Mode::Shared)),
                (3, P::Arc(a)) => (*a).with_raw_offset_arc(|o| body!(P::Off(o as *const OffsetArc<Tok> as *mut OffsetArc<Tok>), Mode::Shared)),
                (4, P::Arc(a)) => (*a).borrow_arc().with_arc(|x| body!(P::Arc(x as *const Arc<Tok> as *mut Arc<Tok>), Mode::Shared)),
                (4, P::Off(o)) => (*o).borrow_arc().with_arc(|x| body!(P::Arc(x as *const Arc<Tok> as *mut Arc<Tok>), Mode::Shared)),
                _ => unreachable!(),
            }
        }));
        if r.is_err() {
            if depth > 0 {
                // keep unwinding to the outermost callback
                std::panic::resume_unwind(Box::new(Unwind));
            }
            // outermost: every frame has been unwound (drop guards ran); attribute what they logged to
            // the OPanic observation, then skip the rest of the bodies
            let open = self.views.len() - nviews;
            self.views.truncate(nviews);
            let ev = self.flush_events();
            if let Some(last) = self.obs.last_mut() {
                last.extend(ev);
            }
            self.skip_body(open);
        }
    }

    fn do_op(&mut self, op: &[u64]) {
        let code = op[0];
        let a1 = op.get(1).copied().unwrap_or(0);
        let a2 = op.get(2).copied().unwrap_or(0);
        let a3 = op.get(3).copied().unwrap_or(0);
        let wellformed = match code {
            0 => op.len() == 4,
            20 | 21 | 22 | 24 | 26 | 27 | 28 | 29 | 30 | 31 | 32 | 33 | 37 | 46 => op.len() == 2,
            23 | 25 | 34 | 35 | 36 | 38 | 40 | 47 | 44 | 45 => op.len() == 3,
            _ => false,
        };
        if !wellformed {
            return self.emit_skip();
        }
        match code {
            0 => self.op_new(a1, a2 as usize, a3 as usize),
            20 => self.op_clone(a1 as usize),
            21 => self.op_drop(a1 as usize),
            22 => self.op_forget(a1 as usize),
            23 => self.op_conv(a1, a2 as usize),
            24 => self.op_clone_arc(a1 as usize),
            25 => self.op_count(a1, a2 as usize),
            26 => self.op_is_unique(a1 as usize),
            27 => self.op_read(a1 as usize),
            28 => self.op_ptr_of(a1 as usize),
            29 => self.op_get_mut(a1 as usize),
            30 => self.op_get_unique(a1 as usize),
            31 => self.op_try_unique(a1 as usize, false),
            33 => self.op_try_unique(a1 as usize, true),
            32 => self.op_try_unwrap(a1 as usize),
            34 => self.op_make_mut(a1 as usize, a2 != 0, false),
            35 => self.op_make_mut(a1 as usize, a2 != 0, true),
            36 => self.op_unwrap_or_clone(a1 as usize, a2 != 0),
            37 => self.op_into_inner(a1 as usize),
            38 => self.op_deprecated_write(a1 as usize, a2 as usize),
            40 => self.op_write_slot(a1 as usize, a2 as usize),
            47 => self.op_uniq_mut(a1 as usize, a2 as usize),
            44 => self.op_replace(a1 as usize, a2 as usize, false),
            45 => self.op_replace(a1 as usize, a2 as usize, true),
            46 => self.op_union_acc(a1 as usize),
            _ => self.emit_skip(),
        }
    }

    fn op_new(&mut self, c: u64, n: usize, r: usize) {
        if n > 64 {
            return self.emit_skip();
        }
        let items = |n: usize| (0..n).map(|_| Tok::new());
        let (x, ncells) = match c {
            0 => (H::Arc(Arc::new(Tok::new())), 1),
            1 => (H::Uniq(UniqueArc::new(Tok::new())), 1),
            2 => (H::ArcB(Arc::new(TokB::new())), 1),
            3 => (H::Fat(Arc::from_header_and_iter(HeaderWithLength::new(Tok::new(), r), items(n))), n),
            4 => (H::Thin(ThinArc::from_header_and_iter(Tok::new(), items(n))), n),
            5 => (H::MU(UniqueArc::new_uninit()), 1),
            6 => (H::MA(Arc::new_uninit()), 1),
            7 => (H::MUS(UniqueArc::new_uninit_slice(n)), n),
            8 => (H::MAS(Arc::new_uninit_slice(n)), n),
            9 => (H::MUH(UniqueArc::from_header_and_uninit_slice(Tok::new(), n)), n),
            10 => (H::Slice(Arc::from(items(n).collect::<Vec<Tok>>())), n),
            11 => (H::AH(Arc::from_header_and_iter(Tok::new(), items(n))), n),
            _ => return self.emit_skip(),
        };
        let b = self.push_new(x, ncells);
        self.emit(S_OK, &[b]);
    }

    fn op_clone(&mut self, h: usize) {
        let (p, _) = match self.resolve(h) {
            Some(x) => x,
            None => return self.emit_skip(),
        };
        let x = unsafe {
            match p {
                P::Arc(a) => H::Arc((*a).clone()),
                P::ArcB(a) => H::ArcB((*a).clone()),
                P::Off(a) => H::Off((*a).clone()),
                P::Un(a) => H::Un((*a).clone()),
                P::Fat(a) => H::Fat((*a).clone()),
                P::Thin(a) => H::Thin((*a).clone()),
                P::Prot(a) => H::Prot((*a).clone()),
                P::Erased(a) => H::Erased((*a).clone()),
                P::Dyn(a) => H::Dyn((*a).clone()),
                P::MA(a) => H::MA((*a).clone()),
                P::Slice(a) => H::Slice((*a).clone()),
                P::MAS(a) => H::MAS((*a).clone()),
                P::AH(a) => H::AH((*a).clone()),
                _ => return self.emit_skip(),
            }
        };
        let i = self.push(x);
        let np = unsafe { p_of((*self.table[i]).as_mut().unwrap()) };
        let b = self.block_of(np).map(|b| b as u64).unwrap_or(9999);
        self.emit(S_OK, &[b]);
    }

    fn op_drop(&mut self, h: usize) {
        let droppable = match self.resolve(h) {
            Some((P::Raw(_), _)) | Some((P::RawThin(_), _)) | Some((P::RawSlice(_), _)) | Some((P::Forgotten(_), _)) => false,
            Some((_, Mode::Owned)) => true,
            _ => false,
        };
        if !droppable {
            return self.emit_skip();
        }
        let x = self.take_owned(h).unwrap();
        drop(x);
        self.emit(S_OK, &[]);
    }

    fn op_forget(&mut self, h: usize) {
        let ok = match self.resolve(h) {
            Some((P::Raw(_), _)) | Some((P::RawThin(_), _)) | Some((P::RawSlice(_), _)) | Some((P::Forgotten(_), _)) => false,
            Some((_, Mode::Owned)) => true,
            _ => false,
        };
        if !ok {
            return self.emit_skip();
        }
        let (p, _) = self.resolve(h).unwrap();
        let b = self.block_of(p).unwrap_or(9999);
        let x = self.take_owned(h).unwrap();
        std::mem::forget(x);
        self.put(h, H::Forgotten(b));
        self.emit(S_OK, &[]);
    }

    fn all_written(&self, p: P) -> bool {
        match self.block_of(p) {
            Some(b) => self.blocks[b].written.iter().all(|w| *w),
            None => false,
        }
    }

    fn op_conv(&mut self, c: u64, h: usize) {
        let (p, m) = match self.resolve(h) {
            Some(x) => x,
            None => return self.emit_skip(),
        };
        if m != Mode::Owned {
            return self.emit_skip();
        }
        // applicability (mirrors conv_target / assume_target)
        let ok = match (c, p) {
            (0, P::Arc(_)) | (1, P::Raw(_)) | (2, P::Arc(_)) | (3, P::Off(_)) | (4, P::Arc(_)) | (5, P::ArcB(_)) => true,
            (7, P::Fat(_)) | (8, P::Thin(_)) | (9, P::Thin(_)) | (10, P::RawThin(_)) | (11, P::Arc(_)) | (12, P::Erased(_)) => true,
            (13, P::Uniq(_)) | (13, P::US(_)) | (13, P::UH(_)) | (13, P::MU(_)) | (13, P::MUS(_)) => true,
            (15, P::Arc(_)) | (17, P::Slice(_)) | (18, P::RawSlice(_)) | (19, P::Thin(_)) | (20, P::Prot(_)) => true,
            (21, P::Arc(_)) | (22, P::Raw(_)) | (23, P::Thin(_)) | (24, P::RawThin(_)) => true,
            (16, P::MU(_)) | (16, P::MA(_)) | (16, P::MUS(_)) | (16, P::MAS(_)) | (16, P::MUH(_)) => true,
            _ => false,
        };
        if !ok {
            return self.emit_skip();
        }
        if c == 16 && !self.all_written(p) {
            return self.emit(S_SKIP, &[]);
        }
        let x = self.take_owned(h).unwrap();
        // for into_thin a panic drops the Arc: the slot stays empty
        let y = unsafe {
            match (c, x) {
                (0, H::Arc(a)) => H::Raw(Arc::into_raw(a)),
                (1, H::Raw(r)) => H::Arc(Arc::from_raw(r)),
                (2, H::Arc(a)) => H::Off(Arc::into_raw_offset(a)),
                (3, H::Off(o)) => H::Arc(Arc::from_raw_offset(o)),
                (4, H::Arc(a)) => H::Un(ArcUnion::from_first(a)),
                (5, H::ArcB(a)) => H::Un(ArcUnion::from_second(a)),
                (7, H::Fat(a)) => H::Thin(Arc::into_thin(a)),
                (8, H::Thin(t)) => H::Fat(Arc::from_thin(t)),
                (9, H::Thin(t)) => H::RawThin(ThinArc::into_raw(t)),
                (10, H::RawThin(r)) => H::Thin(ThinArc::from_raw(r)),
                (11, H::Arc(a)) => H::Erased(a.into()),
                (12, H::Erased(a)) => H::Arc(a.into()),
                (13, H::Uniq(u)) => H::Arc(u.shareable()),
                (13, H::US(u)) => H::Slice(u.shareable()),
                (13, H::UH(u)) => H::AH(u.shareable()),
                (13, H::MU(u)) => H::MA(u.shareable()),
                (13, H::MUS(u)) => H::MAS(u.shareable()),
                (15, H::Arc(a)) => H::Dyn(to_dyn(a)),
                (16, H::MU(u)) => H::Uniq(UniqueArc::assume_init(u)),
                (16, H::MA(a)) => H::Arc(a.assume_init()),
                (16, H::MUS(u)) => H::US(UniqueArc::assume_init_slice(u)),
                (16, H::MAS(a)) => H::Slice(a.assume_init()),
                (16, H::MUH(u)) => H::UH(u.assume_init_slice_with_header()),
                (17, H::Slice(a)) => H::RawSlice(Arc::into_raw(a)),
                (18, H::RawSlice(r)) => H::Slice(Arc::from_raw_slice(r)),
                (19, H::Thin(t)) => H::Prot(Arc::protected_from_thin(t)),
                (20, H::Prot(a)) => H::Thin(Arc::protected_into_thin(a)),
                (21, H::Arc(a)) => H::Raw(swap_into_ptr_arc(a)),
                (22, H::Raw(r)) => H::Arc(swap_from_ptr_arc(r)),
                (23, H::Thin(t)) => H::RawThin(swap_into_ptr_thin(t)),
                (24, H::RawThin(r)) => H::Thin(swap_from_ptr_thin(r)),
                _ => unreachable!(),
            }
        };
        self.put(h, y);
        self.emit(S_OK, &[]);
    }

    fn op_clone_arc(&mut self, h: usize) {
        let (p, _) = match self.resolve(h) {
            Some(x) => x,
            None => return self.emit_skip(),
        };
        let x = unsafe {
            match p {
                P::Arc(a) => H::Arc((*a).borrow_arc().clone_arc()),
                P::Off(o) => H::Arc((*o).clone_arc()),
                P::ArcB(a) => H::ArcB((*a).borrow_arc().clone_arc()),
                P::Un(u) => {
                    if (*u).is_first() {
                        H::Arc((*u).as_first().unwrap().clone_arc())
                    } else {
                        H::ArcB((*u).as_second().unwrap().clone_arc())
                    }
                }
                _ => return self.emit_skip(),
            }
        };
        let i = self.push(x);
        let np = unsafe { p_of((*self.table[i]).as_mut().unwrap()) };
        let b = self.block_of(np).map(|b| b as u64).unwrap_or(9999);
        self.emit(S_OK, &[b]);
    }

    fn op_count(&mut self, acc: u64, h: usize) {
        let (p, _) = match self.resolve(h) {
            Some(x) => x,
            None => return self.emit_skip(),
        };
        macro_rules! arcs {
            ($f:path) => {
                unsafe {
                    match p {
                        P::Arc(a) => Some($f(&*a)),
                        P::ArcB(a) => Some($f(&*a)),
                        P::Fat(a) => Some($f(&*a)),
                        P::Prot(a) => Some($f(&*a)),
                        P::Erased(a) => Some($f(&*a)),
                        P::Dyn(a) => Some($f(&*a)),
                        P::MA(a) => Some($f(&*a)),
                        P::Slice(a) => Some($f(&*a)),
                        P::MAS(a) => Some($f(&*a)),
                        P::AH(a) => Some($f(&*a)),
                        _ => None,
                    }
                }
            };
        }
        let c: Option<usize> = match acc {
            0 => arcs!(Arc::count),
            1 => match arcs!(Arc::strong_count) {
                Some(c) => Some(c),
                None => unsafe {
                    match p {
                        P::Thin(t) => Some(ThinArc::strong_count(&*t)),
                        P::Off(o) => Some(OffsetArc::strong_count(&*o)),
                        P::Un(u) => Some(ArcUnion::strong_count(&*u)),
                        _ => None,
                    }
                },
            },
            2 => unsafe {
                match p {
                    P::Arc(a) => Some(triomphe::ArcBorrow::strong_count(&(*a).borrow_arc())),
                    P::ArcB(a) => Some(triomphe::ArcBorrow::strong_count(&(*a).borrow_arc())),
                    P::Off(o) => Some(triomphe::ArcBorrow::strong_count(&(*o).borrow_arc())),
                    P::Un(u) => Some(ArcUnionBorrow::strong_count(&(*u).borrow())),
                    _ => None,
                }
            },
            _ => None,
        };
        match c {
            Some(c) => {
                // the harness's own bookkeeping: table entries (of every kind) that refer to the same block
                let own = match self.block_of(p) {
                    Some(b) => {
                        let mut n = 0u64;
                        for i in 0..self.table.len() {
                            // an entry lent to a callback is represented by the transient the callback sees
                            if let Some((q, _)) = self.resolve(i) {
                                if self.block_of(q) == Some(b) {
                                    n += 1;
                                }
                            }
                        }
                        n
                    }
                    None => 9999,
                };
                self.emit(S_OK, &[c as u64, own])
            }
            None => self.emit_skip(),
        }
    }

    fn op_is_unique(&mut self, h: usize) {
        let (p, _) = match self.resolve(h) {
            Some(x) => x,
            None => return self.emit_skip(),
        };
        let u = unsafe {
            match p {
                P::Arc(a) => (*a).is_unique(),
                P::ArcB(a) => (*a).is_unique(),
                P::Fat(a) => (*a).is_unique(),
                P::Prot(a) => (*a).is_unique(),
                P::Erased(a) => (*a).is_unique(),
                P::Dyn(a) => (*a).is_unique(),
                P::MA(a) => (*a).is_unique(),
                P::Slice(a) => (*a).is_unique(),
                P::MAS(a) => (*a).is_unique(),
                P::AH(a) => (*a).is_unique(),
                _ => return self.emit_skip(),
            }
        };
        self.emit(S_OK, &[u as u64]);
    }

    fn op_read(&mut self, h: usize) {
        let (p, _) = match self.resolve(h) {
            Some(x) => x,
            None => return self.emit_skip(),
        };
        fn sl(len: usize, hdr: Option<u64>, s: &[Tok]) -> Vec<u64> {
            let mut v = vec![len as u64];
            if let Some(h) = hdr {
                v.push(h);
            }
            v.extend(s.iter().map(|t| t.id()));
            v
        }
        let v: Vec<u64> = unsafe {
            match p {
                P::Arc(a) => vec![1, (**a).id()],
                P::Uniq(a) => vec![1, (**a).id()],
                P::Off(a) => vec![1, (**a).id()],
                P::Un(u) => match (*u).borrow() {
                    ArcUnionBorrow::First(x) => vec![1, x.id()],
                    ArcUnionBorrow::Second(x) => vec![1, x.id()],
                },
                P::ArcB(a) => vec![1, (**a).id()],
                P::Fat(a) => sl((*a).slice.len(), Some((*a).header.header.id()), &(*a).slice),
                P::Thin(a) => sl((*a).slice.len(), Some((*a).header.header.id()), &(*a).slice),
                P::Prot(a) => sl((*a).slice().len(), Some((*a).header().id()), (*a).slice()),
                P::Erased(a) => vec![1, (*a).slice.id()],
                P::Dyn(a) => vec![1, (*a).tid()],
                P::MU(_) | P::MA(_) => vec![1],
                P::Slice(a) => sl((*a).len(), None, &(*a)[..]),
                P::US(a) => sl((*a).len(), None, &(*a)[..]),
                P::MUS(a) => vec![(*a).len() as u64],
                P::MAS(a) => vec![(*a).len() as u64],
                P::MUH(a) => vec![(*a).slice.len() as u64, (*a).header.id()],
                P::UH(a) => sl((*a).slice.len(), Some((*a).header.id()), &(*a).slice),
                P::AH(a) => sl((*a).slice.len(), Some((*a).header.id()), &(*a).slice),
                P::Raw(_) | P::RawThin(_) | P::RawSlice(_) | P::Forgotten(_) => return self.emit_skip(),
            }
        };
        self.emit(S_OK, &v);
    }

    fn op_ptr_of(&mut self, h: usize) {
        let (p, _) = match self.resolve(h) {
            Some(x) => x,
            None => return self.emit_skip(),
        };
        let (val, b) = match (value_addr(p), self.block_of(p)) {
            (Some(v), Some(b)) => (v, b),
            (Some(_), None) => return self.emit(S_OK, &[9999, 0]),
            _ => return self.emit_skip(),
        };
        let off = val.wrapping_sub(self.blocks[b].base);
        self.emit(S_OK, &[b as u64, off as u64]);
    }

    fn op_get_mut(&mut self, h: usize) {
        let (p, m) = match self.resolve(h) {
            Some(x) => x,
            None => return self.emit_skip(),
        };
        if m == Mode::Shared {
            return self.emit_skip();
        }
        let r: Option<bool> = unsafe {
            match p {
                P::Arc(a) => Some(Arc::get_mut(&mut *a).map(|m| *m = Tok::new()).is_some()),
                P::ArcB(a) => Some(Arc::get_mut(&mut *a).map(|m| *m = TokB::new()).is_some()),
                P::Fat(a) => Some(Arc::get_mut(&mut *a).map(|m| if let Some(e) = m.slice.get_mut(0) { *e = Tok::new() }).is_some()),
                P::Prot(a) => Some(Arc::get_mut(&mut *a).map(|m| if let Some(e) = m.slice_mut().get_mut(0) { *e = Tok::new() }).is_some()),
                P::Erased(a) => Some(Arc::get_mut(&mut *a).map(|m| m.slice = Tok::new()).is_some()),
                P::Dyn(a) => Some(Arc::get_mut(&mut *a).is_some()),
                P::Slice(a) => Some(Arc::get_mut(&mut *a).map(|m| if let Some(e) = m.get_mut(0) { *e = Tok::new() }).is_some()),
                P::AH(a) => Some(Arc::get_mut(&mut *a).map(|m| if let Some(e) = m.slice.get_mut(0) { *e = Tok::new() }).is_some()),
                _ => None,
            }
        };
        match r {
            Some(true) => self.emit(S_OK, &[]),
            Some(false) => self.emit(S_DECLINED, &[]),
            None => self.emit_skip(),
        }
    }

    fn op_get_unique(&mut self, h: usize) {
        match self.resolve(h) {
            Some((P::Arc(a), m)) if m != Mode::Shared => unsafe {
                match Arc::get_unique(&mut *a) {
                    Some(u) => {
                        **u = Tok::new();
                        self.emit(S_OK, &[])
                    }
                    None => self.emit(S_DECLINED, &[]),
                }
            },
            _ => self.emit_skip(),
        }
    }

    fn op_try_unique(&mut self, h: usize, via_try_from: bool) {
        match self.resolve(h) {
            Some((P::Arc(_), Mode::Owned)) => {}
            _ => return self.emit_skip(),
        }
        let a = match self.take_owned(h) {
            Some(H::Arc(a)) => a,
            _ => unreachable!(),
        };
        let before = Arc::as_ptr(&a) as usize;
        let r = if via_try_from {
            use std::convert::TryFrom;
            UniqueArc::try_from(a)
        } else {
            Arc::try_unique(a)
        };
        match r {
            Ok(u) => {
                self.put(h, H::Uniq(u));
                self.emit(S_OK, &[])
            }
            Err(a) => {
                let same = Arc::as_ptr(&a) as usize == before;
                self.put(h, H::Arc(a));
                if same {
                    self.emit(S_DECLINED, &[])
                } else {
                    self.emit(S_DECLINED, &[777])
                }
            }
        }
    }

    fn op_try_unwrap(&mut self, h: usize) {
        match self.resolve(h) {
            Some((P::Arc(_), Mode::Owned)) => {}
            _ => return self.emit_skip(),
        }
        let a = match self.take_owned(h) {
            Some(H::Arc(a)) => a,
            _ => unreachable!(),
        };
        let before = Arc::as_ptr(&a) as usize;
        match Arc::try_unwrap(a) {
            Ok(t) => {
                let id = t.id();
                drop(t);
                self.emit(S_OK, &[id])
            }
            Err(a) => {
                let same = Arc::as_ptr(&a) as usize == before;
                self.put(h, H::Arc(a));
                if same {
                    self.emit(S_DECLINED, &[])
                } else {
                    self.emit(S_DECLINED, &[777])
                }
            }
        }
    }

    fn op_make_mut(&mut self, h: usize, pf: bool, unique_form: bool) {
        let (p, m) = match self.resolve(h) {
            Some(x) => x,
            None => return self.emit_skip(),
        };
        if m == Mode::Shared {
            return self.emit_skip();
        }
        match p {
            P::Arc(a) => unsafe {
                tok::set_clone_panic(pf);
                if unique_form {
                    let u = Arc::make_unique(&mut *a);
                    tok::set_clone_panic(false);
                    **u = Tok::new();
                } else {
                    let r = Arc::make_mut(&mut *a);
                    tok::set_clone_panic(false);
                    *r = Tok::new();
                }
            },
            P::Off(o) if !unique_form => unsafe {
                tok::set_clone_panic(pf);
                let r = (*o).make_mut();
                tok::set_clone_panic(false);
                *r = Tok::new();
            },
            _ => return self.emit_skip(),
        }
        self.register_new_block(p, 1);
        let b = self.block_of(p).map(|b| b as u64).unwrap_or(9999);
        self.emit(S_OK, &[b]);
    }

    fn op_unwrap_or_clone(&mut self, h: usize, pf: bool) {
        match self.resolve(h) {
            Some((P::Arc(_), Mode::Owned)) => {}
            _ => return self.emit_skip(),
        }
        let a = match self.take_owned(h) {
            Some(H::Arc(a)) => a,
            _ => unreachable!(),
        };
        tok::set_clone_panic(pf);
        let t = Arc::unwrap_or_clone(a);
        tok::set_clone_panic(false);
        let id = t.id();
        drop(t);
        self.emit(S_OK, &[id]);
    }

    fn op_into_inner(&mut self, h: usize) {
        match self.resolve(h) {
            Some((P::Uniq(_), Mode::Owned)) => {}
            _ => return self.emit_skip(),
        }
        let u = match self.take_owned(h) {
            Some(H::Uniq(u)) => u,
            _ => unreachable!(),
        };
        let t = UniqueArc::into_inner(u);
        let id = t.id();
        drop(t);
        self.emit(S_OK, &[id]);
    }

    fn mark_written(&mut self, p: P, i: usize) {
        if let Some(b) = self.block_of(p) {
            if let Some(w) = self.blocks[b].written.get_mut(i) {
                *w = true;
            }
        }
    }

    #[allow(deprecated)]
    fn op_deprecated_write(&mut self, h: usize, i: usize) {
        let (p, m) = match self.resolve(h) {
            Some(x) => x,
            None => return self.emit_skip(),
        };
        if m == Mode::Shared {
            return self.emit_skip();
        }
        match p {
            P::MA(a) => unsafe {
                (*a).write(Tok::new());
                self.mark_written(p, 0);
            },
            P::MAS(a) => unsafe {
                if let Some(e) = (*a).as_mut_slice().get_mut(i) {
                    e.write(Tok::new());
                    self.mark_written(p, i);
                }
            },
            _ => return self.emit_skip(),
        }
        self.emit(S_OK, &[]);
    }

    fn op_write_slot(&mut self, h: usize, i: usize) {
        let (p, m) = match self.resolve(h) {
            Some(x) => x,
            None => return self.emit_skip(),
        };
        if m == Mode::Shared {
            return self.emit_skip();
        }
        match p {
            P::MU(u) => unsafe {
                (*u).write(Tok::new());
                self.mark_written(p, 0);
            },
            P::MUS(u) => unsafe {
                if let Some(e) = (*u).get_mut(i) {
                    e.write(Tok::new());
                    self.mark_written(p, i);
                }
            },
            P::MUH(u) => unsafe {
                if let Some(e) = (*u).slice.get_mut(i) {
                    e.write(Tok::new());
                    self.mark_written(p, i);
                }
            },
            _ => return self.emit_skip(),
        }
        self.emit(S_OK, &[]);
    }

    fn op_uniq_mut(&mut self, h: usize, i: usize) {
        let (p, m) = match self.resolve(h) {
            Some(x) => x,
            None => return self.emit_skip(),
        };
        if m == Mode::Shared {
            return self.emit_skip();
        }
        match p {
            P::Uniq(u) => unsafe {
                **u = Tok::new();
            },
            P::US(u) => unsafe {
                if let Some(e) = (*u).get_mut(i) {
                    *e = Tok::new();
                }
            },
            P::UH(u) => unsafe {
                if let Some(e) = (*u).slice.get_mut(i) {
                    *e = Tok::new();
                }
            },
            _ => return self.emit_skip(),
        }
        self.emit(S_OK, &[]);
    }

    fn op_replace(&mut self, h: usize, h2: usize, assign: bool) {
        let a = match self.resolve(h) {
            Some((P::Prot(a), Mode::Mut)) => a,
            _ => return self.emit_skip(),
        };
        match self.resolve(h2) {
            Some((P::Thin(_), Mode::Owned)) if h2 != h => {}
            _ => return self.emit_skip(),
        }
        let t = match self.take_owned(h2) {
            Some(H::Thin(t)) => t,
            _ => unreachable!(),
        };
        let new = Arc::protected_from_thin(t);
        unsafe {
            if assign {
                *a = new;
            } else {
                let old = std::mem::replace(&mut *a, new);
                self.put(h2, H::Thin(Arc::protected_into_thin(old)));
            }
        }
        self.emit(S_OK, &[]);
    }

    fn op_union_acc(&mut self, h: usize) {
        match self.resolve(h) {
            Some((P::Un(u), _)) => unsafe {
                let v = [(*u).is_first() as u64, (*u).is_second() as u64, (*u).as_first().is_some() as u64, (*u).as_second().is_some() as u64];
                self.emit(S_OK, &v)
            },
            _ => self.emit_skip(),
        }
    }

    fn final_obs(&mut self) -> Vec<u64> {
        let mut owners = vec![0u64; self.blocks.len()];
        let mut stray = 0u64;
        for i in 0..self.table.len() {
            if let Some((q, _)) = self.resolve(i) {
                match self.block_of(q) {
                    Some(b) if b < owners.len() => owners[b] += 1,
                    _ => stray += 1,
                }
            }
        }
        let mut v = Vec::new();
        for (i, b) in self.blocks.iter().enumerate() {
            v.push(b.alive as u64);
            v.push(owners[i]);
        }
        if stray > 0 {
            v.push(12);
            v.push(stray);
        }
        v
    }

    /// release everything still held so that cases do not accumulate memory
    fn cleanup(&mut self) {
        for sp in std::mem::take(&mut self.table) {
            unsafe {
                let slot = Box::from_raw(sp);
                let _ = catch_unwind(AssertUnwindSafe(move || match *slot {
                    Some(H::Raw(r)) => drop(Arc::from_raw(r)),
                    Some(H::RawThin(r)) => drop(ThinArc::<Tok, Tok>::from_raw(r)),
                    Some(H::RawSlice(r)) => drop(Arc::from_raw_slice(r)),
                    other => drop(other),
                }));
            }
        }
    }
}

fn to_dyn(a: Arc<Tok>) -> Arc<dyn TokLike> {
    #[cfg(feature = "cfg_all")]
    {
        use unsize::{CoerceUnsize, Coercion};
        return a.unsize(Coercion!(to dyn TokLike));
    }
    #[cfg(not(feature = "cfg_all"))]
    unsafe {
        let r = Arc::into_raw(a);
        Arc::from_raw(r as *const dyn TokLike)
    }
}

#[cfg(feature = "cfg_all")]
fn swap_into_ptr_arc(a: Arc<Tok>) -> *const Tok {
    <Arc<Tok> as arc_swap::RefCnt>::into_ptr(a) as *const Tok
}
#[cfg(feature = "cfg_all")]
unsafe fn swap_from_ptr_arc(r: *const Tok) -> Arc<Tok> {
    <Arc<Tok> as arc_swap::RefCnt>::from_ptr(r)
}
#[cfg(feature = "cfg_all")]
fn swap_into_ptr_thin(t: ThinArc<Tok, Tok>) -> *const c_void {
    <ThinArc<Tok, Tok> as arc_swap::RefCnt>::into_ptr(t) as *const c_void
}
#[cfg(feature = "cfg_all")]
unsafe fn swap_from_ptr_thin(r: *const c_void) -> ThinArc<Tok, Tok> {
    <ThinArc<Tok, Tok> as arc_swap::RefCnt>::from_ptr(r)
}
#[cfg(not(feature = "cfg_all"))]
fn swap_into_ptr_arc(a: Arc<Tok>) -> *const Tok {
    Arc::into_raw(a)
}
#[cfg(not(feature = "cfg_all"))]
unsafe fn swap_from_ptr_arc(r: *const Tok) -> Arc<Tok> {
    Arc::from_raw(r)
}
#[cfg(not(feature = "cfg_all"))]
fn swap_into_ptr_thin(t: ThinArc<Tok, Tok>) -> *const c_void {
    ThinArc::into_raw(t)
}
#[cfg(not(feature = "cfg_all"))]
unsafe fn swap_from_ptr_thin(r: *const c_void) -> ThinArc<Tok, Tok> {
    ThinArc::from_raw(r)
}

pub fn run_case(ops: &[Vec<u64>]) -> Vec<Vec<u64>> {
    // a leading [100, d] only tells the model whether this build has debug assertions
    let ops = if ops.first().map_or(false, |o| o.len() == 2 && o[0] == 100) { &ops[1..] } else { ops };
    install_observer();
    tok::reset();
    talloc::drain();
    talloc::record(true);
    let mut it = Interp { ops, pos: 0, table: Vec::new(), views: Vec::new(), obs: Vec::new(), blocks: Vec::new(), pending: Vec::new() };
    it.run_seq(0);
    let fin = it.final_obs();
    let mut obs = std::mem::take(&mut it.obs);
    obs.push(fin);
    talloc::record(false);
    it.cleanup();
    talloc::drain();
    obs
}
