//! The size/alignment matrix of plain payload types.
pub trait Dy {
    fn sz(&self) -> usize;
    fn tag(&self) -> u8;
}

pub trait Shape: Copy + Dy + 'static {
    const SIZE: usize;
    const ALIGN: usize;
    fn make(i: u8) -> Self;
}

macro_rules! shape {
    ($name:ident, $size:expr, $align:expr) => {
        #[repr(C, align($align))]
        #[derive(Clone, Copy)]
        pub struct $name(pub [u8; $size]);
        impl Dy for $name {
            fn sz(&self) -> usize {
                $size
            }
            fn tag(&self) -> u8 {
                if $size > 0 {
                    self.0[$size - 1]
                } else {
                    0
                }
            }
        }
        impl Shape for $name {
            const SIZE: usize = $size;
            const ALIGN: usize = $align;
            fn make(i: u8) -> Self {
                $name([i; $size])
            }
        }
    };
}

shape!(S0A1, 0, 1);
shape!(S1A1, 1, 1);
shape!(S2A1, 2, 1);
shape!(S3A1, 3, 1);
shape!(S2A2, 2, 2);
shape!(S4A4, 4, 4);
shape!(S12A4, 12, 4);
shape!(S8A8, 8, 8);
shape!(S24A8, 24, 8);
shape!(S16A16, 16, 16);
shape!(S32A32, 32, 32);
shape!(S64A64, 64, 64);
shape!(S0A4, 0, 4);
shape!(S0A16, 0, 16);
shape!(S6A2, 6, 2);
shape!(S64A16, 64, 16);

/// (size, log2 align) of shape index i; must agree with the dispatch tables below.
pub const TABLE: [(usize, usize); 16] = [
    (0, 0), (1, 0), (2, 0), (3, 0), (2, 1), (4, 2), (12, 2), (8, 3), (24, 3), (16, 4), (32, 5), (64, 6), (0, 2), (0, 4), (6, 1), (64, 4),
];

pub trait Visitor1 {
    type Out;
    fn visit<A: Shape>(self) -> Self::Out;
}

pub fn dispatch1<V: Visitor1>(idx: usize, v: V) -> Option<V::Out> {
    Some(match idx {
        0 => v.visit::<S0A1>(),
        1 => v.visit::<S1A1>(),
        2 => v.visit::<S2A1>(),
        3 => v.visit::<S3A1>(),
        4 => v.visit::<S2A2>(),
        5 => v.visit::<S4A4>(),
        6 => v.visit::<S12A4>(),
        7 => v.visit::<S8A8>(),
        8 => v.visit::<S24A8>(),
        9 => v.visit::<S16A16>(),
        10 => v.visit::<S32A32>(),
        11 => v.visit::<S64A64>(),
        12 => v.visit::<S0A4>(),
        13 => v.visit::<S0A16>(),
        14 => v.visit::<S6A2>(),
        15 => v.visit::<S64A16>(),
        _ => return None,
    })
}

/// Header types are drawn from a smaller set (to bound monomorphisation).
pub const HTABLE: [usize; 8] = [0, 1, 3, 5, 7, 9, 10, 13];

pub fn dispatch_h<V: Visitor1>(hidx: usize, v: V) -> Option<V::Out> {
    Some(match hidx {
        0 => v.visit::<S0A1>(),
        1 => v.visit::<S1A1>(),
        3 => v.visit::<S3A1>(),
        5 => v.visit::<S4A4>(),
        7 => v.visit::<S8A8>(),
        9 => v.visit::<S16A16>(),
        10 => v.visit::<S32A32>(),
        13 => v.visit::<S0A16>(),
        _ => return None,
    })
}
