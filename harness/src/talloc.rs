//! Tracking global allocator + global event log (allocation events and payload events share one
//! log so that their relative order is observable).
use std::alloc::{GlobalAlloc, Layout, System};
use std::sync::atomic::{AtomicBool, AtomicIsize, AtomicUsize, Ordering::SeqCst};

#[derive(Clone, Copy, Debug, PartialEq, Eq)]
pub enum Ev {
    Alloc { ptr: usize, size: usize, align: usize },
    Dealloc { ptr: usize, size: usize, align: usize },
    /// dealloc whose layout differs from the layout the block was allocated with
    BadDealloc { ptr: usize, size: usize, align: usize, asize: usize, aalign: usize },
    /// dealloc of a pointer that is not a live allocation
    UnknownDealloc { ptr: usize },
    /// the red zone behind a block was written to
    Overrun { ptr: usize, size: usize },
    /// allocation refused by fault injection
    AllocFail { size: usize, align: usize },
    Dtor { id: u64 },
    /// destructor ran on something that is not a live token (double drop / garbage)
    BadDtor { id: u64, magic: u64 },
    CloneCall { id: u64, new_id: u64 },
    /// payload read found a dead or garbage token
    BadRead { id: u64, magic: u64 },
    Atomic { addr: usize, op: u8, ord: u8, old: usize, new: usize },
    None,
}

const CAP: usize = 1 << 16;
static mut EVENTS: [Ev; CAP] = [Ev::None; CAP];
static NEV: AtomicUsize = AtomicUsize::new(0);
static OVERFLOW: AtomicBool = AtomicBool::new(false);
static RECORD: AtomicBool = AtomicBool::new(false);
/// >0: the k-th allocation from now (while recording) fails; 0: disabled
static FAIL_AT: AtomicIsize = AtomicIsize::new(0);
/// allocations larger than this are refused (returns null) without asking the system
pub const HUGE: usize = 1 << 36;

// live table: open addressing, ptr -> (size, align)
const LCAP: usize = 1 << 18;
static mut LIVE_PTR: [usize; LCAP] = [0; LCAP];
static mut LIVE_SIZE: [usize; LCAP] = [0; LCAP];
static mut LIVE_ALIGN: [usize; LCAP] = [0; LCAP];
const TOMB: usize = 1;

#[inline]
fn hash(p: usize) -> usize {
    (p >> 3).wrapping_mul(0x9E3779B97F4A7C15) >> (64 - 18)
}

/// the live table is shared by the threads of the schedule stream (serialised, except while a thread starts or ends)
static TABLE_LOCK: AtomicBool = AtomicBool::new(false);
struct TableGuard;
fn lock_table() -> TableGuard {
    while TABLE_LOCK.compare_exchange_weak(false, true, SeqCst, SeqCst).is_err() {
        std::hint::spin_loop();
    }
    TableGuard
}
impl Drop for TableGuard {
    fn drop(&mut self) {
        TABLE_LOCK.store(false, SeqCst);
    }
}

unsafe fn live_insert(p: usize, size: usize, align: usize) {
    let _g = lock_table();
    let mut i = hash(p);
    loop {
        let q = LIVE_PTR[i];
        if q == 0 || q == TOMB {
            LIVE_PTR[i] = p;
            LIVE_SIZE[i] = size;
            LIVE_ALIGN[i] = align;
            return;
        }
        i = (i + 1) & (LCAP - 1);
    }
}

unsafe fn live_remove(p: usize) -> Option<(usize, usize)> {
    let _g = lock_table();
    let mut i = hash(p);
    let mut n = 0;
    loop {
        let q = LIVE_PTR[i];
        if q == 0 || n > LCAP {
            return None;
        }
        if q == p {
            LIVE_PTR[i] = TOMB;
            return Some((LIVE_SIZE[i], LIVE_ALIGN[i]));
        }
        i = (i + 1) & (LCAP - 1);
        n += 1;
    }
}

pub fn live_lookup(p: usize) -> Option<(usize, usize)> {
    let _g = lock_table();
    unsafe {
        let mut i = hash(p);
        let mut n = 0;
        loop {
            let q = LIVE_PTR[i];
            if q == 0 || n > LCAP {
                return None;
            }
            if q == p {
                return Some((LIVE_SIZE[i], LIVE_ALIGN[i]));
            }
            i = (i + 1) & (LCAP - 1);
            n += 1;
        }
    }
}

pub fn push(ev: Ev) {
    if !RECORD.load(SeqCst) {
        return;
    }
    let i = NEV.fetch_add(1, SeqCst);
    if i < CAP {
        unsafe {
            EVENTS[i] = ev;
        }
    } else {
        OVERFLOW.store(true, SeqCst);
    }
}

/// always recorded (oracle-relevant) even if RECORD is off
pub fn push_always(ev: Ev) {
    let i = NEV.fetch_add(1, SeqCst);
    if i < CAP {
        unsafe {
            EVENTS[i] = ev;
        }
    } else {
        OVERFLOW.store(true, SeqCst);
    }
}

pub fn record(on: bool) {
    RECORD.store(on, SeqCst);
}

pub fn fail_at(k: isize) {
    FAIL_AT.store(k, SeqCst);
}

/// Take all events logged so far.
pub fn drain() -> Vec<Ev> {
    let was = RECORD.swap(false, SeqCst);
    let n = NEV.load(SeqCst).min(CAP);
    let mut v = Vec::with_capacity(n);
    for i in 0..n {
        v.push(unsafe { EVENTS[i] });
    }
    NEV.store(0, SeqCst);
    RECORD.store(was, SeqCst);
    v
}

pub fn overflowed() -> bool {
    OVERFLOW.load(SeqCst)
}

/// bytes of red zone behind every block
pub const RED: usize = 32;
unsafe fn redzone_intact(p: *mut u8, size: usize) -> bool {
    (0..RED).all(|i| *p.add(size + i) == 0xCB)
}
/// look at the red zone of every block that is still live (leaked blocks are never released): how many were overrun.
/// The red zones found damaged are repaired so that one overrun is reported once.
pub fn check_redzones() -> u64 {
    let mut n = 0;
    unsafe {
        for i in 0..LCAP {
            let q = LIVE_PTR[i];
            if q != 0 && q != TOMB {
                let p = q as *mut u8;
                if !redzone_intact(p, LIVE_SIZE[i]) {
                    n += 1;
                    std::ptr::write_bytes(p.add(LIVE_SIZE[i]), 0xCB, RED);
                }
            }
        }
    }
    n
}

pub struct Tracking;

unsafe impl GlobalAlloc for Tracking {
    unsafe fn alloc(&self, l: Layout) -> *mut u8 {
        if RECORD.load(SeqCst) {
            let k = FAIL_AT.load(SeqCst);
            if k > 0 {
                FAIL_AT.store(k - 1, SeqCst);
                if k == 1 {
                    push(Ev::AllocFail { size: l.size(), align: l.align() });
                    return std::ptr::null_mut();
                }
            }
        }
        if l.size() > HUGE {
            push(Ev::AllocFail { size: l.size(), align: l.align() });
            return std::ptr::null_mut();
        }
        // every block is followed by a red zone: a write past the end of what was requested is seen at release, or at
        // the end of the case for blocks that are leaked (`check_redzones`)
        let p = System.alloc(Layout::from_size_align_unchecked(l.size() + RED, l.align()));
        if !p.is_null() {
            // fill with a recognisable pattern so that reads of uninitialised payload are visible
            std::ptr::write_bytes(p, 0xA5, l.size());
            std::ptr::write_bytes(p.add(l.size()), 0xCB, RED);
            live_insert(p as usize, l.size(), l.align());
            push(Ev::Alloc { ptr: p as usize, size: l.size(), align: l.align() });
        }
        p
    }

    unsafe fn dealloc(&self, p: *mut u8, l: Layout) {
        match live_remove(p as usize) {
            Some((s, a)) => {
                if !redzone_intact(p, s) {
                    push_always(Ev::Overrun { ptr: p as usize, size: s });
                }
                if s != l.size() || a != l.align() {
                    push_always(Ev::BadDealloc { ptr: p as usize, size: l.size(), align: l.align(), asize: s, aalign: a });
                    // release with the layout it was allocated with so that the process survives
                    std::ptr::write_bytes(p, 0xDD, s);
                    System.dealloc(p, Layout::from_size_align_unchecked(s + RED, a));
                    return;
                }
                push(Ev::Dealloc { ptr: p as usize, size: s, align: a });
                std::ptr::write_bytes(p, 0xDD, s);
                System.dealloc(p, Layout::from_size_align_unchecked(s + RED, a));
            }
            None => {
                push_always(Ev::UnknownDealloc { ptr: p as usize });
                // do not hand an unknown pointer to the system allocator
            }
        }
    }
}
