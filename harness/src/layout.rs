//! `layout` stream: constructors x payload shapes x release paths, observing the (size, align)
//! the allocator sees at alloc and dealloc, and the addresses handed to the user.
use crate::shapes::*;
use crate::talloc::{self, Ev};
use std::mem::MaybeUninit;
use std::panic::{catch_unwind, AssertUnwindSafe};
use triomphe::{Arc, ArcUnion, HeaderSlice, OffsetArc, ThinArc, UniqueArc};

pub const ST_OK: u64 = 0;
pub const ST_PANIC: u64 = 1;
pub const ST_NA: u64 = 2;
pub const ST_ODD: u64 = 3;

enum Held<H: Shape, T: Shape> {
    Sized(Arc<T>),
    USized(UniqueArc<T>),
    HS(Arc<HeaderSlice<H, [T]>>),
    Thin(ThinArc<H, T>),
    SizedUninit(UniqueArc<MaybeUninit<T>>),
    ASizedUninit(Arc<MaybeUninit<T>>),
    HSUninit(UniqueArc<HeaderSlice<H, [MaybeUninit<T>]>>),
    Slice(Arc<[T]>),
    SliceUninit(UniqueArc<[MaybeUninit<T>]>),
    HStr(Arc<HeaderSlice<H, str>>),
    Str(Arc<str>),
}

struct FakeIter<T: Shape> {
    left: usize,
    _p: std::marker::PhantomData<T>,
}
impl<T: Shape> Iterator for FakeIter<T> {
    type Item = T;
    fn next(&mut self) -> Option<T> {
        if self.left == 0 {
            None
        } else {
            self.left -= 1;
            Some(T::make(self.left as u8))
        }
    }
    fn size_hint(&self) -> (usize, Option<usize>) {
        (self.left, Some(self.left))
    }
}
impl<T: Shape> ExactSizeIterator for FakeIter<T> {}

fn items<T: Shape>(len: usize) -> Vec<T> {
    (0..len).map(|i| T::make(i as u8)).collect()
}

fn construct<H: Shape, T: Shape>(ctor: u64, len: usize) -> Option<Held<H, T>> {
    let small = len <= 4096;
    Some(match ctor {
        0 => Held::Sized(Arc::new(T::make(7))),
        1 if small => Held::HS(Arc::from_header_and_iter(H::make(9), FakeIter::<T> { left: len, _p: Default::default() })),
        2 if small => {
            let v = items::<T>(len);
            Held::HS(Arc::from_header_and_slice(H::make(9), &v))
        }
        3 if small => Held::HS(Arc::from_header_and_vec(H::make(9), items::<T>(len))),
        4 if small => Held::Thin(ThinArc::from_header_and_iter(H::make(9), FakeIter::<T> { left: len, _p: Default::default() })),
        5 if small => {
            let v = items::<T>(len);
            Held::Thin(ThinArc::from_header_and_slice(H::make(9), &v))
        }
        6 => Held::SizedUninit(UniqueArc::<T>::new_uninit()),
        7 => Held::HSUninit(UniqueArc::from_header_and_uninit_slice(H::make(9), len)),
        8 => Held::Sized(Arc::from(Box::new(T::make(7)))),
        9 if small => Held::Slice(Arc::<[T]>::from(items::<T>(len))),
        10 if small => {
            let v = items::<T>(len);
            Held::Slice(Arc::<[T]>::from(&v[..]))
        }
        11 if small => Held::Slice(FakeIter::<T> { left: len, _p: Default::default() }.collect::<Arc<[T]>>()),
        12 if small => Held::Slice(FakeIter::<T> { left: len, _p: Default::default() }.filter(|_| true).collect::<Arc<[T]>>()),
        13 => Held::SliceUninit(UniqueArc::<[MaybeUninit<T>]>::new_uninit_slice(len)),
        14 if small => {
            let s: String = (0..len).map(|i| (b'a' + (i % 26) as u8) as char).collect();
            Held::HStr(Arc::from_header_and_str(H::make(9), &s))
        }
        15 if small => {
            let s: String = (0..len).map(|i| (b'a' + (i % 26) as u8) as char).collect();
            Held::Str(Arc::<str>::from(&s[..]))
        }
        16 => Held::USized(UniqueArc::new(T::make(7))),
        17 => Held::ASizedUninit(Arc::<MaybeUninit<T>>::new_uninit()),
        _ => return None,
    })
}

#[derive(Default, Debug)]
struct Addrs {
    data: usize,
    hdr: usize,
    len: usize,
    slice: usize,
    as_ptr: usize,
    heap_ptr: usize,
    data_align: usize,
    has_len: bool,
    hdr_align: usize,
    slice_align: usize,
    has_hdr: bool,
}

fn addrs<H: Shape, T: Shape>(h: &Held<H, T>) -> Addrs {
    let ha = H::ALIGN;
    let ta = T::ALIGN;
    let mx = |a: usize, b: usize| if a > b { a } else { b };
    match h {
        Held::Sized(a) => {
            let d = &**a as *const T as usize;
            Addrs { data: d, hdr: d, len: 0, slice: d, as_ptr: Arc::as_ptr(a) as usize, heap_ptr: a.heap_ptr() as usize, data_align: ta, has_len: false, hdr_align: 1, slice_align: ta, has_hdr: false }
        }
        Held::USized(a) => {
            let d = &**a as *const T as usize;
            Addrs { data: d, hdr: d, len: 0, slice: d, as_ptr: d, heap_ptr: 0, data_align: ta, has_len: false, hdr_align: 1, slice_align: ta, has_hdr: false }
        }
        Held::HS(a) => {
            let d = &**a as *const HeaderSlice<H, [T]> as *const u8 as usize;
            Addrs {
                data: d,
                hdr: &a.header as *const H as usize,
                len: 0,
                slice: a.slice.as_ptr() as usize,
                as_ptr: Arc::as_ptr(a) as *const u8 as usize,
                heap_ptr: a.heap_ptr() as usize,
                data_align: mx(ha, ta),
                has_len: false, hdr_align: ha, slice_align: ta, has_hdr: true }
        }
        Held::Thin(a) => {
            let d = &**a as *const _ as *const u8 as usize;
            Addrs {
                data: d,
                hdr: &a.header.header as *const H as usize,
                len: &a.header.length as *const usize as usize,
                slice: a.slice.as_ptr() as usize,
                as_ptr: a.as_ptr() as usize,
                heap_ptr: a.heap_ptr() as usize,
                data_align: mx(mx(ha, 8), ta),
                has_len: true, hdr_align: ha, slice_align: ta, has_hdr: true }
        }
        Held::SizedUninit(a) => {
            let d = &**a as *const MaybeUninit<T> as usize;
            Addrs { data: d, hdr: d, len: 0, slice: d, as_ptr: d, heap_ptr: 0, data_align: ta, has_len: false, hdr_align: 1, slice_align: ta, has_hdr: false }
        }
        Held::ASizedUninit(a) => {
            let d = &**a as *const MaybeUninit<T> as usize;
            Addrs { data: d, hdr: d, len: 0, slice: d, as_ptr: Arc::as_ptr(a) as usize, heap_ptr: a.heap_ptr() as usize, data_align: ta, has_len: false, hdr_align: 1, slice_align: ta, has_hdr: false }
        }
        Held::HSUninit(a) => {
            let d = &**a as *const _ as *const u8 as usize;
            Addrs { data: d, hdr: &a.header as *const H as usize, len: 0, slice: a.slice.as_ptr() as usize, as_ptr: d, heap_ptr: 0, data_align: mx(ha, ta), has_len: false, hdr_align: ha, slice_align: ta, has_hdr: true }
        }
        Held::Slice(a) => {
            let d = (**a).as_ptr() as usize;
            Addrs { data: d, hdr: d, len: 0, slice: d, as_ptr: Arc::as_ptr(a) as *const T as usize, heap_ptr: a.heap_ptr() as usize, data_align: ta, has_len: false, hdr_align: 1, slice_align: ta, has_hdr: false }
        }
        Held::SliceUninit(a) => {
            let d = (**a).as_ptr() as usize;
            Addrs { data: d, hdr: d, len: 0, slice: d, as_ptr: d, heap_ptr: 0, data_align: ta, has_len: false, hdr_align: 1, slice_align: ta, has_hdr: false }
        }
        Held::HStr(a) => {
            let d = &**a as *const _ as *const u8 as usize;
            Addrs { data: d, hdr: &a.header as *const H as usize, len: 0, slice: a.slice.as_ptr() as usize, as_ptr: Arc::as_ptr(a) as *const u8 as usize, heap_ptr: a.heap_ptr() as usize, data_align: ha, has_len: false, hdr_align: ha, slice_align: 1, has_hdr: true }
        }
        Held::Str(a) => {
            let d = (**a).as_ptr() as usize;
            Addrs { data: d, hdr: d, len: 0, slice: d, as_ptr: Arc::as_ptr(a) as *const u8 as usize, heap_ptr: a.heap_ptr() as usize, data_align: 1, has_len: false, hdr_align: 1, slice_align: 1, has_hdr: false }
        }
    }
}

/// Release the handle along path `rel`. Returns false when the path does not apply to this class.
fn release<H: Shape, T: Shape>(h: Held<H, T>, rel: u64) -> bool {
    match (h, rel) {
        (h, 0) => drop(h),
        (Held::Sized(a), 1) => {
            let b = a.clone();
            drop(a);
            drop(b);
        }
        (Held::HS(a), 1) => {
            let b = a.clone();
            drop(a);
            drop(b);
        }
        (Held::Thin(a), 1) => {
            let b = a.clone();
            drop(a);
            drop(b);
        }
        (Held::Slice(a), 1) => {
            let b = a.clone();
            drop(a);
            drop(b);
        }
        (Held::Str(a), 1) => {
            let b = a.clone();
            drop(a);
            drop(b);
        }
        (Held::HStr(a), 1) => {
            let b = a.clone();
            drop(a);
            drop(b);
        }
        (Held::Sized(a), 2) => unsafe { drop(Arc::from_raw(Arc::into_raw(a))) },
        (Held::HS(a), 2) => unsafe { drop(Arc::from_raw(Arc::into_raw(a))) },
        (Held::Slice(a), 2) => unsafe { drop(Arc::from_raw_slice(Arc::into_raw(a))) },
        (Held::Str(a), 2) => unsafe { drop(Arc::from_raw(Arc::into_raw(a))) },
        (Held::HStr(a), 2) => unsafe { drop(Arc::from_raw(Arc::into_raw(a))) },
        (Held::Thin(a), 2) => unsafe { drop(ThinArc::<H, T>::from_raw(ThinArc::into_raw(a))) },
        (Held::Sized(a), 3) => {
            let o: OffsetArc<T> = Arc::into_raw_offset(a);
            drop(o);
        }
        (Held::Sized(a), 4) => drop(ArcUnion::<T, S8A8>::from_first(a)),
        (Held::Sized(a), 5) => drop(ArcUnion::<S8A8, T>::from_second(a)),
        (Held::Sized(a), 6) => {
            let b: Arc<HeaderSlice<(), T>> = a.into();
            drop(b);
        }
        (Held::Slice(a), 6) => {
            let b: Arc<HeaderSlice<(), [T]>> = a.into();
            drop(b);
        }
        (Held::Str(a), 6) => {
            let b: Arc<HeaderSlice<(), str>> = a.into();
            drop(b);
        }
        (Held::Sized(a), 7) => {
            let v = Arc::try_unwrap(a);
            assert!(v.is_ok());
        }
        (Held::USized(a), 7) => {
            let _v = UniqueArc::into_inner(a);
        }
        (Held::Sized(a), 8) => unsafe {
            let d: Arc<dyn Dy> = Arc::from_raw(Arc::into_raw(a) as *const dyn Dy);
            drop(d);
        },
        (Held::SizedUninit(mut a), 9) => unsafe {
            a.write(T::make(3));
            drop(UniqueArc::assume_init(a));
        },
        (Held::ASizedUninit(a), 9) => unsafe {
            drop(a.assume_init());
        },
        (Held::HSUninit(a), 9) => unsafe {
            drop(a.assume_init_slice_with_header());
        },
        (Held::SliceUninit(a), 9) => unsafe {
            drop(UniqueArc::assume_init_slice(a));
        },
        (Held::Thin(a), 10) => drop(Arc::from_thin(a)),
        (Held::Thin(a), 11) => drop(Arc::into_thin(Arc::from_thin(a))),
        (Held::SizedUninit(a), 12) => drop(a.shareable()),
        (Held::HSUninit(a), 12) => drop(a.shareable()),
        (Held::SliceUninit(a), 12) => drop(a.shareable()),
        (Held::USized(a), 12) => drop(a.shareable()),
        (Held::Sized(a), 13) => {
            let o: OffsetArc<T> = Arc::into_raw_offset(a);
            let c = o.clone();
            drop(o);
            drop(c);
        }
        (Held::Thin(a), 14) => {
            let c = a.with_arc(|x| x.clone());
            drop(a);
            drop(c);
        }
        (Held::Sized(a), 15) => {
            let u = Arc::try_unique(a);
            match u {
                Ok(u) => {
                    let _v = UniqueArc::into_inner(u);
                }
                Err(_) => panic!("not unique"),
            }
        }
        (h, _) => {
            std::mem::forget(h);
            return false;
        }
    }
    true
}

pub fn rel_applies(class: u64, rel: u64) -> bool {
    // class: 0 Sized 1 USized 2 HS 3 Thin 4 SizedUninit 5 ASizedUninit 6 HSUninit 7 Slice 8 SliceUninit 9 HStr 10 Str
    match (class, rel) {
        (_, 0) => true,
        (0, 1) | (2, 1) | (3, 1) | (7, 1) | (10, 1) | (9, 1) => true,
        (0, 2) | (2, 2) | (7, 2) | (10, 2) | (9, 2) | (3, 2) => true,
        (0, 3) | (0, 4) | (0, 5) | (0, 6) | (7, 6) | (10, 6) => true,
        (0, 7) | (1, 7) | (0, 8) => true,
        (4, 9) | (5, 9) | (6, 9) | (8, 9) => true,
        (3, 10) | (3, 11) => true,
        (4, 12) | (6, 12) | (8, 12) | (1, 12) => true,
        (0, 13) | (3, 14) | (0, 15) => true,
        _ => false,
    }
}

fn run<H: Shape, T: Shape>(len: usize, ctor: u64, rel: u64) -> Vec<u64> {
    let _ = talloc::drain();
    talloc::record(true);
    let r = catch_unwind(AssertUnwindSafe(|| construct::<H, T>(ctor, len)));
    talloc::record(false);
    let evs = talloc::drain();
    let mut out = vec![0u64; 12];
    let held = match r {
        Err(_) => {
            out[0] = ST_PANIC;
            return out;
        }
        Ok(None) => {
            out[0] = ST_NA;
            return out;
        }
        Ok(Some(h)) => h,
    };
    // the Arc block: the allocation made during construction that is still live
    let mut live: Vec<(usize, usize, usize)> = Vec::new();
    for e in &evs {
        match *e {
            Ev::Alloc { ptr, size, align } => live.push((ptr, size, align)),
            Ev::Dealloc { ptr, .. } => live.retain(|x| x.0 != ptr),
            _ => {}
        }
    }
    if live.len() != 1 {
        out[0] = ST_ODD;
        out[1] = live.len() as u64;
        std::mem::forget(held);
        return out;
    }
    let (block, asize, aalign) = live[0];
    out[1] = asize as u64;
    out[2] = aalign as u64;
    if len > 4096 {
        // a request this long must have been refused; do not touch the handle any further
        std::mem::forget(held);
        return out;
    }
    let a = addrs(&held);
    out[5] = (a.data - block) as u64;
    out[6] = (a.hdr - block) as u64;
    out[7] = if a.has_len { (a.len - block) as u64 } else { 0 };
    out[8] = (a.slice - block) as u64;
    out[9] = (a.as_ptr.wrapping_sub(block)) as u64;
    out[10] = if a.heap_ptr == 0 { 0 } else { a.heap_ptr.wrapping_sub(block) as u64 };
    let ok = a.data % a.data_align == 0 && a.hdr % a.hdr_align == 0 && a.slice % a.slice_align == 0 && block % aalign == 0 && (!a.has_len || a.len % 8 == 0);
    // the header the handle shows is the one the constructor was given (H::make(9): every byte is 9)
    let hdr_ok = !a.has_hdr || unsafe { std::slice::from_raw_parts(a.hdr as *const u8, H::SIZE) }.iter().all(|b| *b == 9);
    out[11] = if !ok { 0 } else if !hdr_ok { 2 } else { 1 };
    // release
    talloc::record(true);
    let r2 = catch_unwind(AssertUnwindSafe(|| release(held, rel)));
    talloc::record(false);
    let evs2 = talloc::drain();
    match r2 {
        Err(_) => {
            out[0] = ST_PANIC;
            return out;
        }
        Ok(false) => {
            out[0] = ST_NA;
            // the handle was forgotten: free nothing
            return out;
        }
        Ok(true) => {}
    }
    for e in &evs2 {
        match *e {
            Ev::Dealloc { ptr, size, align } if ptr == block => {
                out[3] = size as u64;
                out[4] = align as u64;
            }
            Ev::BadDealloc { ptr, size, align, .. } if ptr == block => {
                out[3] = size as u64;
                out[4] = align as u64;
            }
            // something was written past the end of the block: it was too short for its contents
            Ev::Overrun { ptr, .. } if ptr == block => out[0] = 5,
            _ => {}
        }
    }
    out
}

struct HV {
    tidx: usize,
    len: usize,
    ctor: u64,
    rel: u64,
}
struct TV<H: Shape> {
    len: usize,
    ctor: u64,
    rel: u64,
    _p: std::marker::PhantomData<H>,
}
impl Visitor1 for HV {
    type Out = Option<Vec<u64>>;
    fn visit<H: Shape>(self) -> Self::Out {
        dispatch1(self.tidx, TV::<H> { len: self.len, ctor: self.ctor, rel: self.rel, _p: Default::default() })
    }
}
impl<H: Shape> Visitor1 for TV<H> {
    type Out = Vec<u64>;
    fn visit<T: Shape>(self) -> Self::Out {
        run::<H, T>(self.len, self.ctor, self.rel)
    }
}

/// one case = one op `[hidx, tidx, len, ctor, rel]`
pub fn run_case(ops: &[Vec<u64>]) -> Vec<Vec<u64>> {
    let mut outs = Vec::new();
    for op in ops {
        if op.len() != 5 {
            outs.push(vec![99]);
            continue;
        }
        let r = dispatch_h(op[0] as usize, HV { tidx: op[1] as usize, len: op[2] as usize, ctor: op[3], rel: op[4] });
        match r {
            Some(Some(v)) => outs.push(v),
            _ => outs.push(vec![98]),
        }
    }
    outs
}
