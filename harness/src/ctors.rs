//! `ctor` stream (C06, C07): constructors fed by scripted iterators (per-call `len()` / `size_hint()` answers,
//! a panic at the k-th `next()`), vectors with spare capacity, boxes, slices and strings.
//! case: `[ctor, nitems, panic_at, extra, nl, len1..lennl, nh, lo1, hi1, ..]` (hi = 0: None, else Some(hi-1)).
//! observation: `[status, hdr, reclen, ncells, cells.., SEP, dropped during construction.., SEP, live allocations
//! left by the call (besides the block), SEP, drops when the result is released..]`
use crate::talloc::{self, Ev};
use crate::tok::{self, Tok};
use std::cell::Cell;
use std::collections::VecDeque;
use std::panic::{catch_unwind, AssertUnwindSafe};
use triomphe::{Arc, HeaderSlice, HeaderWithLength, ThinArc, UniqueArc};

const SEP: u64 = 99999999;

struct ScriptIter {
    lens: Vec<usize>,
    hints: Vec<(usize, Option<usize>)>,
    items: VecDeque<Tok>,
    len_calls: Cell<usize>,
    hint_calls: Cell<usize>,
    next_calls: usize,
    panic_at: usize,
}
impl ScriptIter {
    fn pick<T: Copy>(v: &[T], k: usize) -> Option<T> {
        if v.is_empty() {
            None
        } else {
            Some(v[k.min(v.len() - 1)])
        }
    }
}
impl Iterator for ScriptIter {
    type Item = Tok;
    fn next(&mut self) -> Option<Tok> {
        self.next_calls += 1;
        if self.next_calls == self.panic_at {
            panic!("scripted panic in next()");
        }
        self.items.pop_front()
    }
    fn size_hint(&self) -> (usize, Option<usize>) {
        let k = self.hint_calls.get();
        self.hint_calls.set(k + 1);
        ScriptIter::pick(&self.hints, k).unwrap_or((self.items.len(), Some(self.items.len())))
    }
}
impl ExactSizeIterator for ScriptIter {
    fn len(&self) -> usize {
        let k = self.len_calls.get();
        self.len_calls.set(k + 1);
        ScriptIter::pick(&self.lens, k).unwrap_or(self.items.len())
    }
}

enum Built {
    HS(Arc<HeaderSlice<Tok, [Tok]>>),
    Thin(ThinArc<Tok, Tok>),
    Slice(Arc<[Tok]>),
    USlice(UniqueArc<[Tok]>),
    One(Arc<Tok>),
    UOne(UniqueArc<Tok>),
    Plain(Vec<u64>),
}

fn describe(b: &Built) -> Vec<u64> {
    let sl = |h: u64, rec: u64, s: &[Tok]| {
        let mut v = vec![0, h, rec, s.len() as u64];
        v.extend(s.iter().map(|t| t.id()));
        v
    };
    match b {
        Built::HS(a) => sl(a.header.id(), 0, &a.slice),
        Built::Thin(a) => sl(a.header.header.id(), a.header.length as u64, &a.slice),
        Built::Slice(a) => sl(999, 0, &a[..]),
        Built::USlice(a) => sl(999, 0, &a[..]),
        Built::One(a) => vec![0, 999, 0, 1, a.id()],
        Built::UOne(a) => vec![0, 999, 0, 1, a.id()],
        Built::Plain(v) => {
            let mut o = vec![0, 999, 0, v.len() as u64];
            o.extend(v.iter());
            o
        }
    }
}

fn dtors(evs: &[Ev]) -> Vec<u64> {
    let mut v = Vec::new();
    for e in evs {
        match *e {
            Ev::Dtor { id } => v.push(id),
            Ev::BadDtor { id, .. } => {
                v.push(777777);
                v.push(id & 0xffff)
            }
            Ev::BadRead { id, .. } => {
                v.push(888888);
                v.push(id & 0xffff)
            }
            Ev::BadDealloc { .. } | Ev::UnknownDealloc { .. } => v.push(666666),
            Ev::Overrun { .. } => v.push(555555),
            _ => {}
        }
    }
    v
}
/// allocations made while recording that are still live at the end of the recording
fn live_delta(evs: &[Ev]) -> i64 {
    let mut live: Vec<usize> = Vec::new();
    for e in evs {
        match *e {
            Ev::Alloc { ptr, .. } => live.push(ptr),
            Ev::Dealloc { ptr, .. } | Ev::BadDealloc { ptr, .. } => live.retain(|p| *p != ptr),
            _ => {}
        }
    }
    live.len() as i64
}

fn run1(op: &[u64]) -> Vec<u64> {
    if op.len() == 3 && op[0] >= 20 && op[0] < 80 {
        return crate::dpanic::run1(op[0] - 20, op[1] as usize, op[2]);
    }
    if op.len() < 6 {
        return vec![99];
    }
    let (ctor, n, panic_at, extra) = (op[0], op[1] as usize, op[2] as usize, op[3] as usize);
    let nl = op[4] as usize;
    if n > 64 || extra > 64 || op.len() < 5 + nl + 1 {
        return vec![99];
    }
    let lens: Vec<usize> = op[5..5 + nl].iter().map(|x| *x as usize).collect();
    let nh = op[5 + nl] as usize;
    if op.len() != 6 + nl + 2 * nh || lens.iter().any(|l| *l > 64) {
        return vec![99];
    }
    let mut hints = Vec::new();
    for i in 0..nh {
        let lo = op[6 + nl + 2 * i] as usize;
        let hi = op[6 + nl + 2 * i + 1];
        if lo > 64 || hi > 65 {
            return vec![99];
        }
        hints.push((lo, if hi == 0 { None } else { Some(hi as usize - 1) }));
    }
    tok::reset();
    let _ = talloc::drain();
    // inputs are built before recording starts
    let header = Tok::new();
    let items: VecDeque<Tok> = (0..n).map(|_| Tok::new()).collect();
    let mk_iter = |items: VecDeque<Tok>| ScriptIter { lens: lens.clone(), hints: hints.clone(), items, len_calls: Cell::new(0), hint_calls: Cell::new(0), next_calls: 0, panic_at };
    // plain (Copy) contents: the numbers 100.. ; strings over 'a'..
    let nums: Vec<u32> = (0..n as u32).map(|i| 100 + i).collect();
    let s_in: String = (0..n).map(|i| (b'a' + (i % 26) as u8) as char).collect();
    let s_owned = s_in.clone();
    talloc::record(true);
    let r: Result<Option<Built>, _> = catch_unwind(AssertUnwindSafe(|| {
        Some(match ctor {
            0 => Built::HS(Arc::from_header_and_iter(header, mk_iter(items))),
            1 => Built::Thin(ThinArc::from_header_and_iter(header, mk_iter(items))),
            2 => {
                drop(header);
                Built::Slice(mk_iter(items).collect::<Arc<[Tok]>>())
            }
            3 => {
                drop(header);
                Built::USlice(mk_iter(items).collect::<UniqueArc<[Tok]>>())
            }
            4 => {
                let mut v: Vec<Tok> = Vec::with_capacity(n + extra);
                v.extend(items);
                Built::HS(Arc::from_header_and_vec(header, v))
            }
            5 => {
                drop(header);
                let mut v: Vec<Tok> = Vec::with_capacity(n + extra);
                v.extend(items);
                Built::Slice(Arc::from(v))
            }
            6 => {
                drop(items);
                Built::One(Arc::from(Box::new(header)))
            }
            7 => {
                drop(items);
                Built::One(Arc::new(header))
            }
            8 => {
                drop(items);
                Built::UOne(UniqueArc::new(header))
            }
            9 => {
                drop(items);
                Built::One(Arc::from(header))
            }
            11 | 12 | 13 | 14 | 15 => {
                drop(header);
                drop(items);
                let (nums, s) = (&nums, &s_in);
                match ctor {
                    11 => {
                        let a = Arc::from_header_and_slice(7u16, &nums[..]);
                        talloc::record(false);
                        Built::Plain(std::iter::once(a.header as u64).chain(a.slice.iter().map(|x| *x as u64)).collect())
                    }
                    12 => {
                        let a = Arc::from_header_and_str(7u16, s);
                        talloc::record(false);
                        Built::Plain(std::iter::once(a.header as u64).chain(a.slice.bytes().map(|x| x as u64)).collect())
                    }
                    13 => {
                        let a: Arc<[u32]> = Arc::from(&nums[..]);
                        talloc::record(false);
                        Built::Plain(a.iter().map(|x| *x as u64).collect())
                    }
                    14 => {
                        let a: Arc<str> = Arc::from(&s[..]);
                        talloc::record(false);
                        Built::Plain(a.bytes().map(|x| x as u64).collect())
                    }
                    _ => {
                        let a: Arc<str> = Arc::from(s_owned);
                        talloc::record(false);
                        Built::Plain(a.bytes().map(|x| x as u64).collect())
                    }
                }
            }
            _ => return None,
        })
    }));
    talloc::record(false);
    let evs = talloc::drain();
    // a block that the constructor leaked (panic) is never released: look at its red zone now
    let overrun = talloc::check_redzones();
    let mut out;
    match r {
        Ok(None) => return vec![98],
        Ok(Some(b)) => {
            out = describe(&b);
            out.push(SEP);
            out.extend(dtors(&evs));
            if overrun > 0 {
                out.push(555555);
            }
            out.push(SEP);
            // allocations the call left behind besides the result block (plain results were already released)
            let base = 1;
            out.push((live_delta(&evs) - base) as u64);
            out.push(SEP);
            talloc::record(true);
            drop(b);
            talloc::record(false);
            let evs2 = talloc::drain();
            out.extend(dtors(&evs2));
        }
        Err(_) => {
            out = vec![1, SEP];
            out.extend(dtors(&evs));
            if overrun > 0 {
                out.push(555555);
            }
        }
    }
    out
}

pub fn run_case(ops: &[Vec<u64>]) -> Vec<Vec<u64>> {
    // a leading [100, d] only tells the model whether this build has debug assertions
    let ops = if ops.first().map_or(false, |o| o.len() == 2 && o[0] == 100) { &ops[1..] } else { ops };
    ops.iter().map(|op| run1(op)).collect()
}

/// C07 child process: the k-th allocation made by the constructor fails (the allocator returns null).
///   tvharness allocfail <ctor> <k>
/// prints MARK, runs the constructor, prints DONE if it returned (k larger than the number of allocations).
pub fn allocfail_main(ctor: u64, k: isize) -> ! {
    use std::io::Write;
    use std::mem::MaybeUninit;
    // black_box: a release build must not optimise the allocation of a forgotten result away
    fn keep<T>(x: T) {
        std::mem::forget(std::hint::black_box(x));
    }
    let out = std::io::stdout();
    let mark = |s: &str| {
        let mut o = out.lock();
        writeln!(o, "{}", s).unwrap();
        o.flush().unwrap();
    };
    let items: Vec<Tok> = (0..3).map(|_| Tok::new()).collect();
    let shared = Arc::new(Tok::new());
    let mut shared2 = shared.clone();
    let boxed = Box::new(Tok::new());
    mark("MARK");
    talloc::record(true);
    talloc::fail_at(k);
    match ctor {
        0 => keep(Arc::new(Tok::new())),
        1 => keep(Arc::from_header_and_iter(7u32, items.into_iter())),
        2 => keep(ThinArc::from_header_and_iter(7u32, items.into_iter())),
        3 => keep(items.into_iter().collect::<Arc<[Tok]>>()),
        4 => keep(items.into_iter().filter(|_| true).collect::<Arc<[Tok]>>()),
        5 => keep(Arc::from_header_and_vec(7u32, items)),
        6 => keep(Arc::<Tok>::from(boxed)),
        7 => keep(UniqueArc::<Tok>::new_uninit()),
        8 => keep(UniqueArc::<[MaybeUninit<Tok>]>::new_uninit_slice(3)),
        9 => keep(UniqueArc::<HeaderSlice<u32, [MaybeUninit<Tok>]>>::from_header_and_uninit_slice(7u32, 3)),
        10 => keep(Arc::<[u32]>::from(&[1u32, 2, 3][..])),
        11 => keep(Arc::from_header_and_str(7u32, "abc")),
        12 => {
            let _ = std::hint::black_box(Arc::make_mut(&mut shared2));
        }
        13 => keep(Arc::<MaybeUninit<Tok>>::new_uninit()),
        _ => {
            mark("BADCTOR");
            std::process::exit(3)
        }
    }
    talloc::fail_at(0);
    talloc::record(false);
    mark("DONE");
    std::process::exit(0);
}
