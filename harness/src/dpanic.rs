//! destructor-panic cases of the `ctor` stream (C01, C15): the LAST owning handle is released and the destructor of
//! one payload value (header or element) panics.  Rust's drop glue keeps destroying the remaining fields/elements
//! while unwinding and `Box` frees its memory on the unwind path as well, so: every value is destroyed exactly once,
//! the block is returned exactly once with the layout it was requested with, and the panic propagates.
//! case `[20 + kind, n, k]`: token `k` panics.  observation `[status, SEP, destroyed.., SEP, released]` (released: how often the block was returned with its own layout; 666666: a bad release).
use crate::talloc::{self, Ev};
use crate::tok::{self, Tok, TokB};
use std::mem::MaybeUninit;
use std::panic::{catch_unwind, AssertUnwindSafe};
use triomphe::{Arc, ArcUnion, HeaderSlice, HeaderWithLength, ThinArc, UniqueArc};

const SEP: u64 = 99999999;

thread_local! {
    static SLOT: std::cell::RefCell<Option<Arc<ReTok>>> = std::cell::RefCell::new(None);
}
/// a payload whose `Clone` releases the handle parked in SLOT: the other owner goes away WHILE the library is inside
/// `T::clone` (what a second thread could do at that point, done re-entrantly)
pub struct ReTok {
    t: Tok,
}
impl Clone for ReTok {
    fn clone(&self) -> ReTok {
        let t = self.t.clone();
        SLOT.with(|s| drop(s.borrow_mut().take()));
        ReTok { t }
    }
}

/// `[40 + kind, 0, 0]`: a value with two owners; the operation clones it because it is shared, and the other owner is
/// released during that clone.  The original value must be destroyed exactly once and its block returned once.
/// observation `[status, SEP, destroyed.., SEP, released, count of the result]`
pub fn reentrant(kind: u64, dtor_panics: bool) -> Vec<u64> {
    tok::reset();
    let _ = talloc::drain();
    talloc::record(true);
    let a = Arc::new(ReTok { t: Tok::new() });
    if dtor_panics {
        // the original value's destructor panics (token 0): the operation's release of the old handle is the last one
        tok::set_drop_panic(0);
    }
    let heap = a.heap_ptr() as usize;
    SLOT.with(|s| *s.borrow_mut() = Some(a.clone()));
    talloc::record(false);
    let evs0 = talloc::drain();
    let blk = {
        let mut live: Vec<(usize, usize, usize)> = Vec::new();
        for e in &evs0 {
            if let Ev::Alloc { ptr, size, align } = *e {
                live.push((ptr, size, align))
            }
        }
        match live.into_iter().rev().find(|b| b.0 <= heap && heap <= b.0 + b.1) {
            Some(b) => b,
            None => return vec![96],
        }
    };
    crate::mech::install_observer();
    talloc::record(true);
    let r = catch_unwind(AssertUnwindSafe(move || -> (u64, Box<dyn std::any::Any>) {
        match kind {
            0 => {
                let v = Arc::unwrap_or_clone(a);
                (1, Box::new(v))
            }
            1 => {
                let mut a = a;
                let _ = Arc::make_mut(&mut a);
                (Arc::strong_count(&a) as u64, Box::new(a))
            }
            2 => {
                let mut a = a;
                let _ = Arc::make_unique(&mut a);
                (Arc::strong_count(&a) as u64, Box::new(a))
            }
            _ => {
                let mut o = Arc::into_raw_offset(a);
                let _ = o.make_mut();
                (triomphe::OffsetArc::strong_count(&o) as u64, Box::new(o))
            }
        }
    }));
    talloc::record(false);
    let evs = talloc::drain();
    SLOT.with(|s| drop(s.borrow_mut().take()));
    let mut out = vec![r.is_err() as u64, SEP];
    let mut released = 0u64;
    let mut bad = 0u64;
    for e in &evs {
        match *e {
            // the counter of the original block touched after the block went back to the allocator
            Ev::Atomic { addr, .. } if addr == blk.0 && released > 0 => bad += 1,
            Ev::Dtor { id } => out.push(id),
            Ev::BadDtor { id, .. } => {
                out.push(777777);
                out.push(id & 0xffff)
            }
            Ev::Dealloc { ptr, size, align } if ptr == blk.0 => {
                if size == blk.1 && align == blk.2 {
                    released += 1
                } else {
                    bad += 1
                }
            }
            Ev::BadDealloc { .. } | Ev::UnknownDealloc { .. } | Ev::Overrun { .. } => bad += 1,
            _ => {}
        }
    }
    out.push(SEP);
    out.push(if bad > 0 { 666666 } else { released });
    out.push(r.as_ref().map_or(0, |x| x.0));
    drop(r);
    let _ = talloc::drain();
    out
}

static PLAIN_CLONES: std::sync::atomic::AtomicU64 = std::sync::atomic::AtomicU64::new(0);
static PLAIN_NEXT: std::sync::atomic::AtomicU64 = std::sync::atomic::AtomicU64::new(100);
/// a payload WITHOUT drop glue that is not Copy and whose Clone is not a bitwise copy: it counts the calls and gives
/// the copy a new serial; `cell` is shared storage that a bitwise copy would alias
pub struct Plain {
    serial: u64,
    cell: &'static std::cell::Cell<u64>,
}
impl Clone for Plain {
    fn clone(&self) -> Plain {
        use std::sync::atomic::Ordering::SeqCst;
        PLAIN_CLONES.fetch_add(1, SeqCst);
        Plain { serial: PLAIN_NEXT.fetch_add(1, SeqCst), cell: Box::leak(Box::new(std::cell::Cell::new(self.cell.get()))) }
    }
}

/// `[44 + j, 0, 0]`: copy-on-write / unwrap_or_clone of a SHARED value whose type has no drop glue.
/// observation `[status, SEP, SEP, Clone calls, the copy has its own serial, the other owner's value is untouched by a
/// write through the result, count of the other owner afterwards]`
pub fn plain(kind: u64) -> Vec<u64> {
    use std::sync::atomic::Ordering::SeqCst;
    assert!(!std::mem::needs_drop::<Plain>());
    PLAIN_CLONES.store(0, SeqCst);
    let a = Arc::new(Plain { serial: 7, cell: Box::leak(Box::new(std::cell::Cell::new(1))) });
    let other = a.clone();
    let r = catch_unwind(AssertUnwindSafe(move || -> (u64, u64) {
        match kind {
            0 => {
                let mut a = a;
                let m = Arc::make_mut(&mut a);
                m.cell.set(2);
                (m.serial, 0)
            }
            1 => {
                let mut o = Arc::into_raw_offset(a);
                let m = o.make_mut();
                m.cell.set(2);
                (m.serial, 0)
            }
            2 => {
                let mut a = a;
                let u = Arc::make_unique(&mut a);
                u.cell.set(2);
                (u.serial, 0)
            }
            _ => {
                let v = Arc::unwrap_or_clone(a);
                v.cell.set(2);
                (v.serial, 0)
            }
        }
    }));
    let mut out = vec![r.is_err() as u64, SEP, SEP, PLAIN_CLONES.load(SeqCst)];
    out.push(r.as_ref().map_or(0, |x| (x.0 != 7) as u64));
    out.push((other.cell.get() == 1 && other.serial == 7) as u64);
    out.push(Arc::strong_count(&other) as u64);
    out
}

static ZDROPS: std::sync::atomic::AtomicU64 = std::sync::atomic::AtomicU64::new(0);
/// a ZERO-SIZED value with a destructor (a token / guard type): its drops are counted
pub struct ZTok;
impl Drop for ZTok {
    fn drop(&mut self) {
        ZDROPS.fetch_add(1, std::sync::atomic::Ordering::SeqCst);
    }
}
static ZCLONES: std::sync::atomic::AtomicU64 = std::sync::atomic::AtomicU64::new(0);
impl Clone for ZTok {
    fn clone(&self) -> ZTok {
        ZCLONES.fetch_add(1, std::sync::atomic::Ordering::SeqCst);
        ZTok
    }
}

/// `[48 + j, 0, 0]`: zero-sized headers / payloads with drop glue through the constructors.
/// observation `[status, SEP, SEP, ZST drops during construction, ZST drops after everything is released,
///               element destructors, bad accesses or releases, blocks allocated and not released]`
pub fn zst(kind: u64) -> Vec<u64> {
    use std::sync::atomic::Ordering::SeqCst;
    assert_eq!(std::mem::size_of::<ZTok>(), 0);
    tok::reset();
    let _ = talloc::drain();
    ZDROPS.store(0, SeqCst);
    ZCLONES.store(0, SeqCst);
    talloc::record(true);
    let mut during = 0;
    let mut wrong_counts = 0u64;
    let r = catch_unwind(AssertUnwindSafe(|| match kind {
        0 => {
            let mut u = UniqueArc::<HeaderSlice<ZTok, [MaybeUninit<Tok>]>>::from_header_and_uninit_slice(ZTok, 2);
            during = ZDROPS.load(SeqCst);
            u.slice[0].write(Tok::new());
            drop(u);
        }
        1 => {
            let mut u = UniqueArc::<HeaderSlice<ZTok, [MaybeUninit<Tok>]>>::from_header_and_uninit_slice(ZTok, 2);
            during = ZDROPS.load(SeqCst);
            for s in u.slice.iter_mut() {
                s.write(Tok::new());
            }
            let a = unsafe { u.assume_init_slice_with_header() }.shareable();
            let b = a.clone();
            drop(a);
            drop(b);
        }
        2 => {
            let a = Arc::from_header_and_iter(ZTok, vec![Tok::new(), Tok::new()].into_iter());
            during = ZDROPS.load(SeqCst);
            drop(a);
        }
        3 => {
            let a = Arc::from_header_and_vec(ZTok, vec![Tok::new(), Tok::new()]);
            during = ZDROPS.load(SeqCst);
            drop(a);
        }
        4 => {
            let a: Arc<ZTok> = Arc::from(Box::new(ZTok));
            during = ZDROPS.load(SeqCst);
            drop(a);
        }
        5 => {
            let a = Arc::new(ZTok);
            during = ZDROPS.load(SeqCst);
            let b = a.clone();
            drop(a);
            drop(b);
        }
        // a zero-sized value is unwrapped by its sole owner: it comes out without having been destroyed, and the
        // block (which still holds the count) goes back
        6 => {
            let v = Arc::try_unwrap(Arc::new(ZTok));
            during = ZDROPS.load(SeqCst);
            drop(v);
        }
        7 => {
            let v = Arc::unwrap_or_clone(Arc::new(ZTok));
            during = ZDROPS.load(SeqCst);
            drop(v);
        }
        8 => {
            let v = Arc::try_unique(Arc::new(ZTok)).ok().map(UniqueArc::into_inner);
            during = ZDROPS.load(SeqCst);
            drop(v);
        }
        9 => {
            let v = UniqueArc::into_inner(UniqueArc::new(ZTok));
            during = ZDROPS.load(SeqCst);
            drop(v);
        }
        10 => {
            use std::convert::TryFrom;
            let v = UniqueArc::try_from(Arc::new(ZTok)).ok().map(UniqueArc::into_inner);
            during = ZDROPS.load(SeqCst);
            drop(v);
        }
        11 => {
            // shared: the clone comes back, the original goes with the other owner
            let a = Arc::new(ZTok);
            let b = a.clone();
            let v = Arc::unwrap_or_clone(a);
            during = ZDROPS.load(SeqCst);
            drop(v);
            drop(b);
        }
        // zero-sized ELEMENTS with a destructor through the Vec-based constructors (the iterator and slice forms refuse
        // zero-sized elements): moved, not destroyed, by the constructor; destroyed once each with the handle
        12 => {
            let a: Arc<[ZTok]> = Arc::from(vec![ZTok, ZTok, ZTok]);
            during = ZDROPS.load(SeqCst);
            if a.len() != 3 {
                wrong_counts += 1;
            }
            drop(a);
        }
        13 => {
            let a = Arc::from_header_and_vec(ZTok, vec![ZTok, ZTok]);
            during = ZDROPS.load(SeqCst);
            let b = a.clone();
            drop(a);
            if b.slice.len() != 2 {
                wrong_counts += 1;
            }
            drop(b);
        }
        14 => {
            let a: Arc<[ZTok]> = (0..5).filter(|i| i % 2 == 0).map(|_| ZTok).collect();
            during = ZDROPS.load(SeqCst);
            if a.len() != 3 {
                wrong_counts += 1;
            }
            drop(a);
        }
        // copy-on-write of a SHARED zero-sized value: Clone runs once, the handle is redirected, each owner is alone
        15 => {
            let a = Arc::new(ZTok);
            let mut b = a.clone();
            let _ = Arc::make_mut(&mut b);
            during = ZDROPS.load(SeqCst);
            if Arc::count(&a) != 1 || Arc::count(&b) != 1 || Arc::ptr_eq(&a, &b) {
                wrong_counts += 1;
            }
            drop(a);
            drop(b);
        }
        // a header with a destructor handed to a constructor that refuses (the layout of the requested length cannot be
        // represented): the unwinding constructor destroys it, once
        17 => {
            let _ = UniqueArc::<HeaderSlice<ZTok, [MaybeUninit<u64>]>>::from_header_and_uninit_slice(ZTok, usize::MAX / 2);
        }
        18 => {
            let _ = UniqueArc::<HeaderSlice<ZTok, [MaybeUninit<u8>]>>::from_header_and_uninit_slice(ZTok, isize::MAX as usize - 7);
        }
        // zero-sized ELEMENTS behind a recorded length that is not the real one: into_thin must refuse (the recorded
        // length is all a ThinArc has), and the unwinding destroys header and real elements once each
        19 => {
            let a = Arc::from_header_and_vec(HeaderWithLength::new(ZTok, 5), vec![ZTok, ZTok]);
            let t = Arc::into_thin(a);
            wrong_counts += 1 + t.slice.len() as u64;
            drop(t);
        }
        20 => {
            let a = Arc::from_header_and_vec(HeaderWithLength::new(ZTok, 0), vec![ZTok, ZTok, ZTok]);
            let t = Arc::into_thin(a);
            wrong_counts += 1 + t.slice.len() as u64;
            drop(t);
        }
        21 => {
            let t = Arc::into_thin(Arc::from_header_and_vec(HeaderWithLength::new(ZTok, 2), vec![ZTok, ZTok]));
            if t.slice.len() != 2 || t.header.length != 2 {
                wrong_counts += 1;
            }
            let mut a = Arc::from_thin(t);
            match Arc::get_mut(&mut a) {
                Some(m) => m.header.length = 7,
                None => wrong_counts += 1,
            }
            let t = Arc::into_thin(a);
            wrong_counts += 1 + t.slice.len() as u64;
            drop(t);
        }
        _ => {
            let a = Arc::new(ZTok);
            let mut o = Arc::into_raw_offset(a.clone());
            let _ = o.make_mut();
            during = ZDROPS.load(SeqCst);
            if Arc::count(&a) != 1 || triomphe::OffsetArc::strong_count(&o) != 1 {
                wrong_counts += 1;
            }
            drop(a);
            drop(o);
        }
    }));
    talloc::record(false);
    let evs = talloc::drain();
    let allocs = evs.iter().filter(|e| matches!(e, Ev::Alloc { .. })).count() as u64;
    let deallocs = evs.iter().filter(|e| matches!(e, Ev::Dealloc { .. } | Ev::BadDealloc { .. })).count() as u64;
    let bad = evs.iter().filter(|e| matches!(e, Ev::BadDtor { .. } | Ev::BadRead { .. } | Ev::BadDealloc { .. } | Ev::UnknownDealloc { .. } | Ev::Overrun { .. })).count() as u64;
    let dt = evs.iter().filter(|e| matches!(e, Ev::Dtor { .. })).count() as u64;
    // (for the copy-on-write kinds the sixth number is the number of Clone calls)
    let sixth = if kind == 15 || kind == 16 { ZCLONES.load(SeqCst) } else { dt };
    // (a caught panic still owns its payload: allocations are not balanced then, and are not reported)
    let outstanding = if r.is_err() { 0 } else { allocs.wrapping_sub(deallocs) };
    vec![r.is_err() as u64, SEP, SEP, during, ZDROPS.load(SeqCst), sixth, bad + wrong_counts, outstanding]
}

pub fn run1(kind: u64, n: usize, k: u64) -> Vec<u64> {
    if kind >= 50 {
        return if kind < 56 && n == 0 && k == 0 { cmpcount(kind - 50) } else { vec![98] };
    }
    if kind >= 28 {
        return if kind < 50 && n == 0 && k == 0 { zst(kind - 28) } else { vec![98] };
    }
    if kind >= 24 {
        return if kind < 28 && n == 0 && k == 0 { plain(kind - 24) } else { vec![98] };
    }
    if kind >= 20 {
        return if n == 0 && (k == 0 || (k == 1 && kind > 20)) { reentrant(kind - 20, k == 1) } else { vec![98] };
    }
    if n > 16 {
        return vec![99];
    }
    tok::reset();
    let _ = talloc::drain();
    talloc::record(true);
    // build; the block is the allocation that contains heap_ptr()
    let (heap, job): (usize, Box<dyn FnOnce()>) = match kind {
        0 => {
            let a = Arc::new(Tok::new());
            (a.heap_ptr() as usize, Box::new(move || drop(a)))
        }
        1 => {
            let a: Arc<[Tok]> = Arc::from((0..n).map(|_| Tok::new()).collect::<Vec<_>>());
            (a.heap_ptr() as usize, Box::new(move || drop(a)))
        }
        2 => {
            let h = Tok::new();
            let items: Vec<Tok> = (0..n).map(|_| Tok::new()).collect();
            let t = ThinArc::from_header_and_iter(h, items.into_iter());
            (t.heap_ptr() as usize, Box::new(move || drop(t)))
        }
        3 => {
            let h = Tok::new();
            let items: Vec<Tok> = (0..n).map(|_| Tok::new()).collect();
            let a = Arc::from_header_and_iter(h, items.into_iter());
            (a.heap_ptr() as usize, Box::new(move || drop(a)))
        }
        4 => {
            let a = Arc::new(Tok::new());
            let heap = a.heap_ptr() as usize;
            let o = Arc::into_raw_offset(a);
            (heap, Box::new(move || drop(o)))
        }
        5 => {
            let a = Arc::new(Tok::new());
            let heap = a.heap_ptr() as usize;
            let u = ArcUnion::<Tok, TokB>::from_first(a);
            (heap, Box::new(move || drop(u)))
        }
        6 => {
            let mut u = UniqueArc::<[MaybeUninit<Tok>]>::new_uninit_slice(n);
            for s in u.iter_mut() {
                s.write(Tok::new());
            }
            let a: Arc<[Tok]> = unsafe { UniqueArc::assume_init_slice(u) }.shareable();
            (a.heap_ptr() as usize, Box::new(move || drop(a)))
        }
        7 => {
            // never assumed initialised: only the header is destroyed, the written elements are not
            let h = Tok::new();
            let mut u = UniqueArc::<HeaderSlice<Tok, [MaybeUninit<Tok>]>>::from_header_and_uninit_slice(h, n);
            for s in u.slice.iter_mut() {
                s.write(Tok::new());
            }
            let heap = {
                let a = u.shareable();
                let hp = a.heap_ptr() as usize;
                let back = Arc::try_unique(a);
                match back {
                    Ok(x) => {
                        u = x;
                        hp
                    }
                    Err(_) => return vec![97],
                }
            };
            (heap, Box::new(move || drop(u)))
        }
        8 => {
            let a: Arc<[Tok]> = Arc::from((0..n).map(|_| Tok::new()).collect::<Vec<_>>());
            let b = a.clone();
            let heap = a.heap_ptr() as usize;
            (heap, Box::new(move || {
                drop(a);
                drop(b)
            }))
        }
        _ => return vec![98],
    };
    talloc::record(false);
    let evs0 = talloc::drain();
    let blk = {
        let mut live: Vec<(usize, usize, usize)> = Vec::new();
        for e in &evs0 {
            match *e {
                Ev::Alloc { ptr, size, align } => live.push((ptr, size, align)),
                Ev::Dealloc { ptr, .. } => live.retain(|x| x.0 != ptr),
                _ => {}
            }
        }
        match live.into_iter().rev().find(|b| b.0 <= heap && heap <= b.0 + b.1) {
            Some(b) => b,
            None => return vec![96],
        }
    };
    tok::set_drop_panic(k);
    talloc::record(true);
    let r = catch_unwind(AssertUnwindSafe(job));
    talloc::record(false);
    let evs = talloc::drain();
    tok::set_drop_panic(u64::MAX);
    let mut out = vec![r.is_err() as u64, SEP];
    let mut released = 0u64;
    let mut bad = 0u64;
    for e in &evs {
        match *e {
            Ev::Dtor { id } => out.push(id),
            Ev::BadDtor { id, .. } => {
                out.push(777777);
                out.push(id & 0xffff)
            }
            Ev::Dealloc { ptr, size, align } if ptr == blk.0 => {
                if size == blk.1 && align == blk.2 {
                    released += 1
                } else {
                    bad += 1
                }
            }
            Ev::BadDealloc { .. } | Ev::UnknownDealloc { .. } | Ev::Overrun { .. } => bad += 1,
            _ => {}
        }
    }
    out.push(SEP);
    out.push(if bad > 0 { 666666 } else { released });
    out
}

// ---------------------------------------------------------------------------------------------------------------
// counts read WHILE a comparison, hash or format of a handle is in use (C04: "never change the count, not even while
// the borrow is in use")
// ---------------------------------------------------------------------------------------------------------------
thread_local! {
    /// reads the counts of the two allocations under test through side handles
    static PROBE: std::cell::RefCell<Option<Box<dyn Fn() -> (u64, u64)>>> = std::cell::RefCell::new(None);
    /// (calls, min, max) of what the payload's trait impls saw
    static SEEN: std::cell::Cell<(u64, u64, u64)> = std::cell::Cell::new((0, u64::MAX, 0));
}

fn probe() {
    let c = PROBE.with(|p| p.borrow().as_ref().map(|f| f()));
    if let Some((a, b)) = c {
        SEEN.with(|s| {
            let (n, lo, hi) = s.get();
            s.set((n + 1, lo.min(a).min(b), hi.max(a).max(b)));
        });
    }
}

/// a payload whose comparison, hashing and formatting look at the counts
pub struct Pr(u32);
impl PartialEq for Pr {
    fn eq(&self, o: &Pr) -> bool {
        probe();
        self.0 == o.0
    }
}
impl Eq for Pr {}
impl PartialOrd for Pr {
    fn partial_cmp(&self, o: &Pr) -> Option<std::cmp::Ordering> {
        probe();
        self.0.partial_cmp(&o.0)
    }
}
impl Ord for Pr {
    fn cmp(&self, o: &Pr) -> std::cmp::Ordering {
        probe();
        self.0.cmp(&o.0)
    }
}
impl std::hash::Hash for Pr {
    fn hash<H: std::hash::Hasher>(&self, h: &mut H) {
        probe();
        self.0.hash(h)
    }
}
impl std::fmt::Debug for Pr {
    fn fmt(&self, f: &mut std::fmt::Formatter) -> std::fmt::Result {
        probe();
        write!(f, "Pr({})", self.0)
    }
}
impl std::fmt::Display for Pr {
    fn fmt(&self, f: &mut std::fmt::Formatter) -> std::fmt::Result {
        probe();
        write!(f, "{}", self.0)
    }
}

fn hash_of<T: std::hash::Hash>(t: &T) -> u64 {
    use std::hash::Hasher;
    let mut h = std::collections::hash_map::DefaultHasher::new();
    t.hash(&mut h);
    h.finish()
}

/// `[70 + j, 0, 0]`: two values in distinct allocations, each with two owning handles (the one under test and a side
/// handle the payload's trait impls read the count through); every comparison / hash / format the handle kind offers.
/// observation `[status, SEP, SEP, the payload was consulted, count before, least and greatest count seen inside, count after]`
pub fn cmpcount(kind: u64) -> Vec<u64> {
    SEEN.with(|s| s.set((0, u64::MAX, 0)));
    let mut before = 0;
    let mut after = 0;
    let r = catch_unwind(AssertUnwindSafe(|| {
        macro_rules! all_ord {
            ($x:expr, $y:expr) => {{
                let _ = $x == $y;
                let _ = $x != $y;
                let _ = $x.partial_cmp($y);
                let _ = $x < $y;
                let _ = $x <= $y;
                let _ = $x > $y;
                let _ = $x >= $y;
                let _ = $x.cmp($y);
                let _ = hash_of($x);
                let _ = format!("{:?}", $x);
            }};
        }
        match kind {
            0 => {
                let (a, b) = (Arc::new(Pr(1)), Arc::new(Pr(2)));
                let (sa, sb) = (a.clone(), b.clone());
                PROBE.with(|p| *p.borrow_mut() = Some(Box::new(move || (Arc::count(&sa) as u64, Arc::count(&sb) as u64))));
                before = Arc::count(&a) as u64;
                all_ord!(&a, &b);
                let _ = format!("{}", &a);
                after = Arc::count(&a).max(Arc::count(&b)) as u64;
            }
            1 => {
                let (a, b) = (Arc::new(Pr(1)), Arc::new(Pr(2)));
                let (oa, ob) = (Arc::into_raw_offset(a.clone()), Arc::into_raw_offset(b.clone()));
                PROBE.with(|p| *p.borrow_mut() = Some(Box::new(move || (Arc::count(&a) as u64, Arc::count(&b) as u64))));
                before = triomphe::OffsetArc::strong_count(&oa) as u64;
                let _ = oa == ob;
                let _ = oa != ob;
                let _ = format!("{:?}", &oa);
                after = triomphe::OffsetArc::strong_count(&oa).max(triomphe::OffsetArc::strong_count(&ob)) as u64;
            }
            2 => {
                let (a, b) = (Arc::new(Pr(1)), Arc::new(Pr(2)));
                let (sa, sb) = (a.clone(), b.clone());
                PROBE.with(|p| *p.borrow_mut() = Some(Box::new(move || (Arc::count(&sa) as u64, Arc::count(&sb) as u64))));
                let (ba, bb) = (a.borrow_arc(), b.borrow_arc());
                before = triomphe::ArcBorrow::strong_count(&ba) as u64;
                let _ = ba == bb;
                let _ = ba != bb;
                let _ = format!("{:?}", &ba);
                after = triomphe::ArcBorrow::strong_count(&ba).max(triomphe::ArcBorrow::strong_count(&bb)) as u64;
            }
            3 => {
                let a = ThinArc::from_header_and_iter(Pr(1), vec![Pr(3), Pr(4)].into_iter());
                let b = ThinArc::from_header_and_iter(Pr(1), vec![Pr(3), Pr(5)].into_iter());
                let (sa, sb) = (a.clone(), b.clone());
                PROBE.with(|p| *p.borrow_mut() = Some(Box::new(move || (ThinArc::strong_count(&sa) as u64, ThinArc::strong_count(&sb) as u64))));
                before = ThinArc::strong_count(&a) as u64;
                all_ord!(&a, &b);
                after = ThinArc::strong_count(&a).max(ThinArc::strong_count(&b)) as u64;
            }
            4 => {
                let (a, b) = (Arc::new(Pr(1)), Arc::new(Pr(2)));
                let (sa, sb) = (a.clone(), b.clone());
                PROBE.with(|p| *p.borrow_mut() = Some(Box::new(move || (Arc::count(&sa) as u64, Arc::count(&sb) as u64))));
                let (ua, ub) = (ArcUnion::<Pr, u64>::from_first(a), ArcUnion::<Pr, u64>::from_first(b));
                before = ArcUnion::strong_count(&ua) as u64;
                let _ = ua == ub;
                let _ = ua != ub;
                let _ = format!("{:?}", &ua);
                after = ArcUnion::strong_count(&ua).max(ArcUnion::strong_count(&ub)) as u64;
            }
            _ => {
                let a = Arc::from_header_and_iter(Pr(1), vec![Pr(3), Pr(4)].into_iter());
                let b = Arc::from_header_and_iter(Pr(1), vec![Pr(3), Pr(5)].into_iter());
                let (sa, sb) = (a.clone(), b.clone());
                PROBE.with(|p| *p.borrow_mut() = Some(Box::new(move || (Arc::count(&sa) as u64, Arc::count(&sb) as u64))));
                before = Arc::count(&a) as u64;
                all_ord!(&a, &b);
                after = Arc::count(&a).max(Arc::count(&b)) as u64;
            }
        }
    }));
    PROBE.with(|p| *p.borrow_mut() = None);
    let (n, lo, hi) = SEEN.with(|s| s.get());
    vec![r.is_err() as u64, SEP, SEP, (n > 0) as u64, before, if n > 0 { lo } else { 0 }, hi, after]
}
