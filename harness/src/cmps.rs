//! `cmp` stream (C14): ==, !=, <, <=, >, >=, partial_cmp, cmp, Hash, Debug, Display, Borrow-keyed map lookups through
//! every handle kind, for three payload classes: 0 totally ordered, 1 float-like with NaN, 2 deliberately
//! unlawful (every method answers something different, so delegation is visible method by method).
//! case: `[cls, kind, same, <value a>, <value b>]`; values: a payload is one number 0..2; a header-slice is
//! `h rec n x1..xn` (header, recorded length, slice).
use std::cmp::Ordering;
use std::collections::{BTreeMap, HashMap};
use std::fmt;
use std::hash::{Hash, Hasher};
use triomphe::{Arc, ArcUnion, HeaderSlice, HeaderWithLength, OffsetArc, ThinArc};

#[derive(Clone, Copy, Debug, PartialEq, Eq, PartialOrd, Ord, Hash)]
pub struct P0(u8);
impl fmt::Display for P0 {
    fn fmt(&self, f: &mut fmt::Formatter) -> fmt::Result {
        write!(f, "p{}", self.0)
    }
}
#[derive(Clone, Copy, Debug, PartialEq, PartialOrd)]
pub struct P1(f32);
impl fmt::Display for P1 {
    fn fmt(&self, f: &mut fmt::Formatter) -> fmt::Result {
        write!(f, "f{}", self.0)
    }
}
/// unlawful on purpose
#[derive(Clone, Copy)]
pub struct P2(u8);
impl PartialEq for P2 {
    fn eq(&self, o: &P2) -> bool {
        self.0 == o.0 || (self.0 == 0 && o.0 == 1)
    }
    #[allow(clippy::partialeq_ne_impl)]
    fn ne(&self, o: &P2) -> bool {
        self.0 < o.0
    }
}
impl Eq for P2 {}
impl PartialOrd for P2 {
    fn partial_cmp(&self, o: &P2) -> Option<Ordering> {
        if self.0 == 2 && o.0 == 2 {
            None
        } else {
            Some(o.0.cmp(&self.0))
        }
    }
    fn lt(&self, o: &P2) -> bool {
        self.0 >= o.0
    }
    fn le(&self, _o: &P2) -> bool {
        true
    }
    fn gt(&self, _o: &P2) -> bool {
        false
    }
    fn ge(&self, o: &P2) -> bool {
        self.0 == 2 && o.0 != 1
    }
}
impl Ord for P2 {
    fn cmp(&self, o: &P2) -> Ordering {
        (self.0 % 2).cmp(&(o.0 % 2))
    }
}
impl Hash for P2 {
    fn hash<H: Hasher>(&self, h: &mut H) {
        h.write_u8(7);
        h.write_u8(self.0);
    }
}
impl fmt::Debug for P2 {
    fn fmt(&self, f: &mut fmt::Formatter) -> fmt::Result {
        write!(f, "W<{}>", self.0)
    }
}
impl fmt::Display for P2 {
    fn fmt(&self, f: &mut fmt::Formatter) -> fmt::Result {
        write!(f, "w{}", self.0)
    }
}

/// Debug through the handle agrees with Debug of the value under every formatter setting (plain, alternate, width,
/// precision, hex flags): the impl must forward the caller's Formatter, not re-format with a fresh one
fn same_dbg<A: fmt::Debug, B: fmt::Debug>(a: &A, b: &B) -> bool {
    format!("{:?}", a) == format!("{:?}", b)
        && format!("{:#?}", a) == format!("{:#?}", b)
        && format!("{:12?}", a) == format!("{:12?}", b)
        && format!("{:<9.2?}", a) == format!("{:<9.2?}", b)
        && format!("{:#06x?}", a) == format!("{:#06x?}", b)
}
fn same_disp<A: fmt::Display, B: fmt::Display>(a: &A, b: &B) -> bool {
    format!("{}", a) == format!("{}", b) && format!("{:>10}", a) == format!("{:>10}", b) && format!("{:+.3}", a) == format!("{:+.3}", b)
}
#[derive(Debug)]
enum UnionShape<A, B> {
    First(A),
    Second(B),
}

pub trait Pay: Clone + Copy + fmt::Debug + fmt::Display + PartialEq + PartialOrd + 'static {
    fn mk(v: u64) -> Self;
}
impl Pay for P0 {
    fn mk(v: u64) -> Self {
        P0(v as u8)
    }
}
impl Pay for P1 {
    fn mk(v: u64) -> Self {
        P1(if v == 2 { f32::NAN } else { v as f32 })
    }
}
impl Pay for P2 {
    fn mk(v: u64) -> Self {
        P2(v as u8)
    }
}

#[derive(Default)]
struct Rec(Vec<u8>);
impl Hasher for Rec {
    fn finish(&self) -> u64 {
        0
    }
    fn write(&mut self, b: &[u8]) {
        self.0.extend_from_slice(b)
    }
}
fn hbytes<T: Hash + ?Sized>(t: &T) -> Vec<u8> {
    let mut r = Rec::default();
    t.hash(&mut r);
    r.0
}
fn oc(o: Option<Ordering>) -> u64 {
    match o {
        None => 0,
        Some(Ordering::Less) => 1,
        Some(Ordering::Equal) => 2,
        Some(Ordering::Greater) => 3,
    }
}

fn six<T: PartialEq + PartialOrd + ?Sized>(a: &T, b: &T) -> Vec<u64> {
    vec![(a == b) as u64, (a != b) as u64, (a < b) as u64, (a <= b) as u64, (a > b) as u64, (a >= b) as u64, oc(a.partial_cmp(b))]
}

/// header-slice value: (header, recorded length, slice)
struct Hv {
    h: u64,
    rec: usize,
    s: Vec<u64>,
}
fn parse_hv(v: &[u64], pos: &mut usize) -> Option<Hv> {
    let h = *v.get(*pos)?;
    let rec = *v.get(*pos + 1)? as usize;
    let n = *v.get(*pos + 2)? as usize;
    if n > 8 || h > 2 {
        return None;
    }
    let mut s = Vec::new();
    for i in 0..n {
        let x = *v.get(*pos + 3 + i)?;
        if x > 2 {
            return None;
        }
        s.push(x);
    }
    *pos += 3 + n;
    Some(Hv { h, rec, s })
}

macro_rules! arc_like {
    ($P:ty, $ord:expr, $op:expr, $same:expr) => {{
        let op: &[u64] = $op;
        if op.len() != 5 || op[3] > 2 || op[4] > 2 {
            return vec![99];
        }
        let kind = op[1];
        let va = <$P as Pay>::mk(op[3]);
        let vb = <$P as Pay>::mk(if $same { op[3] } else { op[4] });
        let a = Arc::new(va);
        let b = if $same { a.clone() } else { Arc::new(vb) };
        match kind {
            0 => {
                let mut v = six(&a, &b);
                v.push(same_dbg(&a, &va) as u64);
                v.push(same_disp(&a, &va) as u64);
                let r: &$P = std::borrow::Borrow::borrow(&a);
                v.push((r as *const $P == &*a as *const $P && a.as_ref() as *const $P == &*a as *const $P) as u64);
                v.extend($ord(&a, &b, va, vb));
                v
            }
            1 => {
                let oa = Arc::into_raw_offset(a);
                let ob = Arc::into_raw_offset(b);
                vec![(oa == ob) as u64, (oa != ob) as u64, same_dbg(&oa, &va) as u64]
            }
            2 => {
                let (ba, bb) = (a.borrow_arc(), b.borrow_arc());
                vec![(ba == bb) as u64, (ba != bb) as u64, same_dbg(&ba, &va) as u64]
            }
            _ => vec![98],
        }
    }};
}

fn ord_part<P: Pay + Ord + Hash + Eq>(a: &Arc<P>, b: &Arc<P>, va: P, vb: P) -> Vec<u64> {
    let mut v = vec![oc(Some(a.cmp(b))), (hbytes(a) == hbytes(&va)) as u64];
    // Arc<T> as a map key, probed with &T through Borrow
    let mut hm: HashMap<Arc<P>, u8> = HashMap::new();
    hm.insert(a.clone(), 1);
    v.push((hm.get(&va).is_some() == (va == va)) as u64);
    let mut bm: BTreeMap<Arc<P>, u8> = BTreeMap::new();
    bm.insert(a.clone(), 1);
    bm.insert(b.clone(), 2);
    let mut pm: BTreeMap<P, u8> = BTreeMap::new();
    pm.insert(va, 1);
    pm.insert(vb, 2);
    v.push((bm.get(&va).copied() == pm.get(&va).copied() && bm.get(&vb).copied() == pm.get(&vb).copied() && bm.len() == pm.len()) as u64);
    v
}
fn no_ord_part<P: Pay>(_a: &Arc<P>, _b: &Arc<P>, _va: P, _vb: P) -> Vec<u64> {
    vec![9, 9, 9, 9]
}

macro_rules! union_case {
    ($P:ty, $op:expr, $same:expr) => {{
        let op: &[u64] = $op;
        // [cls, 3, same, xvar, xval, yvar, yval]
        if op.len() != 7 || op[3] > 1 || op[5] > 1 || op[4] > 2 || op[6] > 2 {
            return vec![99];
        }
        type U = ArcUnion<$P, ($P, u8)>;
        let mk = |var: u64, val: u64| -> U {
            if var == 0 {
                ArcUnion::from_first(Arc::new(<$P as Pay>::mk(val)))
            } else {
                ArcUnion::from_second(Arc::new((<$P as Pay>::mk(val), 0u8)))
            }
        };
        let x = mk(op[3], op[4]);
        let y = if $same { x.clone() } else { mk(op[5], op[6]) };
        let want: UnionShape<$P, ($P, u8)> = if op[3] == 0 { UnionShape::First(<$P as Pay>::mk(op[4])) } else { UnionShape::Second((<$P as Pay>::mk(op[4]), 0u8)) };
        vec![(x == y) as u64, same_dbg(&x, &want) as u64]
    }};
}

macro_rules! hs_case {
    ($P:ty, $ord:expr, $op:expr, $same:expr) => {{
        let op: &[u64] = $op;
        let kind = op[1];
        let mut pos = 3;
        let (xa, xb) = match (parse_hv(op, &mut pos), parse_hv(op, &mut pos)) {
            (Some(a), Some(b)) if pos == op.len() => (a, b),
            _ => return vec![99],
        };
        let xb = if $same { Hv { h: xa.h, rec: xa.rec, s: xa.s.clone() } } else { xb };
        let items = |x: &Hv| x.s.iter().map(|v| <$P as Pay>::mk(*v)).collect::<Vec<$P>>();
        match kind {
            4 => {
                // ThinArc: the recorded length is the slice length by construction
                if items(&xa).is_empty() && false {
                    return vec![98];
                }
                let a = ThinArc::from_header_and_iter(<$P as Pay>::mk(xa.h), items(&xa).into_iter());
                let b = if $same { a.clone() } else { ThinArc::from_header_and_iter(<$P as Pay>::mk(xb.h), items(&xb).into_iter()) };
                let mut v = six(&a, &b);
                let plain = HeaderSlice { header: HeaderWithLength::new(<$P as Pay>::mk(xa.h), xa.s.len()), slice: items(&xa) };
                v.push(same_dbg(&a, &plain) as u64);
                v.extend($ord(&a, &b));
                v
            }
            5 => {
                // fat Arc with an arbitrary recorded length
                let a = Arc::from_header_and_iter(HeaderWithLength::new(<$P as Pay>::mk(xa.h), xa.rec), items(&xa).into_iter());
                let b = if $same { a.clone() } else { Arc::from_header_and_iter(HeaderWithLength::new(<$P as Pay>::mk(xb.h), xb.rec), items(&xb).into_iter()) };
                let mut v = six(&a, &b);
                v.push(1);
                v.extend($ord(&a, &b));
                v
            }
            6 => {
                // Arc<HeaderSlice<P, [P]>>: everything derived
                let a = Arc::from_header_and_iter(<$P as Pay>::mk(xa.h), items(&xa).into_iter());
                let b = if $same { a.clone() } else { Arc::from_header_and_iter(<$P as Pay>::mk(xb.h), items(&xb).into_iter()) };
                let mut v = six(&a, &b);
                v.push(1);
                v.extend($ord(&a, &b));
                v
            }
            _ => vec![98],
        }
    }};
}

fn hs_ord<T: Ord + Hash>(a: &T, b: &T) -> Vec<u64> {
    vec![oc(Some(a.cmp(b))), (hbytes(a) == hbytes(b)) as u64]
}
fn hs_no_ord<T>(_a: &T, _b: &T) -> Vec<u64> {
    vec![9, 9]
}

fn run1(op: &[u64]) -> Vec<u64> {
    if op.len() < 3 {
        return vec![99];
    }
    let (cls, kind, same) = (op[0], op[1], op[2] != 0);
    match (cls, kind) {
        (0, 0..=2) => arc_like!(P0, ord_part::<P0>, op, same),
        (1, 0..=2) => arc_like!(P1, no_ord_part::<P1>, op, same),
        (2, 0..=2) => arc_like!(P2, ord_part::<P2>, op, same),
        (0, 3) => union_case!(P0, op, same),
        (1, 3) => union_case!(P1, op, same),
        (2, 3) => union_case!(P2, op, same),
        (0, 4..=6) => hs_case!(P0, hs_ord, op, same),
        (1, 4..=6) => hs_case!(P1, hs_no_ord, op, same),
        (2, 4..=6) => hs_case!(P2, hs_ord, op, same),
        _ => vec![98],
    }
}

pub fn run_case(ops: &[Vec<u64>]) -> Vec<Vec<u64>> {
    ops.iter().map(|op| if op.first() == Some(&9) { effects_case(op) } else if op.first() == Some(&8) { same_alloc_union(op) } else { std::panic::catch_unwind(|| run1(op)).unwrap_or_else(|_| vec![97]) }).collect()
}

// ------------------------------------------------------------------------------------------------
// side-effect freedom and panic safety of comparing / hashing / formatting through handles (C04, C07)
// case `[9, kind, which, mode]`:
//   kind  0 Arc  1 OffsetArc  2 ArcBorrow  3 ArcUnion  4 ThinArc  5 Arc<HeaderSlice<H,[T]>>
//   which 0 ==  1 !=  2 partial_cmp  3 <  4 cmp  5 hash  6 {:?}  7 {}
//   mode  0 the payload's impl answers, 1 it panics
// observation `[status, counts unchanged during and after, bad accesses, values destroyed when everything is released]`
//   status: 0 returned, 1 panicked, 2 this kind does not have the operation
// ------------------------------------------------------------------------------------------------
use crate::talloc::{self, Ev};
use crate::tok::{self, Tok};
use std::cell::Cell;
use std::panic::{catch_unwind, AssertUnwindSafe};

thread_local! { static PANIC_IN_IMPL: Cell<bool> = Cell::new(false); }
fn maybe_panic() {
    if PANIC_IN_IMPL.with(|p| p.get()) {
        panic!("scheduled panic in a comparison / hash / format impl");
    }
}
pub struct PTok {
    t: Tok,
    v: u8,
}
impl PTok {
    fn new(v: u8) -> PTok {
        PTok { t: Tok::new(), v }
    }
}
impl PartialEq for PTok {
    fn eq(&self, o: &PTok) -> bool {
        maybe_panic();
        let _ = (self.t.id(), o.t.id());
        self.v == o.v
    }
}
impl Eq for PTok {}
impl PartialOrd for PTok {
    fn partial_cmp(&self, o: &PTok) -> Option<Ordering> {
        maybe_panic();
        let _ = (self.t.id(), o.t.id());
        self.v.partial_cmp(&o.v)
    }
}
impl Ord for PTok {
    fn cmp(&self, o: &PTok) -> Ordering {
        maybe_panic();
        self.v.cmp(&o.v)
    }
}
impl Hash for PTok {
    fn hash<Hs: Hasher>(&self, h: &mut Hs) {
        maybe_panic();
        self.v.hash(h)
    }
}
impl fmt::Debug for PTok {
    fn fmt(&self, f: &mut fmt::Formatter) -> fmt::Result {
        maybe_panic();
        write!(f, "PTok({})", self.v)
    }
}
impl fmt::Display for PTok {
    fn fmt(&self, f: &mut fmt::Formatter) -> fmt::Result {
        maybe_panic();
        write!(f, "ptok{}", self.v)
    }
}

/// run `op` with the payload impls armed or not; `counts` reads every count that must not move
fn guarded(mode: u64, counts: &dyn Fn() -> Vec<usize>, op: &mut dyn FnMut(&dyn Fn())) -> (u64, u64) {
    let before = counts();
    let during_ok = Cell::new(true);
    let probe = || {
        if counts() != before {
            during_ok.set(false)
        }
    };
    PANIC_IN_IMPL.with(|p| p.set(mode == 1));
    let r = catch_unwind(AssertUnwindSafe(|| op(&probe)));
    PANIC_IN_IMPL.with(|p| p.set(false));
    let same = during_ok.get() && counts() == before;
    (r.is_err() as u64, same as u64)
}

fn basic_ops<A: PartialEq + fmt::Debug>(a: &A, b: &A, which: u64, mode: u64, counts: &dyn Fn() -> Vec<usize>) -> Option<(u64, u64)> {
    let mut f: Box<dyn FnMut(&dyn Fn())> = match which {
        0 => Box::new(|_| {
            let _ = a == b;
        }),
        1 => Box::new(|_| {
            let _ = a != b;
        }),
        6 => Box::new(|_| {
            let _ = format!("{:?} {:#?}", a, b);
        }),
        _ => return None,
    };
    Some(guarded(mode, counts, &mut *f))
}
fn rich_ops<A: PartialEq + PartialOrd + Ord + Hash + fmt::Debug>(a: &A, b: &A, which: u64, mode: u64, counts: &dyn Fn() -> Vec<usize>) -> Option<(u64, u64)> {
    let mut f: Box<dyn FnMut(&dyn Fn())> = match which {
        2 => Box::new(|_| {
            let _ = a.partial_cmp(b);
        }),
        3 => Box::new(|_| {
            let _ = a < b;
        }),
        4 => Box::new(|_| {
            let _ = a.cmp(b);
        }),
        5 => Box::new(|_| {
            let _ = hbytes(a);
        }),
        _ => return basic_ops(a, b, which, mode, counts),
    };
    Some(guarded(mode, counts, &mut *f))
}

fn effects_case(op: &[u64]) -> Vec<u64> {
    if op.len() != 4 || op[1] > 5 || op[2] > 7 || op[3] > 1 {
        return vec![99];
    }
    let (kind, which, mode) = (op[1], op[2], op[3]);
    tok::reset();
    let _ = talloc::drain();
    talloc::record(true);
    let r: Option<(u64, u64)> = match kind {
        0 => {
            let (a, b) = (Arc::new(PTok::new(1)), Arc::new(PTok::new(2)));
            let (wa, wb) = (a.clone(), b.clone());
            let counts = || vec![Arc::strong_count(&wa), Arc::strong_count(&wb)];
            if which == 7 {
                let mut f = |_: &dyn Fn()| {
                    let _ = format!("{} {:>8}", a, b);
                };
                Some(guarded(mode, &counts, &mut f))
            } else {
                rich_ops(&a, &b, which, mode, &counts)
            }
        }
        1 => {
            let (a, b) = (Arc::new(PTok::new(1)), Arc::new(PTok::new(2)));
            let (wa, wb) = (a.clone(), b.clone());
            let (oa, ob) = (Arc::into_raw_offset(a), Arc::into_raw_offset(b));
            let counts = || vec![Arc::strong_count(&wa), Arc::strong_count(&wb)];
            basic_ops(&oa, &ob, which, mode, &counts)
        }
        2 => {
            let (a, b) = (Arc::new(PTok::new(1)), Arc::new(PTok::new(2)));
            let (ba, bb) = (a.borrow_arc(), b.borrow_arc());
            let counts = || vec![Arc::strong_count(&a), Arc::strong_count(&b)];
            basic_ops(&ba, &bb, which, mode, &counts)
        }
        3 => {
            let (a, b) = (Arc::new(PTok::new(1)), Arc::new(PTok::new(2)));
            let (wa, wb) = (a.clone(), b.clone());
            let (ua, ub) = (ArcUnion::<PTok, (PTok, u8)>::from_first(a), ArcUnion::<PTok, (PTok, u8)>::from_first(b));
            let counts = || vec![Arc::strong_count(&wa), Arc::strong_count(&wb)];
            basic_ops(&ua, &ub, which, mode, &counts)
        }
        4 => {
            let a = ThinArc::from_header_and_iter(PTok::new(1), vec![PTok::new(3), PTok::new(4)].into_iter());
            let b = ThinArc::from_header_and_iter(PTok::new(1), vec![PTok::new(3), PTok::new(5)].into_iter());
            let (wa, wb) = (a.clone(), b.clone());
            let counts = || vec![ThinArc::strong_count(&wa), ThinArc::strong_count(&wb)];
            rich_ops(&a, &b, which, mode, &counts)
        }
        _ => {
            let a = Arc::from_header_and_iter(HeaderWithLength::new(PTok::new(1), 2), vec![PTok::new(3), PTok::new(4)].into_iter());
            let b = Arc::from_header_and_iter(HeaderWithLength::new(PTok::new(1), 2), vec![PTok::new(3), PTok::new(5)].into_iter());
            let (wa, wb) = (a.clone(), b.clone());
            let counts = || vec![Arc::strong_count(&wa), Arc::strong_count(&wb)];
            rich_ops(&a, &b, which, mode, &counts)
        }
    };
    talloc::record(false);
    let evs = talloc::drain();
    let bad = evs.iter().filter(|e| matches!(e, Ev::BadDtor { .. } | Ev::BadRead { .. } | Ev::BadDealloc { .. } | Ev::UnknownDealloc { .. } | Ev::Overrun { .. })).count() as u64;
    let dt = evs.iter().filter(|e| matches!(e, Ev::Dtor { .. })).count() as u64;
    match r {
        Some((status, same)) => vec![status, same, bad, dt],
        None => vec![2, 1, bad, dt],
    }
}

/// `[8, x, y]`: an `ArcUnion<T, T>` (equal types): the SAME allocation held once as First and once as Second, and the
/// same variant of one allocation twice.  observation `[First(a) == Second(a), !=, First(a) == First(a), First(a) == Second(b)]`
fn same_alloc_union(op: &[u64]) -> Vec<u64> {
    if op.len() != 3 || op[1] > 2 || op[2] > 2 {
        return vec![99];
    }
    let a = Arc::new(P0(op[1] as u8));
    let b = Arc::new(P0(op[2] as u8));
    let f = ArcUnion::<P0, P0>::from_first(a.clone());
    let f2 = ArcUnion::<P0, P0>::from_first(a.clone());
    let s = ArcUnion::<P0, P0>::from_second(a.clone());
    let sb = ArcUnion::<P0, P0>::from_second(b);
    vec![(f == s) as u64, (f != s) as u64, (f == f2) as u64, (f == sb) as u64]
}
