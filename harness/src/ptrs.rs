//! `ptr` stream (C11, C12): what the raw-pointer forms, the borrowed forms and ArcUnion hand out, relative
//! to the block the allocator returned; handle widths.  One case = one op `[hidx, tidx, form, len]`.
use crate::shapes::*;
use crate::talloc::{self, Ev};
use std::mem::size_of;
use std::panic::{catch_unwind, AssertUnwindSafe};
use triomphe::{Arc, ArcBorrow, ArcUnion, OffsetArc, ThinArc, UniqueArc};

const ST_OK: u64 = 0;
const ST_PANIC: u64 = 1;
const ST_NA: u64 = 2;

/// the live allocation (made while `f` ran) that contains `addr`, as (base, size, align)
fn block_of(evs: &[Ev], addr: usize) -> Option<(usize, usize, usize)> {
    let mut live: Vec<(usize, usize, usize)> = Vec::new();
    for e in evs {
        match *e {
            Ev::Alloc { ptr, size, align } => live.push((ptr, size, align)),
            Ev::Dealloc { ptr, .. } => live.retain(|x| x.0 != ptr),
            _ => {}
        }
    }
    live.into_iter().rev().find(|b| b.0 <= addr && addr <= b.0 + b.1)
}

fn released_ok(evs: &[Ev], block: (usize, usize, usize)) -> u64 {
    let mut ok = 0;
    for e in evs {
        match *e {
            Ev::Dealloc { ptr, size, align } if ptr == block.0 => ok = (size == block.1 && align == block.2) as u64,
            Ev::BadDealloc { .. } | Ev::UnknownDealloc { .. } | Ev::Overrun { .. } => return 0,
            _ => {}
        }
    }
    ok
}

fn recorded<R>(f: impl FnOnce() -> R) -> (R, Vec<Ev>) {
    let _ = talloc::drain();
    talloc::record(true);
    let r = f();
    talloc::record(false);
    (r, talloc::drain())
}

fn form0<T: Shape>() -> Vec<u64> {
    let (a, evs) = recorded(|| Arc::new(T::make(7)));
    let data = &*a as *const T as usize;
    let blk = match block_of(&evs, data) {
        Some(b) => b,
        None => return vec![ST_NA],
    };
    let base = blk.0;
    let as_ptr = Arc::as_ptr(&a) as usize;
    let heap = a.heap_ptr() as usize;
    let b = a.clone();
    let moved = b; // a move
    let stable = (Arc::as_ptr(&moved) as usize == as_ptr && Arc::as_ptr(&a) as usize == as_ptr) as u64;
    drop(moved);
    let raw = Arc::into_raw(a);
    let into_raw = raw as usize;
    let a = unsafe { Arc::from_raw(raw) };
    let rt_ok = (a.heap_ptr() as usize == heap && Arc::count(&a) == 1 && a.tag() == (if T::SIZE > 0 { 7 } else { 0 }) && &*a as *const T as usize == data) as u64;
    let o = Arc::into_raw_offset(a);
    let offbits = unsafe { std::ptr::read(&o as *const OffsetArc<T> as *const usize) };
    let borrow = o.borrow_arc();
    let borrowbits = unsafe { std::ptr::read(&borrow as *const ArcBorrow<T> as *const usize) };
    let c = borrow.clone_arc();
    let same = (c.heap_ptr() as usize == heap) as u64;
    drop(c);
    let a = Arc::from_raw_offset(o);
    let back = (a.heap_ptr() as usize == heap && Arc::count(&a) == 1) as u64;
    let (_, evs2) = recorded(|| drop(a));
    vec![
        ST_OK,
        (as_ptr - base) as u64,
        (as_ptr == data) as u64,
        (into_raw - base) as u64,
        rt_ok,
        (offbits.wrapping_sub(base)) as u64,
        (borrowbits.wrapping_sub(base)) as u64,
        same & back,
        (heap - base) as u64,
        size_of::<Arc<T>>() as u64,
        size_of::<Option<Arc<T>>>() as u64,
        size_of::<OffsetArc<T>>() as u64,
        size_of::<Option<OffsetArc<T>>>() as u64,
        size_of::<ArcBorrow<T>>() as u64,
        size_of::<UniqueArc<T>>() as u64,
        size_of::<Option<UniqueArc<T>>>() as u64,
        stable,
        released_ok(&evs2, blk),
    ]
}

fn form1<T: Shape>(len: usize) -> Vec<u64> {
    let v: Vec<T> = (0..len).map(|i| T::make(i as u8)).collect();
    let (a, evs) = recorded(|| Arc::<[T]>::from(v));
    let data = (&a[..]).as_ptr() as usize;
    let heap = a.heap_ptr() as usize;
    let blk = match block_of(&evs, heap) {
        Some(b) => b,
        None => return vec![ST_NA],
    };
    let as_ptr = Arc::as_ptr(&a) as *const T as usize;
    let raw = Arc::into_raw(a);
    let a = unsafe { Arc::from_raw_slice(raw) };
    let rt_ok = (a.heap_ptr() as usize == heap && a.len() == len && (&a[..]).as_ptr() as usize == data && Arc::count(&a) == 1) as u64;
    let (_, evs2) = recorded(|| drop(a));
    vec![ST_OK, (as_ptr - blk.0) as u64, (as_ptr == data) as u64, rt_ok, size_of::<Arc<[T]>>() as u64, size_of::<Option<Arc<[T]>>>() as u64, released_ok(&evs2, blk)]
}

fn form2<T: Shape>() -> Vec<u64> {
    let (a, evs) = recorded(|| Arc::new(T::make(5)));
    let heap = a.heap_ptr() as usize;
    let blk = match block_of(&evs, heap) {
        Some(b) => b,
        None => return vec![ST_NA],
    };
    let raw = Arc::into_raw(a);
    let d: Arc<dyn Dy> = unsafe { Arc::from_raw(raw as *const dyn Dy) };
    let as_ptr = Arc::as_ptr(&d) as *const u8 as usize;
    let rt_ok = (d.heap_ptr() as usize == heap && d.sz() == T::SIZE && d.tag() == if T::SIZE > 0 { 5 } else { 0 } && Arc::count(&d) == 1) as u64;
    let raw2 = Arc::into_raw(d);
    let d2: Arc<dyn Dy> = unsafe { Arc::from_raw(raw2) };
    let rt2 = (d2.heap_ptr() as usize == heap) as u64;
    let (_, evs2) = recorded(|| drop(d2));
    vec![ST_OK, (as_ptr - blk.0) as u64, rt_ok & rt2, size_of::<Arc<dyn Dy>>() as u64, size_of::<Option<Arc<dyn Dy>>>() as u64, released_ok(&evs2, blk)]
}

fn form3<H: Shape, T: Shape>(len: usize) -> Vec<u64> {
    let v: Vec<T> = (0..len).map(|i| T::make(i as u8)).collect();
    let (t, evs) = recorded(|| ThinArc::from_header_and_slice(H::make(9), &v));
    let heap = t.heap_ptr() as usize;
    let blk = match block_of(&evs, heap) {
        Some(b) => b,
        None => return vec![ST_NA],
    };
    let deref = &*t as *const _ as *const u8 as usize;
    let as_ptr = t.as_ptr() as usize;
    let raw = t.into_raw();
    let into_raw = raw as usize;
    let t = unsafe { ThinArc::<H, T>::from_raw(raw) };
    let rt_ok = (t.heap_ptr() as usize == heap && t.slice.len() == len && ThinArc::strong_count(&t) == 1 && t.header.header.tag() == if H::SIZE > 0 { 9 } else { 0 }) as u64;
    let (_, evs2) = recorded(|| drop(t));
    vec![ST_OK, (as_ptr - blk.0) as u64, (deref - blk.0) as u64, (heap - blk.0) as u64, (into_raw - blk.0) as u64, rt_ok,
         size_of::<ThinArc<H, T>>() as u64, size_of::<Option<ThinArc<H, T>>>() as u64, released_ok(&evs2, blk)]
}

fn union_obs<A: Shape, B: Shape>(u: ArcUnion<A, B>, base: usize, blk: (usize, usize, usize)) -> Vec<u64> {
    let baddr = match u.borrow() {
        triomphe::ArcUnionBorrow::First(x) => &*x as *const A as usize,
        triomphe::ArcUnionBorrow::Second(x) => &*x as *const B as usize,
    };
    let c = u.clone();
    let cnt = ArcUnion::strong_count(&u) as u64;
    let peq = ArcUnion::ptr_eq(&u, &c) as u64;
    let same_variant = (c.is_first() == u.is_first()) as u64;
    drop(c);
    let cnt_after = ArcUnion::strong_count(&u) as u64;
    let mut v = vec![ST_OK, u.is_first() as u64, u.is_second() as u64, u.as_first().is_some() as u64, u.as_second().is_some() as u64,
                     baddr.wrapping_sub(base) as u64, cnt, peq & same_variant, cnt_after];
    let (_, evs2) = recorded(|| drop(u));
    v.push(released_ok(&evs2, blk));
    v.push(size_of::<ArcUnion<A, B>>() as u64);
    v.push(size_of::<Option<ArcUnion<A, B>>>() as u64);
    v
}

fn form4<A: Shape, B: Shape>() -> Vec<u64> {
    let (a, evs) = recorded(|| Arc::new(A::make(3)));
    let heap = a.heap_ptr() as usize;
    let blk = match block_of(&evs, heap) {
        Some(b) => b,
        None => return vec![ST_NA],
    };
    union_obs(ArcUnion::<A, B>::from_first(a), blk.0, blk)
}

fn form5<A: Shape, B: Shape>() -> Vec<u64> {
    let (b, evs) = recorded(|| Arc::new(B::make(4)));
    let heap = b.heap_ptr() as usize;
    let blk = match block_of(&evs, heap) {
        Some(b) => b,
        None => return vec![ST_NA],
    };
    union_obs(ArcUnion::<A, B>::from_second(b), blk.0, blk)
}

#[cfg(feature = "cfg_all")]
fn form6<H: Shape, T: Shape>(len: usize) -> Vec<u64> {
    use arc_swap::RefCnt;
    let (a, evs) = recorded(|| Arc::new(T::make(7)));
    let heap = a.heap_ptr() as usize;
    let blk = match block_of(&evs, heap) {
        Some(b) => b,
        None => return vec![ST_NA],
    };
    let asp = <Arc<T> as RefCnt>::as_ptr(&a) as usize;
    let ip = <Arc<T> as RefCnt>::into_ptr(a);
    let a = unsafe { <Arc<T> as RefCnt>::from_ptr(ip) };
    let rt = (a.heap_ptr() as usize == heap && Arc::count(&a) == 1) as u64;
    drop(a);
    // the glue in use: a value held by an ArcSwapAny and by one more handle; borrowing guards (load) and an owning
    // load (load_full) come and go, then the ArcSwapAny itself.  [count once they are gone, count once it is gone]
    let (c1, c2) = {
        let a = Arc::new(T::make(5));
        let keep = a.clone();
        let s = arc_swap::ArcSwapAny::<Arc<T>>::new(a);
        swap_use(s, || Arc::count(&keep) as u64)
    };
    if T::SIZE == 0 {
        return vec![ST_OK, (asp - blk.0) as u64, (ip as usize - blk.0) as u64, rt, 0, 0, 1, c1, c2, 2, 1];
    }
    let v: Vec<T> = (0..len).map(|i| T::make(i as u8)).collect();
    let (t, evs) = recorded(|| ThinArc::from_header_and_slice(H::make(9), &v));
    let theap = t.heap_ptr() as usize;
    let tb = block_of(&evs, theap).map(|b| b.0).unwrap_or(0);
    let tasp = <ThinArc<H, T> as RefCnt>::as_ptr(&t) as usize;
    let tip = <ThinArc<H, T> as RefCnt>::into_ptr(t);
    let t = unsafe { <ThinArc<H, T> as RefCnt>::from_ptr(tip) };
    let trt = (t.heap_ptr() as usize == theap && ThinArc::strong_count(&t) == 1) as u64;
    drop(t);
    let (tc1, tc2) = {
        let t = ThinArc::from_header_and_slice(H::make(9), &v);
        let keep = t.clone();
        let s = arc_swap::ArcSwapAny::<ThinArc<H, T>>::new(t);
        swap_use(s, || ThinArc::strong_count(&keep) as u64)
    };
    vec![ST_OK, (asp - blk.0) as u64, (ip as usize - blk.0) as u64, rt, (tasp - tb) as u64, (tip as usize - tb) as u64, trt, c1, c2, tc1, tc2]
}

/// one guard at a time, the count read after each step; on the first wrong count everything is leaked (the block may
/// already be gone) and that count is the answer
#[cfg(feature = "cfg_all")]
fn swap_use<R: arc_swap::RefCnt>(s: arc_swap::ArcSwapAny<R>, count: impl Fn() -> u64) -> (u64, u64) {
    let mut wrong: Option<u64> = None;
    'steps: {
        if count() != 2 {
            wrong = Some(count());
            break 'steps;
        }
        let g1 = s.load();
        drop(g1);
        if count() != 2 {
            wrong = Some(count());
            break 'steps;
        }
        let g1 = s.load();
        let g2 = s.load();
        drop(g1);
        if count() != 2 {
            wrong = Some(count());
            std::mem::forget(g2);
            break 'steps;
        }
        drop(g2);
        if count() != 2 {
            wrong = Some(count());
            break 'steps;
        }
        let full = s.load_full();
        if count() != 3 {
            wrong = Some(count());
            std::mem::forget(full);
            break 'steps;
        }
        drop(full);
        if count() != 2 {
            wrong = Some(count());
        }
    }
    if let Some(c) = wrong {
        std::mem::forget(s);
        return (c, 0);
    }
    // the ArcSwapAny gives its handle up
    drop(s.into_inner());
    (2, count())
}

#[cfg(not(feature = "cfg_all"))]
fn form6<H: Shape, T: Shape>(len: usize) -> Vec<u64> {
    // without the arc-swap feature the glue does not exist; it is specified to be these plain functions
    let (a, evs) = recorded(|| Arc::new(T::make(7)));
    let heap = a.heap_ptr() as usize;
    let blk = match block_of(&evs, heap) {
        Some(b) => b,
        None => return vec![ST_NA],
    };
    let asp = Arc::as_ptr(&a) as usize;
    let ip = Arc::into_raw(a);
    let a = unsafe { Arc::from_raw(ip) };
    let rt = (a.heap_ptr() as usize == heap && Arc::count(&a) == 1) as u64;
    drop(a);
    if T::SIZE == 0 {
        return vec![ST_OK, (asp - blk.0) as u64, (ip as usize - blk.0) as u64, rt, 0, 0, 1, 2, 1, 2, 1];
    }
    let v: Vec<T> = (0..len).map(|i| T::make(i as u8)).collect();
    let (t, evs) = recorded(|| ThinArc::from_header_and_slice(H::make(9), &v));
    let theap = t.heap_ptr() as usize;
    let tb = block_of(&evs, theap).map(|b| b.0).unwrap_or(0);
    let tasp = t.as_ptr() as usize;
    let tip = t.into_raw();
    let t = unsafe { ThinArc::<H, T>::from_raw(tip) };
    let trt = (t.heap_ptr() as usize == theap && ThinArc::strong_count(&t) == 1) as u64;
    drop(t);
    // (the counts an ArcSwapAny would leave behind: 2 with its handle, 1 without)
    vec![ST_OK, (asp - blk.0) as u64, (ip as usize - blk.0) as u64, rt, (tasp - tb) as u64, (tip as usize - tb) as u64, trt, 2, 1, 2, 1]
}

fn run<H: Shape, T: Shape>(form: u64, len: usize) -> Vec<u64> {
    let r = catch_unwind(AssertUnwindSafe(|| match form {
        0 => form0::<T>(),
        1 => form1::<T>(len),
        2 => form2::<T>(),
        3 => form3::<H, T>(len),
        4 => form4::<T, H>(),
        5 => form5::<T, H>(),
        6 => form6::<H, T>(len),
        _ => vec![ST_NA],
    }));
    talloc::record(false);
    match r {
        Ok(v) => v,
        Err(_) => vec![ST_PANIC],
    }
}

struct HV {
    tidx: usize,
    form: u64,
    len: usize,
}
struct TV<H: Shape> {
    form: u64,
    len: usize,
    _p: std::marker::PhantomData<H>,
}
impl Visitor1 for HV {
    type Out = Option<Vec<u64>>;
    fn visit<H: Shape>(self) -> Self::Out {
        dispatch1(self.tidx, TV::<H> { form: self.form, len: self.len, _p: Default::default() })
    }
}
impl<H: Shape> Visitor1 for TV<H> {
    type Out = Vec<u64>;
    fn visit<T: Shape>(self) -> Self::Out {
        run::<H, T>(self.form, self.len)
    }
}

pub fn run_case(ops: &[Vec<u64>]) -> Vec<Vec<u64>> {
    let mut outs = Vec::new();
    for op in ops {
        if op.len() != 4 || op[3] > 64 {
            outs.push(vec![99]);
            continue;
        }
        match dispatch_h(op[0] as usize, HV { tidx: op[1] as usize, form: op[2], len: op[3] as usize }) {
            Some(Some(v)) => outs.push(v),
            _ => outs.push(vec![98]),
        }
    }
    outs
}
