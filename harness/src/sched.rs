//! Schedule stream: real threads of the real crate, driven one visible step at a time through a schedule that the
//! ConcX machine (coq/theories/SchedCases.v) has accepted.
//!
//! Every worker thread blocks after each atomic operation on the counter (in the hook's observer), when the shared
//! payload's destructor is entered and when the payload is cloned; the controller releases exactly one worker per
//! label, so the execution is the serialisation the schedule describes.  A load can be handed an older value of the
//! counter's modification order (the hook's load filter), which the memory model allows.  Independently of the model
//! the controller keeps the happens-before bookkeeping of a release/acquire memory (views: a timestamp on the counter
//! and the set of accesses known to have happened before) fed by the orderings the crate REALLY used, and reports data
//! races, accesses after the release of the block, double destruction, double release and leaks.
//!
//! case:   [199 n] ; [kind t arg class fin] ...      (labels as in SchedCases.v, accepted ones only)
//! output: [kind t arg class fin op ord old] per label, [900 destroyed freed raced leaked owned_0 mode_0 ...],
//!         [901 bad_read bad_destroy unknown_dealloc panics]
use crate::talloc::{self, Ev};
use std::cell::Cell;
use std::sync::atomic::{AtomicBool, AtomicUsize, Ordering::SeqCst};
use std::sync::{Condvar, Mutex};
use triomphe::{Arc, OffsetArc, UniqueArc};

const CTL: usize = usize::MAX;
const MAGIC: u64 = 0x5CED_0A11_FE5A_A55A;
const DEAD: u64 = 0xDEAD_DEAD_DEAD_DEAD;

static PAYLOAD_ADDR: AtomicUsize = AtomicUsize::new(0);
static COUNT_ADDR: AtomicUsize = AtomicUsize::new(0);
static FREE_RUN: AtomicBool = AtomicBool::new(true);

thread_local! {
    static WID: Cell<usize> = Cell::new(CTL);
    static NEXT_LOAD: Cell<Option<usize>> = Cell::new(None);
}

pub struct SPay {
    magic: u64,
    val: u64,
}

fn gated() -> bool {
    WID.with(|w| w.get()) != CTL && !FREE_RUN.load(SeqCst)
}

impl Clone for SPay {
    fn clone(&self) -> SPay {
        let (m, v) = unsafe { (std::ptr::read_volatile(&self.magic), std::ptr::read_volatile(&self.val)) };
        if gated() && self as *const SPay as usize == PAYLOAD_ADDR.load(SeqCst) {
            gate(Msg::CloneVal { ok: m == MAGIC });
        }
        SPay { magic: MAGIC, val: v }
    }
}

impl Drop for SPay {
    fn drop(&mut self) {
        if self as *const SPay as usize == PAYLOAD_ADDR.load(SeqCst) {
            let m = unsafe { std::ptr::read_volatile(&self.magic) };
            if gated() {
                gate(Msg::Destroy { ok: m == MAGIC });
            }
            unsafe { std::ptr::write_volatile(&mut self.magic, DEAD) };
        }
    }
}

/// the same without a destructor: `needs_drop::<PPay>()` is false
pub struct PPay {
    magic: u64,
    val: u64,
}

impl Clone for PPay {
    fn clone(&self) -> PPay {
        let (m, v) = unsafe { (std::ptr::read_volatile(&self.magic), std::ptr::read_volatile(&self.val)) };
        if gated() && self as *const PPay as usize == PAYLOAD_ADDR.load(SeqCst) {
            gate(Msg::CloneVal { ok: m == MAGIC });
        }
        PPay { magic: MAGIC, val: v }
    }
}

trait Pay: Clone + Send + Sync + 'static {
    const HAS_DROP: bool;
    fn fresh() -> Self;
    fn magic_ok(p: *const Self) -> bool;
    fn bump(&mut self);
}

impl Pay for SPay {
    const HAS_DROP: bool = true;
    fn fresh() -> SPay {
        SPay { magic: MAGIC, val: 7 }
    }
    fn magic_ok(p: *const SPay) -> bool {
        unsafe { std::ptr::read_volatile(&(*p).magic) == MAGIC }
    }
    fn bump(&mut self) {
        self.val = self.val.wrapping_add(1);
    }
}

impl Pay for PPay {
    const HAS_DROP: bool = false;
    fn fresh() -> PPay {
        PPay { magic: MAGIC, val: 7 }
    }
    fn magic_ok(p: *const PPay) -> bool {
        unsafe { std::ptr::read_volatile(&(*p).magic) == MAGIC }
    }
    fn bump(&mut self) {
        self.val = self.val.wrapping_add(1);
    }
}

enum Cmd {
    Clone,
    Read,
    Write,
    Ungrant,
    MoveOut,
    Take,
    /// a handle as a raw pointer (`Arc::into_raw`: the count is not touched)
    Give(usize),
    Reserve,
    Start(u64, Option<usize>),
    Continue(Option<usize>),
    Finish,
    Exit,
}

enum Res {
    Unit,
    Read { ok: bool },
    Granted,
    NotGranted,
    /// make_mut redirected the handle to a fresh allocation (the old one was given up)
    Cloned,
    Value,
    Handle(usize),
    Missing,
    Panicked,
}

enum Msg {
    Atomic { op: u8, ord: u64, old: usize, new: usize },
    CloneVal { ok: bool },
    Destroy { ok: bool },
    Done(Res),
}

struct Shared {
    turn: usize,
    msg: Option<Msg>,
    cmd: Vec<Option<Cmd>>,
}

static SH: Mutex<Option<Shared>> = Mutex::new(None);
static CV: Condvar = Condvar::new();

fn post(m: Msg) {
    let mut g = SH.lock().unwrap_or_else(|e| e.into_inner());
    let s = g.as_mut().unwrap();
    s.msg = Some(m);
    s.turn = CTL;
    CV.notify_all();
}

fn wait_cmd(id: usize) -> Cmd {
    let mut g = SH.lock().unwrap_or_else(|e| e.into_inner());
    loop {
        {
            let s = g.as_mut().unwrap();
            if s.turn == id {
                if let Some(c) = s.cmd[id].take() {
                    return c;
                }
            }
        }
        g = CV.wait(g).unwrap_or_else(|e| e.into_inner());
    }
}

/// worker side: report an event and block until released
fn gate(m: Msg) {
    let id = WID.with(|w| w.get());
    post(m);
    match wait_cmd(id) {
        Cmd::Continue(o) => NEXT_LOAD.with(|n| n.set(o)),
        _ => {}
    }
}

/// controller side: hand a command to worker `t`, wait for its next message
fn send(t: usize, c: Cmd) -> Msg {
    let mut g = SH.lock().unwrap_or_else(|e| e.into_inner());
    {
        let s = g.as_mut().unwrap();
        s.cmd[t] = Some(c);
        s.turn = t;
        CV.notify_all();
    }
    loop {
        {
            let s = g.as_mut().unwrap();
            if s.turn == CTL {
                if let Some(m) = s.msg.take() {
                    return m;
                }
            }
        }
        g = CV.wait(g).unwrap_or_else(|e| e.into_inner());
    }
}

fn ord_code(o: std::sync::atomic::Ordering) -> u64 {
    use std::sync::atomic::Ordering::*;
    match o {
        Relaxed => 0,
        Release => 1,
        Acquire => 2,
        AcqRel => 3,
        SeqCst => 4,
        _ => 9,
    }
}

#[cfg(triomphe_verif)]
fn observer(addr: usize, op: u8, ord: std::sync::atomic::Ordering, old: usize, new: usize) {
    if op == 0 || !gated() || addr != COUNT_ADDR.load(SeqCst) {
        return;
    }
    gate(Msg::Atomic { op, ord: ord_code(ord), old, new });
}

#[cfg(triomphe_verif)]
fn load_filter(addr: usize, _ord: std::sync::atomic::Ordering, latest: usize) -> usize {
    if !gated() || addr != COUNT_ADDR.load(SeqCst) {
        return latest;
    }
    NEXT_LOAD.with(|n| n.take()).unwrap_or(latest)
}

fn install() {
    #[cfg(triomphe_verif)]
    {
        triomphe::verif_atomic::set_observer(Some(observer));
        triomphe::verif_atomic::set_load_filter(Some(load_filter));
    }
}

fn uninstall() {
    #[cfg(triomphe_verif)]
    {
        triomphe::verif_atomic::set_observer(None);
        triomphe::verif_atomic::set_load_filter(None);
    }
}

/// a handle as the worker holds it between operations: an `Arc`, or the same reference as an `OffsetArc` (its clone
/// and drop go through `OffsetArc::clone` / `OffsetArc::drop`; conversions do not touch the count)
enum Hd<T> {
    A(Arc<T>),
    O(OffsetArc<T>),
}

impl<T> Hd<T> {
    fn wrap(a: Arc<T>, offset: bool) -> Hd<T> {
        if offset {
            Hd::O(Arc::into_raw_offset(a))
        } else {
            Hd::A(a)
        }
    }
    fn into_arc(self) -> Arc<T> {
        match self {
            Hd::A(a) => a,
            Hd::O(o) => Arc::from_raw_offset(o),
        }
    }
    fn dup(&self) -> Hd<T> {
        match self {
            Hd::A(a) => Hd::A(a.clone()),
            Hd::O(o) => Hd::O(o.clone()),
        }
    }
    fn ptr(&self) -> *const T {
        match self {
            Hd::A(a) => &**a as *const T,
            Hd::O(o) => &**o as *const T,
        }
    }
}

struct WState<T> {
    handles: Vec<Hd<T>>,
    unique: Option<UniqueArc<T>>,
    /// a handle whose `get_mut` / `make_mut` handed out `&mut T` (kept as a raw pointer while the grant lasts)
    mut_handle: Option<(Arc<T>, *mut T)>,
    pending: Option<Hd<T>>,
    moved: Vec<T>,
    /// handles that `make_mut` redirected to a fresh allocation of their own
    others: Vec<Arc<T>>,
}

fn worker<T: Pay>(id: usize, offset: bool) {
    WID.with(|w| w.set(id));
    let mut st: WState<T> = WState { handles: Vec::with_capacity(64), unique: None, mut_handle: None, pending: None, moved: Vec::with_capacity(16), others: Vec::with_capacity(16) };
    post(Msg::Done(Res::Unit));
    loop {
        let cmd = wait_cmd(id);
        let res = match cmd {
            Cmd::Exit => {
                post(Msg::Done(Res::Unit));
                return;
            }
            Cmd::Finish => {
                st.handles.clear();
                st.unique = None;
                st.mut_handle = None;
                st.pending = None;
                st.moved.clear();
                st.others.clear();
                Res::Unit
            }
            Cmd::Clone => match st.handles.first() {
                Some(h) => {
                    let c = h.dup();
                    st.handles.push(c);
                    Res::Unit
                }
                None => Res::Missing,
            },
            Cmd::Read => {
                let p: Option<*const T> = match (st.handles.first(), st.unique.as_ref(), st.mut_handle.as_ref()) {
                    (Some(h), _, _) => Some(h.ptr()),
                    (None, Some(u), _) => Some(&**u as *const T),
                    (None, None, Some((_, p))) => Some(*p as *const T),
                    _ => None,
                };
                match p {
                    Some(p) => Res::Read { ok: T::magic_ok(p) },
                    None => Res::Missing,
                }
            }
            Cmd::Write => match (st.unique.as_mut(), st.mut_handle.as_ref()) {
                (Some(u), _) => {
                    let p: &mut T = &mut **u;
                    let ok = T::magic_ok(p as *const T);
                    p.bump();
                    Res::Read { ok }
                }
                (None, Some((_, p))) => {
                    let ok = T::magic_ok(*p as *const T);
                    unsafe { (**p).bump() };
                    Res::Read { ok }
                }
                _ => Res::Missing,
            },
            Cmd::Ungrant => match (st.unique.take(), st.mut_handle.take()) {
                (Some(u), _) => {
                    st.handles.push(Hd::wrap(u.shareable(), offset));
                    Res::Unit
                }
                (None, Some((h, _))) => {
                    st.handles.push(Hd::wrap(h, offset));
                    Res::Unit
                }
                _ => Res::Missing,
            },
            Cmd::MoveOut => match (st.unique.take(), st.mut_handle.take()) {
                (Some(u), _) => {
                    let v = UniqueArc::into_inner(u);
                    st.moved.push(v);
                    Res::Value
                }
                (None, Some((h, _))) => match Arc::try_unwrap(h) {
                    Ok(v) => {
                        st.moved.push(v);
                        Res::Value
                    }
                    Err(a) => {
                        st.handles.push(Hd::wrap(a, offset));
                        Res::NotGranted
                    }
                },
                _ => Res::Missing,
            },
            Cmd::Take => match st.handles.pop() {
                Some(h) => Res::Handle(Arc::into_raw(h.into_arc()) as usize),
                None => Res::Missing,
            },
            Cmd::Give(h) => {
                st.handles.push(Hd::wrap(unsafe { Arc::from_raw(h as *const T) }, offset));
                Res::Unit
            }
            Cmd::Reserve => match st.handles.pop() {
                Some(h) => {
                    st.pending = Some(h);
                    Res::Unit
                }
                None => Res::Missing,
            },
            Cmd::Start(kind, over) => {
                NEXT_LOAD.with(|n| n.set(over));
                match st.pending.take() {
                    None => Res::Missing,
                    Some(h) => {
                        if kind >= 10 {
                            // further entry points (make_mut and get_mut also in guided schedules)
                            let r = std::panic::catch_unwind(std::panic::AssertUnwindSafe(|| {
                                // a handle held as an OffsetArc is copied-on-write through OffsetArc::make_mut
                                if kind == 10 {
                                    if let Hd::O(mut o) = h {
                                        let before = &*o as *const T as usize;
                                        let p = o.make_mut() as *mut T;
                                        let same = p as usize == before;
                                        return (if same { Res::Granted } else { Res::Cloned }, Some(Arc::from_raw_offset(o)), p, None);
                                    }
                                }
                                let mut h = h.into_arc();
                                match kind {
                                    10 => {
                                        let before = Arc::heap_ptr(&h) as *const u8 as usize;
                                        let p = Arc::make_mut(&mut h) as *mut T;
                                        let same = Arc::heap_ptr(&h) as *const u8 as usize == before;
                                        (if same { Res::Granted } else { Res::Cloned }, Some(h), p, None)
                                    }
                                    11 => match Arc::get_mut(&mut h).map(|r| r as *mut T) {
                                        Some(p) => (Res::Granted, Some(h), p, None),
                                        None => (Res::NotGranted, Some(h), std::ptr::null_mut(), None),
                                    },
                                    12 => match Arc::try_unwrap(h) {
                                        Ok(v) => (Res::Value, None, std::ptr::null_mut(), Some(v)),
                                        Err(a) => (Res::NotGranted, Some(a), std::ptr::null_mut(), None),
                                    },
                                    _ => {
                                        let _ = h.is_unique();
                                        (Res::NotGranted, Some(h), std::ptr::null_mut(), None)
                                    }
                                }
                            }));
                            match r {
                                Ok((res, h, p, v)) => {
                                    if let Some(v) = v {
                                        st.moved.push(v);
                                    }
                                    if let Some(h) = h {
                                        match res {
                                            Res::Granted => st.mut_handle = Some((h, p)),
                                            Res::Cloned => st.others.push(h),
                                            _ => st.handles.push(Hd::wrap(h, offset)),
                                        }
                                    }
                                    post(Msg::Done(res));
                                }
                                Err(_) => post(Msg::Done(Res::Panicked)),
                            }
                            continue;
                        }
                        let r = std::panic::catch_unwind(std::panic::AssertUnwindSafe(|| match kind {
                            6 => {
                                drop(h);
                                (Res::Unit, None, None, None)
                            }
                            7 => match Arc::try_unique(h.into_arc()) {
                                Ok(u) => (Res::Granted, Some(u), None, None),
                                Err(a) => (Res::NotGranted, None, Some(a), None),
                            },
                            _ => {
                                let v = Arc::unwrap_or_clone(h.into_arc());
                                (Res::Value, None, None, Some(v))
                            }
                        }));
                        match r {
                            Ok((res, u, a, v)) => {
                                if let Some(u) = u {
                                    st.unique = Some(u);
                                }
                                if let Some(a) = a {
                                    st.handles.push(Hd::wrap(a, offset));
                                }
                                if let Some(v) = v {
                                    st.moved.push(v);
                                }
                                res
                            }
                            Err(_) => Res::Panicked,
                        }
                    }
                }
            }
            Cmd::Continue(_) => Res::Unit,
        };
        post(Msg::Done(res));
    }
}

// ---------------------------------------------------------------------------------------------------------------
// happens-before bookkeeping (an independent implementation of the release/acquire rules of Conc.v)
// ---------------------------------------------------------------------------------------------------------------
#[derive(Clone)]
struct View {
    ts: usize,
    acc: Vec<bool>,
}

impl View {
    fn new() -> View {
        View { ts: 0, acc: Vec::new() }
    }
    fn has(&self, i: usize) -> bool {
        i < self.acc.len() && self.acc[i]
    }
    fn add(&mut self, i: usize) {
        if self.acc.len() <= i {
            self.acc.resize(i + 1, false);
        }
        self.acc[i] = true;
    }
    fn join(&mut self, o: &View) {
        self.ts = self.ts.max(o.ts);
        if self.acc.len() < o.acc.len() {
            self.acc.resize(o.acc.len(), false);
        }
        for (i, b) in o.acc.iter().enumerate() {
            if *b {
                self.acc[i] = true;
            }
        }
    }
}

const K_READ: u8 = 0;
const K_WRITE: u8 = 1;
const K_DESTROY: u8 = 2;
const K_MOVEOUT: u8 = 3;
const K_FREE: u8 = 4;
const K_COUNT: u8 = 5;

fn conflicts(a: u8, b: u8) -> bool {
    if a == K_FREE || b == K_FREE {
        return true;
    }
    if a == K_COUNT || b == K_COUNT {
        return false;
    }
    !(a == K_READ && b == K_READ)
}

struct Det {
    msgs: Vec<(usize, View)>,
    accs: Vec<(usize, u8)>,
    views: Vec<View>,
    destroyed: bool,
    freed: bool,
    raced: bool,
}

impl Det {
    fn new(n: usize) -> Det {
        Det { msgs: vec![(1, View::new())], accs: Vec::new(), views: vec![View::new(); n], destroyed: false, freed: false, raced: false }
    }
    fn access(&mut self, t: usize, k: u8) {
        let v = &self.views[t];
        let r = self.accs.iter().enumerate().any(|(i, &(u, k2))| u != t && conflicts(k, k2) && !v.has(i)) || self.freed;
        let a = self.accs.len();
        self.accs.push((t, k));
        self.views[t].add(a);
        self.raced |= r;
    }
    fn rmw(&mut self, t: usize, ord: u64, new: usize) {
        self.access(t, K_COUNT);
        let (_, mv) = self.msgs.last().unwrap().clone();
        let idx = self.msgs.len();
        self.views[t].ts = self.views[t].ts.max(idx);
        if ord == 2 || ord == 3 || ord == 4 {
            let m = mv.clone();
            self.views[t].join(&m);
        }
        let mut nv = mv;
        if ord == 1 || ord == 3 || ord == 4 {
            let tv = self.views[t].clone();
            nv.join(&tv);
        }
        self.msgs.push((new, nv));
    }
    fn load(&mut self, t: usize, ord: u64, i: usize) {
        self.access(t, K_COUNT);
        let i = i.min(self.msgs.len() - 1);
        if ord == 2 || ord == 3 || ord == 4 {
            let m = self.msgs[i].1.clone();
            self.views[t].join(&m);
        }
        self.views[t].ts = self.views[t].ts.max(i);
    }
    fn destroy(&mut self, t: usize, k: u8) {
        self.access(t, k);
        self.raced |= self.destroyed;
        self.destroyed = true;
    }
    fn free(&mut self, t: usize) {
        self.access(t, K_FREE);
        self.freed = true;
    }
    fn send(&mut self, t: usize, u: usize) {
        let tv = self.views[t].clone();
        self.views[u].join(&tv);
    }
}

// ---------------------------------------------------------------------------------------------------------------
// controller
// ---------------------------------------------------------------------------------------------------------------
struct Ctl {
    n: usize,
    det: Det,
    owned: Vec<u64>,
    granted: Vec<bool>,
    pending: Vec<Option<u64>>, // reserved handle and the function to run on it
    inflight: Vec<bool>,
    held: Vec<Option<Msg>>,
    block: usize,
    bad_read: u64,
    bad_destroy: u64,
    unknown_dealloc: u64,
    panics: u64,
    real_freed: bool,
    has_drop: bool,
}

impl Ctl {
    /// did the block under test go back to the allocator since the last look?
    fn scan_allocator(&mut self) -> bool {
        let mut freed = false;
        for e in talloc::drain() {
            match e {
                Ev::Dealloc { ptr, .. } | Ev::BadDealloc { ptr, .. } if ptr == self.block => freed = true,
                Ev::UnknownDealloc { ptr } if ptr == self.block => self.unknown_dealloc += 1,
                _ => {}
            }
        }
        talloc::record(true);
        freed
    }
    /// the next message of worker `t`'s running function (starting it if it has not started)
    /// the next message that is not a re-read of the count by a debug assertion (`UniqueArc::from_arc`,
    /// `UniqueArc::into_inner`): used wherever the protocol has no atomic operation
    fn next_non_load(&mut self, t: usize) -> Msg {
        let mut m = self.next_event(t, None);
        loop {
            match m {
                Msg::Atomic { op: 1, .. } => m = send(t, Cmd::Continue(None)),
                _ => return m,
            }
        }
    }
    fn next_event(&mut self, t: usize, over: Option<usize>) -> Msg {
        if let Some(m) = self.held[t].take() {
            return m;
        }
        if !self.inflight[t] {
            match self.pending[t].take() {
                Some(kind) => {
                    self.inflight[t] = true;
                    send(t, Cmd::Start(kind, over))
                }
                None => Msg::Done(Res::Missing),
            }
        } else {
            send(t, Cmd::Continue(over))
        }
    }
    fn done(&mut self, t: usize, r: &Res) {
        self.inflight[t] = false;
        match r {
            Res::Granted => {
                self.owned[t] += 1;
                self.granted[t] = true;
            }
            Res::NotGranted => self.owned[t] += 1,
            Res::Panicked => self.panics += 1,
            _ => {}
        }
    }
}

fn msg_code(m: &Msg) -> u64 {
    match m {
        Msg::Atomic { .. } => 2,
        Msg::CloneVal { .. } => 4,
        Msg::Destroy { .. } => 3,
        Msg::Done(Res::Missing) => 8,
        Msg::Done(Res::Panicked) => 9,
        Msg::Done(_) => 1,
    }
}

/// free mode (search for a failing schedule on the implementation alone)
fn free_label(c: &mut Ctl, kind: u64, t: usize, arg: usize) -> Option<Vec<u64>> {
    let n = c.n;
    if t >= n {
        return None;
    }
    let busy = |c: &Ctl, t: usize| c.inflight[t] || c.pending[t].is_some();
    let nh = |c: &Ctl, t: usize| c.owned[t] - (c.granted[t] as u64);
    let mut o = vec![kind, t as u64, arg as u64, 0, 0, 0, 0, 0];
    match kind {
        0 => {
            if nh(c, t) == 0 || busy(c, t) || c.granted[t] {
                return None;
            }
            match send(t, Cmd::Clone) {
                Msg::Atomic { op, ord, old, new } => {
                    c.det.rmw(t, ord, new);
                    o[3] = 2;
                    o[5] = op as u64;
                    o[6] = ord.min(3);
                    o[7] = old as u64;
                    if let Msg::Done(Res::Unit) = send(t, Cmd::Continue(None)) {
                        c.owned[t] += 1;
                    }
                }
                _ => o[3] = 9,
            }
        }
        1 => {
            if c.owned[t] == 0 || busy(c, t) {
                return None;
            }
            if let Msg::Done(Res::Read { ok }) = send(t, Cmd::Read) {
                c.det.access(t, K_READ);
                if !ok {
                    c.bad_read += 1;
                }
            }
        }
        2 | 3 | 4 => {
            if !c.granted[t] || busy(c, t) {
                return None;
            }
            match kind {
                2 => {
                    if let Msg::Done(Res::Read { ok }) = send(t, Cmd::Write) {
                        c.det.access(t, K_WRITE);
                        if !ok {
                            c.bad_read += 1;
                        }
                    }
                }
                3 => {
                    send(t, Cmd::Ungrant);
                    c.granted[t] = false;
                }
                _ => {
                    let mut m = send(t, Cmd::MoveOut);
                    loop {
                        match m {
                            Msg::Atomic { op, ord, new, .. } => {
                                if op == 1 {
                                    let i = c.det.msgs.len() - 1;
                                    c.det.load(t, ord, i);
                                } else {
                                    c.det.rmw(t, ord, new);
                                }
                                m = send(t, Cmd::Continue(None));
                            }
                            Msg::Destroy { .. } | Msg::CloneVal { .. } => m = send(t, Cmd::Continue(None)),
                            Msg::Done(_) => break,
                        }
                    }
                    c.granted[t] = false;
                    if let Msg::Done(Res::Value) = m {
                        c.owned[t] -= 1;
                        c.det.destroy(t, K_MOVEOUT);
                        if c.scan_allocator() {
                            c.det.free(t);
                            c.real_freed = true;
                        }
                    } else if let Msg::Done(Res::Panicked) = m {
                        c.panics += 1;
                    }
                }
            }
        }
        5 => {
            if arg >= n || arg == t || nh(c, t) == 0 || busy(c, t) || busy(c, arg) || c.granted[t] || c.granted[arg] {
                return None;
            }
            if let Msg::Done(Res::Handle(h)) = send(t, Cmd::Take) {
                send(arg, Cmd::Give(h));
                c.owned[t] -= 1;
                c.owned[arg] += 1;
                c.det.send(t, arg);
            }
        }
        6 | 7 | 8 | 10 | 11 | 12 | 13 => {
            if nh(c, t) == 0 || busy(c, t) || c.granted[t] {
                return None;
            }
            if let Msg::Done(Res::Unit) = send(t, Cmd::Reserve) {
                c.owned[t] -= 1;
                c.pending[t] = Some(kind);
            }
        }
        9 => {
            if !busy(c, t) {
                return None;
            }
            // a stale value for a load, when the thread's view of the counter allows it
            let last = c.det.msgs.len() - 1;
            let i = if arg <= last && arg >= c.det.views[t].ts { arg } else { last };
            o[2] = i as u64;
            match c.next_event(t, Some(c.det.msgs[i].0)) {
                Msg::Atomic { op, ord, old, new } => {
                    if op == 1 {
                        c.det.load(t, ord, i);
                    } else {
                        c.det.rmw(t, ord, new);
                    }
                    o[3] = 2;
                    o[5] = op as u64;
                    o[6] = ord.min(3);
                    o[7] = old as u64;
                }
                Msg::Destroy { ok } => {
                    if !ok {
                        c.bad_destroy += 1;
                    }
                    o[3] = 3;
                    c.det.destroy(t, K_DESTROY);
                    let m = send(t, Cmd::Continue(None));
                    c.held[t] = Some(m);
                    if c.scan_allocator() {
                        c.det.free(t);
                        c.real_freed = true;
                    }
                }
                Msg::CloneVal { ok } => {
                    if !ok {
                        c.bad_read += 1;
                    }
                    o[3] = 4;
                    c.det.access(t, K_READ);
                }
                Msg::Done(r) => {
                    o[3] = 1;
                    o[4] = 1;
                    // the function returned: unwrap_or_clone may have moved the value out, and a payload without drop
                    // glue is released without a destructor call: the block went back without another event
                    if c.scan_allocator() {
                        c.det.destroy(t, if let Res::Value = r { K_MOVEOUT } else { K_DESTROY });
                        c.det.free(t);
                        c.real_freed = true;
                    }
                    c.done(t, &r);
                }
            }
        }
        _ => return None,
    }
    Some(o)
}

pub fn run_case(ops: &[Vec<u64>]) -> Vec<Vec<u64>> {
    match ops.first() {
        Some(v) if v.len() >= 3 && v[2] == 1 => run_case_t::<PPay>(ops),
        _ => run_case_t::<SPay>(ops),
    }
}

fn run_case_t<T: Pay>(ops: &[Vec<u64>]) -> Vec<Vec<u64>> {
    let mut obs: Vec<Vec<u64>> = Vec::new();
    let n = match ops.first() {
        Some(v) if v.len() >= 2 && v[0] == 199 && v[1] >= 1 && v[1] <= 8 => v[1] as usize,
        _ => return vec![vec![999]],
    };
    // how workers hold their handles between operations: 0 Arc, 1 OffsetArc, 2 odd workers OffsetArc
    let hk = ops.first().map_or(0, |v| if v.len() > 3 { v[3] } else { 0 });
    // the value under test, created by the controller (no gates)
    FREE_RUN.store(true, SeqCst);
    install();
    let first: Arc<T> = Arc::new(T::fresh());
    let block = Arc::heap_ptr(&first) as *const u8 as usize;
    PAYLOAD_ADDR.store(&*first as *const T as usize, SeqCst);
    COUNT_ADDR.store(block, SeqCst);
    {
        let mut g = SH.lock().unwrap_or_else(|e| e.into_inner());
        let mut cmd = Vec::with_capacity(n);
        for _ in 0..n {
            cmd.push(None);
        }
        *g = Some(Shared { turn: CTL, msg: None, cmd });
    }
    // workers, started one at a time
    let mut joins = Vec::with_capacity(n);
    for id in 0..n {
        {
            let mut g = SH.lock().unwrap_or_else(|e| e.into_inner());
            g.as_mut().unwrap().turn = id;
        }
        let offset = hk == 1 || (hk == 2 && id % 2 == 1);
        joins.push(std::thread::spawn(move || worker::<T>(id, offset)));
        let mut g = SH.lock().unwrap_or_else(|e| e.into_inner());
        loop {
            {
                let s = g.as_mut().unwrap();
                if s.turn == CTL && s.msg.is_some() {
                    s.msg = None;
                    break;
                }
            }
            g = CV.wait(g).unwrap_or_else(|e| e.into_inner());
        }
    }
    let mut c = Ctl {
        n,
        det: Det::new(n),
        owned: vec![0; n],
        granted: vec![false; n],
        pending: vec![None; n],
        inflight: vec![false; n],
        held: (0..n).map(|_| None).collect(),
        block,
        bad_read: 0,
        bad_destroy: 0,
        unknown_dealloc: 0,
        panics: 0,
        real_freed: false,
        has_drop: T::HAS_DROP,
    };
    send(0, Cmd::Give(Arc::into_raw(first) as usize));
    c.owned[0] = 1;
    talloc::drain();
    talloc::record(true);
    FREE_RUN.store(false, SeqCst);

    let mut diverged = false;
    for l in &ops[1..] {
        if l.len() == 3 {
            // free mode: no model; the label is applied when the real state allows it, a step releases the thread up
            // to whatever it does next
            if let Some(o) = free_label(&mut c, l[0], l[1] as usize, l[2] as usize) {
                obs.push(o);
            }
            continue;
        }
        if l.len() < 5 {
            obs.push(vec![999, 0]);
            diverged = true;
            break;
        }
        let (kind, t, arg, class, fin) = (l[0], l[1] as usize, l[2] as usize, l[3], l[4]);
        if t >= n {
            obs.push(vec![999, 1]);
            diverged = true;
            break;
        }
        let mut o = vec![kind, t as u64, arg as u64, class, fin, 0, 0, 0];
        let mut bad: Option<u64> = None;
        match kind {
            0 => match send(t, Cmd::Clone) {
                Msg::Atomic { op, ord, old, new } => {
                    c.det.rmw(t, ord, new);
                    o[5] = op as u64;
                    o[6] = ord.min(3);
                    o[7] = old as u64;
                    match send(t, Cmd::Continue(None)) {
                        Msg::Done(Res::Unit) => c.owned[t] += 1,
                        m => bad = Some(100 + msg_code(&m)),
                    }
                }
                m => bad = Some(110 + msg_code(&m)),
            },
            1 => match send(t, Cmd::Read) {
                Msg::Done(Res::Read { ok }) => {
                    c.det.access(t, K_READ);
                    if !ok {
                        c.bad_read += 1;
                    }
                }
                m => bad = Some(120 + msg_code(&m)),
            },
            2 => match send(t, Cmd::Write) {
                Msg::Done(Res::Read { ok }) => {
                    c.det.access(t, K_WRITE);
                    if !ok {
                        c.bad_read += 1;
                    }
                }
                m => bad = Some(130 + msg_code(&m)),
            },
            3 => match send(t, Cmd::Ungrant) {
                Msg::Done(Res::Unit) => c.granted[t] = false,
                m => bad = Some(140 + msg_code(&m)),
            },
            4 => {
                // the value moves out and the block is released: inside unwrap_or_clone (the function is still
                // running) or by UniqueArc::into_inner on a granted handle
                let inside = c.inflight[t];
                let mut m = if inside { c.next_event(t, None) } else { send(t, Cmd::MoveOut) };
                loop {
                    match m {
                        // debug assertions re-read the count: not part of the protocol
                        Msg::Atomic { op: 1, .. } => m = send(t, Cmd::Continue(None)),
                        _ => break,
                    }
                }
                match m {
                    Msg::Done(Res::Value) => {
                        c.inflight[t] = false;
                        if !inside {
                            c.owned[t] -= 1;
                            c.granted[t] = false;
                        }
                        c.det.destroy(t, K_MOVEOUT);
                        if c.scan_allocator() {
                            c.det.free(t);
                            c.real_freed = true;
                        }
                    }
                    m => bad = Some(150 + msg_code(&m)),
                }
            }
            5 => {
                if arg >= n {
                    bad = Some(160);
                } else {
                    match send(t, Cmd::Take) {
                        Msg::Done(Res::Handle(h)) => {
                            send(arg, Cmd::Give(h));
                            c.owned[t] -= 1;
                            c.owned[arg] += 1;
                            c.det.send(t, arg);
                        }
                        m => bad = Some(160 + msg_code(&m)),
                    }
                }
            }
            6 | 7 | 8 | 10 | 11 | 12 => match send(t, Cmd::Reserve) {
                Msg::Done(Res::Unit) => {
                    c.owned[t] -= 1;
                    c.pending[t] = Some(kind);
                }
                m => bad = Some(170 + msg_code(&m)),
            },
            9 => {
                match class {
                    1 => {}
                    2 => {
                        let over = if arg < c.det.msgs.len() { Some(c.det.msgs[arg].0) } else { None };
                        match c.next_event(t, over) {
                            Msg::Atomic { op, ord, old, new } => {
                                if op == 1 {
                                    c.det.load(t, ord, arg);
                                } else {
                                    c.det.rmw(t, ord, new);
                                }
                                o[5] = op as u64;
                                o[6] = ord.min(3);
                                o[7] = old as u64;
                            }
                            Msg::Done(r) => {
                                c.done(t, &r);
                                bad = Some(201);
                            }
                            m => bad = Some(200 + msg_code(&m)),
                        }
                    }
                    3 => match c.next_non_load(t) {
                        Msg::Destroy { ok } => {
                            if !ok {
                                c.bad_destroy += 1;
                            }
                            c.det.destroy(t, K_DESTROY);
                            // let it go on to the release of the block; whatever it reports next belongs to the next step
                            let m = send(t, Cmd::Continue(None));
                            c.held[t] = Some(m);
                            if c.scan_allocator() {
                                c.det.free(t);
                                c.real_freed = true;
                            }
                        }
                        Msg::Done(r) if !c.has_drop => {
                            // a payload without drop glue: nothing to run, the block just goes back
                            if c.scan_allocator() {
                                c.det.destroy(t, K_DESTROY);
                                c.det.free(t);
                                c.real_freed = true;
                                c.held[t] = Some(Msg::Done(r));
                            } else {
                                c.done(t, &r);
                                bad = Some(212);
                            }
                        }
                        Msg::Done(r) => {
                            c.done(t, &r);
                            bad = Some(211);
                        }
                        m => bad = Some(210 + msg_code(&m)),
                    },
                    4 => match c.next_non_load(t) {
                        Msg::CloneVal { ok } => {
                            if !ok {
                                c.bad_read += 1;
                            }
                            c.det.access(t, K_READ);
                        }
                        Msg::Done(r) => {
                            c.done(t, &r);
                            bad = Some(221);
                        }
                        m => bad = Some(220 + msg_code(&m)),
                    },
                    _ => bad = Some(230),
                }
                if bad.is_none() && fin == 1 {
                    match c.next_non_load(t) {
                        Msg::Done(Res::Missing) => bad = Some(248),
                        Msg::Done(r) => c.done(t, &r),
                        m => {
                            bad = Some(240 + msg_code(&m));
                            c.held[t] = Some(m);
                        }
                    }
                }
            }
            _ => bad = Some(250),
        }
        if let Some(b) = bad {
            obs.push(o);
            obs.push(vec![999, b]);
            diverged = true;
            break;
        }
        obs.push(o);
    }
    let _ = diverged;
    // summary, from what the crate did
    let holds = (0..n).any(|t| c.owned[t] > 0 || c.inflight[t] || c.pending[t].is_some() || c.granted[t]);
    let mut s = vec![900, c.det.destroyed as u64, c.det.freed as u64, c.det.raced as u64, (!holds && !c.det.freed) as u64];
    for t in 0..n {
        s.push(c.owned[t]);
        s.push(if c.inflight[t] || c.pending[t].is_some() { 2 } else if c.granted[t] { 1 } else { 0 });
    }
    obs.push(s);
    // let everything run to its end, ungated, and collect the workers
    FREE_RUN.store(true, SeqCst);
    for t in 0..n {
        c.held[t] = None;
        let mut guard = 0;
        while c.inflight[t] && guard < 1000 {
            if let Msg::Done(_) = send(t, Cmd::Continue(None)) {
                c.inflight[t] = false;
            }
            guard += 1;
        }
        send(t, Cmd::Finish);
    }
    for t in 0..n {
        send(t, Cmd::Exit);
    }
    for j in joins {
        let _ = j.join();
    }
    c.scan_allocator();
    talloc::record(false);
    talloc::drain();
    uninstall();
    PAYLOAD_ADDR.store(0, SeqCst);
    COUNT_ADDR.store(0, SeqCst);
    obs.push(vec![901, c.bad_read, c.bad_destroy, c.unknown_dealloc, c.panics]);
    // what this run really used (checked against the case header by the driver): payload with drop glue, handle kind
    obs.push(vec![902, c.has_drop as u64, hk]);
    obs
}
