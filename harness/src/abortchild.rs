//! C16 child process: preset the reference count of a fresh allocation, print a marker, run one clone entry
//! point, print what came back.  The parent observes the termination signal and the output.
//!   tvharness abortchild <entry> <count>
use crate::shapes::Dy;
use std::io::Write;
use std::sync::atomic::{AtomicUsize, Ordering::SeqCst};
use triomphe::{Arc, ArcUnion, HeaderSlice, ThinArc};

static COUNTER_ADDR: AtomicUsize = AtomicUsize::new(0);

#[cfg(triomphe_verif)]
fn observer(addr: usize, op: u8, _ord: std::sync::atomic::Ordering, _old: usize, _new: usize) {
    if op == 1 {
        COUNTER_ADDR.store(addr, SeqCst);
    }
}

/// the address of the counter of `a`'s allocation, learnt from the hook during a strong_count call
fn counter_addr_of<T: ?Sized>(a: &Arc<T>) -> usize {
    COUNTER_ADDR.store(0, SeqCst);
    #[cfg(triomphe_verif)]
    triomphe::verif_atomic::set_observer(Some(observer));
    let _ = Arc::strong_count(a);
    #[cfg(triomphe_verif)]
    triomphe::verif_atomic::set_observer(None);
    let p = COUNTER_ADDR.load(SeqCst);
    if p != 0 {
        p
    } else {
        a.heap_ptr() as usize
    }
}

#[derive(Clone, Copy)]
struct Pl(u64);
impl Dy for Pl {
    fn sz(&self) -> usize {
        8
    }
    fn tag(&self) -> u8 {
        self.0 as u8
    }
}

fn preset(addr: usize, c: usize) {
    unsafe { (*(addr as *const AtomicUsize)).store(c, SeqCst) }
}
fn read(addr: usize) -> usize {
    unsafe { (*(addr as *const AtomicUsize)).load(SeqCst) }
}

pub fn main(entry: u64, count: usize) -> ! {
    let out = std::io::stdout();
    let mark = |s: &str| {
        let mut o = out.lock();
        writeln!(o, "{}", s).unwrap();
        o.flush().unwrap();
    };
    // build the handle, learn the counter address, preset the count
    let base: Arc<Pl> = Arc::new(Pl(7));
    let addr;
    let r = match entry {
        0 => {
            addr = counter_addr_of(&base);
            preset(addr, count);
            mark("MARK");
            let r = std::panic::catch_unwind(std::panic::AssertUnwindSafe(|| std::mem::forget(base.clone())));
            std::mem::forget(base);
            r
        }
        1 => {
            let s: Arc<[Pl]> = Arc::from(vec![Pl(1), Pl(2)]);
            addr = counter_addr_of(&s);
            preset(addr, count);
            mark("MARK");
            let r = std::panic::catch_unwind(std::panic::AssertUnwindSafe(|| std::mem::forget(s.clone())));
            std::mem::forget(s);
            r
        }
        2 => {
            let d: Arc<dyn Dy> = unsafe { Arc::from_raw(Arc::into_raw(base) as *const dyn Dy) };
            addr = counter_addr_of(&d);
            preset(addr, count);
            mark("MARK");
            let r = std::panic::catch_unwind(std::panic::AssertUnwindSafe(|| std::mem::forget(d.clone())));
            std::mem::forget(d);
            r
        }
        3 | 9 => {
            let t: ThinArc<u32, Pl> = ThinArc::from_header_and_slice(5u32, &[Pl(1)]);
            addr = t.with_arc(|a| counter_addr_of(a));
            preset(addr, count);
            mark("MARK");
            let r = std::panic::catch_unwind(std::panic::AssertUnwindSafe(|| {
                if entry == 3 {
                    std::mem::forget(t.clone())
                } else {
                    std::mem::forget(t.with_arc(|a| a.clone()))
                }
            }));
            std::mem::forget(t);
            r
        }
        4 | 5 | 6 | 10 | 11 => {
            addr = counter_addr_of(&base);
            let o = Arc::into_raw_offset(base);
            preset(addr, count);
            mark("MARK");
            let r = std::panic::catch_unwind(std::panic::AssertUnwindSafe(|| match entry {
                4 => std::mem::forget(o.clone()),
                5 => std::mem::forget(o.clone_arc()),
                6 => std::mem::forget(o.borrow_arc().clone_arc()),
                10 => std::mem::forget(o.with_arc(|a| a.with_raw_offset_arc(|x| x.clone()))),
                _ => std::mem::forget(o.borrow_arc().with_arc(|a| a.clone())),
            }));
            std::mem::forget(o);
            r
        }
        7 | 8 => {
            addr = counter_addr_of(&base);
            let u: ArcUnion<Pl, Pl> = if entry == 7 { ArcUnion::from_first(base) } else { ArcUnion::from_second(base) };
            preset(addr, count);
            mark("MARK");
            let r = std::panic::catch_unwind(std::panic::AssertUnwindSafe(|| std::mem::forget(u.clone())));
            std::mem::forget(u);
            r
        }
        12 => {
            let h: Arc<HeaderSlice<u8, [Pl]>> = Arc::from_header_and_slice(1u8, &[Pl(1), Pl(2)]);
            addr = counter_addr_of(&h);
            preset(addr, count);
            mark("MARK");
            let r = std::panic::catch_unwind(std::panic::AssertUnwindSafe(|| std::mem::forget(h.clone())));
            std::mem::forget(h);
            r
        }
        _ => {
            mark("BADENTRY");
            std::process::exit(3);
        }
    };
    match r {
        Ok(()) => mark(&format!("AFTER {}", read(addr))),
        Err(_) => mark(&format!("CAUGHT {}", read(addr))),
    }
    std::process::exit(0);
}
