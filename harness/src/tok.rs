//! Identity-tracked payload tokens: every construction, clone, read and destruction is checked
//! against a global liveness table and logged into the shared event log.
use crate::talloc::{self, Ev};
use std::sync::atomic::{AtomicBool, AtomicU64, Ordering::SeqCst};

const NTOK: usize = 1 << 20;
static mut STATE: [u8; NTOK] = [0; NTOK]; // 0 never, 1 live, 2 destroyed
static NEXT: AtomicU64 = AtomicU64::new(0);
static CLONE_PANIC: AtomicBool = AtomicBool::new(false);
/// the token whose destructor panics (after being logged); u64::MAX: none
static DROP_PANIC: AtomicU64 = AtomicU64::new(u64::MAX);
const MAGIC: u64 = 0x70CE_A11F_E5A5_5A5A;

pub fn reset() {
    let n = (NEXT.load(SeqCst) as usize).min(NTOK);
    unsafe {
        for i in 0..n {
            STATE[i] = 0;
        }
    }
    NEXT.store(0, SeqCst);
    CLONE_PANIC.store(false, SeqCst);
    DROP_PANIC.store(u64::MAX, SeqCst);
}

pub fn set_drop_panic(id: u64) {
    DROP_PANIC.store(id, SeqCst);
}

pub fn set_clone_panic(b: bool) {
    CLONE_PANIC.store(b, SeqCst);
}

fn fresh() -> u64 {
    let id = NEXT.fetch_add(1, SeqCst);
    if (id as usize) < NTOK {
        unsafe {
            STATE[id as usize] = 1;
        }
    }
    id
}

fn check_live(id: u64, magic_ok: bool) -> bool {
    magic_ok && (id as usize) < NTOK && unsafe { STATE[id as usize] } == 1
}

fn destroy(id: u64, magic_ok: bool, magic: u64) {
    if check_live(id, magic_ok) {
        unsafe {
            STATE[id as usize] = 2;
        }
        talloc::push(Ev::Dtor { id });
        if DROP_PANIC.load(SeqCst) == id && !std::thread::panicking() {
            DROP_PANIC.store(u64::MAX, SeqCst);
            panic!("scheduled panic in Drop::drop");
        }
    } else {
        talloc::push_always(Ev::BadDtor { id, magic });
    }
}

/// 16-byte, 8-aligned token
#[repr(C)]
pub struct Tok {
    id: u64,
    magic: u64,
}

impl Tok {
    pub fn new() -> Tok {
        let id = fresh();
        Tok { id, magic: MAGIC ^ id }
    }
    /// checked read of the identity
    pub fn id(&self) -> u64 {
        let (id, magic) = (self.id, self.magic);
        if !check_live(id, magic == MAGIC ^ id) {
            talloc::push_always(Ev::BadRead { id, magic });
        }
        id
    }
}

impl Clone for Tok {
    fn clone(&self) -> Tok {
        let old = self.id();
        if CLONE_PANIC.load(SeqCst) {
            panic!("scheduled panic in Clone::clone");
        }
        let t = Tok::new();
        talloc::push(Ev::CloneCall { id: old, new_id: t.id });
        t
    }
}

impl Drop for Tok {
    fn drop(&mut self) {
        let (id, magic) = (self.id, self.magic);
        destroy(id, magic == MAGIC ^ id, magic);
        self.magic = 0xDEAD_DEAD_DEAD_DEAD;
    }
}

/// 3-byte, 1-aligned token (the byte-aligned second type of an ArcUnion)
#[repr(C)]
pub struct TokB([u8; 3]);

impl TokB {
    pub fn new() -> TokB {
        let id = fresh();
        TokB([(id & 0xff) as u8, ((id >> 8) & 0xff) as u8, ((id >> 16) & 0xff) as u8])
    }
    fn raw(&self) -> u64 {
        self.0[0] as u64 | (self.0[1] as u64) << 8 | (self.0[2] as u64) << 16
    }
    pub fn id(&self) -> u64 {
        let id = self.raw();
        if !check_live(id, true) {
            talloc::push_always(Ev::BadRead { id, magic: 0 });
        }
        id
    }
}

impl Drop for TokB {
    fn drop(&mut self) {
        destroy(self.raw(), true, 0);
    }
}

/// object-safe view used for `Arc<dyn TokLike>`
pub trait TokLike {
    fn tid(&self) -> u64;
}
impl TokLike for Tok {
    fn tid(&self) -> u64 {
        self.id()
    }
}
