//! `serde` stream (C17): a recording serializer and a recording self-describing deserializer, both failing at the
//! k-th callback, drive `Arc<T>` / `UniqueArc<T>` and the plain `T` for a family of payload types.
//!
//! values (prefix code): `1 n` number, `2 len b..` string, `3 len items..` sequence, `4 len (key value)..` map with
//! string keys (`key` = `len b..`), `5` unit.
//! ops:
//!   `[1, handle, ty, fail_at, value..]`  serialize  -> `[status, code, at, same_as_plain, SEP, calls..]`
//!   `[2, handle, ty, fail_at, value..]`  deserialize -> `[status, code, at, same_as_plain, count, unique, extra_allocs,
//!                                         live_after, bad, dtors, SEP, calls..]`
//!   `[4, handle, ty, fail_at, value1.., value2..]`  deserialize_in_place into a (shared) handle holding value1
//!   `[3, handle, which]`                 serde's own in-memory value deserializers -> `[status, same_as_plain, count,
//!                                         unique, extra_allocs, live_after, bad]`
//! handle: 0 Arc, 1 UniqueArc.  status: 0 Ok, 1 Err.  code: 1 injected failure, 2 invalid type, 3 invalid length,
//! 4 missing field, 5 unknown field, 6 duplicate field, 7 invalid value, 9 other.  at: the callback counter when the
//! error was made.
use crate::talloc::{self, Ev};
use crate::tok::{self, Tok};
use serde::de::{self, DeserializeSeed, Deserializer, IntoDeserializer, MapAccess, SeqAccess, Visitor};
use serde::ser::{self, Serializer};
use serde::{Deserialize, Serialize};
use std::cell::{Cell, RefCell};
use std::fmt;
use triomphe::{Arc, UniqueArc};

const SEP: u64 = 99999999;

thread_local! {
    static CTR: Cell<u64> = Cell::new(0);
    static FAIL: Cell<u64> = Cell::new(0);
    static LOG: RefCell<Vec<u64>> = RefCell::new(Vec::new());
}
fn reset(fail: u64) {
    CTR.with(|c| c.set(0));
    FAIL.with(|c| c.set(fail));
    // the log never allocates while the allocator is recording
    LOG.with(|l| {
        let mut l = l.borrow_mut();
        l.clear();
        l.reserve(1 << 14);
    });
}
fn now() -> u64 {
    CTR.with(|c| c.get())
}
fn take_log() -> Vec<u64> {
    LOG.with(|l| l.borrow().clone())
}
/// one callback: record it, count it, fail if it is the chosen one
fn tick(rec: &[u64]) -> Result<(), E> {
    LOG.with(|l| l.borrow_mut().extend_from_slice(rec));
    let n = now() + 1;
    CTR.with(|c| c.set(n));
    if FAIL.with(|c| c.get()) == n {
        Err(E { code: 1, at: n, msg: String::from("injected") })
    } else {
        Ok(())
    }
}

#[derive(Debug, Clone, PartialEq)]
pub struct E {
    code: u64,
    at: u64,
    msg: String,
}
impl fmt::Display for E {
    fn fmt(&self, f: &mut fmt::Formatter) -> fmt::Result {
        write!(f, "E{}@{}:{}", self.code, self.at, self.msg)
    }
}
impl std::error::Error for E {}
impl ser::Error for E {
    fn custom<T: fmt::Display>(m: T) -> E {
        E { code: 9, at: now(), msg: m.to_string() }
    }
}
impl de::Error for E {
    fn custom<T: fmt::Display>(m: T) -> E {
        E { code: 9, at: now(), msg: m.to_string() }
    }
    fn invalid_type(u: de::Unexpected, e: &dyn de::Expected) -> E {
        E { code: 2, at: now(), msg: format!("{} / {}", u, e) }
    }
    fn invalid_value(u: de::Unexpected, e: &dyn de::Expected) -> E {
        E { code: 7, at: now(), msg: format!("{} / {}", u, e) }
    }
    fn invalid_length(n: usize, e: &dyn de::Expected) -> E {
        E { code: 3, at: now(), msg: format!("{} / {}", n, e) }
    }
    fn missing_field(f: &'static str) -> E {
        E { code: 4, at: now(), msg: f.to_string() }
    }
    fn unknown_field(f: &str, _: &'static [&'static str]) -> E {
        E { code: 5, at: now(), msg: f.to_string() }
    }
    fn duplicate_field(f: &'static str) -> E {
        E { code: 6, at: now(), msg: f.to_string() }
    }
}

// ------------------------------------------------------------------------------------------------
// the recording serializer
// ------------------------------------------------------------------------------------------------
fn name_code(s: &str) -> u64 {
    match s {
        "id" => 1,
        "name" => 2,
        "tags" => 3,
        "rec" => 4,
        "pair" => 5,
        "list" => 6,
        "Rec" => 11,
        "Nested" => 12,
        _ => 99,
    }
}
struct RecSer;
// what the recording serializer answers to is_human_readable(): serialisation cases run once per answer
static HUMAN: std::sync::atomic::AtomicBool = std::sync::atomic::AtomicBool::new(true);
struct Compound(u64, u64); // element code, end code
macro_rules! other {
    ($($f:ident($t:ty) = $c:expr;)*) => { $(fn $f(self, _v: $t) -> Result<(), E> { tick(&[20, $c]) })* };
}
impl Serializer for RecSer {
    type Ok = ();
    type Error = E;
    type SerializeSeq = Compound;
    type SerializeTuple = Compound;
    type SerializeTupleStruct = Compound;
    type SerializeTupleVariant = Compound;
    type SerializeMap = Compound;
    type SerializeStruct = Compound;
    type SerializeStructVariant = Compound;
    fn is_human_readable(&self) -> bool {
        HUMAN.load(std::sync::atomic::Ordering::Relaxed)
    }
    other! { serialize_bool(bool) = 1; serialize_i8(i8) = 2; serialize_i16(i16) = 3; serialize_i32(i32) = 4; serialize_i64(i64) = 5;
             serialize_u8(u8) = 6; serialize_u16(u16) = 7; serialize_u64(u64) = 8; serialize_f32(f32) = 9; serialize_f64(f64) = 10;
             serialize_char(char) = 11; serialize_bytes(&[u8]) = 12; }
    fn serialize_u32(self, v: u32) -> Result<(), E> {
        tick(&[1, v as u64])
    }
    fn serialize_str(self, v: &str) -> Result<(), E> {
        let mut r = vec![2, v.len() as u64];
        r.extend(v.bytes().map(|b| b as u64));
        tick(&r)
    }
    fn serialize_none(self) -> Result<(), E> {
        tick(&[20, 13])
    }
    fn serialize_some<T: ?Sized + Serialize>(self, v: &T) -> Result<(), E> {
        tick(&[20, 14])?;
        v.serialize(RecSer)
    }
    fn serialize_unit(self) -> Result<(), E> {
        tick(&[3])
    }
    fn serialize_unit_struct(self, _: &'static str) -> Result<(), E> {
        tick(&[20, 15])
    }
    fn serialize_unit_variant(self, _: &'static str, _: u32, _: &'static str) -> Result<(), E> {
        tick(&[20, 16])
    }
    fn serialize_newtype_struct<T: ?Sized + Serialize>(self, n: &'static str, v: &T) -> Result<(), E> {
        tick(&[13, name_code(n)])?;
        v.serialize(RecSer)
    }
    fn serialize_newtype_variant<T: ?Sized + Serialize>(self, _: &'static str, _: u32, _: &'static str, v: &T) -> Result<(), E> {
        tick(&[20, 17])?;
        v.serialize(RecSer)
    }
    fn serialize_seq(self, len: Option<usize>) -> Result<Compound, E> {
        tick(&[4, len.map_or(0, |l| l as u64 + 1)])?;
        Ok(Compound(5, 6))
    }
    fn serialize_tuple(self, len: usize) -> Result<Compound, E> {
        tick(&[7, len as u64])?;
        Ok(Compound(8, 9))
    }
    fn serialize_tuple_struct(self, _: &'static str, len: usize) -> Result<Compound, E> {
        tick(&[20, 18, len as u64])?;
        Ok(Compound(8, 9))
    }
    fn serialize_tuple_variant(self, _: &'static str, _: u32, _: &'static str, len: usize) -> Result<Compound, E> {
        tick(&[20, 19, len as u64])?;
        Ok(Compound(8, 9))
    }
    fn serialize_map(self, len: Option<usize>) -> Result<Compound, E> {
        tick(&[20, 20, len.map_or(0, |l| l as u64 + 1)])?;
        Ok(Compound(21, 22))
    }
    fn serialize_struct(self, n: &'static str, len: usize) -> Result<Compound, E> {
        tick(&[10, name_code(n), len as u64])?;
        Ok(Compound(11, 12))
    }
    fn serialize_struct_variant(self, _: &'static str, _: u32, _: &'static str, len: usize) -> Result<Compound, E> {
        tick(&[20, 23, len as u64])?;
        Ok(Compound(11, 12))
    }
}
impl Compound {
    fn elem<T: ?Sized + Serialize>(&mut self, v: &T) -> Result<(), E> {
        tick(&[self.0])?;
        v.serialize(RecSer)
    }
    fn field<T: ?Sized + Serialize>(&mut self, k: &'static str, v: &T) -> Result<(), E> {
        tick(&[self.0, name_code(k)])?;
        v.serialize(RecSer)
    }
    fn fin(self) -> Result<(), E> {
        tick(&[self.1])
    }
}
impl ser::SerializeSeq for Compound {
    type Ok = ();
    type Error = E;
    fn serialize_element<T: ?Sized + Serialize>(&mut self, v: &T) -> Result<(), E> {
        self.elem(v)
    }
    fn end(self) -> Result<(), E> {
        self.fin()
    }
}
impl ser::SerializeTuple for Compound {
    type Ok = ();
    type Error = E;
    fn serialize_element<T: ?Sized + Serialize>(&mut self, v: &T) -> Result<(), E> {
        self.elem(v)
    }
    fn end(self) -> Result<(), E> {
        self.fin()
    }
}
impl ser::SerializeTupleStruct for Compound {
    type Ok = ();
    type Error = E;
    fn serialize_field<T: ?Sized + Serialize>(&mut self, v: &T) -> Result<(), E> {
        self.elem(v)
    }
    fn end(self) -> Result<(), E> {
        self.fin()
    }
}
impl ser::SerializeTupleVariant for Compound {
    type Ok = ();
    type Error = E;
    fn serialize_field<T: ?Sized + Serialize>(&mut self, v: &T) -> Result<(), E> {
        self.elem(v)
    }
    fn end(self) -> Result<(), E> {
        self.fin()
    }
}
impl ser::SerializeMap for Compound {
    type Ok = ();
    type Error = E;
    fn serialize_key<T: ?Sized + Serialize>(&mut self, v: &T) -> Result<(), E> {
        self.elem(v)
    }
    fn serialize_value<T: ?Sized + Serialize>(&mut self, v: &T) -> Result<(), E> {
        self.elem(v)
    }
    fn end(self) -> Result<(), E> {
        self.fin()
    }
}
impl ser::SerializeStruct for Compound {
    type Ok = ();
    type Error = E;
    fn serialize_field<T: ?Sized + Serialize>(&mut self, k: &'static str, v: &T) -> Result<(), E> {
        self.field(k, v)
    }
    fn end(self) -> Result<(), E> {
        self.fin()
    }
}
impl ser::SerializeStructVariant for Compound {
    type Ok = ();
    type Error = E;
    fn serialize_field<T: ?Sized + Serialize>(&mut self, k: &'static str, v: &T) -> Result<(), E> {
        self.field(k, v)
    }
    fn end(self) -> Result<(), E> {
        self.fin()
    }
}

// ------------------------------------------------------------------------------------------------
// the recording deserializer over a value tree
// ------------------------------------------------------------------------------------------------
#[derive(Debug, Clone, PartialEq)]
pub enum Val {
    U(u64),
    S(String),
    Seq(Vec<Val>),
    Map(Vec<(String, Val)>),
    Unit,
}
fn parse_str(a: &[u64], i: &mut usize) -> Option<String> {
    let n = *a.get(*i)? as usize;
    *i += 1;
    if n > 64 || *i + n > a.len() {
        return None;
    }
    let mut s = String::new();
    for k in 0..n {
        let b = a[*i + k];
        if !(32..127).contains(&b) {
            return None;
        }
        s.push(b as u8 as char);
    }
    *i += n;
    Some(s)
}
fn parse_val(a: &[u64], i: &mut usize, depth: usize) -> Option<Val> {
    if depth > 6 {
        return None;
    }
    let c = *a.get(*i)?;
    *i += 1;
    match c {
        1 => {
            let n = *a.get(*i)?;
            *i += 1;
            Some(Val::U(n))
        }
        2 => parse_str(a, i).map(Val::S),
        3 => {
            let n = *a.get(*i)? as usize;
            *i += 1;
            if n > 32 {
                return None;
            }
            let mut v = Vec::new();
            for _ in 0..n {
                v.push(parse_val(a, i, depth + 1)?);
            }
            Some(Val::Seq(v))
        }
        4 => {
            let n = *a.get(*i)? as usize;
            *i += 1;
            if n > 32 {
                return None;
            }
            let mut v = Vec::new();
            for _ in 0..n {
                let k = parse_str(a, i)?;
                v.push((k, parse_val(a, i, depth + 1)?));
            }
            Some(Val::Map(v))
        }
        5 => Some(Val::Unit),
        _ => None,
    }
}

struct ValDe<'a>(&'a Val);
impl<'a> ValDe<'a> {
    fn go<'de, V: Visitor<'de>>(self, hint: &[u64], v: V) -> Result<V::Value, E> {
        tick(hint)?;
        match self.0 {
            Val::U(n) => v.visit_u64(*n),
            Val::S(s) => v.visit_str(s),
            Val::Seq(items) => v.visit_seq(SeqA { items, pos: 0 }),
            Val::Map(ents) => v.visit_map(MapA { ents, pos: 0 }),
            Val::Unit => v.visit_unit(),
        }
    }
}
macro_rules! hinted {
    ($($f:ident = $c:expr;)*) => { $(fn $f<V: Visitor<'de>>(self, v: V) -> Result<V::Value, E> { self.go(&[$c], v) })* };
}
impl<'de, 'a> Deserializer<'de> for ValDe<'a> {
    type Error = E;
    hinted! { deserialize_any = 18; deserialize_bool = 20; deserialize_i8 = 20; deserialize_i16 = 20; deserialize_i32 = 20; deserialize_i64 = 20;
              deserialize_u8 = 20; deserialize_u16 = 20; deserialize_u32 = 10; deserialize_u64 = 20; deserialize_f32 = 20; deserialize_f64 = 20;
              deserialize_char = 20; deserialize_str = 12; deserialize_string = 11; deserialize_bytes = 20; deserialize_byte_buf = 20;
              deserialize_option = 20; deserialize_unit = 16; deserialize_seq = 14; deserialize_map = 17; deserialize_identifier = 19;
              deserialize_ignored_any = 20; }
    fn deserialize_unit_struct<V: Visitor<'de>>(self, _: &'static str, v: V) -> Result<V::Value, E> {
        self.go(&[20], v)
    }
    fn deserialize_newtype_struct<V: Visitor<'de>>(self, _: &'static str, v: V) -> Result<V::Value, E> {
        self.go(&[20], v)
    }
    fn deserialize_tuple<V: Visitor<'de>>(self, len: usize, v: V) -> Result<V::Value, E> {
        self.go(&[13, len as u64], v)
    }
    fn deserialize_tuple_struct<V: Visitor<'de>>(self, _: &'static str, len: usize, v: V) -> Result<V::Value, E> {
        self.go(&[20, len as u64], v)
    }
    fn deserialize_struct<V: Visitor<'de>>(self, _: &'static str, f: &'static [&'static str], v: V) -> Result<V::Value, E> {
        self.go(&[15, f.len() as u64], v)
    }
    fn deserialize_enum<V: Visitor<'de>>(self, _: &'static str, _: &'static [&'static str], v: V) -> Result<V::Value, E> {
        self.go(&[20], v)
    }
}
struct SeqA<'a> {
    items: &'a [Val],
    pos: usize,
}
impl<'de, 'a> SeqAccess<'de> for SeqA<'a> {
    type Error = E;
    fn next_element_seed<S: DeserializeSeed<'de>>(&mut self, seed: S) -> Result<Option<S::Value>, E> {
        tick(&[30])?;
        match self.items.get(self.pos) {
            None => Ok(None),
            Some(v) => {
                self.pos += 1;
                seed.deserialize(ValDe(v)).map(Some)
            }
        }
    }
}
struct MapA<'a> {
    ents: &'a [(String, Val)],
    pos: usize,
}
impl<'de, 'a> MapAccess<'de> for MapA<'a> {
    type Error = E;
    fn next_key_seed<S: DeserializeSeed<'de>>(&mut self, seed: S) -> Result<Option<S::Value>, E> {
        tick(&[31])?;
        match self.ents.get(self.pos) {
            None => Ok(None),
            Some((k, _)) => {
                let kv = Val::S(k.clone());
                seed.deserialize(ValDe(&kv)).map(Some)
            }
        }
    }
    fn next_value_seed<S: DeserializeSeed<'de>>(&mut self, seed: S) -> Result<S::Value, E> {
        tick(&[32])?;
        let v = &self.ents[self.pos].1;
        self.pos += 1;
        seed.deserialize(ValDe(v))
    }
}

// ------------------------------------------------------------------------------------------------
// payload types with hand-written impls
// ------------------------------------------------------------------------------------------------
#[derive(Debug, PartialEq)]
pub struct Rec {
    id: u32,
    name: String,
    tags: Vec<u32>,
}
impl Serialize for Rec {
    fn serialize<S: Serializer>(&self, s: S) -> Result<S::Ok, S::Error> {
        use ser::SerializeStruct;
        let mut st = s.serialize_struct("Rec", 3)?;
        st.serialize_field("id", &self.id)?;
        st.serialize_field("name", &self.name)?;
        st.serialize_field("tags", &self.tags)?;
        st.end()
    }
}
struct RecV;
impl<'de> Visitor<'de> for RecV {
    type Value = Rec;
    fn expecting(&self, f: &mut fmt::Formatter) -> fmt::Result {
        f.write_str("struct Rec")
    }
    fn visit_seq<A: SeqAccess<'de>>(self, mut a: A) -> Result<Rec, A::Error> {
        let id = a.next_element()?.ok_or_else(|| de::Error::invalid_length(0, &self))?;
        let name = a.next_element()?.ok_or_else(|| de::Error::invalid_length(1, &self))?;
        let tags = a.next_element()?.ok_or_else(|| de::Error::invalid_length(2, &self))?;
        Ok(Rec { id, name, tags })
    }
    fn visit_map<A: MapAccess<'de>>(self, mut a: A) -> Result<Rec, A::Error> {
        let (mut id, mut name, mut tags) = (None, None, None);
        while let Some(k) = a.next_key::<String>()? {
            match k.as_str() {
                "id" => {
                    if id.is_some() {
                        return Err(de::Error::duplicate_field("id"));
                    }
                    id = Some(a.next_value()?)
                }
                "name" => {
                    if name.is_some() {
                        return Err(de::Error::duplicate_field("name"));
                    }
                    name = Some(a.next_value()?)
                }
                "tags" => {
                    if tags.is_some() {
                        return Err(de::Error::duplicate_field("tags"));
                    }
                    tags = Some(a.next_value()?)
                }
                other => return Err(de::Error::unknown_field(other, &["id", "name", "tags"])),
            }
        }
        let id = id.ok_or_else(|| de::Error::missing_field("id"))?;
        let name = name.ok_or_else(|| de::Error::missing_field("name"))?;
        let tags = tags.ok_or_else(|| de::Error::missing_field("tags"))?;
        Ok(Rec { id, name, tags })
    }
}
impl<'de> Deserialize<'de> for Rec {
    fn deserialize<D: Deserializer<'de>>(d: D) -> Result<Rec, D::Error> {
        d.deserialize_struct("Rec", &["id", "name", "tags"], RecV)
    }
}

#[derive(Debug, PartialEq)]
pub struct Nested {
    rec: Rec,
    pair: (u32, u32),
    list: Vec<Rec>,
}
impl Serialize for Nested {
    fn serialize<S: Serializer>(&self, s: S) -> Result<S::Ok, S::Error> {
        use ser::SerializeStruct;
        let mut st = s.serialize_struct("Nested", 3)?;
        st.serialize_field("rec", &self.rec)?;
        st.serialize_field("pair", &self.pair)?;
        st.serialize_field("list", &self.list)?;
        st.end()
    }
}
struct NestedV;
impl<'de> Visitor<'de> for NestedV {
    type Value = Nested;
    fn expecting(&self, f: &mut fmt::Formatter) -> fmt::Result {
        f.write_str("struct Nested")
    }
    fn visit_seq<A: SeqAccess<'de>>(self, mut a: A) -> Result<Nested, A::Error> {
        let rec = a.next_element()?.ok_or_else(|| de::Error::invalid_length(0, &self))?;
        let pair = a.next_element()?.ok_or_else(|| de::Error::invalid_length(1, &self))?;
        let list = a.next_element()?.ok_or_else(|| de::Error::invalid_length(2, &self))?;
        Ok(Nested { rec, pair, list })
    }
}
impl<'de> Deserialize<'de> for Nested {
    fn deserialize<D: Deserializer<'de>>(d: D) -> Result<Nested, D::Error> {
        d.deserialize_struct("Nested", &["rec", "pair", "list"], NestedV)
    }
}

/// carries an identity token, created once every field has been read: a destructor running on a value that was
/// never deserialised is visible
pub struct Tagged {
    v: u32,
    s: String,
    tok: Tok,
}
impl PartialEq for Tagged {
    fn eq(&self, o: &Tagged) -> bool {
        let _ = (self.tok.id(), o.tok.id());
        self.v == o.v && self.s == o.s
    }
}
impl Serialize for Tagged {
    fn serialize<S: Serializer>(&self, s: S) -> Result<S::Ok, S::Error> {
        use ser::SerializeTuple;
        let mut st = s.serialize_tuple(2)?;
        st.serialize_element(&self.v)?;
        st.serialize_element(&self.s)?;
        st.end()
    }
}
struct TaggedV;
impl<'de> Visitor<'de> for TaggedV {
    type Value = Tagged;
    fn expecting(&self, f: &mut fmt::Formatter) -> fmt::Result {
        f.write_str("Tagged")
    }
    fn visit_seq<A: SeqAccess<'de>>(self, mut a: A) -> Result<Tagged, A::Error> {
        let v = a.next_element()?.ok_or_else(|| de::Error::invalid_length(0, &self))?;
        let s = a.next_element()?.ok_or_else(|| de::Error::invalid_length(1, &self))?;
        Ok(Tagged { v, s, tok: Tok::new() })
    }
}
impl<'de> Deserialize<'de> for Tagged {
    fn deserialize<D: Deserializer<'de>>(d: D) -> Result<Tagged, D::Error> {
        d.deserialize_tuple(2, TaggedV)
    }
}

// ------------------------------------------------------------------------------------------------
// the operations
// ------------------------------------------------------------------------------------------------
fn bad_events(evs: &[Ev]) -> u64 {
    evs.iter().filter(|e| matches!(e, Ev::BadDtor { .. } | Ev::BadRead { .. } | Ev::BadDealloc { .. } | Ev::UnknownDealloc { .. } | Ev::Overrun { .. })).count() as u64
}
fn allocs(evs: &[Ev]) -> i64 {
    evs.iter().filter(|e| matches!(e, Ev::Alloc { .. })).count() as i64
}
fn live(evs: &[Ev]) -> i64 {
    let mut l: Vec<usize> = Vec::new();
    for e in evs {
        match *e {
            Ev::Alloc { ptr, .. } => l.push(ptr),
            Ev::Dealloc { ptr, .. } | Ev::BadDealloc { ptr, .. } => l.retain(|p| *p != ptr),
            _ => {}
        }
    }
    l.len() as i64
}
fn dtors(evs: &[Ev]) -> u64 {
    evs.iter().filter(|e| matches!(e, Ev::Dtor { .. })).count() as u64
}
fn err_obs(r: &Result<(), E>) -> [u64; 3] {
    match r {
        Ok(()) => [0, 0, 0],
        Err(e) => [1, e.code, e.at],
    }
}

fn ser_op<T>(handle: u64, fail: u64, val: &Val) -> Vec<u64>
where
    T: Serialize + for<'de> Deserialize<'de>,
{
    reset(0);
    let build = |v: &Val| T::deserialize(ValDe(v));
    let (plain, inner, inner2) = match (build(val), build(val), build(val)) {
        (Ok(a), Ok(b), Ok(c)) => (a, b, c),
        _ => return vec![97],
    };
    // the same comparison for a serializer that calls itself a binary (not human-readable) format: transparency is
    // claimed for every serializer
    HUMAN.store(false, std::sync::atomic::Ordering::Relaxed);
    reset(fail);
    let rp2 = plain.serialize(RecSer);
    let lp2 = take_log();
    reset(fail);
    let rh2 = if handle == 0 { Arc::new(inner2).serialize(RecSer) } else { UniqueArc::new(inner2).serialize(RecSer) };
    let lh2 = take_log();
    HUMAN.store(true, std::sync::atomic::Ordering::Relaxed);
    reset(fail);
    let rp = plain.serialize(RecSer);
    let lp = take_log();
    reset(fail);
    let rh = if handle == 0 { Arc::new(inner).serialize(RecSer) } else { UniqueArc::new(inner).serialize(RecSer) };
    let lh = take_log();
    let mut out = err_obs(&rh).to_vec();
    out.push((rp == rh && lp == lh && rp2 == rh2 && lp2 == lh2) as u64);
    out.push(SEP);
    out.extend(lh);
    out
}

fn de_op<T>(handle: u64, fail: u64, val: &Val) -> Vec<u64>
where
    T: PartialEq + for<'de> Deserialize<'de>,
{
    let _ = talloc::drain();
    tok::reset();
    reset(fail);
    talloc::record(true);
    let rp = T::deserialize(ValDe(val));
    talloc::record(false);
    let evp = talloc::drain();
    let lp = take_log();
    reset(fail);
    let (status, same, count, unique, evh, dt);
    let mut bad = 0;
    if handle == 0 {
        talloc::record(true);
        let rh = <Arc<T>>::deserialize(ValDe(val));
        talloc::record(false);
        evh = talloc::drain();
        status = err_obs(&rh.as_ref().map(|_| ()).map_err(|e| e.clone()));
        same = match (&rp, &rh) {
            (Ok(a), Ok(b)) => *a == **b,
            (Err(a), Err(b)) => a == b,
            _ => false,
        };
        count = rh.as_ref().map_or(0, |a| Arc::count(a) as u64);
        unique = rh.as_ref().map_or(0, |a| a.is_unique() as u64);
        talloc::record(true);
        drop(rh);
    } else {
        talloc::record(true);
        let rh = <UniqueArc<T>>::deserialize(ValDe(val));
        talloc::record(false);
        evh = talloc::drain();
        status = err_obs(&rh.as_ref().map(|_| ()).map_err(|e| e.clone()));
        same = match (&rp, &rh) {
            (Ok(a), Ok(b)) => *a == **b,
            (Err(a), Err(b)) => a == b,
            _ => false,
        };
        // a UniqueArc is unique by type; what is observable is that it converts to an Arc whose count is 1
        match rh {
            Ok(u) => {
                let a = u.shareable();
                count = Arc::count(&a) as u64;
                unique = a.is_unique() as u64;
                talloc::record(true);
                drop(a);
            }
            Err(_) => {
                count = 0;
                unique = 0;
                talloc::record(true);
            }
        }
    }
    talloc::record(false);
    let ev2 = talloc::drain();
    dt = dtors(&ev2);
    bad += bad_events(&evh) + bad_events(&ev2);
    let lh = take_log();
    let live_after = {
        let mut all = evh.clone();
        all.extend(ev2.iter().copied());
        live(&all)
    };
    talloc::record(true);
    drop(rp);
    talloc::record(false);
    let _ = talloc::drain();
    let mut out = status.to_vec();
    out.extend([(same && lp == lh) as u64, count, unique, (allocs(&evh) - allocs(&evp)) as u64, live_after as u64, bad, dt, SEP]);
    out.extend(lh);
    out
}

/// `[4, handle, ty, fail_at, value1.., value2..]`: `Deserialize::deserialize_in_place` (serde's public, doc-hidden entry
/// point used for fields that already hold a value) into a handle built from value1 that (for Arc) has a second owner.
/// -> `[status, code, at, witness_unchanged, place_value_ok, place_count, witness_count, same_allocation, bad, SEP, calls..]`
fn inplace_op<T>(handle: u64, fail: u64, v1: &Val, v2: &Val) -> Vec<u64>
where
    T: PartialEq + for<'de> Deserialize<'de>,
{
    reset(0);
    let build = |v: &Val| T::deserialize(ValDe(v));
    let (old_ref, old_val) = match (build(v1), build(v1)) {
        (Ok(a), Ok(b)) => (a, b),
        _ => return vec![97],
    };
    let _ = talloc::drain();
    reset(0);
    let want_new = build(v2).ok();
    reset(fail);
    let out;
    if handle == 0 {
        let mut place = Arc::new(old_val);
        let witness = place.clone();
        talloc::record(true);
        let r = <Arc<T> as Deserialize>::deserialize_in_place(ValDe(v2), &mut place);
        talloc::record(false);
        let evs = talloc::drain();
        let st = err_obs(&r.as_ref().map(|_| ()).map_err(|e| e.clone()));
        let witness_ok = *witness == old_ref;
        let place_ok = match (&r, &want_new) {
            (Ok(()), Some(n)) => *place == *n,
            (Ok(()), None) => false,
            (Err(_), _) => *place == old_ref,
        };
        out = vec![st[0], st[1], st[2], witness_ok as u64, place_ok as u64, Arc::count(&place) as u64, Arc::count(&witness) as u64, Arc::ptr_eq(&place, &witness) as u64, bad_events(&evs)];
    } else {
        let mut place = UniqueArc::new(old_val);
        talloc::record(true);
        let r = <UniqueArc<T> as Deserialize>::deserialize_in_place(ValDe(v2), &mut place);
        talloc::record(false);
        let evs = talloc::drain();
        let st = err_obs(&r.as_ref().map(|_| ()).map_err(|e| e.clone()));
        let place_ok = match (&r, &want_new) {
            (Ok(()), Some(n)) => *place == *n,
            (Ok(()), None) => false,
            (Err(_), _) => *place == old_ref,
        };
        let a = place.shareable();
        out = vec![st[0], st[1], st[2], 1, place_ok as u64, Arc::count(&a) as u64, 0, 0, bad_events(&evs)];
    }
    let mut out = out;
    out.push(SEP);
    out.extend(take_log());
    out
}

fn value_op(handle: u64, which: u64) -> Vec<u64> {
    use serde::de::value::{Error as VE, SeqDeserializer, StrDeserializer, StringDeserializer, U32Deserializer, UnitDeserializer};
    fn go<T, D, F>(handle: u64, mk: F) -> Vec<u64>
    where
        T: PartialEq + for<'de> Deserialize<'de>,
        D: for<'de> Deserializer<'de, Error = VE>,
        F: Fn() -> D,
    {
        let _ = talloc::drain();
        talloc::record(true);
        let rp = T::deserialize(mk());
        talloc::record(false);
        let evp = talloc::drain();
        talloc::record(true);
        let rh: Result<Arc<T>, VE> = if handle == 0 { <Arc<T>>::deserialize(mk()) } else { <UniqueArc<T>>::deserialize(mk()).map(|u| u.shareable()) };
        talloc::record(false);
        let evh = talloc::drain();
        let same = match (&rp, &rh) {
            (Ok(a), Ok(b)) => *a == **b,
            (Err(a), Err(b)) => a == b,
            _ => false,
        };
        let st = rh.is_err() as u64;
        let count = rh.as_ref().map_or(0, |a| Arc::count(a) as u64);
        let unique = rh.as_ref().map_or(0, |a| a.is_unique() as u64);
        talloc::record(true);
        drop(rh);
        talloc::record(false);
        let ev2 = talloc::drain();
        let mut all = evh.clone();
        all.extend(ev2.iter().copied());
        let out = vec![st, same as u64, count, unique, (allocs(&evh) - allocs(&evp)) as u64, live(&all) as u64, bad_events(&all)];
        talloc::record(true);
        drop(rp);
        talloc::record(false);
        let _ = talloc::drain();
        out
    }
    match which {
        0 => go::<u32, _, _>(handle, || U32Deserializer::<VE>::new(77)),
        1 => go::<String, _, _>(handle, || U32Deserializer::<VE>::new(77)),
        2 => go::<String, _, _>(handle, || StringDeserializer::<VE>::new(String::from("hello world"))),
        3 => go::<Vec<u32>, _, _>(handle, || SeqDeserializer::<_, VE>::new(vec![1u32, 2, 3].into_iter())),
        4 => go::<(u32, u32, u32), _, _>(handle, || SeqDeserializer::<_, VE>::new(vec![1u32, 2].into_iter())),
        5 => go::<String, _, _>(handle, || StrDeserializer::<VE>::new("abc")),
        6 => go::<(), _, _>(handle, || UnitDeserializer::<VE>::new()),
        7 => go::<(u32, u32), _, _>(handle, || SeqDeserializer::<_, VE>::new(vec![1u32, 2, 3].into_iter())),
        8 => go::<Vec<String>, _, _>(handle, || SeqDeserializer::<_, VE>::new(vec!["a", "bc"].into_iter())),
        9 => go::<u32, _, _>(handle, || "zzz".into_deserializer()),
        _ => vec![98],
    }
}

macro_rules! by_type {
    ($ty:expr, $f:ident, $($a:expr),*) => {
        match $ty {
            0 => $f::<u32>($($a),*),
            1 => $f::<String>($($a),*),
            2 => $f::<(u32, String)>($($a),*),
            3 => $f::<Vec<u32>>($($a),*),
            4 => $f::<Rec>($($a),*),
            5 => $f::<Nested>($($a),*),
            6 => $f::<()>($($a),*),
            7 => $f::<Vec<String>>($($a),*),
            8 => $f::<Tagged>($($a),*),
            9 => $f::<Vec<(u32, String)>>($($a),*),
            _ => vec![98],
        }
    };
}

fn run1(op: &[u64]) -> Vec<u64> {
    if op.len() < 3 || op[1] > 1 {
        return vec![99];
    }
    if op[0] == 3 {
        return if op.len() == 3 { value_op(op[1], op[2]) } else { vec![99] };
    }
    if op.len() < 5 || (op[0] != 1 && op[0] != 2 && op[0] != 4) || op[3] > 10000 {
        return vec![99];
    }
    if op[0] == 4 {
        let mut i = 4;
        let v1 = match parse_val(op, &mut i, 0) {
            Some(v) => v,
            None => return vec![99],
        };
        let v2 = match parse_val(op, &mut i, 0) {
            Some(v) if i == op.len() => v,
            _ => return vec![99],
        };
        let (handle, ty, fail) = (op[1], op[2], op[3]);
        return by_type!(ty, inplace_op, handle, fail, &v1, &v2);
    }
    let mut i = 4;
    let val = match parse_val(op, &mut i, 0) {
        Some(v) if i == op.len() => v,
        _ => return vec![99],
    };
    let (handle, ty, fail) = (op[1], op[2], op[3]);
    if op[0] == 1 {
        by_type!(ty, ser_op, handle, fail, &val)
    } else {
        by_type!(ty, de_op, handle, fail, &val)
    }
}

pub fn run_case(ops: &[Vec<u64>]) -> Vec<Vec<u64>> {
    // a leading [101, ..] carries the impl bodies the translator found, for the model only
    let ops = if ops.first().map_or(false, |o| o.first() == Some(&101)) { &ops[1..] } else { ops };
    ops.iter().map(|op| run1(op)).collect()
}
