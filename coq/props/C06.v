(** * C06 — constructors deliver exactly the given contents and move each element once.  Property theorems only.
    The iterator is a script: what each call of [len()] and [size_hint()] answers, which items [next()] yields. *)
From Coq Require Import NArith List Bool Arith.
From TV Require Import Ctor CtorProofs.
Import ListNotations.
Open Scope N_scope.

(** from_header_and_iter with an honest exact-size iterator of ANY length: the handle holds the header and exactly
    the items, in order; nothing is destroyed during construction (each item now lives in exactly one slot) *)
Theorem C06_from_header_and_iter_exact :
  forall sc h it, sc_panic sc = 0%nat -> fst (call_len sc it) = N.of_nat (length (it_rest it)) ->
  fst (fhai sc h it) = Built h 0 (it_rest it) [].
Proof. exact fhai_exact. Qed.

(** the thin form additionally records the true length *)
Theorem C06_thin_from_header_and_iter :
  forall sc h it,
  match thin_fhai sc h it with
  | Built h' rl cells dropped => h' = Some h /\ cells = it_rest it /\ dropped = [] /\ rl = N.of_nat (length cells)
  | Leaked h' cells dropped => h' = Some h /\ cells ++ dropped = it_rest it
  | Failed d => d = h :: it_rest it
  end.
Proof. exact thin_conserves. Qed.

(** collecting from an iterator: whether the first size_hint is exact (fast path through
    IteratorAsExactSizeIterator) or not (collect to a Vec, then move the Vec over), an honest iterator of any length
    yields exactly its items in order *)
Theorem C06_from_iter_both_paths :
  forall dbg sc it, sc_panic sc = 0%nat ->
  (sc_hints sc = [] \/ exists lo hi, sc_hints sc = [(lo, hi)] /\ (hi = Some lo -> lo = N.of_nat (length (it_rest it)))) ->
  from_iter dbg sc it = Built None 0 (it_rest it) [].
Proof. exact from_iter_exact. Qed.

(** whenever a handle is returned at all -- honest iterator or not -- its contents are exactly the items, in order,
    and the number of slots is the number of items (no slot of the allocation is left unwritten) *)
Theorem C06_a_returned_handle_holds_exactly_the_items :
  forall sc h it,
  match fhai sc h it with
  | (Built h' rl cells dropped, n) => h' = h /\ cells = it_rest it /\ dropped = [] /\ N.of_nat (length cells) = n
  | (Leaked h' cells dropped, _) => h' = h /\ cells ++ dropped = it_rest it
  | (Failed _, _) => False
  end.
Proof. exact fhai_conserves. Qed.

Example C06_nonvacuous :
  fst (fhai (mkS [] [] 0) (Some 0) (mkI 0 0 0 [1; 2; 3; 4; 5])) = Built (Some 0) 0 [1; 2; 3; 4; 5] [] /\
  from_iter true (mkS [] [(0, None)] 0) (mkI 0 0 0 [1; 2; 3]) = Built None 0 [1; 2; 3] [].
Proof. vm_compute. split; reflexivity. Qed.

Check C06_from_header_and_iter_exact.
Print Assumptions C06_from_header_and_iter_exact.
Print Assumptions C06_thin_from_header_and_iter.
Print Assumptions C06_from_iter_both_paths.
Print Assumptions C06_a_returned_handle_holds_exactly_the_items.
