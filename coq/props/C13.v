(** * C13 — thread-safety and borrow lifetimes are enforced by the type system.  Property theorems only.
    [Extracted.auto_impls]: every [unsafe impl Send/Sync] of the crate; [Extracted.borrow_sigs]: the signature of every
    safe public function (or trait method) that returns something carrying a lifetime or takes a callback. *)
From Coq Require Import NArith List Bool Arith String.
From TV Require Import Layout SrcFacts Bits Conc Guard Cmp Serde Traits TraitsProofs Extracted.
Import ListNotations.
Open Scope N_scope.

(** for EVERY payload type (any membership function over Send, Sync, Sized), every handle kind and both traits: the
    handle has the trait exactly when soundness demands it — Arc, ThinArc, OffsetArc, ArcBorrow, ArcUnion: every
    payload parameter Send and Sync; UniqueArc: Send for Send, Sync for Sync; unsized payloads where the kind admits
    them *)
Theorem C13_auto_traits_exact :
  forall k, In k kinds -> forall tr (ps : list payload),
  handle_has Extracted.auto_impls (kd_head k) tr ps = should_have k tr ps.
Proof. apply exact_is_exact. vm_compute. reflexivity. Qed.

(** spelled out on the four classes of the property text *)
Theorem C13_shared_handles_need_send_and_sync :
  forall k, In k kinds -> kd_own k = Shared -> kd_nparams k = 1%nat ->
  forall tr send sync, handle_has Extracted.auto_impls (kd_head k) tr [cls send sync] = send && sync.
Proof. intros k. apply shared_kinds_need_both. vm_compute. reflexivity. Qed.

Theorem C13_unique_arc_is_boxlike :
  forall send sync,
  handle_has Extracted.auto_impls "UniqueArc" TrSend [cls send sync] = send /\
  handle_has Extracted.auto_impls "UniqueArc" TrSync [cls send sync] = sync.
Proof.
  intros. apply (unique_is_boxlike Extracted.auto_impls (mkKD "UniqueArc" Unique 1 true)); try reflexivity.
  simpl. tauto.
Qed.

Theorem C13_two_parameter_handles_need_both_payloads :
  forall tr a b, handle_has Extracted.auto_impls "ThinArc" tr [a; b] = (a BSend && a BSync && a BMaybeSized) && (b BSend && b BSync && b BMaybeSized) /\
                 handle_has Extracted.auto_impls "ArcUnion" tr [a; b] = (a BSend && a BSync && a BMaybeSized) && (b BSend && b BSync && b BMaybeSized).
Proof.
  intros tr a b.
  rewrite (C13_auto_traits_exact (mkKD "ThinArc" Shared 2 false)) by (simpl; tauto).
  rewrite (C13_auto_traits_exact (mkKD "ArcUnion" Shared 2 false)) by (simpl; tauto).
  unfold should_have. destruct tr; simpl; rewrite ?orb_false_r, ?andb_true_r;
    split; destruct (a BSend), (a BSync), (a BMaybeSized), (b BSend), (b BSync), (b BMaybeSized); reflexivity.
Qed.

(** no negative impls, and the owning handles carry the PhantomData markers that make them own their payload for the
    drop checker *)
Theorem C13_markers : Extracted.negative_auto_impls = 0%nat /\ Extracted.owning_markers_ok = true.
Proof. split; reflexivity. Qed.

(** every borrow accessor and callback form passes the lifetime check ... *)
Theorem C13_borrows_bounded : forallb (fun x => bounded (snd x)) Extracted.borrow_sigs = true.
Proof. vm_compute. reflexivity. Qed.

(** ... which means: whatever regions the caller picks, every lifetime in the result ends no later than the life of
    what it was borrowed from *)
Theorem C13_borrows_cannot_outlive_their_source :
  forall name s, In (name, s) Extracted.borrow_sigs ->
  exists ins ret, elide s = Some (ins, ret) /\
    (forall H r, valid s ins H r -> forall l, In l ret -> rle (reg r l) (Some H)) /\
    forallb (lt_eqb LElided) (sg_cb_args s) = true /\ sg_cb_ret_plain s = true.
Proof.
  intros name s Hin. pose proof C13_borrows_bounded as B. rewrite forallb_forall in B. specialize (B _ Hin). simpl in B.
  destruct (bounded_unfold s B) as (ins & ret & E & R & C1 & C2). exists ins, ret. split; [exact E|]. split; [|auto].
  apply (bounded_sound s ins ret E R).
Qed.

(** the check is not vacuous: a free or 'static lifetime in a result, or a caller-chosen lifetime on a callback
    argument, is rejected, and rejection means a real escape in the region semantics *)
Example C13_check_rejects :
  bounded (mkSig [] [[LElided]] true [LVar 5] [] true) = false /\
  bounded (mkSig [] [[LElided]] true [LStatic] [] true) = false /\
  bounded (mkSig [0] [[LElided; LVar 0]; []] true [] [LVar 0] true) = false /\
  (exists H r, valid (mkSig [] [[LElided]] true [LVar 5] [] true) [[LVar 1000]] H r /\ exists l, In l [LVar 5] /\ ~ rle (reg r l) (Some H)).
Proof.
  repeat split; try reflexivity.
  apply (bounded_complete (mkSig [] [[LElided]] true [LVar 5] [] true) [[LVar 1000]] [LVar 5]); reflexivity.
Qed.

Check C13_auto_traits_exact.
Print Assumptions C13_auto_traits_exact.
Print Assumptions C13_shared_handles_need_send_and_sync.
Print Assumptions C13_unique_arc_is_boxlike.
Print Assumptions C13_two_parameter_handles_need_both_payloads.
Print Assumptions C13_markers.
Print Assumptions C13_borrows_bounded.
Print Assumptions C13_borrows_cannot_outlive_their_source.
