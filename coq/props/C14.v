(** * C14 — comparison, ordering, hashing and formatting see through the pointer.  Property theorems only.
    [Extracted.cmp_impls] is the classification of every PartialEq/PartialOrd/Ord/Hash/Debug/Display/Borrow/AsRef
    method body of the handle types, produced by the translator on every run. *)
From Coq Require Import NArith List Bool String.
From TV Require Import Layout SrcFacts Bits Conc Guard Cmp CmpProofs Extracted.
Import ListNotations.
Open Scope N_scope.

(** the impls are the ones the model interprets (any added, removed or rewritten method shows up here) *)
Theorem C14_impls_are_the_modelled_ones : Extracted.cmp_impls = expected_impls.
Proof. reflexivity. Qed.

(** derives the model relies on: HeaderSlice and HeaderSliceWithLengthProtected derive the whole family;
    HeaderWithLength derives equality and hashing but NOT ordering (so the hand-written ordering of
    HeaderSlice<HeaderWithLength<H>, T> is the only one); ArcBorrow derives nothing any more *)
Definition derives_of (n : string) : list string :=
  match find_struct n Extracted.struct_decls with Some d => sd_derives d | None => [] end.
Definition has (l : list string) (x : string) : bool := existsb (String.eqb x) l.
Theorem C14_derives :
  forallb (has (derives_of "HeaderSlice")) ["PartialEq"; "Eq"; "PartialOrd"; "Ord"; "Hash"; "Debug"]%string = true /\
  forallb (has (derives_of "HeaderSliceWithLengthProtected")) ["PartialEq"; "Eq"; "PartialOrd"; "Ord"; "Hash"; "Debug"]%string = true /\
  forallb (has (derives_of "HeaderWithLength")) ["PartialEq"; "Eq"; "Hash"; "Debug"]%string = true /\
  has (derives_of "HeaderWithLength") "PartialOrd" = false /\ has (derives_of "HeaderWithLength") "Ord" = false /\
  derives_of "ArcBorrow" = [] /\ derives_of "OffsetArc" = ["Eq"%string].
Proof. repeat split; reflexivity. Qed.

(** Arc: every comparison, ordering, hashing and formatting method answers as the payload's own method on the
    dereferenced values, for EVERY payload type (no law assumed), except that == / != first look at the allocation *)
Theorem C14_arc_delegates :
  forall (V : Type) (S : psig V) (a b : hv V),
  arc_bool Extracted.cmp_impls "Arc" S OEq a b = Some (same a b || p_eq S (h_val a) (h_val b)) /\
  arc_bool Extracted.cmp_impls "Arc" S ONe a b = Some (negb (same a b) && p_ne S (h_val a) (h_val b)) /\
  arc_bool Extracted.cmp_impls "Arc" S OLt a b = Some (p_lt S (h_val a) (h_val b)) /\
  arc_bool Extracted.cmp_impls "Arc" S OLe a b = Some (p_le S (h_val a) (h_val b)) /\
  arc_bool Extracted.cmp_impls "Arc" S OGt a b = Some (p_gt S (h_val a) (h_val b)) /\
  arc_bool Extracted.cmp_impls "Arc" S OGe a b = Some (p_ge S (h_val a) (h_val b)) /\
  arc_pcmp Extracted.cmp_impls "Arc" S a b = Some (p_pcmp S (h_val a) (h_val b)) /\
  arc_cmp Extracted.cmp_impls "Arc" S a b = Some (p_cmp S (h_val a) (h_val b)) /\
  arc_hash Extracted.cmp_impls "Arc" S a = Some (p_hash S (h_val a)) /\
  arc_dbg Extracted.cmp_impls "Arc" S a = Some (p_dbg S (h_val a)) /\
  arc_disp Extracted.cmp_impls "Arc" S a = Some (p_disp S (h_val a)).
Proof. intros V S a b. exact (arc_delegates S a b). Qed.

(** the one licence: a difference from the payload's == needs the same allocation and a value unequal to itself *)
Theorem C14_same_allocation_licence :
  forall (V : Type) (S : psig V) (a b : hv V),
  arc_bool Extracted.cmp_impls "Arc" S OEq a b <> Some (p_eq S (h_val a) (h_val b)) ->
  same a b = true /\ p_eq S (h_val a) (h_val b) = false.
Proof. intros V S a b. exact (arc_eq_licence S a b). Qed.

Theorem C14_offset_arc_and_arc_borrow_delegate :
  forall (V : Type) (S : psig V) (a b : hv V),
  arc_bool Extracted.cmp_impls "OffsetArc" S OEq a b = Some (p_eq S (h_val a) (h_val b)) /\
  arc_bool Extracted.cmp_impls "OffsetArc" S ONe a b = Some (p_ne S (h_val a) (h_val b)) /\
  arc_dbg Extracted.cmp_impls "OffsetArc" S a = Some (p_dbg S (h_val a)) /\
  arc_bool Extracted.cmp_impls "ArcBorrow" S OEq a b = Some (same a b || p_eq S (h_val a) (h_val b)) /\
  arc_bool Extracted.cmp_impls "ArcBorrow" S ONe a b = Some (negb (same a b) && p_ne S (h_val a) (h_val b)) /\
  arc_dbg Extracted.cmp_impls "ArcBorrow" S a = Some (p_dbg S (h_val a)).
Proof. intros V S a b. exact (offset_and_borrow_delegate S a b). Qed.

(** ArcUnion: same variant = the borrows' == (value, or same allocation); different variants never equal;
    Debug = the value's Debug under the variant's name *)
Theorem C14_union :
  forall (VA VB : Type) (SA : psig VA) (SB : psig VB) (x y : uval VA VB),
  union_eq Extracted.cmp_impls SA SB x y =
    Some (match x, y with
          | UFirst a, UFirst b => same a b || p_eq SA (h_val a) (h_val b)
          | USecond a, USecond b => same a b || p_eq SB (h_val a) (h_val b)
          | _, _ => false
          end) /\
  union_dbg Extracted.cmp_impls SA SB x =
    Some (match x with UFirst a => 1 :: p_dbg SA (h_val a) | USecond b => 2 :: p_dbg SB (h_val b) end).
Proof. intros VA VB SA SB x y. split; [exact (union_eq_spec SA SB x y)|exact (union_dbg_spec SA SB x)]. Qed.

(** ThinArc = the fat Arc of the same allocation on the header-slice payload; that payload orders as its header
    followed by its slice (the recorded length only breaks ties, and never decides for a ThinArc) *)
Theorem C14_thin_is_arc_of_header_slice :
  forall (VH VT : Type) (SH : psig VH) (ST : psig VT) (a b : hv (hs VH VT)),
  thin_bool Extracted.cmp_impls SH ST OEq a b = Some (same a b || p_eq (hslu SH ST) (h_val a) (h_val b)) /\
  thin_bool Extracted.cmp_impls SH ST ONe a b = Some (negb (same a b || p_eq (hslu SH ST) (h_val a) (h_val b))) /\
  (forall o, o <> OEq -> o <> ONe -> thin_bool Extracted.cmp_impls SH ST o a b = Some (of_pcmp (p_pcmp (hslu SH ST) (h_val a) (h_val b)) o)) /\
  thin_pcmp Extracted.cmp_impls SH ST a b = Some (p_pcmp (hslu SH ST) (h_val a) (h_val b)) /\
  thin_cmp Extracted.cmp_impls SH ST a b = Some (p_cmp (hslu SH ST) (h_val a) (h_val b)) /\
  thin_hash Extracted.cmp_impls SH ST a = Some (p_hash (hslu SH ST) (h_val a)).
Proof. intros VH VT SH ST a b. exact (thin_is_arc_of_header_slice SH ST a b). Qed.

Theorem C14_header_then_slice :
  forall (VH VT : Type) (SH : psig VH) (ST : psig VT) (a b : hs VH VT),
  (p_pcmp (hslu SH ST) a b =
     lex (p_pcmp SH (s_hdr a) (s_hdr b)) (fun _ =>
     lex (slice_pcmp ST (s_slice a) (s_slice b)) (fun _ => Some (N.compare (s_len a) (s_len b))))) /\
  (p_cmp (hslu SH ST) a b =
     lexc (p_cmp SH (s_hdr a) (s_hdr b)) (fun _ =>
     lexc (slice_cmp ST (s_slice a) (s_slice b)) (fun _ => N.compare (s_len a) (s_len b)))) /\
  (s_len a = N.of_nat (List.length (s_slice a)) -> s_len b = N.of_nat (List.length (s_slice b)) ->
     p_pcmp (hslu SH ST) a b = lex (p_pcmp SH (s_hdr a) (s_hdr b)) (fun _ => slice_pcmp ST (s_slice a) (s_slice b))).
Proof.
  intros VH VT SH ST a b. destruct (hslu_orders_header_then_slice SH ST a b) as [A B]. split; [exact A|split; [exact B|]].
  apply thin_orders_header_then_slice.
Qed.

(** mutual consistency on EVERY publicly constructible header-slice value (recorded length equal to the slice
    length or not), for lawful header and element types: != is the negation of ==, == holds iff partial_cmp is
    Equal, the four relational operators agree with partial_cmp, cmp agrees with partial_cmp, equal values hash equally *)
Theorem C14_header_slice_consistent :
  forall (VH VT : Type) (SH : psig VH) (ST : psig VT), lawful SH -> lawful ST -> coherent (hslu SH ST).
Proof. intros VH VT SH ST. exact (hslu_coherent SH ST). Qed.

Theorem C14_cmp_agrees_with_partial_cmp :
  forall (VH VT : Type) (SH : psig VH) (ST : psig VT), lawful_ord SH -> lawful_ord ST ->
  forall a b, p_pcmp (hslu SH ST) a b = Some (p_cmp (hslu SH ST) a b).
Proof. intros VH VT SH ST. exact (hslu_cmp_agrees_with_partial_cmp SH ST). Qed.

(** fixed finding F2 (repaired by /repo commit f6d1065): without the recorded length in the ordering the
    consistency fails -- kept as a theorem so that a regression of the repair is recognised for what it is *)
Theorem C14_consistency_needs_the_length_tiebreak :
  let a := mkHS 1 5 [1; 2] in let b := mkHS 1 2 [1; 2] in
  hslu_eq nat_sig nat_sig a b = false /\ tuple_pcmp nat_sig nat_sig [FldHeader; FldSlice] a b = Some Eq.
Proof. exact coherence_needs_the_length_tiebreak. Qed.

Example C14_nonvacuous : lawful_ord nat_sig.
Proof. exact nat_sig_lawful. Qed.

Check C14_arc_delegates.
Print Assumptions C14_impls_are_the_modelled_ones.
Print Assumptions C14_derives.
Print Assumptions C14_arc_delegates.
Print Assumptions C14_same_allocation_licence.
Print Assumptions C14_offset_arc_and_arc_borrow_delegate.
Print Assumptions C14_union.
Print Assumptions C14_thin_is_arc_of_header_slice.
Print Assumptions C14_header_then_slice.
Print Assumptions C14_header_slice_consistent.
Print Assumptions C14_cmp_agrees_with_partial_cmp.
Print Assumptions C14_consistency_needs_the_length_tiebreak.
