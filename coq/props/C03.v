(** * C03 — mutable access only for a sole owner, ordered after all former sharers.  Property theorems only. *)
From Coq Require Import NArith List Bool Arith.
From TV Require Import Layout SrcFacts Conc ConcProofs ConcX ConcXProofs Mech MechProofs MechLog MechProps Extracted.
From TV Require Import SchedCases SchedProofs.
Import ListNotations.
Open Scope N_scope.

(** *** every history: the verdict is "unique" iff no other owning handle of any kind exists; declining changes nothing *)
Theorem C03_is_unique_iff_sole_owner :
  forall d s h x, reachable s -> dead s = false -> skip s = 0%nat -> get_h s h = Some x -> is_arc_kind (hk x) = true ->
  hd 9 (snd (step d s (OIsUnique h))) = S_OK /\
  nth 1 (snd (step d s (OIsUnique h))) 9 = (if (owners (tbl s) (hl x) =? 1)%nat then 1 else 0) /\
  tbl (fst (step d s (OIsUnique h))) = tbl s /\ heap (ms (fst (step d s (OIsUnique h)))) = heap (ms s).
Proof. intros d s h x R Hd Hs. apply is_unique_verdict; [apply reachable_inv; auto|split; auto]. Qed.

Theorem C03_try_unique_iff_sole_owner :
  forall d s h x, reachable s -> dead s = false -> skip s = 0%nat -> get_h s h = Some x -> hk x = KArc -> hm x = MOwned ->
  let r := step d s (OTryUnique h) in
  (owners (tbl s) (hl x) = 1%nat ->
     hd 9 (snd r) = S_OK /\ tbl (fst r) = upd (tbl s) h (Some (mkH KUniq (hl x) MOwned)) /\ heap (ms (fst r)) = heap (ms s)) /\
  (owners (tbl s) (hl x) <> 1%nat ->
     hd 9 (snd r) = S_DECLINED /\ tbl (fst r) = tbl s /\ heap (ms (fst r)) = heap (ms s)).
Proof. intros d s h x R Hd Hs. apply try_unique_verdict; [apply reachable_inv; auto|split; auto]. Qed.

(** get_mut through every Arc-typed kind, also through the [&mut Arc] lent by [ThinArc::with_arc_mut] *)
Theorem C03_get_mut_iff_sole_owner :
  forall d s h x, reachable s -> dead s = false -> skip s = 0%nat -> get_h s h = Some x ->
  is_arc_kind (hk x) && can_mut (hm x) && negb (uninit_view (hk x)) = true ->
  let r := step d s (OGetMut h) in
  (owners (tbl s) (hl x) = 1%nat -> hd 9 (snd r) = S_OK /\ tbl (fst r) = tbl s) /\
  (owners (tbl s) (hl x) <> 1%nat -> hd 9 (snd r) = S_DECLINED /\ tbl (fst r) = tbl s /\ heap (ms (fst r)) = heap (ms s)).
Proof. intros d s h x R Hd Hs. apply get_mut_verdict; [apply reachable_inv; auto|split; auto]. Qed.

Theorem C03_try_unwrap_iff_sole_owner :
  forall d s h x, reachable s -> dead s = false -> skip s = 0%nat -> get_h s h = Some x -> hk x = KArc -> hm x = MOwned ->
  exists b tk, nth_error (heap (ms s)) (hl x) = Some b /\ b_cells b = [(tk, true)] /\
  let r := step d s (OTryUnwrap h) in
  (owners (tbl s) (hl x) = 1%nat ->
     snd r = obs_of S_OK [tk] (ms s) (ms (fst r)) /\ tbl (fst r) = upd (tbl s) h None /\
     heap (ms (fst r)) = upd (heap (ms s)) (hl x) (set_dead b) /\
     log (ms (fst r)) = EDtor tk :: EDealloc (hl x) :: dbg_loads d 1 ++ dbg_loads d 1 ++ EAtomic SCount 1 :: log (ms s)) /\
  (owners (tbl s) (hl x) <> 1%nat ->
     hd 9 (snd r) = S_DECLINED /\ tbl (fst r) = tbl s /\ heap (ms (fst r)) = heap (ms s)).
Proof. intros d s h x R Hd Hs. apply try_unwrap_conserves; [apply reachable_inv; auto|split; auto]. Qed.

(** the deprecated writers panic on a shared handle and leave every view intact *)
Theorem C03_deprecated_write_needs_sole_owner :
  forall d s h x i, reachable s -> dead s = false -> skip s = 0%nat -> get_h s h = Some x ->
  (hk x = KMA \/ hk x = KMAS) -> can_mut (hm x) = true -> owners (tbl s) (hl x) <> 1%nat ->
  let r := step d s (ODeprecatedWrite h i) in
  hd 9 (snd r) = S_PANIC /\ tbl (fst r) = tbl s /\ heap (ms (fst r)) = heap (ms s).
Proof. intros d s h x i R Hd Hs. apply deprecated_write_shared_panics; [apply reachable_inv; auto|split; auto]. Qed.

(** a UniqueArc-like handle is always the only owner of its value (it is only ever built from a fresh or
    verified-unique Arc) *)
Theorem C03_unique_handles_are_sole_owners :
  forall s h x, reachable s -> dead s = false -> get_h s h = Some x -> is_unique_kind (hk x) = true ->
  owners (tbl s) (hl x) = 1%nat.
Proof.
  intros s h x R Hd Hx Hu. pose proof (reachable_inv s R Hd) as G. apply get_h_some in Hx.
  destruct (handle_block _ _ _ _ _ G Hx) as (b & Hb & Al & Ok & Cn & Pos & Le).
  destruct Ok as (_ & U & _). specialize (U Hu). rewrite Cn in U. apply Nat2N.inj. rewrite U. reflexivity.
Qed.

(** *** every schedule: a uniqueness test cannot be fooled by a stale 1; when it grants, the caller is the sole
    holder and its view contains every access any thread ever made, so the write it then performs does not
    race (the machine would set [raced]) *)
Theorem C03_grant_is_ordered_after_all_sharers :
  forall ls s t i s', cexec Extracted.conc_cfg cinit ls = Some s -> cstep Extracted.conc_cfg s (LUniq t i) = Some s' ->
  m_val (nth i (msgs s) (mkMsg 0 vempty)) = 1%nat ->
  i = lasti s /\ t_owned (T s t) = 1%nat /\ (forall u, u <> t -> holds (T s u) = false) /\
  t_mode (T s' t) = Granted /\ knows_all s' t.
Proof. intros ls s t i s'. exact (uniq_sound Extracted.conc_cfg ls s t i s' eq_refl). Qed.

Theorem C03_no_race_with_the_writer :
  forall ls s, cexec Extracted.conc_cfg cinit ls = Some s -> raced s = false.
Proof. intros ls s H. exact (conc_safe Extracted.conc_cfg ls s eq_refl H). Qed.

Theorem C03_acquire_on_the_test_is_necessary :
  raced_after (mkCfg true true false) [LClone 0; LClone 0; LDrop 0; LSend 0 1; LRead 0; LDrop 0; LUniq 1 4; LWrite 1] = true.
Proof. exact uniq_relaxed_refuted. Qed.

(** the uniqueness test and the release path as they are written in the source (translated to programs over the counter
    on every run) are the ones the machine models: one Acquire load compared with 1; a Release decrement electing the
    destroyer by its own result *)
Theorem C03_protocol_as_written :
  p_uniq Extracted.count_progs = p_uniq good_progs /\ p_drop Extracted.count_progs = p_drop good_progs.
Proof. split; reflexivity. Qed.

(** ... and those programs, interpreted one instruction per step on the view memory, are safe for EVERY schedule: any
    number of threads, any interleaving at instruction granularity, stale loads included — no data race, no access
    after free, no second destroy or free, no value lost at quiescence.  (Proved by a simulation into [Conc.v]:
    ConcXProofs.xstep_sim; the statement is about the translated programs, so a change of the protocol in the source
    changes the statement that has to be proved.) *)
Theorem C03_protocol_as_written_is_safe :
  forall ls s, xexec Extracted.count_progs xinit ls = Some s -> bad s = false.
Proof. exact xsafe. Qed.




(** the uniqueness tests, copy-on-write and unwrapping functions (make_mut, make_unique, get_mut, try_unique, try_unwrap,
    unwrap_or_clone, into_inner, from_arc, OffsetArc::make_mut, drop, clone ... 21 functions) still have the bodies the
    machine's library functions were transcribed from *)
Theorem C03_functions_are_the_modelled_ones : Extracted.cow_forms_ok = true.
Proof. reflexivity. Qed.

(** The schedule stream (tools/propdefs.py, harness/src/sched.rs) drives real threads of the crate through label
    streams filtered by the machine and compares every step.  Whatever the generator produces, what the machine accepts
    is one of the executions the theorem above is about: the final state of every case of the stream is safe. *)
Theorem C03_every_schedule_of_the_stream_is_covered :
  forall fuel cow ls, bad (fst (fst (run_labels Extracted.count_progs fuel cow xinit ls))) = false.
Proof. exact sched_stream_is_covered. Qed.


Check C03_grant_is_ordered_after_all_sharers.
Print Assumptions C03_is_unique_iff_sole_owner.
Print Assumptions C03_try_unique_iff_sole_owner.
Print Assumptions C03_get_mut_iff_sole_owner.
Print Assumptions C03_try_unwrap_iff_sole_owner.
Print Assumptions C03_deprecated_write_needs_sole_owner.
Print Assumptions C03_unique_handles_are_sole_owners.
Print Assumptions C03_grant_is_ordered_after_all_sharers.
Print Assumptions C03_no_race_with_the_writer.
Print Assumptions C03_acquire_on_the_test_is_necessary.
Print Assumptions C03_protocol_as_written.
Print Assumptions C03_functions_are_the_modelled_ones.
Print Assumptions C03_protocol_as_written_is_safe.
Print Assumptions C03_every_schedule_of_the_stream_is_covered.
