(** * C15 — uninitialised construction never destroys or exposes what was not written.  Property theorems only. *)
From Coq Require Import NArith List Bool Arith.
From TV Require Import Layout SrcFacts Bits Conc ConcX Guard Cmp Serde Traits Mech MechProofs MechLog MechProps Extracted.
Import ListNotations.
Open Scope N_scope.

(** dropping a handle whose elements are typed MaybeUninit (UniqueArc/Arc of MaybeUninit<T>, of [MaybeUninit<T>],
    of HeaderSlice<H,[MaybeUninit<T>]>), whatever subset of slots was written: no element destructor runs; the
    header (initialised) is destroyed exactly once; the block is freed once -- when this is the last owner *)
Theorem C15_uninit_drop_runs_no_element_destructor :
  forall d s h x f, reachable s -> dead s = false -> skip s = 0%nat -> get_h s h = Some x ->
  uninit_view (hk x) = true -> drop_impl (hk x) = Some f -> hm x = MOwned ->
  exists b, nth_error (heap (ms s)) (hl x) = Some b /\
    log (ms (fst (step d s (ODrop h)))) =
      (if (owners (tbl s) (hl x) =? 1)%nat
       then EDealloc (hl x) :: rev (hdr_events (b_hdr b)) ++ [EAtomic SAcq 0; EAtomic SDec 1]
       else [EAtomic SDec (b_cnt b)]) ++ log (ms s).
Proof.
  intros d s h x f R Hd Hs Hx Hu Hdr Hm.
  destruct (drop_events d s h x f (reachable_inv s R Hd) (conj Hd Hs) Hx Hdr Hm) as (b & vinit & Hb & Hv & Hl).
  exists b. split; auto. rewrite Hl.
  assert (vinit = false). { destruct vinit; auto. destruct Hv as [Hv _]. specialize (Hv eq_refl). congruence. }
  subst vinit. reflexivity.
Qed.

(** ... while a handle whose type says the elements are initialised destroys every element exactly once, in
    order, after the header, together with the block *)
Theorem C15_init_drop_destroys_every_element_once :
  forall d s h x f, reachable s -> dead s = false -> skip s = 0%nat -> get_h s h = Some x ->
  uninit_view (hk x) = false -> drop_impl (hk x) = Some f -> hm x = MOwned -> owners (tbl s) (hl x) = 1%nat ->
  exists b, nth_error (heap (ms s)) (hl x) = Some b /\
    log (ms (fst (step d s (ODrop h)))) =
      EDealloc (hl x) :: rev (map (fun c => EDtor (fst c)) (b_cells b)) ++ rev (hdr_events (b_hdr b)) ++ [EAtomic SAcq 0; EAtomic SDec 1] ++ log (ms s).
Proof.
  intros d s h x f R Hd Hs Hx Hu Hdr Hm Ho.
  destruct (drop_events d s h x f (reachable_inv s R Hd) (conj Hd Hs) Hx Hdr Hm) as (b & vinit & Hb & Hv & Hl).
  exists b. split; auto. rewrite Hl, Ho. simpl.
  assert (vinit = true) by (apply Hv; auto). subst vinit. unfold dtor_events. rewrite <- !app_assoc. reflexivity.
Qed.

(** assume_init (all five forms) changes the handle's type only: same block, same heap, and the table entry
    either becomes the initialised kind at the same block or (when a slot is still unwritten, which the
    caller promised not to be the case) nothing happens *)
Theorem C15_assume_init_changes_only_the_type :
  forall d s h x k', reachable s -> dead s = false -> skip s = 0%nat -> get_h s h = Some x -> hm x = MOwned ->
  assume_target (hk x) = Some k' ->
  let r := step d s (OConv 16 h) in
  heap (ms (fst r)) = heap (ms s) /\
  (tbl (fst r) = upd (tbl s) h (Some (mkH k' (hl x) MOwned)) \/ tbl (fst r) = tbl s).
Proof. intros d s h x k' R Hd Hs. apply assume_init_neutral; [apply reachable_inv; auto|split; auto]. Qed.

(** writing through a shared handle with the deprecated Arc::write / as_mut_slice panics; table and heap
    (hence every other handle's view) are unchanged *)
Theorem C15_shared_deprecated_write_panics :
  forall d s h x i, reachable s -> dead s = false -> skip s = 0%nat -> get_h s h = Some x ->
  (hk x = KMA \/ hk x = KMAS) -> can_mut (hm x) = true -> owners (tbl s) (hl x) <> 1%nat ->
  let r := step d s (ODeprecatedWrite h i) in
  hd 9 (snd r) = S_PANIC /\ tbl (fst r) = tbl s /\ heap (ms (fst r)) = heap (ms s).
Proof. intros d s h x i R Hd Hs. apply deprecated_write_shared_panics; [apply reachable_inv; auto|split; auto]. Qed.

(** worked history: header+3 uninit slots, one slot written, dropped: only the header token (0) is destroyed;
    then: all slots written, assume_init, dropped: header and the three elements destroyed once each *)
Example C15_nonvacuous :
  snd (run false init_st (map decode [[0;9;3;0]; [40;0;1]; [21;0]; [0;9;3;0]; [40;1;0]; [40;1;1]; [40;1;2]; [23;16;1]; [21;1]])) =
  [[0; 0; 99999999; 4; 0]; [0; 99999999]; [0; 99999999; 5; 3; 1; 5; 4; 0; 1; 0; 2; 0];
   [0; 1; 99999999; 4; 1]; [0; 99999999]; [0; 99999999]; [0; 99999999]; [0; 99999999];
   [0; 99999999; 5; 3; 1; 5; 4; 0; 1; 2; 1; 3; 1; 4; 1; 5; 2; 1]].
Proof. vm_compute. reflexivity. Qed.


(** the uninitialised constructors, the writers and the assume_init family (12 functions) still have the bodies the
    machine's constructors, slot writes and type-only conversions were transcribed from *)
Theorem C15_functions_are_the_modelled_ones : Extracted.uninit_forms_ok = true.
Proof. reflexivity. Qed.

Check C15_uninit_drop_runs_no_element_destructor.
Print Assumptions C15_uninit_drop_runs_no_element_destructor.
Print Assumptions C15_init_drop_destroys_every_element_once.
Print Assumptions C15_assume_init_changes_only_the_type.
Print Assumptions C15_shared_deprecated_write_panics.
Print Assumptions C15_functions_are_the_modelled_ones.
