(** * C07 — panicking or lying callbacks cause no double drop and no uninitialised read.  Property theorems only. *)
From Coq Require Import NArith List Bool Arith.
From TV Require Import Layout SrcFacts Bits Conc Guard Cmp Ctor CtorProofs Mech MechProofs MechLog MechProps Extracted.
Import ListNotations.
Open Scope N_scope.

(** iterators: for EVERY script -- any answers to len()/size_hint(), equal or not to the real number of items, changing
    between calls or not, a panic at any call of next() -- every item ends up in exactly one place, in order: in the
    returned handle, in the leaked half-built block, or destroyed (once); a handle is returned only when every one of
    its slots was written; nothing else happens (no [Failed] for the fat constructor) *)
Theorem C07_from_header_and_iter_any_script :
  forall sc h it,
  match fhai sc h it with
  | (Built h' rl cells dropped, n) => h' = h /\ cells = it_rest it /\ dropped = [] /\ N.of_nat (length cells) = n
  | (Leaked h' cells dropped, _) => h' = h /\ cells ++ dropped = it_rest it
  | (Failed _, _) => False
  end.
Proof. exact fhai_conserves. Qed.

Theorem C07_thin_any_script :
  forall sc h it,
  match thin_fhai sc h it with
  | Built h' rl cells dropped => h' = Some h /\ cells = it_rest it /\ dropped = [] /\ rl = N.of_nat (length cells)
  | Leaked h' cells dropped => h' = Some h /\ cells ++ dropped = it_rest it
  | Failed d => d = h :: it_rest it
  end.
Proof. exact thin_conserves. Qed.

Theorem C07_from_iter_any_script :
  forall dbg sc it,
  match from_iter dbg sc it with
  | Built h _ cells dropped => h = None /\ cells = it_rest it /\ dropped = []
  | Leaked h cells dropped => h = None /\ cells ++ dropped = it_rest it
  | Failed d => exists pre post, pre ++ post = it_rest it /\ d = post ++ pre
  end.
Proof. exact from_iter_conserves. Qed.

(** callbacks of the handle operations: the histories of the handle machine contain panics inside every callback
    form (with_arc, with_arc_mut, with_raw_offset_arc, ArcBorrow::with_arc, nested: this is also how a comparison,
    hash or format impl is reached through ThinArc) and panics in Clone::clone inside make_mut / make_unique /
    unwrap_or_clone; after every such history every surviving handle is valid with an accurate count and nothing
    undefined happened *)
Theorem C07_unwinding_keeps_every_invariant :
  forall s, reachable s -> dead s = false ->
    ub (ms s) = false /\
    (forall l b, nth_error (heap (ms s)) l = Some b ->
       if b_alive b then b_cnt b = N.of_nat (owners (tbl s) l) /\ (0 < owners (tbl s) l)%nat else owners (tbl s) l = 0%nat) /\
    (forall h x, get_h s h = Some x -> exists b, nth_error (heap (ms s)) (hl x) = Some b /\ b_alive b = true).
Proof.
  intros s R Hd. pose proof (reachable_inv s R Hd) as G. split; [exact (g_ub _ _ _ G)|split].
  - intros l b Hb. pose proof (g_blk _ _ _ G l b Hb) as B. unfold blk_ok in B. destruct (b_alive b); tauto.
  - intros h x Hx. apply get_h_some in Hx. destruct (handle_block _ _ _ _ _ G Hx) as (b & Hb & Al & _). eauto.
Qed.

(** a panicking Clone inside make_mut leaves table and heap as they were (the handle is assigned only after the
    clone and the new allocation succeeded; OffsetArc::make_mut parks the Arc in ManuallyDrop) *)
Theorem C07_panicking_clone_in_make_mut_changes_nothing :
  forall d s h x, reachable s -> dead s = false -> skip s = 0%nat -> get_h s h = Some x ->
  (hk x = KArc \/ hk x = KOff) -> can_mut (hm x) = true -> owners (tbl s) (hl x) <> 1%nat ->
  let r := step d s (OMakeMut h true) in
  hd 9 (snd r) = S_PANIC /\ tbl (fst r) = tbl s /\ heap (ms (fst r)) = heap (ms s).
Proof.
  intros d s h x R Hd Hs Hx Hk Hm Ho.
  destruct (make_mut_cow d s h x true (reachable_inv s R Hd) (conj Hd Hs) Hx Hk Hm) as (b & tk & _ & _ & _ & _ & P).
  exact (P Ho eq_refl).
Qed.

(** with_arc_mut: whatever the callback did to the Arc, when it returns or unwinds the ThinArc targets what the
    Arc then targets *)
Theorem C07_with_arc_mut_guard_writes_back_on_unwind :
  forall s h l' pm fs, get_h s h = Some (mkH KProt l' MMut) ->
  get_h (exit_all s (mkF h KThin pm 1 :: fs)) h = get_h (exit_all (set_h s h (Some (mkH KThin l' pm))) fs) h.
Proof. exact with_arc_mut_writeback. Qed.

(** allocation failure: the allocator's result is checked for null before anything is written *)
Theorem C07_null_checked : Extracted.tafl_null_checked = true /\ Extracted.new_uninit_null_checked = true.
Proof. split; reflexivity. Qed.

Example C07_nonvacuous :
  fst (fhai (mkS [4] [] 0) (Some 0) (mkI 0 0 0 [1; 2; 3])) = Leaked (Some 0) [1; 2; 3] [] /\
  fst (fhai (mkS [2] [] 0) (Some 0) (mkI 0 0 0 [1; 2; 3])) = Leaked (Some 0) [1; 2] [3] /\
  fst (fhai (mkS [] [] 2) (Some 0) (mkI 0 0 0 [1; 2; 3])) = Leaked (Some 0) [1] [2; 3] /\
  thin_fhai (mkS [2; 3] [] 0) 0 (mkI 0 0 0 [1; 2; 3]) = Failed [0; 1; 2; 3].
Proof. vm_compute. repeat split. Qed.

Check C07_from_header_and_iter_any_script.
Print Assumptions C07_from_header_and_iter_any_script.
Print Assumptions C07_thin_any_script.
Print Assumptions C07_from_iter_any_script.
Print Assumptions C07_unwinding_keeps_every_invariant.
Print Assumptions C07_panicking_clone_in_make_mut_changes_nothing.
Print Assumptions C07_with_arc_mut_guard_writes_back_on_unwind.
Print Assumptions C07_null_checked.
