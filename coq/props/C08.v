(** * C08 — copy-on-write: a write through make_mut is never seen through another handle.  Property theorems only. *)
From Coq Require Import NArith List Bool Arith.
From TV Require Import Layout SrcFacts Conc ConcProofs Mech MechProofs MechLog MechProps Extracted.
From TV Require Import ConcX SchedCases SchedProofs.
Import ListNotations.
Open Scope N_scope.

(** make_mut on Arc and on OffsetArc (the machine's [OMakeMut] also performs the write through the returned
    reference), in every reachable state, whatever kinds the other owners have (raw pointers and forgotten
    handles are owners):
    - sole owner: the handle keeps its block, no Clone call is logged, only that block's contents change;
    - otherwise: exactly one Clone call; the handle now targets a fresh block with count 1 holding the clone
      and then the written value; the old block keeps its cells and loses exactly one count; no other block
      changes -- so every other handle reads what it read before;
    - a panicking Clone leaves table and heap as they were. *)
Theorem C08_make_mut_is_copy_on_write :
  forall d s h x pf, reachable s -> dead s = false -> skip s = 0%nat -> get_h s h = Some x ->
  (hk x = KArc \/ hk x = KOff) -> can_mut (hm x) = true ->
  exists b tk, nth_error (heap (ms s)) (hl x) = Some b /\ b_cells b = [(tk, true)] /\
  let r := step d s (OMakeMut h pf) in
  let hp := heap (ms s) in let hp' := heap (ms (fst r)) in
  (owners (tbl s) (hl x) = 1%nat ->
     tbl (fst r) = upd (tbl s) h (Some (mkH (hk x) (hl x) (hm x))) /\ length hp' = length hp /\
     (forall l, l <> hl x -> nth_error hp' l = nth_error hp l) /\
     log (ms (fst r)) = [EDtor tk; EAtomic SCount 1] ++ log (ms s)) /\
  (owners (tbl s) (hl x) <> 1%nat -> pf = false ->
     tbl (fst r) = upd (tbl s) h (Some (mkH (hk x) (length hp) (hm x))) /\ length hp' = S (length hp) /\
     (forall l, l <> hl x -> (l < length hp)%nat -> nth_error hp' l = nth_error hp l) /\
     nth_error hp' (hl x) = Some (set_cnt b (b_cnt b - 1)) /\
     (exists t', nth_error hp' (length hp) = Some (mkB 1 true CS None 0 [(t', true)])) /\
     exists t1, log (ms (fst r)) = [EDtor t1; EAtomic SDec (b_cnt b); EAlloc (length hp); EClone tk t1; EAtomic SCount (b_cnt b)] ++ log (ms s)) /\
  (owners (tbl s) (hl x) <> 1%nat -> pf = true ->
     hd 9 (snd r) = S_PANIC /\ tbl (fst r) = tbl s /\ hp' = hp).
Proof. intros d s h x pf R Hd Hs. apply make_mut_cow; [apply reachable_inv; auto|split; auto]. Qed.

(** every schedule: the in-place branch writes only after a granting uniqueness test, and the machine finds no
    race between that write (or the clone's read followed by a release) and other threads' reads and drops *)
Theorem C08_cow_is_race_free :
  forall ls s, cexec Extracted.conc_cfg cinit ls = Some s -> raced s = false.
Proof. intros ls s H. exact (conc_safe Extracted.conc_cfg ls s eq_refl H). Qed.

Example C08_nonvacuous :
  snd (run false init_st (map decode [[0;0;0;0]; [20;0]; [23;2;1]; [34;1;0]; [27;0]; [27;1]; [34;1;0]])) =
  [[0; 0; 99999999; 4; 0]; [0; 0; 99999999; 5; 1; 1]; [0; 99999999];
   [0; 1; 99999999; 5; 2; 2; 3; 0; 1; 4; 1; 5; 3; 2; 1; 1]; [0; 1; 0; 99999999]; [0; 1; 2; 99999999];
   [0; 1; 99999999; 5; 2; 1; 1; 2]].
Proof. vm_compute. reflexivity. Qed.


(** the uniqueness tests, copy-on-write and unwrapping functions (make_mut, make_unique, get_mut, try_unique, try_unwrap,
    unwrap_or_clone, into_inner, from_arc, OffsetArc::make_mut, drop, clone ... 21 functions) still have the bodies the
    machine's library functions were transcribed from *)
Theorem C08_functions_are_the_modelled_ones : Extracted.cow_forms_ok = true.
Proof. reflexivity. Qed.

(** The schedule stream drives real threads of the crate - make_mut among the calls - through label streams filtered by
    the machine and compares every step.  make_mut runs the uniqueness test and then either hands out exclusive access
    or clones the value and gives the handle up: the two programs of unwrap_or_clone.  Whatever the generator produces,
    what the machine accepts is one of the executions [ConcXProofs.xsafe] is about. *)
Theorem C08_every_schedule_of_the_stream_is_covered :
  forall fuel cow ls, bad (fst (fst (run_labels Extracted.count_progs fuel cow xinit ls))) = false.
Proof. exact sched_stream_is_covered. Qed.

Check C08_make_mut_is_copy_on_write.
Print Assumptions C08_make_mut_is_copy_on_write.
Print Assumptions C08_cow_is_race_free.
Print Assumptions C08_functions_are_the_modelled_ones.
Print Assumptions C08_every_schedule_of_the_stream_is_covered.
