(** * C17 — serialisation is transparent, deserialisation yields a fresh sole owner.  Property theorems only.
    [Extracted.ser_*_body] / [de_*_body] are the four impl bodies as the translator found them in the source now. *)
From Coq Require Import NArith List Bool Arith.
From TV Require Import Layout SrcFacts Bits Conc Guard Cmp Mech MechProofs Serde SerdeProofs Extracted.
Import ListNotations.
Open Scope N_scope.

(** for EVERY serializer (any state machine over any call alphabet, answering each call with Ok or an error) and
    EVERY payload impl (any interaction program, free to inspect each answer): serialising the handle makes the same
    calls, leaves the serializer in the same state and returns the same result, errors included *)
Theorem C17_serialize_transparent :
  forall (call ok err st : Type) (newtype : N -> call) (p : prog call ok err),
  (exists q, handle_prog newtype Extracted.ser_arc_body p = Some q /\ forall (m : machine call ok err st) s, run m s q = run m s p) /\
  (exists q, handle_prog newtype Extracted.ser_uniq_body p = Some q /\ forall (m : machine call ok err st) s, run m s q = run m s p).
Proof. intros. split; apply ser_transparent; reflexivity. Qed.

(** deserialisation succeeded with value [t]: exactly one allocation, of a block that did not exist before, holding
    [t] with count 1; nothing else in the heap changes *)
Theorem C17_deserialize_fresh :
  forall (err : Type) t m,
  (exists f, de_handle (err := err) Extracted.de_arc_body (inl t) = Some f /\
     f m = (Ret (inl (length (heap m))), mkM (heap m ++ [mkB 1 true CS None 0 [(t, true)]]) (EAlloc (length (heap m)) :: log m) (ub m) (ntok m)) /\
     nth_error (heap m) (length (heap m)) = None) /\
  (exists f, de_handle (err := err) Extracted.de_uniq_body (inl t) = Some f /\
     f m = (Ret (inl (length (heap m))), mkM (heap m ++ [mkB 1 true CS None 0 [(t, true)]]) (EAlloc (length (heap m)) :: log m) (ub m) (ntok m)) /\
     nth_error (heap m) (length (heap m)) = None).
Proof. intros. split; apply de_fresh; reflexivity. Qed.

(** the payload's deserialiser failed with [e]: the handle's fails with the same [e]; heap and event log (no
    allocation) are untouched *)
Theorem C17_deserialize_error_passes_through :
  forall (err : Type) (e : err) m,
  (exists f, de_handle Extracted.de_arc_body (inr e) = Some f /\ f m = (Ret (inr e), m)) /\
  (exists f, de_handle Extracted.de_uniq_body (inr e) = Some f /\ f m = (Ret (inr e), m)).
Proof. intros. split; apply de_error; reflexivity. Qed.

(** the constructor used is the handle machine's: in ANY reachable state the handle it returns is the only owner *)
Theorem C17_new_handle_is_sole_owner :
  forall d s c, reachable s -> dead s = false -> skip s = 0%nat -> (c = 0 \/ c = 1) ->
  let s' := fst (step d s (ONew c 1 0)) in
  let l := length (heap (ms s)) in
  nth_error (heap (ms s)) l = None /\
  exists b, nth_error (heap (ms s')) l = Some b /\ b_alive b = true /\ b_cnt b = 1 /\ owners (tbl s') l = 1%nat /\
            length (tbl s') = S (length (tbl s)).
Proof. exact new_handle_is_sole_owner. Qed.

(** these four are all the serde impls of the crate *)
Theorem C17_closed_world : Extracted.serde_impls_closed = true.
Proof. reflexivity. Qed.

(** the statement is not vacuous: a wrapper call would be visible to some serializer *)
Example C17_a_wrapper_would_be_visible :
  exists (m : machine (list N) unit derr N) (p : prog (list N) unit derr) q,
    handle_prog (fun n => [13; n]) (SNewtype 99 (SDelegate 2)) p = Some q /\ run m 0 q <> run m 0 p.
Proof. exact newtype_is_visible. Qed.

Check C17_serialize_transparent.
Print Assumptions C17_serialize_transparent.
Print Assumptions C17_deserialize_fresh.
Print Assumptions C17_deserialize_error_passes_through.
Print Assumptions C17_new_handle_is_sole_owner.
Print Assumptions C17_closed_world.
