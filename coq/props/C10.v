(** * C10 — a ThinArc is an exact one-word stand-in for the fat Arc.  Property theorems only.
    (Addresses and offsets of header, length and elements inside the block are C05/C11's subject:
    LayoutProofs and the layout stream; here: the recorded length, the conversions, the refusal, the write-back.) *)
From Coq Require Import NArith List Bool Arith.
From TV Require Import Layout LayoutProofs SrcFacts Bits Conc Guard Cmp Serde Traits Mech MechProofs MechLog MechProps Extracted.
Import ListNotations.
Open Scope N_scope.

(** every ThinArc / raw thin pointer / Protected Arc of every reachable state records the true slice length *)
Theorem C10_recorded_length_is_slice_length :
  forall s h x, reachable s -> dead s = false -> get_h s h = Some x ->
  (hk x = KThin \/ hk x = KRawThin \/ hk x = KProt) ->
  exists b, nth_error (heap (ms s)) (hl x) = Some b /\ b_alive b = true /\ b_cls b = CHL /\
            b_reclen b = N.of_nat (length (b_cells b)).
Proof. exact thin_length_recorded. Qed.

(** dereferencing the thin handle and the fat handle of one block shows the same header and elements *)
Theorem C10_thin_view_is_fat_view : forall b, read_view KThin b = read_view KFat b /\ read_view KProt b = read_view KFat b.
Proof. intros b. split; reflexivity. Qed.

(** thin -> fat -> thin (and the Protected and raw forms) return the same allocation without touching any count *)
Theorem C10_thin_fat_conversions_are_neutral :
  forall d s c h, c <> 7 -> forall l, owners (tbl (fst (step d s (OConv c h)))) l = owners (tbl s) l.
Proof.
  intros d s c h Hc l. apply (neutral_ops_keep_owners d s (OConv c h)). simpl. apply negb_true_iff. apply N.eqb_neq. exact Hc.
Qed.

(** converting a fat Arc whose recorded length disagrees with its slice is refused with a panic, and that Arc is
    released properly (the state is again [Good]: count decremented, or value destroyed and block freed) *)
Theorem C10_into_thin_refuses_wrong_length :
  forall d s h x b, reachable s -> dead s = false -> skip s = 0%nat -> get_h s h = Some x -> hk x = KFat -> hm x = MOwned ->
  nth_error (heap (ms s)) (hl x) = Some b -> b_reclen b <> N.of_nat (length (b_cells b)) ->
  let r := step d s (OConv 7 h) in
  hd 9 (snd r) = S_PANIC /\ tbl (fst r) = upd (tbl s) h None /\ Good (fst r).
Proof. intros d s h x b R Hd Hs. apply into_thin_mismatch; [apply reachable_inv; auto|split; auto]. Qed.

(** a with_arc_mut callback that replaced the Arc: when it returns or panics, the ThinArc targets the replacement *)
Theorem C10_with_arc_mut_writes_back :
  forall s h l' pm fs, get_h s h = Some (mkH KProt l' MMut) ->
  get_h (exit_all s (mkF h KThin pm 1 :: fs)) h = get_h (exit_all (set_h s h (Some (mkH KThin l' pm))) fs) h.
Proof. exact with_arc_mut_writeback. Qed.

(** a worked history: replace inside with_arc_mut, then panic: thin 0 now reads the replacement's contents (tokens
    4,5,6,7), the old block (tokens 0,1,2) lost the owner that was assigned away *)
Example C10_replace_then_panic :
  let r := run false init_st (map decode [[0;4;2;0]; [0;4;3;0]; [41;1;0]; [45;0;1]; [43]; [42]; [27;0]; [25;1;0]]) in
  nth 6 (snd r) [] = [0; 3; 3; 4; 5; 6; 99999999] /\ map b_alive (heap (ms (fst r))) = [false; true].
Proof. vm_compute. split; reflexivity. Qed.

(** the thin pointer's sized stand-in type ([... HeaderSlice<HeaderWithLength<H>, [T; 0]>]) puts the payload, the
    header and the recorded length at the same offsets as the fat type, for EVERY header and element shape (any size,
    any alignment) and every length: re-fattening with the stored length reads the right word *)
Theorem C10_thin_stand_in_has_the_fat_offsets :
  forall H T n L, layout_of (s_ArcInner (s_HeaderSlice (s_HeaderWithLength H) (Arr T n))) = Some L ->
  let fat := s_HeaderSlice (s_HeaderWithLength H) (Arr T n) in
  let thin := s_HeaderSlice (s_HeaderWithLength H) (Arr T 0) in
  struct_field_off [s_usize; thin] 1 = struct_field_off [s_usize; fat] 1 /\
  struct_field_off [s_HeaderWithLength H; Arr T 0] 0 = struct_field_off [s_HeaderWithLength H; Arr T n] 0 /\
  struct_field_off [s_HeaderWithLength H; Arr T 0] 1 = struct_field_off [s_HeaderWithLength H; Arr T n] 1.
Proof. exact thin_prefix_offsets. Qed.

(** ... and the source declares exactly that stand-in, and the thin plumbing functions are the modelled ones *)
Theorem C10_thin_pointee_is_the_stand_in : Extracted.thin_pointee_ok = true /\ Extracted.thin_forms_ok = true.
Proof. split; reflexivity. Qed.

(** the zero-length tail is needed: without it (or with an alignment-1 marker) the payload of an over-aligned element
    type would be looked up at another offset (8 instead of 16 for a 16-aligned element behind a u64 header) *)
Example C10_the_tail_carries_the_alignment :
  let T := Prim 16 4 in let H := Prim 8 3 in
  struct_field_off [s_usize; s_HeaderSlice (s_HeaderWithLength H) (Arr T 3)] 1 = Some 16 /\
  struct_field_off [s_usize; s_HeaderWithLength H] 1 = Some 8 /\
  struct_field_off [s_usize; s_HeaderSlice (s_HeaderWithLength H) (Prim 0 0)] 1 = Some 8.
Proof. vm_compute. repeat split. Qed.

Check C10_recorded_length_is_slice_length.
Print Assumptions C10_recorded_length_is_slice_length.
Print Assumptions C10_thin_view_is_fat_view.
Print Assumptions C10_thin_fat_conversions_are_neutral.
Print Assumptions C10_into_thin_refuses_wrong_length.
Print Assumptions C10_with_arc_mut_writes_back.
Print Assumptions C10_thin_stand_in_has_the_fat_offsets.
Print Assumptions C10_thin_pointee_is_the_stand_in.
