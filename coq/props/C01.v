(** * C01 — a shared value lives exactly as long as some owning handle does.

    Property theorems only.  The machine ([Mech.step]) covers every handle kind (Arc, UniqueArc, OffsetArc,
    ArcUnion of both variants, ThinArc, raw pointers of the three into_raw forms, header-erased, unsized,
    MaybeUninit-typed and slice handles), all 26 conversion edges, the five callback forms with nested
    bodies and panics; [reachable s] ranges over every finite history from the empty state. *)
From Coq Require Import NArith List Bool Arith.
From TV Require Import Mech MechProofs MechLog MechTok MechProps.
Import ListNotations.
Open Scope N_scope.

(** In every reachable state (unless the process aborted on count overflow): nothing undefined has
    happened (no use after free, no double free, no destructor on an uninitialised slot); every live
    block's count is exactly its number of owning handles and that number is positive; a released
    block has no owner. *)
Theorem C01_count_tracks_owners_no_leak_no_dangling :
  forall s, reachable s -> dead s = false ->
    ub (ms s) = false /\
    forall l b, nth_error (heap (ms s)) l = Some b ->
      if b_alive b then b_cnt b = N.of_nat (owners (tbl s) l) /\ (0 < owners (tbl s) l)%nat
      else owners (tbl s) l = 0%nat.
Proof.
  intros s R Hd. pose proof (reachable_inv s R Hd) as G. split; [exact (g_ub _ _ _ G)|].
  intros l b Hb. pose proof (g_blk _ _ _ G l b Hb) as B. unfold blk_ok in B. destruct (b_alive b); tauto.
Qed.

(** Every handle in the table -- of whatever kind, owned or lent to a callback -- refers to a live block. *)
Theorem C01_every_handle_refers_to_a_live_block :
  forall s h x, reachable s -> dead s = false -> get_h s h = Some x ->
    exists b, nth_error (heap (ms s)) (hl x) = Some b /\ b_alive b = true.
Proof.
  intros s h x R Hd Hx. pose proof (reachable_inv s R Hd) as G. apply get_h_some in Hx.
  destruct (handle_block _ _ _ _ _ G Hx) as (b & Hb & Al & _). eauto.
Qed.

(** Reading through any non-raw handle yields the current contents of its (live) block. *)
Theorem C01_read_sees_current_contents :
  forall d s h x, reachable s -> dead s = false -> skip s = 0%nat -> get_h s h = Some x ->
    is_raw_kind (hk x) || hkind_eqb (hk x) KForgotten = false ->
    exists b, nth_error (heap (ms s)) (hl x) = Some b /\ b_alive b = true /\
              snd (step d s (ORead h)) = S_OK :: read_view (hk x) b ++ [99999999].
Proof. intros d s h x R Hd Hs. apply read_sees_contents; [apply reachable_inv; auto|split; auto]. Qed.

(** The memory of every block is returned exactly once, and exactly when no owner is left:
    the log holds no release of a live block and exactly one of a released block, and a block is
    live iff it still has an owner. *)
Theorem C01_memory_returned_exactly_once_when_last_owner_goes :
  forall s, reachable s -> dead s = false ->
    forall l b, nth_error (heap (ms s)) l = Some b ->
      deallocs l (log (ms s)) = (if b_alive b then 0%nat else 1%nat) /\
      (b_alive b = true <-> (0 < owners (tbl s) l)%nat).
Proof. exact reachable_release_once. Qed.

(** Releasing a handle of any droppable kind: if it is the last owner, the header and the elements are
    destroyed (elements only when the handle's type says they are initialised) and then the block is
    freed, all inside this operation; otherwise the operation only decrements the count. *)
Theorem C01_last_release_destroys_then_frees :
  forall d s h x f, reachable s -> dead s = false -> skip s = 0%nat ->
    get_h s h = Some x -> drop_impl (hk x) = Some f -> hm x = MOwned ->
    exists b vinit, nth_error (heap (ms s)) (hl x) = Some b /\
      (vinit = true <-> uninit_view (hk x) = false) /\
      log (ms (fst (step d s (ODrop h)))) =
        (if (owners (tbl s) (hl x) =? 1)%nat
         then EDealloc (hl x) :: rev (dtor_events vinit (b_cells b)) ++ rev (hdr_events (b_hdr b)) ++ [EAtomic SAcq 0; EAtomic SDec 1]
         else [EAtomic SDec (b_cnt b)]) ++ log (ms s).
Proof. intros d s h x f R Hd Hs. apply drop_events; [apply reachable_inv; auto|split; auto]. Qed.

(** No payload value is destroyed twice, in any history: the destroyed values in the log are pairwise distinct, none of
    them is still stored in a live block, the values stored in live blocks are pairwise distinct, and every one of
    them was made by a constructor, a Clone call or a write (all take a fresh token). *)
Theorem C01_every_value_destroyed_at_most_once :
  forall s, reachable s -> dead s = false ->
  NoDup (dtors (log (ms s))) /\ NoDup (live (heap (ms s))) /\
  (forall t, In t (dtors (log (ms s))) -> ~ In t (live (heap (ms s)))) /\
  (forall t, In t (dtors (log (ms s))) \/ In t (live (heap (ms s))) -> t < ntok (ms s)).
Proof. exact reachable_dtor_once. Qed.

(** non-vacuity: a concrete history through Arc, OffsetArc, ArcUnion, ThinArc, a callback with a panic,
    make_mut on a shared value and a raw pointer reaches a state with 3 blocks, one of them released. *)
Example C01_nonvacuous :
  let s := fst (run true init_st (map decode
     [[0;0;0;0]; [20;0]; [23;2;1]; [24;1]; [21;0]; [34;1;0]; [0;4;2;0]; [41;1;3]; [20;3]; [43]; [42]; [23;0;2]; [21;1]])) in
  dead s = false /\ length (heap (ms s)) = 3%nat /\ map b_alive (heap (ms s)) = [true; false; true] /\ map b_cnt (heap (ms s)) = [1; 0; 2].
Proof. vm_compute. repeat split. Qed.

Check C01_count_tracks_owners_no_leak_no_dangling.
Check C01_memory_returned_exactly_once_when_last_owner_goes.
Print Assumptions C01_count_tracks_owners_no_leak_no_dangling.
Print Assumptions C01_every_handle_refers_to_a_live_block.
Print Assumptions C01_read_sees_current_contents.
Print Assumptions C01_memory_returned_exactly_once_when_last_owner_goes.
Print Assumptions C01_last_release_destroys_then_frees.
Print Assumptions C01_every_value_destroyed_at_most_once.
