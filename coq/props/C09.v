(** * C09 — unwrapping conserves the value: handed out once or kept, never both or neither.  Property theorems only. *)
From Coq Require Import NArith List Bool Arith.
From TV Require Import Layout SrcFacts Conc ConcProofs ConcX ConcXProofs Mech MechProofs MechLog MechProps Extracted.
From TV Require Import SchedCases SchedProofs.
Import ListNotations.
Open Scope N_scope.

(** try_unwrap: a sole owner receives the value with no destructor run before (its [EDtor], the client dropping
    what it received, comes after the release of the block); otherwise the same handle, table and heap. *)
Theorem C09_try_unwrap :
  forall d s h x, reachable s -> dead s = false -> skip s = 0%nat -> get_h s h = Some x -> hk x = KArc -> hm x = MOwned ->
  exists b tk, nth_error (heap (ms s)) (hl x) = Some b /\ b_cells b = [(tk, true)] /\
  let r := step d s (OTryUnwrap h) in
  (owners (tbl s) (hl x) = 1%nat ->
     snd r = obs_of S_OK [tk] (ms s) (ms (fst r)) /\ tbl (fst r) = upd (tbl s) h None /\
     heap (ms (fst r)) = upd (heap (ms s)) (hl x) (set_dead b) /\
     log (ms (fst r)) = EDtor tk :: EDealloc (hl x) :: dbg_loads d 1 ++ dbg_loads d 1 ++ EAtomic SCount 1 :: log (ms s)) /\
  (owners (tbl s) (hl x) <> 1%nat ->
     hd 9 (snd r) = S_DECLINED /\ tbl (fst r) = tbl s /\ heap (ms (fst r)) = heap (ms s)).
Proof. intros d s h x R Hd Hs. apply try_unwrap_conserves; [apply reachable_inv; auto|split; auto]. Qed.

(** try_unique / TryFrom: sole owner => the same block, now held as a UniqueArc; otherwise nothing changes *)
Theorem C09_try_unique :
  forall d s h x, reachable s -> dead s = false -> skip s = 0%nat -> get_h s h = Some x -> hk x = KArc -> hm x = MOwned ->
  let r := step d s (OTryUnique h) in
  (owners (tbl s) (hl x) = 1%nat ->
     hd 9 (snd r) = S_OK /\ tbl (fst r) = upd (tbl s) h (Some (mkH KUniq (hl x) MOwned)) /\ heap (ms (fst r)) = heap (ms s)) /\
  (owners (tbl s) (hl x) <> 1%nat ->
     hd 9 (snd r) = S_DECLINED /\ tbl (fst r) = tbl s /\ heap (ms (fst r)) = heap (ms s)).
Proof. intros d s h x R Hd Hs. apply try_unique_verdict; [apply reachable_inv; auto|split; auto]. Qed.

Theorem C09_try_from_is_try_unique : forall d s h, step d s (OTryFrom h) = step d s (OTryUnique h).
Proof. reflexivity. Qed.

Theorem C09_into_inner :
  forall d s h x, reachable s -> dead s = false -> skip s = 0%nat -> get_h s h = Some x -> hk x = KUniq -> hm x = MOwned ->
  exists b tk, nth_error (heap (ms s)) (hl x) = Some b /\ b_cells b = [(tk, true)] /\
  let r := step d s (OIntoInner h) in
  snd r = obs_of S_OK [tk] (ms s) (ms (fst r)) /\ tbl (fst r) = upd (tbl s) h None /\
  heap (ms (fst r)) = upd (heap (ms s)) (hl x) (set_dead b) /\
  log (ms (fst r)) = EDtor tk :: EDealloc (hl x) :: dbg_loads d 1 ++ log (ms s).
Proof. intros d s h x R Hd Hs. apply into_inner_conserves; [apply reachable_inv; auto|split; auto]. Qed.

(** try_unwrap is written as try_unique followed by UniqueArc::into_inner; a client taking the two steps by hand
    (try_unique, then into_inner on the UniqueArc it got) ends in the same table and heap with the same value *)
Theorem C09_try_unique_then_into_inner_is_try_unwrap :
  forall d s h x, reachable s -> dead s = false -> skip s = 0%nat -> get_h s h = Some x -> hk x = KArc -> hm x = MOwned ->
  owners (tbl s) (hl x) = 1%nat ->
  let s1 := fst (step d s (OTryUnique h)) in
  let r2 := step d s1 (OIntoInner h) in let r := step d s (OTryUnwrap h) in
  tbl (fst r2) = tbl (fst r) /\ heap (ms (fst r2)) = heap (ms (fst r)) /\ hd 9 (snd r2) = hd 9 (snd r) /\ nth 1 (snd r2) 9 = nth 1 (snd r) 9.
Proof. intros d s h x R Hd Hs. apply try_unique_then_into_inner_is_try_unwrap; [apply reachable_inv; auto|split; auto]. Qed.

Theorem C09_unwrap_or_clone :
  forall d s h x pf, reachable s -> dead s = false -> skip s = 0%nat -> get_h s h = Some x -> hk x = KArc -> hm x = MOwned ->
  exists b tk, nth_error (heap (ms s)) (hl x) = Some b /\ b_cells b = [(tk, true)] /\
  let r := step d s (OUnwrapOrClone h pf) in
  tbl (fst r) = upd (tbl s) h None /\
  (owners (tbl s) (hl x) = 1%nat ->
     hd 9 (snd r) = S_OK /\ nth 1 (snd r) 9 = tk /\ heap (ms (fst r)) = upd (heap (ms s)) (hl x) (set_dead b) /\
     log (ms (fst r)) = EDtor tk :: EDealloc (hl x) :: dbg_loads d 1 ++ dbg_loads d 1 ++ EAtomic SCount 1 :: log (ms s)) /\
  (owners (tbl s) (hl x) <> 1%nat -> pf = false ->
     hd 9 (snd r) = S_OK /\ nth 1 (snd r) 9 = ntok (ms s) /\
     heap (ms (fst r)) = upd (heap (ms s)) (hl x) (set_cnt b (b_cnt b - 1)) /\
     log (ms (fst r)) = EDtor (ntok (ms s)) :: EAtomic SDec (b_cnt b) :: EClone tk (ntok (ms s)) :: EAtomic SCount (b_cnt b) :: log (ms s)) /\
  (owners (tbl s) (hl x) <> 1%nat -> pf = true ->
     hd 9 (snd r) = S_PANIC /\ heap (ms (fst r)) = upd (heap (ms s)) (hl x) (set_cnt b (b_cnt b - 1))).
Proof. intros d s h x pf R Hd Hs. apply unwrap_or_clone_conserves; [apply reachable_inv; auto|split; auto]. Qed.

(** every schedule of threads racing to unwrap or drop: [destroyed] is set by a destruction and by a move-out
    alike, a second one would set [raced]; so the value is moved out to exactly one thread or destroyed
    exactly once -- at most once always, exactly once when nobody holds anything any more *)
Theorem C09_moved_out_or_destroyed_exactly_once :
  forall ls s, cexec Extracted.conc_cfg cinit ls = Some s ->
    raced s = false /\ (quiescent s = true -> destroyed s = true /\ freed s = true).
Proof.
  intros ls s H. split; [exact (conc_safe Extracted.conc_cfg ls s eq_refl H)|exact (conc_live Extracted.conc_cfg ls s eq_refl H)].
Qed.

(** closed world: the unwrapping family touches the count only through the modelled sites *)
Theorem C09_closed_world : Extracted.sites_closed = true.
Proof. reflexivity. Qed.

(** the three functions that speak the counter protocol, as written in the source: try_unique tests with one Acquire load
    and nothing else; a handle that is given up is dropped through drop_inner (never a bare decrement); drop_inner
    elects the destroyer by the decrement's own result *)
Theorem C09_protocol_as_written : Extracted.count_progs = good_progs.
Proof. reflexivity. Qed.

(** ... and those programs, interpreted one instruction per step on the view memory, are safe for EVERY schedule: any
    number of threads, any interleaving at instruction granularity, stale loads included — no data race, no access
    after free, no second destroy or free, no value lost at quiescence.  (Proved by a simulation into [Conc.v]:
    ConcXProofs.xstep_sim; the statement is about the translated programs, so a change of the protocol in the source
    changes the statement that has to be proved.) *)
Theorem C09_protocol_as_written_is_safe :
  forall ls s, xexec Extracted.count_progs xinit ls = Some s -> bad s = false.
Proof. exact xsafe. Qed.




(** the uniqueness tests, copy-on-write and unwrapping functions (make_mut, make_unique, get_mut, try_unique, try_unwrap,
    unwrap_or_clone, into_inner, from_arc, OffsetArc::make_mut, drop, clone ... 21 functions) still have the bodies the
    machine's library functions were transcribed from *)
Theorem C09_functions_are_the_modelled_ones : Extracted.cow_forms_ok = true.
Proof. reflexivity. Qed.

(** The schedule stream (tools/propdefs.py, harness/src/sched.rs) drives real threads of the crate through label
    streams filtered by the machine and compares every step.  Whatever the generator produces, what the machine accepts
    is one of the executions the theorem above is about: the final state of every case of the stream is safe. *)
Theorem C09_every_schedule_of_the_stream_is_covered :
  forall fuel cow ls, bad (fst (fst (run_labels Extracted.count_progs fuel cow xinit ls))) = false.
Proof. exact sched_stream_is_covered. Qed.


Check C09_moved_out_or_destroyed_exactly_once.
Print Assumptions C09_try_unwrap.
Print Assumptions C09_try_unique.
Print Assumptions C09_try_from_is_try_unique.
Print Assumptions C09_into_inner.
Print Assumptions C09_try_unique_then_into_inner_is_try_unwrap.
Print Assumptions C09_unwrap_or_clone.
Print Assumptions C09_moved_out_or_destroyed_exactly_once.
Print Assumptions C09_closed_world.
Print Assumptions C09_protocol_as_written.
Print Assumptions C09_functions_are_the_modelled_ones.
Print Assumptions C09_protocol_as_written_is_safe.
Print Assumptions C09_every_schedule_of_the_stream_is_covered.
