(** * C11 — raw pointers round-trip to the same allocation; handles are one word wide.  Property theorems only.

    [Extracted.ood] is the offset expression of [ArcInner::offset_of_data], translated from the source on
    every run; the [*_forms_ok] facts say that the small pointer-plumbing functions (into_raw, from_raw_offset,
    borrow_arc, clone_arc, ThinArc::{ptr,as_ptr,into_raw,from_raw}, the arc-swap glue ...) still have the bodies
    the model was written against. *)
From Coq Require Import NArith List Bool String.
From TV Require Import Layout LayoutProofs SrcFacts Bits Conc Mech MechProofs MechLog MechProps Extracted.
Import ListNotations.
Open Scope N_scope.

(** For every payload shape (any size and alignment, zero-sized and over-aligned included; a slice of any
    length or a trait object is the shape of the value behind the fat pointer): the offset that [from_raw]
    subtracts is exactly the compiler's offset of the [data] field that [as_ptr]/[into_raw] add -- so
    [from_raw (into_raw a)] is the block [a] pointed to. *)
Theorem C11_from_raw_undoes_into_raw :
  forall P lp env off base, e_T env = P -> layout_of P = Some lp ->
    struct_field_off [s_usize; P] 1 = Some off ->
    oeval env Extracted.ood = LOk off /\
    Extracted.from_raw_form = FRByteSubOffsetOfData /\ Extracted.as_ptr_form = APAddrOfData /\
    (base + off) - off = base.
Proof.
  intros P lp env off base HT HP Ho. split; [|split; [reflexivity|split; [reflexivity|apply N.add_sub]]].
  rewrite (ood_correct Extracted.ood P lp env eq_refl HT HP), Ho. reflexivity.
Qed.

(** the address handed out is at least 8 past the block start, aligned for the payload, and it is the address
    of the [data] field, which is what Deref yields ([Arc::deref] = [&self.inner().data]) *)
Theorem C11_value_address :
  forall P lp off, layout_of P = Some lp -> struct_field_off [s_usize; P] 1 = Some off ->
    8 <= off /\ off mod lalign lp = 0 /\ off = round_up 8 (lalign lp).
Proof. intros P lp off HP Ho. destruct (data_off_props P lp off HP Ho) as (A & _ & C & D). auto. Qed.

Theorem C11_heap_ptr_is_block_start : Extracted.heap_ptr_form = HPBlockStart.
Proof. reflexivity. Qed.

(** the OffsetArc / ArcBorrow / raw-slice / arc-swap forms are the same two functions composed with casts *)
Theorem C11_other_forms_go_through_as_ptr_and_from_raw :
  Extracted.arc_raw_forms_ok = true /\ Extracted.offset_forms_ok = true /\ Extracted.borrow_forms_ok = true /\
  Extracted.swap_forms_ok = true.
Proof. repeat split; reflexivity. Qed.

(** the thin handle re-fattens with the stored length at the same offsets as the fat type *)
Theorem C11_thin_and_fat_offsets_agree :
  forall H T n L, layout_of (s_ArcInner (s_HeaderSlice (s_HeaderWithLength H) (Arr T n))) = Some L ->
  let fat := s_HeaderSlice (s_HeaderWithLength H) (Arr T n) in
  let thin := s_HeaderSlice (s_HeaderWithLength H) (Arr T 0) in
  struct_field_off [s_usize; thin] 1 = struct_field_off [s_usize; fat] 1 /\
  struct_field_off [s_HeaderWithLength H; Arr T 0] 0 = struct_field_off [s_HeaderWithLength H; Arr T n] 0 /\
  struct_field_off [s_HeaderWithLength H; Arr T 0] 1 = struct_field_off [s_HeaderWithLength H; Arr T n] 1.
Proof. exact thin_prefix_offsets. Qed.

(** every handle type is one pointer: repr(transparent) (ArcUnion: a plain struct) with exactly one field that is
    not PhantomData, and that field is a NonNull (UniqueArc: an Arc) -- hence the null niche *)
Definition one_word (d : struct_decl) : bool :=
  let real := filter (fun f => match snd (fst f) with FPhantom => false | _ => true end) (sd_fields d) in
  match real with
  | [f] => match snd (fst f) with FNonNull | FArc => true | _ => false end
  | _ => false
  end.
Definition is_handle (d : struct_decl) : bool :=
  existsb (String.eqb (sd_name d)) ["Arc"; "UniqueArc"; "ThinArc"; "OffsetArc"; "ArcUnion"; "ArcBorrow"]%string.
Definition transparent_or_union (d : struct_decl) : bool :=
  match sd_repr d with RTransparent => true | _ => String.eqb (sd_name d) "ArcUnion" end.

Theorem C11_handles_are_one_word :
  List.length (filter is_handle Extracted.struct_decls) = 6%nat /\
  forallb (fun d => one_word d && transparent_or_union d) (filter is_handle Extracted.struct_decls) = true.
Proof. split; reflexivity. Qed.

(** in every history: the address a handle yields (as the pair block, offset) depends only on its block and kind,
    and conversions, moves and borrows keep the block -- so it is stable for the life of the allocation *)
Theorem C11_address_observation :
  forall d s h x c, dead s = false -> skip s = 0%nat -> get_h s h = Some x -> kind_cls (hk x) = Some c ->
  snd (step d s (OPtrOf h)) =
    [S_OK; N.of_nat (hl x); (match hk x with KThin | KRawThin => 0 | _ => data_off c end); 99999999].
Proof.
  intros d s h x c Hd Hs Hx Hc. unfold step. rewrite Hd, Hs, Hx, Hc. unfold obs_of.
  rewrite (new_events_app _ _ []) by reflexivity. reflexivity.
Qed.

(** KNOWN FINDING F3 (see known_findings.json): the raw forms of ThinArc ([as_ptr], [into_raw], and with them the
    arc-swap glue) return the START OF THE BLOCK, not the address of the value that Deref yields (8 bytes later),
    although they round-trip, are stable and count-neutral.  The bodies are [self.ptr()] =
    [self.ptr.cast().as_ptr()] (checked by [thin_forms_ok]); witness in the machine: *)
Theorem C11_thin_raw_form_is_block_start_not_value_address :
  Extracted.thin_forms_ok = true /\
  (let r := run false init_st (map decode [[0;4;2;0]; [28;0]; [23;8;0]; [28;0]]) in
   nth 1 (snd r) [] = [0; 0; 0; 99999999] /\ nth 3 (snd r) [] = [0; 0; 8; 99999999]).
Proof. split; [reflexivity|vm_compute; split; reflexivity]. Qed.

(** Wherever the crate itself turns a raw pointer back into an owning handle or a borrow (Arc::from_raw,
    from_raw_slice, ThinArc::from_raw, ArcBorrow::from_ptr, an ArcBorrow built by hand), the pointer is the one a handle
    or borrow STORES (possibly cast, masked or offset) or the caller's own pointer passed on - never one derived from a
    reference to the value, which has no provenance over the reference count in front of it (the crate's safety
    comment on ArcBorrow::from_ptr).  The table is read from the source on every run (tools/extract.py extract_prov); the
    list of sites is closed.  (Found wanting on the pinned tree: ArcUnion::drop, defect F4.) *)
Definition expected_raw_sinks : list (string * string) :=
    ([("arc.rs", "Arc::from_raw"); ("arc.rs", "Arc::from_raw"); ("arc.rs", "ArcBorrow(..)");
      ("arc_borrow.rs", "Arc::from_raw"); ("arc_borrow.rs", "Arc::from_raw"); ("arc_borrow.rs", "ArcBorrow(..)"); ("arc_borrow.rs", "ArcBorrow(..)");
      ("arc_swap_support.rs", "Arc::from_raw"); ("arc_swap_support.rs", "ThinArc::from_raw");
      ("arc_union.rs", "Arc::from_raw"); ("arc_union.rs", "Arc::from_raw"); ("arc_union.rs", "ArcBorrow::from_ptr"); ("arc_union.rs", "ArcBorrow::from_ptr");
      ("offset_arc.rs", "Arc::from_raw"); ("offset_arc.rs", "ArcBorrow(..)")])%string.
(** (sites are counted per file: moving one into a private helper of the same file changes nothing) *)
Theorem C11_handles_are_rebuilt_from_stored_pointers :
  map (fun s => (fst (fst (fst s)), snd (fst s))) Extracted.raw_sinks = expected_raw_sinks /\
  forallb (fun s => prov_full (snd s)) Extracted.raw_sinks = true.
Proof. split; vm_compute; reflexivity. Qed.

Check C11_from_raw_undoes_into_raw.
Print Assumptions C11_from_raw_undoes_into_raw.
Print Assumptions C11_value_address.
Print Assumptions C11_heap_ptr_is_block_start.
Print Assumptions C11_other_forms_go_through_as_ptr_and_from_raw.
Print Assumptions C11_thin_and_fat_offsets_agree.
Print Assumptions C11_handles_are_one_word.
Print Assumptions C11_address_observation.
Print Assumptions C11_thin_raw_form_is_block_start_not_value_address.
Print Assumptions C11_handles_are_rebuilt_from_stored_pointers.
