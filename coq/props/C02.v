(** * C02 — concurrent clone/drop: one destroyer, ordered after every thread's last access.

    Property theorems only.  [Extracted.conc_cfg] is computed from /repo/src on every run: is the
    decrement in [Arc::drop_inner] at least Release, is the load (or fence) that follows it --
    unconditionally, before [drop_slow] -- at least Acquire, is the load behind [is_unique] (following
    one-line delegations) at least Acquire.  The machine (Conc.v) has any number of threads, every
    interleaving, stale loads, relaxed RMWs continuing release sequences, extra synchronisation. *)
From Coq Require Import List Bool Arith.
From TV Require Import Layout SrcFacts Conc ConcProofs ConcX ConcXProofs Mech MechProofs Extracted.
From TV Require Import SchedCases SchedProofs.
Import ListNotations.

(** For every enabled schedule of every number of threads, under the orderings the source uses: no payload
    access races with another access, with the destruction or with the release of the memory; nothing
    (not even the count) is touched after the release; the value is destroyed at most once and the memory
    freed at most once (a second attempt would set [raced]); and once no thread holds anything, it has been
    destroyed and freed. *)
Theorem C02_one_destroyer_after_all_accesses :
  forall ls s, cexec Extracted.conc_cfg cinit ls = Some s ->
    raced s = false /\ (quiescent s = true -> destroyed s = true /\ freed s = true).
Proof.
  intros ls s H. split; [exact (conc_safe Extracted.conc_cfg ls s eq_refl H)|exact (conc_live Extracted.conc_cfg ls s eq_refl H)].
Qed.

(** Closed world: every atomic operation in the crate is one of the modelled sites on the count (all writes
    after initialisation are read-modify-writes; no store, swap or CAS; no other path to the counter), and
    [drop_inner] has the decrement / acquire / [drop_slow] shape the machine's two-step drop models. *)
Theorem C02_closed_world : Extracted.sites_closed = true /\ Extracted.drop_inner_shape_ok = true.
Proof. split; reflexivity. Qed.

(** The release path as it is written in the source, translated to a program over the counter on every run, is the
    one the machine's two-step drop models: a Release decrement whose own result elects the destroyer, then an Acquire
    load, then destroy and free. *)
Theorem C02_drop_protocol_as_written : p_drop Extracted.count_progs = p_drop good_progs.
Proof. reflexivity. Qed.

(** ... and those programs, interpreted one instruction per step on the view memory, are safe for EVERY schedule: any
    number of threads, any interleaving at instruction granularity, stale loads included — no data race, no access
    after free, no second destroy or free, no value lost at quiescence.  (Proved by a simulation into [Conc.v]:
    ConcXProofs.xstep_sim; the statement is about the translated programs, so a change of the protocol in the source
    changes the statement that has to be proved.) *)
Theorem C02_protocol_as_written_is_safe :
  forall ls s, xexec Extracted.count_progs xinit ls = Some s -> bad s = false.
Proof. exact xsafe. Qed.


(** Every other handle kind funnels clone and drop through Arc's: the [Clone]/[Drop] impl of every kind of the
    sequential machine is extensionally [Arc_clone] / [Arc_drop] on the same block. *)
Theorem C02_every_kind_funnels_through_arc :
  (forall k f k', clone_impl k = Some (f, k') -> forall l m, f l m = Arc_clone l m) /\
  (forall k f, drop_impl k = Some f -> exists vinit, forall l m, f l m = Arc_drop l vinit m).
Proof.
  split.
  - intros k f k' H. destruct (clone_impl_spec k f k' H) as (A & _). exact A.
  - intros k f H. destruct (drop_impl_spec k f H) as (v & A & _). exists v. exact A.
Qed.

(** The obligations are not stronger than needed: each weakening admits a racy schedule. *)
Theorem C02_orderings_are_necessary :
  raced_after (mkCfg false true true) [LClone 0; LClone 0; LDrop 0; LSend 0 1; LRead 0; LDrop 0; LUniq 1 4; LWrite 1] = true /\
  raced_after (mkCfg true false true) [LClone 0; LRead 0; LSend 0 1; LRead 0; LDrop 0; LDrop 1; LAcq 1 3; LDestroy 1] = true.
Proof. split; [exact dec_relaxed_refuted|exact acq_missing_refuted]. Qed.

(** The schedule stream (tools/propdefs.py, harness/src/sched.rs) drives real threads of the crate through label
    streams filtered by the machine and compares every step.  Whatever the generator produces, what the machine accepts
    is one of the executions the theorem above is about: the final state of every case of the stream is safe. *)
Theorem C02_every_schedule_of_the_stream_is_covered :
  forall fuel cow ls, bad (fst (fst (run_labels Extracted.count_progs fuel cow xinit ls))) = false.
Proof. exact sched_stream_is_covered. Qed.


Check C02_one_destroyer_after_all_accesses.
Print Assumptions C02_one_destroyer_after_all_accesses.
Print Assumptions C02_closed_world.
Print Assumptions C02_every_kind_funnels_through_arc.
Print Assumptions C02_orderings_are_necessary.
Print Assumptions C02_drop_protocol_as_written.
Print Assumptions C02_protocol_as_written_is_safe.
Print Assumptions C02_every_schedule_of_the_stream_is_covered.
