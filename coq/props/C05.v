(** * C05 — each block fits its contents and is freed with the layout it was requested.

    Property theorems only: each is stated in full, closed by a lemma of
    [LayoutProofs], pinned with [Check] and followed by [Print Assumptions].
    The chains ([Extracted.*]) are regenerated from /repo/src on every run. *)
From Coq Require Import NArith List.
From TV Require Import Layout LayoutProofs SrcFacts Extracted.
Import ListNotations.
Open Scope N_scope.

(** The layout of the block requested for a payload [P] whose value layout is
    handed to [allocate_for_layout] / [try_allocate_for_layout] is exactly
    rustc's layout of [ArcInner<P>] -- the layout [Box::from_raw] /
    [Layout::for_value] hands back to the allocator at release -- and the
    request panics exactly when that type has no valid layout. *)
Theorem C05_allocate_for_layout_eq_release :
  forall P lp env, layout_of P = Some lp -> e_param env = Some lp ->
    leval env Extracted.tafl_alloc_arg = of_opt (layout_of (s_ArcInner P)) /\
    leval env Extracted.afl_chain = of_opt (layout_of (s_ArcInner P)) /\
    Extracted.afl_forwards_param = true.
Proof.
  intros P lp env HP Hpar. split; [|split].
  - exact (afl_correct Extracted.tafl_alloc_arg P lp env eq_refl HP Hpar).
  - exact (afl_correct Extracted.afl_chain P lp env eq_refl HP Hpar).
  - reflexivity.
Qed.

(** [allocate_for_header_and_slice::<H,T>(len)]: for every header shape, element
    shape and length, the request is the layout of
    [ArcInner<HeaderSlice<H,[T]>>] with [len] elements, or a panic when that is
    not representable. *)
Theorem C05_header_slice_alloc_eq_release :
  forall H T n env lh lt,
    e_H env = H -> e_T env = T -> e_len env = n ->
    wf_shape H -> layout_of H = Some lh -> layout_of T = Some lt ->
    leval2 env Extracted.afhs_value_chain Extracted.tafl_alloc_arg
      = of_opt (layout_of (s_ArcInner (s_HeaderSlice H (Arr T n)))).
Proof.
  intros H T n env lh lt HH HT Hn Hwf HlH HlT.
  exact (afhs_correct Extracted.afhs_value_chain Extracted.tafl_alloc_arg H T n env lh lt
           eq_refl eq_refl HH HT Hn Hwf HlH HlT).
Qed.

(** [UniqueArc::new_uninit] requests the layout of [ArcInner<MaybeUninit<T>>] = [ArcInner<T>]. *)
Theorem C05_new_uninit_alloc_eq_release :
  forall T env l, e_T env = T -> layout_of (s_ArcInner T) = Some l ->
    leval env Extracted.new_uninit_alloc_arg = LOk l.
Proof.
  intros T env l HT Hl.
  assert (lnorm Extracted.new_uninit_alloc_arg = LNew (TyArcInner (TyMaybeUninit (TyVar 0)))) as E by reflexivity.
  rewrite <- lnorm_sound, E. cbn [leval ty_shape option_map]. rewrite HT.
  change (layout_of (s_ArcInner (Transp T))) with (layout_of (s_ArcInner T)).
  rewrite Hl. reflexivity.
Qed.

(** [From<Box<T>>]: the value layout is that of [T]; the box is released as [ManuallyDrop<T>] (same layout). *)
Theorem C05_from_box_alloc_eq_release :
  forall T lt env, e_T env = T -> layout_of T = Some lt ->
    leval2 env Extracted.from_box_value_chain Extracted.tafl_alloc_arg = of_opt (layout_of (s_ArcInner T)) /\
    option_map layout_of (ty_shape env Extracted.from_box_release) = Some (Some lt).
Proof.
  intros T lt env HT HlT. split.
  - unfold leval2.
    assert (leval env Extracted.from_box_value_chain = LOk lt) as E.
    { rewrite <- lnorm_sound. change (lnorm Extracted.from_box_value_chain) with (LNew (TyVar 0)).
      cbn [leval ty_shape]. rewrite HT, HlT. reflexivity. }
    rewrite E. apply (afl_correct Extracted.tafl_alloc_arg T lt _ eq_refl HlT). reflexivity.
  - change Extracted.from_box_release with (TyManuallyDrop (TyVar 0)).
    cbn [ty_shape option_map]. rewrite HT. cbn [layout_of]. rewrite HlT. reflexivity.
Qed.

(** [Arc::new] allocates through [Box<ArcInner<T>>] and the last owner releases
    through [Box::from_raw] of the same (re-fattened) [ArcInner] pointer, in
    [drop_slow] and in [UniqueArc::into_inner] alike. *)
Theorem C05_box_paths :
  Extracted.arc_new_form = NewBoxArcInnerCount1 /\
  Extracted.drop_slow_form = RelBoxFromRawInner /\
  Extracted.into_inner_form = RelBoxFromRawInner.
Proof. repeat split; reflexivity. Qed.

(** The block is big enough and never short: a layout that exists covers the
    exact content size, stays below [isize::MAX], and the request panics rather
    than allocating when the exact size does not fit. *)
Theorem C05_no_short_block :
  forall H T n env lh lt,
    e_H env = H -> e_T env = T -> e_len env = n ->
    wf_shape H -> layout_of H = Some lh -> layout_of T = Some lt ->
    match leval2 env Extracted.afhs_value_chain Extracted.tafl_alloc_arg with
    | LOk L => 8 + lsize lh + lsize lt * n <= lsize L /\ lsize L < isize_lim
    | LPanic => True
    | LStuck => False
    end /\
    (isize_lim <= 8 + lsize lh + lsize lt * n ->
     leval2 env Extracted.afhs_value_chain Extracted.tafl_alloc_arg = LPanic).
Proof.
  intros H T n env lh lt HH HT Hn Hwf HlH HlT.
  rewrite (C05_header_slice_alloc_eq_release H T n env lh lt HH HT Hn Hwf HlH HlT).
  exact (header_slice_block_covers H T n lh lt HlH HlT).
Qed.

(** Inside the block: the count occupies [0,8); the data starts at an offset
    that is at least 8 and aligned for the payload; header, then slice, do not
    overlap, are aligned for their types and end inside the block; element [i]
    lies inside the slice. *)
Theorem C05_block_fits :
  forall H T n lh lt L,
    layout_of H = Some lh -> layout_of T = Some lt -> wf_shape T ->
    layout_of (s_ArcInner (s_HeaderSlice H (Arr T n))) = Some L ->
    exists doff soff,
      struct_field_off [s_usize; s_HeaderSlice H (Arr T n)] 1 = Some doff /\
      struct_field_off [H; Arr T n] 1 = Some soff /\
      8 <= doff /\ doff mod lalign lh = 0 /\ (doff + soff) mod lalign lt = 0 /\
      lsize lh <= soff /\
      doff + soff + lsize lt * n <= lsize L /\
      lalog lh <= lalog L /\ lalog lt <= lalog L /\ 3 <= lalog L /\
      (forall i, i < n -> (doff + soff + i * lsize lt) mod lalign lt = 0 /\
                          doff + soff + i * lsize lt + lsize lt <= lsize L).
Proof. exact header_slice_block_fits. Qed.

Check C05_allocate_for_layout_eq_release.
Check C05_header_slice_alloc_eq_release.
Print Assumptions C05_allocate_for_layout_eq_release.
Print Assumptions C05_header_slice_alloc_eq_release.
Print Assumptions C05_new_uninit_alloc_eq_release.
Print Assumptions C05_from_box_alloc_eq_release.
Print Assumptions C05_box_paths.
Print Assumptions C05_no_short_block.
Print Assumptions C05_block_fits.
