(** * C12 — an ArcUnion remembers which variant it holds and treats it as that type.  Property theorems only.
    The four bit expressions are translated from arc_union.rs on every run. *)
From Coq Require Import NArith List Bool String.
From TV Require Import Layout LayoutProofs SrcFacts Bits Conc Mech MechProofs MechLog MechProps Extracted.
Import ListNotations.
Open Scope N_scope.

(** the value address of EVERY payload shape (byte-aligned, zero-sized, over-aligned, equal types) in a block
    from the global allocator (8-aligned at least) is even: bit 0 is free for the tag *)
Theorem C12_data_address_is_even :
  forall base P lp off, layout_of P = Some lp -> struct_field_off [s_usize; P] 1 = Some off ->
    base mod 8 = 0 -> (base + off) mod 2 = 0.
Proof. exact data_addr_even. Qed.

(** on such an address: a union built by from_first tests as first and borrows the very same address; one built
    by from_second tests as second and borrows the same address with the tag stripped; and the stored words of
    a first and a second union never coincide (so they never compare equal by pointer either) *)
Theorem C12_tag_set_test_strip :
  forall p, p mod 2 = 0 -> p + 1 < word ->
  (forall s1, beval p Extracted.union_tag1 = Some s1 ->
      btest_eval s1 Extracted.union_test_first = Some true /\ beval s1 Extracted.union_untag1 = Some p) /\
  (forall s2, beval p Extracted.union_tag2 = Some s2 ->
      btest_eval s2 Extracted.union_test_first = Some false /\ beval s2 Extracted.union_untag2 = Some p) /\
  (forall q s1 s2, q mod 2 = 0 -> beval p Extracted.union_tag1 = Some s1 -> beval q Extracted.union_tag2 = Some s2 -> s1 <> s2).
Proof. exact tag_roundtrip. Qed.

(** borrow() dispatches on is_first and wraps the untagged pointer in the variant of the same name; clone, drop,
    as_first/as_second, strong_count go through that borrow (ArcBorrow::clone_arc / Arc::from_raw of the typed
    pointer), i.e. through Arc's own count and release code at the variant's type *)
Theorem C12_typed_through_borrow : Extracted.union_borrow_arms_ok = true /\ Extracted.union_forms_ok = true /\ Extracted.borrow_forms_ok = true.
Proof. repeat split; reflexivity. Qed.

(** in every history a union handle of variant k always views a block that was built as that variant's type
    (so drop glue and layout are that type's), reports that variant, clones as that variant on the same block
    with the count up by one, and is counted as one owner *)
Theorem C12_variant_is_remembered :
  forall s h x, reachable s -> dead s = false -> get_h s h = Some x ->
  (hk x = KUn1 -> exists b, nth_error (heap (ms s)) (hl x) = Some b /\ b_alive b = true /\ b_cls b = CS) /\
  (hk x = KUn2 -> exists b, nth_error (heap (ms s)) (hl x) = Some b /\ b_alive b = true /\ b_cls b = CB).
Proof. exact union_variant_typed. Qed.

Theorem C12_accessors_report_the_variant :
  forall d s h x, dead s = false -> skip s = 0%nat -> get_h s h = Some x ->
  (hk x = KUn1 -> snd (step d s (OUnionAcc h)) = [S_OK; 1; 0; 1; 0; 99999999]) /\
  (hk x = KUn2 -> snd (step d s (OUnionAcc h)) = [S_OK; 0; 1; 0; 1; 99999999]).
Proof. intros d s h x Hd Hs. apply union_accessors. split; auto. Qed.

Theorem C12_clone_keeps_variant_and_block :
  clone_impl KUn1 = Some (ArcUnion_clone, KUn1) /\ clone_impl KUn2 = Some (ArcUnion_clone, KUn2) /\
  (forall l m, ArcUnion_clone l m = Arc_clone l m).
Proof. repeat split. intros l m. apply ArcBorrow_clone_arc_eq. Qed.

(** one word: a single NonNull field besides the two PhantomData markers *)
Theorem C12_union_is_one_word :
  match find_struct "ArcUnion" Extracted.struct_decls with
  | Some d => map (fun f => snd (fst f)) (sd_fields d) = [FNonNull; FPhantom; FPhantom]
  | None => False
  end.
Proof. reflexivity. Qed.

Example C12_nonvacuous : beval 4104 Extracted.union_tag2 = Some 4105 /\ beval 4105 Extracted.union_untag2 = Some 4104.
Proof. vm_compute. split; reflexivity. Qed.

(** ... and the union rebuilds the Arc it releases, and the borrows it hands out, from the pointer it stores (defect F4
    on the pinned tree: ArcUnion::drop used a pointer derived from a reference) *)
Theorem C12_union_rebuilds_handles_from_its_stored_pointer :
  forallb (fun s => prov_full (snd s)) (filter (fun s => String.eqb (fst (fst (fst s))) "arc_union.rs") Extracted.raw_sinks) = true /\
  List.length (filter (fun s => String.eqb (fst (fst (fst s))) "arc_union.rs") Extracted.raw_sinks) = 4%nat.
Proof. split; vm_compute; reflexivity. Qed.

Check C12_tag_set_test_strip.
Print Assumptions C12_data_address_is_even.
Print Assumptions C12_tag_set_test_strip.
Print Assumptions C12_typed_through_borrow.
Print Assumptions C12_variant_is_remembered.
Print Assumptions C12_accessors_report_the_variant.
Print Assumptions C12_clone_keeps_variant_and_block.
Print Assumptions C12_union_is_one_word.
Print Assumptions C12_union_rebuilds_handles_from_its_stored_pointer.
