(** * C16 — reference-count overflow terminates the process instead of wrapping.  Property theorems only.
    The guard (which value is compared, with which operator, against which constant, and what happens) and
    the two definitions of [abort] are translated from arc.rs / lib.rs on every run; the increment is modelled
    modulo 2^64. *)
From Coq Require Import NArith List Bool.
From TV Require Import Layout SrcFacts Bits Conc Mech MechProofs Guard GuardConc Extracted.
Import ListNotations.
Open Scope N_scope.

(** for EVERY starting count below 2^64: at or below isize::MAX the clone succeeds and adds exactly one, without
    wrapping; above it the clone aborts and no handle is produced *)
Theorem C16_guard_exact :
  forall c, c < usize_mod ->
  (c <= isize_max ->
     clone_model Extracted.clone_guard Extracted.clone_guard_action Extracted.max_refcount_val c = COk (c + 1) /\ c + 1 < usize_mod) /\
  (isize_max < c ->
     clone_model Extracted.clone_guard Extracted.clone_guard_action Extracted.max_refcount_val c = CAbort).
Proof. exact guard_exact. Qed.

(** however many clones are made (and the handles forgotten), the count never comes back to a smaller value *)
Theorem C16_never_wraps :
  forall n c c', 1 <= c -> c < usize_mod -> clones n c = Some c' -> c <= c' /\ c' < usize_mod /\ c' = c + N.of_nat n.
Proof. exact never_wraps. Qed.

(** abort is not a catchable panic, with and without std *)
Theorem C16_abort_terminates_the_process :
  Extracted.abort_std = AbortProcess /\ Extracted.abort_nostd = AbortDoublePanic.
Proof. split; reflexivity. Qed.

(** every clone entry point of every handle kind is this guarded increment: the machine's [Arc_clone] is the guard,
    and the Clone impl of every kind, [clone_arc] through a borrow, and the clone inside a callback are [Arc_clone] *)
Theorem C16_machine_clone_is_the_guard :
  forall hp lg u nt l b, nth_error hp l = Some b -> b_alive b = true -> b_cnt b <= 2 ^ 63 ->
  match clone_model GuardOldGt ActAbort (Some isize_max) (b_cnt b), Arc_clone l (mkM hp lg u nt) with
  | COk c', (Ret l', m') => l' = l /\ nth_error (heap m') l = Some (set_cnt b c')
  | CAbort, (Aborted, _) => True
  | _, _ => False
  end.
Proof. exact mech_clone_is_guarded. Qed.

Theorem C16_every_clone_path_is_guarded :
  (forall k f k', clone_impl k = Some (f, k') -> forall l m, f l m = Arc_clone l m) /\
  (forall l m, ArcBorrow_clone_arc l m = Arc_clone l m) /\ (forall l m, OffsetArc_clone_arc l m = Arc_clone l m) /\
  Extracted.sites_closed = true.
Proof.
  split; [|split; [|split]].
  - intros k f k' H. destruct (clone_impl_spec k f k' H) as (A & _). exact A.
  - exact ArcBorrow_clone_arc_eq.
  - reflexivity.
  - reflexivity.
Qed.

Example C16_boundary : clone_model GuardOldGt ActAbort (Some isize_max) (2 ^ 63 - 1) = COk (2 ^ 63) /\
                       clone_model GuardOldGt ActAbort (Some isize_max) (2 ^ 63) = CAbort /\
                       clone_model GuardOldGt ActAbort (Some isize_max) (2 ^ 64 - 1) = CAbort.
Proof. vm_compute. repeat split. Qed.


(** concurrent clones: [Arc::clone] is a fetch_add followed by a test of the OLD value, so other threads may increment
    in between.  For EVERY interleaving of those two steps by any number of threads (fewer than 2^62), with the guard
    and the limit as translated from the source: while the process has not aborted the count stays below 2^64 - it
    never wraps - and a handle is only ever returned for an increment whose old value was at or below the limit *)
Theorem C16_concurrent_clones_never_wrap :
  forall m c0 threads ls s, Extracted.max_refcount_val = Some m ->
  c0 <= maxr + 1 -> N.of_nat threads < 2 ^ 62 ->
  gexec Extracted.clone_guard m (ginit c0 threads) ls = Some s -> g_aborted s = false ->
  g_count s < 2 ^ 64 /\ Forall (fun old => old <= maxr) (g_handed s).
Proof.
  intros m c0 threads ls s Hm. apply concurrent_clones_never_wrap; [reflexivity|].
  vm_compute in Hm. inversion Hm. reflexivity.
Qed.

Check C16_guard_exact.
Print Assumptions C16_guard_exact.
Print Assumptions C16_never_wraps.
Print Assumptions C16_abort_terminates_the_process.
Print Assumptions C16_machine_clone_is_the_guard.
Print Assumptions C16_every_clone_path_is_guarded.
Print Assumptions C16_concurrent_clones_never_wrap.
