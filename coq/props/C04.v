(** * C04 — the reported reference count equals the number of owning handles.  Property theorems only. *)
From Coq Require Import NArith List Bool Arith.
From TV Require Import Mech MechProofs MechLog MechProps.
Import ListNotations.
Open Scope N_scope.

(** Every count accessor (Arc::count, strong_count on Arc/ThinArc/OffsetArc/ArcUnion, strong_count through an
    ArcBorrow or ArcUnionBorrow), through every handle kind it exists for, in every reachable state --
    including the states inside callback bodies, which are ordinary states of the machine -- returns the number
    of owning table entries (the observation carries the returned value and, second, the machine's own count of owners) of that value (raw pointers and forgotten handles included) with one atomic
    load, and changes neither table nor heap. *)
Theorem C04_every_accessor_reports_the_number_of_owners :
  forall d s acc h x f, reachable s -> dead s = false -> skip s = 0%nat ->
    get_h s h = Some x -> count_impl acc (hk x) = Some f ->
    let r := step d s (OCount acc h) in
    exists site,
      snd r = [S_OK; N.of_nat (owners (tbl s) (hl x)); N.of_nat (owners (tbl s) (hl x)); 99999999; 5; site_code site; N.of_nat (owners (tbl s) (hl x))] /\
      tbl (fst r) = tbl s /\ heap (ms (fst r)) = heap (ms s).
Proof. intros d s acc h x f R Hd Hs. apply count_reports_owners; [apply reachable_inv; auto|split; auto]. Qed.

(** The stored count itself equals the number of owners at every reachable state. *)
Theorem C04_stored_count_is_number_of_owners :
  forall s l b, reachable s -> dead s = false -> nth_error (heap (ms s)) l = Some b -> b_alive b = true ->
    b_cnt b = N.of_nat (owners (tbl s) l).
Proof.
  intros s l b R Hd Hb Al. pose proof (reachable_inv s R Hd) as G.
  pose proof (g_blk _ _ _ G l b Hb) as B. unfold blk_ok in B. rewrite Al in B. tauto.
Qed.

(** Moving, converting (every edge except a failing into_thin, which releases), borrowing (callback
    entry, exit and unwinding), forgetting, exchanging through mem::replace, reading, taking addresses,
    testing uniqueness and querying the variant leave the number of owners of every value unchanged. *)
Theorem C04_moves_conversions_borrows_do_not_change_owners :
  forall d s o, neutral o = true -> forall l, owners (tbl (fst (step d s o))) l = owners (tbl s) l.
Proof. exact neutral_ops_keep_owners. Qed.

(** Each clone-style operation adds exactly one owner of the same value and none elsewhere ... *)
Theorem C04_clone_adds_exactly_one :
  forall d s h x f k', reachable s -> dead s = false -> skip s = 0%nat ->
    get_h s h = Some x -> clone_impl (hk x) = Some (f, k') ->
    let s' := fst (step d s (OClone h)) in
    dead s' = true \/
    (tbl s' = tbl s ++ [Some (mkH k' (hl x) MOwned)] /\
     forall l, owners (tbl s') l = (owners (tbl s) l + (if Nat.eqb (hl x) l then 1 else 0))%nat).
Proof. intros d s h x f k' R Hd Hs. apply clone_adds_one; [apply reachable_inv; auto|split; auto]. Qed.

(** ... and each release of an owning handle removes exactly one. *)
Theorem C04_release_removes_exactly_one :
  forall d s h x f, reachable s -> dead s = false -> skip s = 0%nat ->
    get_h s h = Some x -> drop_impl (hk x) = Some f -> hm x = MOwned ->
    let s' := fst (step d s (ODrop h)) in
    tbl s' = upd (tbl s) h None /\
    forall l, (owners (tbl s') l + (if Nat.eqb (hl x) l then 1 else 0) = owners (tbl s) l)%nat.
Proof. intros d s h x f R Hd Hs. apply drop_removes_one; [apply reachable_inv; auto|split; auto]. Qed.

(** non-vacuity: inside a with_arc callback of a ThinArc with two owners, strong_count through the lent
    fat Arc reports 2, and 3 after cloning it there. *)
Example C04_nonvacuous :
  snd (run false init_st (map decode [[0;4;2;0]; [20;0]; [41;0;0]; [25;1;0]; [20;0]; [25;0;0]; [42]])) =
  [[0; 0; 99999999; 4; 0]; [0; 0; 99999999; 5; 1; 1]; [0; 99999999]; [0; 2; 2; 99999999; 5; 0; 2];
   [0; 0; 99999999; 5; 1; 2]; [0; 3; 3; 99999999; 5; 2; 3]; [0; 99999999]].
Proof. vm_compute. reflexivity. Qed.

Check C04_every_accessor_reports_the_number_of_owners.
Print Assumptions C04_every_accessor_reports_the_number_of_owners.
Print Assumptions C04_stored_count_is_number_of_owners.
Print Assumptions C04_moves_conversions_borrows_do_not_change_owners.
Print Assumptions C04_clone_adds_exactly_one.
Print Assumptions C04_release_removes_exactly_one.
