(** Extraction of the executable models to OCaml for the correspondence check (tie 2).
    Only [ExtrOcamlBasic] is used (its directives map [bool], [option], [unit], [list],
    [prod], [sumbool], [sumor], [comparison]-free basics to OCaml's); numbers stay Coq's
    inductive [positive]/[N]/[Z].  No [Extract Constant]/[Extract Inductive] of our own. *)
Require Extraction.
Require Import ExtrOcamlBasic.
From Coq Require Import NArith List.
From TV Require Import LayoutCases PtrCases Mech CmpCases Ctor Serde SchedCases.
Extraction Language OCaml.
Extraction "model.ml" LayoutCases.run_layout PtrCases.run_ptr Mech.run_mech CmpCases.run_cmp Ctor.run_ctor Serde.run_serde SchedCases.run_sched N.add N.mul N.div_eucl N.of_nat N.to_nat.
