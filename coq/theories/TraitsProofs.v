(** * TraitsProofs.v — C13 lemmas *)
From Coq Require Import NArith List Bool Arith String Lia.
From TV Require Import Traits.
Import ListNotations.
Open Scope N_scope.

Lemma bound_eqb_eq a b : bound_eqb a b = true <-> a = b.
Proof. destruct a, b; simpl; split; intros; congruence. Qed.

Lemma mem_bound_in b l : mem_bound b l = true <-> In b l.
Proof.
  unfold mem_bound. rewrite existsb_exists. split.
  - intros (x & Hx & E). apply bound_eqb_eq in E. subst. exact Hx.
  - intros H. exists b. split; auto. apply bound_eqb_eq. reflexivity.
Qed.

Lemma subset_forallb (p : bound -> bool) a b : subset a b = true -> forallb p b = true -> forallb p a = true.
Proof.
  unfold subset. rewrite !forallb_forall. intros S Hb x Hx. apply Hb. apply mem_bound_in. apply S. exact Hx.
Qed.

Lemma same_set_forallb (p : bound -> bool) a b : same_set a b = true -> forallb p a = forallb p b.
Proof.
  unfold same_set. intros H. apply andb_true_iff in H. destruct H as [S1 S2].
  destruct (forallb p a) eqn:A, (forallb p b) eqn:B; auto.
  - rewrite (subset_forallb p b a S2 A) in B. discriminate.
  - rewrite (subset_forallb p a b S1 B) in A. discriminate.
Qed.

Lemma meets_trait_bounds p bs : meets p bs = forallb p (trait_bounds bs) && (p BMaybeSized || mem_bound BMaybeSized bs).
Proof.
  unfold meets, trait_bounds. f_equal. induction bs as [|b r IH]; simpl; auto.
  destruct (bound_eqb b BMaybeSized) eqn:E; simpl; rewrite IH; auto.
Qed.

Lemma forallb_combine_params (ps : list payload) (params : list (list bound)) req uns :
  List.length ps = List.length params ->
  forallb (fun bs => same_set (trait_bounds bs) req && Bool.eqb (mem_bound BMaybeSized bs) uns) params = true ->
  forallb (fun pb => meets (fst pb) (snd pb)) (combine ps params) = forallb (fun p => forallb p req && (p BMaybeSized || uns)) ps.
Proof.
  revert params. induction ps as [|p ps IH]; intros [|bs params] L F; simpl in *; try discriminate; auto.
  apply andb_true_iff in F. destruct F as [F1 F2]. apply andb_true_iff in F1. destruct F1 as [F1 F3].
  apply eqb_prop in F3.
  rewrite meets_trait_bounds, (same_set_forallb p _ _ F1), F3. f_equal. apply IH; [lia|exact F2].
Qed.

(** exactness of the declared bounds (a finite syntactic check) gives the semantic statement for EVERY payload *)
Theorem exact_is_exact impls :
  all_exact impls = true ->
  forall k, In k kinds -> forall tr (ps : list payload),
  handle_has impls (kd_head k) tr ps = should_have k tr ps.
Proof.
  intros A k Hk tr ps. unfold all_exact in A. rewrite forallb_forall in A. specialize (A k Hk).
  apply andb_true_iff in A. destruct A as [A1 A2].
  assert (E : impl_exact impls k tr = true) by (destruct tr; assumption). clear A1 A2.
  unfold impl_exact in E. unfold handle_has.
  destruct (find_impl impls (kd_head k) tr) as [|i [|j r]] eqn:F; try discriminate.
  apply andb_true_iff in E. destruct E as [EL EF]. apply Nat.eqb_eq in EL.
  simpl. rewrite orb_false_r. unfold impl_applies, should_have. rewrite EL.
  destruct (Nat.eqb (List.length ps) (kd_nparams k)) eqn:L; simpl; auto.
  apply Nat.eqb_eq in L. apply forallb_combine_params; [lia|exact EF].
Qed.

(** the four classes of the property text, as an instance *)
Definition cls (send sync : bool) : payload := fun b => match b with BSend => send | BSync => sync | _ => true end.
Corollary shared_kinds_need_both impls k :
  all_exact impls = true -> In k kinds -> kd_own k = Shared -> kd_nparams k = 1%nat ->
  forall tr send sync, handle_has impls (kd_head k) tr [cls send sync] = send && sync.
Proof.
  intros A Hk Ho Hn tr send sync. rewrite (exact_is_exact impls A k Hk). unfold should_have. rewrite Hn, Ho.
  destruct tr; simpl; destruct send, sync; reflexivity.
Qed.
Corollary unique_is_boxlike impls k :
  all_exact impls = true -> In k kinds -> kd_own k = Unique -> kd_nparams k = 1%nat ->
  forall send sync, handle_has impls (kd_head k) TrSend [cls send sync] = send /\
                    handle_has impls (kd_head k) TrSync [cls send sync] = sync.
Proof.
  intros A Hk Ho Hn send sync. rewrite !(exact_is_exact impls A k Hk). unfold should_have. rewrite Hn, Ho.
  destruct send, sync; split; reflexivity.
Qed.

(** ** lifetimes *)
Definition ret_ok (s : sig) (ins : list (list lt)) (ret : list lt) : bool :=
  forallb (fun l => match l with
                    | LVar v => var_in v (List.concat ins) || existsb (N.eqb v) (sg_impl_lts s)
                    | _ => false
                    end) ret.

Lemma bounded_unfold s : bounded s = true ->
  exists ins ret, elide s = Some (ins, ret) /\ ret_ok s ins ret = true /\
                  forallb (lt_eqb LElided) (sg_cb_args s) = true /\ sg_cb_ret_plain s = true.
Proof.
  unfold bounded. destruct (elide s) as [[ins ret]|]; [|discriminate]. intros H.
  apply andb_true_iff in H. destruct H as [H H3]. apply andb_true_iff in H. destruct H as [H1 H2].
  exists ins, ret. auto.
Qed.

Theorem bounded_sound s ins ret :
  elide s = Some (ins, ret) -> ret_ok s ins ret = true ->
  forall H r, valid s ins H r -> forall l, In l ret -> rle (reg r l) (Some H).
Proof.
  intros _ R H r [V1 V2] l Hl. unfold ret_ok in R. rewrite forallb_forall in R. specialize (R l Hl).
  destruct l as [|v|]; try discriminate. simpl. apply orb_true_iff in R. destruct R as [R|R].
  - apply V1. exact R.
  - apply V2. apply existsb_exists in R. destruct R as (x & Hx & E). apply N.eqb_eq in E. subst. exact Hx.
Qed.

Theorem bounded_complete s ins ret :
  elide s = Some (ins, ret) -> ret_ok s ins ret = false ->
  exists H r, valid s ins H r /\ exists l, In l ret /\ ~ rle (reg r l) (Some H).
Proof.
  intros _ R.
  set (r := fun v => if var_in v (List.concat ins) || existsb (N.eqb v) (sg_impl_lts s) then Some 0 else None).
  exists 0, r. split.
  - split; intros v Hv; unfold r.
    + rewrite Hv. simpl. lia.
    + assert (existsb (N.eqb v) (sg_impl_lts s) = true) as -> by (apply existsb_exists; exists v; split; auto; apply N.eqb_refl).
      rewrite orb_true_r. simpl. lia.
  - unfold ret_ok in R.
    assert (exists l, In l ret /\ match l with LVar v => var_in v (List.concat ins) || existsb (N.eqb v) (sg_impl_lts s) | _ => false end = false) as (l & Hl & Hb).
    { clear -R. induction ret as [|a ret IH]; simpl in R; [discriminate|].
      apply andb_false_iff in R. destruct R as [R|R].
      - exists a. split; [left; reflexivity|exact R].
      - destruct (IH R) as (l & Hl & Hb). exists l. split; [right; exact Hl|exact Hb]. }
    exists l. split; [exact Hl|]. destruct l as [|v|]; simpl; auto. unfold r. rewrite Hb. auto.
Qed.
