(** * PtrCases.v — executable model of the `ptr` correspondence stream (C11, C12).
    One case is [[hidx; tidx; form; len]]; all offsets come from [Layout.struct_field_off]. *)
From Coq Require Import NArith List Bool.
From TV Require Import Layout LayoutCases.
Import ListNotations.
Open Scope N_scope.

Definition doff (p : shape) : N :=
  match struct_field_off [s_usize; p] 1 with Some o => o | None => 0 end.

Definition shape_size (i : N) : N :=
  match nth_error shape_table (N.to_nat i) with Some (s, _) => s | None => 0 end.

Definition run_ptr1 (op : list N) : list N :=
  match op with
  | [h; t; form; len] =>
    if 64 <? len then [99] else
    match (if header_idx_ok h then shape_of_idx h else None), shape_of_idx t with
    | Some H, Some T =>
      if form =? 0 then [0; doff T; 1; doff T; 1; doff T; doff T; 1; 0; 8; 8; 8; 8; 8; 8; 8; 1; 1]
      else if form =? 1 then [0; doff (Arr T len); 1; 1; 16; 16; 1]
      else if form =? 2 then [0; doff T; 1; 16; 16; 1]
      else if form =? 3 then
        (if shape_size t =? 0 then [1]        (* from_header_and_slice refuses zero-sized elements *)
         else [0; 0; doff (s_HeaderSlice (s_HeaderWithLength H) (Arr T len)); 0; 0; 1; 8; 8; 1])
      else if form =? 4 then [0; 1; 0; 1; 0; doff T; 2; 1; 1; 1; 8; 8]
      else if form =? 5 then [0; 0; 1; 0; 1; doff H; 2; 1; 1; 1; 8; 8]
      (* the arc-swap glue: raw forms of Arc<T> and ThinArc, then the counts a value held by an ArcSwapAny and one more
         handle shows once borrowing and owning loads have come and gone (2) and once the ArcSwapAny is gone (1) *)
      else if form =? 6 then [0; doff T; doff T; 1; 0; 0; 1; 2; 1; 2; 1]
      else [2]
    | _, _ => [98]
    end
  | _ => [99]
  end.

Definition run_ptr (case : list (list N)) : list (list N) := map run_ptr1 case.
