(** * Layout.v — Rust's [core::alloc::Layout] algebra and repr(C) type layouts over unbounded [N].

    Model only (no proofs here, so that the model still builds and extracts
    when a proof breaks). Everything is a total computable function.

    What is modelled (and trusted, see DESIGN.md §8):
    - [Layout::from_size_align], [extend], [array], [pad_to_align] exactly as
      in core (the validity condition is [size + align <= 2^63], i.e.
      [size <= isize::MAX - (align - 1)]);
    - rustc's layout algorithm for [repr(C)] structs (fold [extend] over the
      fields, then [pad_to_align]), for arrays/slices, and that
      [repr(transparent)] / [MaybeUninit] / [ManuallyDrop] keep the layout of
      their field;
    - a 64-bit target ([usize] is 8 bytes, 8-aligned). *)
From Coq Require Import NArith List Bool.
Import ListNotations.
Open Scope N_scope.

Definition isize_lim : N := 2 ^ 63.          (* isize::MAX + 1 *)

(** A layout: size and log2 of the alignment (so every alignment is a power of two). *)
Record layout := mkL { lsize : N; lalog : N }.
Definition lalign (l : layout) : N := 2 ^ lalog l.

Definition layout_eqb (a b : layout) : bool :=
  (lsize a =? lsize b) && (lalog a =? lalog b).

(** [round_up x a]: least multiple of [a] that is [>= x] (for [a > 0]). *)
Definition round_up (x a : N) : N := ((x + (a - 1)) / a) * a.

(** [Layout::from_size_align]: [Err] iff [size > isize::MAX - (align - 1)]. *)
Definition from_size_align (s k : N) : option layout :=
  if s + 2 ^ k <=? isize_lim then Some (mkL s k) else None.

(** [Layout::extend]: returns the combined layout and the offset of [b]. *)
Definition extend (a b : layout) : option (layout * N) :=
  let off := round_up (lsize a) (lalign b) in
  match from_size_align (off + lsize b) (N.max (lalog a) (lalog b)) with
  | Some l => Some (l, off)
  | None => None
  end.

(** [Layout::array::<T>(n)] for an element layout [e]. *)
Definition array (e : layout) (n : N) : option layout :=
  from_size_align (lsize e * n) (lalog e).

Definition pad_to_align (l : layout) : layout :=
  mkL (round_up (lsize l) (lalign l)) (lalog l).

(** ** Type shapes and rustc's layout of them *)
Inductive shape :=
| Prim (s k : N)               (* a sized type: size [s], alignment [2^k] *)
| Arr (e : shape) (n : N)      (* [T; n], or a [[T]] / [str] value of length [n] *)
| StructC (fs : list shape)    (* #[repr(C)] struct, fields in declaration order *)
| Transp (f : shape).          (* repr(transparent), MaybeUninit<T>, ManuallyDrop<T>, dyn view of a T *)

Definition s_unit : shape := Prim 0 0.
Definition s_usize : shape := Prim 8 3.
Definition s_u8 : shape := Prim 1 0.
Definition s_ArcInner (t : shape) : shape := StructC [s_usize; t].
Definition s_HeaderSlice (h t : shape) : shape := StructC [h; t].
Definition s_HeaderWithLength (h : shape) : shape := StructC [h; s_usize].

(** repr(C): start from the empty layout, [extend] by each field, then pad. *)
Fixpoint struct_fold (acc : layout) (ls : list layout) : option layout :=
  match ls with
  | [] => Some acc
  | l :: ls' =>
    match extend acc l with
    | Some (acc', _) => struct_fold acc' ls'
    | None => None
    end
  end.

Fixpoint all_some {A} (l : list (option A)) : option (list A) :=
  match l with
  | [] => Some []
  | Some a :: r => match all_some r with Some r' => Some (a :: r') | None => None end
  | None :: _ => None
  end.

Fixpoint layout_of (t : shape) : option layout :=
  match t with
  | Prim s k => from_size_align s k
  | Arr e n => match layout_of e with Some le => array le n | None => None end
  | StructC fs =>
    match all_some (map layout_of fs) with
    | Some ls => match struct_fold (mkL 0 0) ls with
                 | Some l => Some (pad_to_align l)
                 | None => None
                 end
    | None => None
    end
  | Transp f => layout_of f
  end.

(** Offset of field number [i] of a repr(C) struct with field layouts [ls]. *)
Fixpoint field_off (acc : layout) (ls : list layout) (i : nat) : option N :=
  match ls with
  | [] => None
  | l :: ls' =>
    match extend acc l with
    | Some (acc', off) =>
      match i with O => Some off | S i' => field_off acc' ls' i' end
    | None => None
    end
  end.

Definition struct_field_off (fs : list shape) (i : nat) : option N :=
  match all_some (map layout_of fs) with
  | Some ls => field_off (mkL 0 0) ls i
  | None => None
  end.

(** Well-formed type shapes: what rustc guarantees of every type
    (size is a multiple of the alignment; alignment at most 2^29). *)
Fixpoint wf_shape (t : shape) : Prop :=
  match t with
  | Prim s k => (s mod 2 ^ k = 0) /\ k <= 29
  | Arr e _ => wf_shape e
  | StructC fs => (fix all (l : list shape) : Prop :=
                     match l with [] => True | x :: r => wf_shape x /\ all r end) fs
  | Transp f => wf_shape f
  end.

Fixpoint wf_shapeb (t : shape) : bool :=
  match t with
  | Prim s k => (s mod 2 ^ k =? 0) && (k <=? 29)
  | Arr e _ => wf_shapeb e
  | StructC fs => forallb wf_shapeb fs
  | Transp f => wf_shapeb f
  end.

(** ** Layout expressions: the AST the translator emits for the hand-written
    [Layout] chains of the crate. *)

(** Type expressions as they occur in [Layout::new::<..>()] etc. *)
Inductive tyexpr :=
| TyVar (v : N)                  (* a generic parameter: 0 = T (or the element), 1 = H *)
| TyUnit
| TyUsize                        (* usize / AtomicUsize *)
| TyU8
| TyArcInner (t : tyexpr)
| TyHeaderSlice (h t : tyexpr)
| TyHeaderWithLength (h : tyexpr)
| TyMaybeUninit (t : tyexpr)
| TyManuallyDrop (t : tyexpr)
| TySlice (t : tyexpr)           (* [T] with the length variable of the environment *)
| TyUnknown.

Inductive lexpr :=
| LNew (t : tyexpr)              (* Layout::new::<t>() *)
| LArray (t : tyexpr)            (* Layout::array::<t>(len) *)
| LArrayUnwrap (t : tyexpr)      (* Layout::array::<t>(len).unwrap() *)
| LForValue (t : tyexpr)         (* Layout::for_value::<t>(..) of a value whose type is t *)
| LParam                         (* the Layout-typed parameter (value_layout) *)
| LExtend0 (a b : lexpr)         (* a.extend(b).unwrap().0 *)
| LPad (a : lexpr)               (* a.pad_to_align() *)
| LUnknown.                      (* outside the grammar *)

(** Offsets: [a.extend(b).unwrap().1] *)
Inductive oexpr :=
| OExtend1 (a b : lexpr)
| OUnknown.

Record lenv := mkEnv { e_T : shape; e_H : shape; e_len : N; e_param : option layout }.

Fixpoint ty_shape (env : lenv) (t : tyexpr) : option shape :=
  match t with
  | TyVar 0 => Some (e_T env)
  | TyVar 1 => Some (e_H env)
  | TyVar _ => None
  | TyUnit => Some s_unit
  | TyUsize => Some s_usize
  | TyU8 => Some s_u8
  | TyArcInner t => option_map s_ArcInner (ty_shape env t)
  | TyHeaderSlice h t =>
    match ty_shape env h, ty_shape env t with
    | Some a, Some b => Some (s_HeaderSlice a b) | _, _ => None end
  | TyHeaderWithLength h => option_map s_HeaderWithLength (ty_shape env h)
  | TyMaybeUninit t => option_map Transp (ty_shape env t)
  | TyManuallyDrop t => option_map Transp (ty_shape env t)
  | TySlice t => option_map (fun s => Arr s (e_len env)) (ty_shape env t)
  | TyUnknown => None
  end.

(** Result of evaluating a chain: a layout, a panic (an [unwrap] on [Err]),
    or "stuck" (expression outside the grammar / ill-formed environment). *)
Inductive lres (A : Type) := LOk (a : A) | LPanic | LStuck.
Arguments LOk {A} a. Arguments LPanic {A}. Arguments LStuck {A}.

Definition of_opt {A} (o : option A) : lres A :=
  match o with Some a => LOk a | None => LPanic end.

Fixpoint leval (env : lenv) (e : lexpr) : lres layout :=
  match e with
  | LNew t | LForValue t =>
    match ty_shape env t with
    | Some s => match layout_of s with Some l => LOk l | None => LStuck end
    | None => LStuck
    end
  | LArray _ => LStuck   (* a Result<Layout,_> used where a Layout is needed *)
  | LArrayUnwrap t =>
    match ty_shape env t with
    | Some s => match layout_of s with
                | Some l => of_opt (array l (e_len env))
                | None => LStuck end
    | None => LStuck
    end
  | LParam => match e_param env with Some l => LOk l | None => LStuck end
  | LExtend0 a b =>
    match leval env a with
    | LOk la =>
      match leval env b with
      | LOk lb => match extend la lb with Some (l, _) => LOk l | None => LPanic end
      | LPanic => LPanic | LStuck => LStuck
      end
    | LPanic => LPanic | LStuck => LStuck
    end
  | LPad a =>
    match leval env a with
    | LOk la => LOk (pad_to_align la)
    | LPanic => LPanic | LStuck => LStuck
    end
  | LUnknown => LStuck
  end.

Definition oeval (env : lenv) (e : oexpr) : lres N :=
  match e with
  | OExtend1 a b =>
    match leval env a with
    | LOk la =>
      match leval env b with
      | LOk lb => match extend la lb with Some (_, off) => LOk off | None => LPanic end
      | LPanic => LPanic | LStuck => LStuck
      end
    | LPanic => LPanic | LStuck => LStuck
    end
  | OUnknown => LStuck
  end.

(** The two-stage allocation: a value-layout chain feeding the
    [allocate_for_layout] chain through its parameter. *)
Definition leval2 (env : lenv) (value_chain alloc_chain : lexpr) : lres layout :=
  match leval env value_chain with
  | LOk vl => leval (mkEnv (e_T env) (e_H env) (e_len env) (Some vl)) alloc_chain
  | LPanic => LPanic
  | LStuck => LStuck
  end.
