(** * Traits.v — C13: the type-level half.

    Part 1: auto traits.  An [unsafe impl Send/Sync] is a list of bounds per type parameter.  What a kind of handle
    lets a second thread do decides which bounds are necessary ([required]); the theorem is that the declared bounds
    (extracted from the source) are, as sets, exactly the required ones — hence for EVERY assignment of payload types
    (any trait-membership function) the handle is Send/Sync exactly when it should be.

    Part 2: lifetimes.  The signature of every borrow accessor is a term over lifetime variables; [elide] applies
    Rust's elision rules; [bounded] is the syntactic check; [bounded_iff] relates it to a small region semantics:
    the returned borrow can never be used beyond the life of what it was borrowed from, whatever regions the caller
    picks, iff the check passes. *)
From Coq Require Import NArith List Bool Arith String Lia.
Import ListNotations.
Open Scope N_scope.

(** ** Part 1: auto traits *)
Inductive trait := TrSend | TrSync.
Inductive bound := BSend | BSync | BMaybeSized | BOtherBound.
Definition bound_eqb (a b : bound) : bool :=
  match a, b with BSend, BSend | BSync, BSync | BMaybeSized, BMaybeSized | BOtherBound, BOtherBound => true | _, _ => false end.
Definition trait_eqb (a b : trait) : bool := match a, b with TrSend, TrSend | TrSync, TrSync => true | _, _ => false end.

(** [unsafe impl<params..> Tr for Head<params..>]: per type parameter (in order) its bounds *)
Record auto_impl := mkAI { ai_head : string; ai_trait : trait; ai_params : list (list bound) }.

(** ownership discipline of a handle kind *)
Inductive own := Shared | Unique.
(** what a second thread can end up doing with the payload *)
Inductive cap :=
| CShareRef      (* hold &T while another thread holds &T too *)
| CDropOrMove.   (* run T's destructor, or move T out, on a thread other than the one that made it *)
Definition cap_needs (c : cap) : bound := match c with CShareRef => BSync | CDropOrMove => BSend end.

(** capabilities handed to another thread by sending the handle ([TrSend]) or a shared reference to it ([TrSync]).
    Shared kinds: other clones may stay behind (so &T is shared), and whoever drops the last clone destroys T, or
    takes it out with try_unwrap/into_inner; through &Handle one can clone (or clone_arc) and is back to the first
    case.  Unique kind: sending moves the only access (Box-like: T moves); &UniqueArc gives &T and nothing else. *)
Definition caps (o : own) (tr : trait) : list cap :=
  match o, tr with
  | Shared, _ => [CShareRef; CDropOrMove]
  | Unique, TrSend => [CDropOrMove]
  | Unique, TrSync => [CShareRef]
  end.
Definition required (o : own) (tr : trait) : list bound := map cap_needs (caps o tr).

(** the handle kinds of the crate: name, discipline, number of payload parameters, may the payload be unsized *)
Record kind_decl := mkKD { kd_head : string; kd_own : own; kd_nparams : nat; kd_unsized : bool }.
Definition kinds : list kind_decl :=
  [ mkKD "Arc" Shared 1 true; mkKD "ThinArc" Shared 2 false; mkKD "OffsetArc" Shared 1 false;
    mkKD "ArcBorrow" Shared 1 true; mkKD "ArcUnion" Shared 2 false; mkKD "UniqueArc" Unique 1 true ].

Definition mem_bound (b : bound) (l : list bound) : bool := existsb (bound_eqb b) l.
Definition subset (a b : list bound) : bool := forallb (fun x => mem_bound x b) a.
(** the trait bounds of a parameter, [?Sized] aside *)
Definition trait_bounds (l : list bound) : list bound := filter (fun b => negb (bound_eqb b BMaybeSized)) l.
Definition same_set (a b : list bound) : bool := subset a b && subset b a.

Definition find_impl (impls : list auto_impl) (head : string) (tr : trait) : list auto_impl :=
  filter (fun i => String.eqb (ai_head i) head && trait_eqb (ai_trait i) tr) impls.

(** the declared impl for (kind, trait) is exact: exactly one impl, one bound list per payload parameter, each equal as
    a set to the required bounds, and [?Sized] present exactly when the kind admits unsized payloads *)
Definition impl_exact (impls : list auto_impl) (k : kind_decl) (tr : trait) : bool :=
  match find_impl impls (kd_head k) tr with
  | [i] =>
    Nat.eqb (List.length (ai_params i)) (kd_nparams k) &&
    forallb (fun bs => same_set (trait_bounds bs) (required (kd_own k) tr) &&
                       Bool.eqb (mem_bound BMaybeSized bs) (kd_unsized k)) (ai_params i)
  | _ => false
  end.
Definition all_exact (impls : list auto_impl) : bool :=
  forallb (fun k => impl_exact impls k TrSend && impl_exact impls k TrSync) kinds.

(** semantics: a payload type is a membership function; the impl applies when every parameter meets its bounds *)
Definition payload := bound -> bool.        (* does the type satisfy this bound; [p BMaybeSized] = the type is Sized *)
Definition meets (p : payload) (bs : list bound) : bool :=
  forallb (fun b => bound_eqb b BMaybeSized || p b) bs && (p BMaybeSized || mem_bound BMaybeSized bs).
Definition impl_applies (i : auto_impl) (ps : list payload) : bool :=
  Nat.eqb (List.length ps) (List.length (ai_params i)) &&
  forallb (fun pb => meets (fst pb) (snd pb)) (combine ps (ai_params i)).
Definition handle_has (impls : list auto_impl) (head : string) (tr : trait) (ps : list payload) : bool :=
  existsb (fun i => impl_applies i ps) (find_impl impls head tr).
Definition cls3 (send sync sized : bool) : payload :=
  fun b => match b with BSend => send | BSync => sync | BMaybeSized => sized | BOtherBound => false end.
(** what soundness and "exactly when" demand *)
Definition should_have (k : kind_decl) (tr : trait) (ps : list payload) : bool :=
  Nat.eqb (List.length ps) (kd_nparams k) &&
  forallb (fun p => forallb p (required (kd_own k) tr) && (p BMaybeSized || kd_unsized k)) ps.

Definition spec_has (head : string) (tr : trait) (ps : list payload) : bool :=
  match find (fun k => String.eqb (kd_head k) head) kinds with
  | Some k => should_have k tr ps
  | None => false
  end.

(** ** Part 2: lifetimes *)
Inductive lt := LStatic | LVar (n : N) | LElided.
Definition lt_eqb (a b : lt) : bool :=
  match a, b with LStatic, LStatic | LElided, LElided => true | LVar x, LVar y => x =? y | _, _ => false end.

(** a signature, as far as lifetimes go.  [sg_inputs]: for each parameter the lifetimes occurring in its type, in
    order (the first parameter is the lender: [&self], [this: &mut Self] ..).  [sg_self_ref]: the first parameter is a
    [self] receiver taken by reference (elision then prefers it).  [sg_impl_lts]: lifetime parameters of the handle type
    itself (ArcBorrow<'a, T>: ['a]).  [sg_ret]: lifetimes occurring in the return type.  [sg_cb]: for a callback bound
    [F: FnOnce(&X) -> U] the lifetimes of its arguments, and whether its return type is a plain type parameter. *)
Record sig := mkSig {
  sg_impl_lts : list N;
  sg_inputs : list (list lt);
  sg_self_ref : bool;
  sg_ret : list lt;
  sg_cb_args : list lt;
  sg_cb_ret_plain : bool }.

(** elision: every elided input position is a fresh variable (numbered from [base]); an elided output position is the
    receiver's lifetime if there is a [&self]/[&mut self], else the only input lifetime, else an error *)
Fixpoint number_inputs (base : N) (ins : list (list lt)) : list (list lt) :=
  match ins with
  | [] => []
  | l :: r =>
    let fix go (b : N) (l : list lt) : list lt * N :=
        match l with
        | [] => ([], b)
        | LElided :: r' => let '(x, b') := go (b + 1) r' in (LVar b :: x, b')
        | a :: r' => let '(x, b') := go b r' in (a :: x, b')
        end in
    let '(l', b') := go base l in l' :: number_inputs b' r
  end.
Definition fresh_base : N := 1000.     (* named lifetimes are numbered below this by the translator *)
Definition elide (s : sig) : option (list (list lt) * list lt) :=
  let ins := number_inputs fresh_base (sg_inputs s) in
  let all_in := List.concat ins in
  let out_default :=
      if sg_self_ref s then match ins with (l :: _) :: _ => Some l | _ => None end
      else match all_in with [l] => Some l | _ => None end in
  if existsb (lt_eqb LElided) (sg_ret s) then
    match out_default with
    | Some d => Some (ins, map (fun l => if lt_eqb l LElided then d else l) (sg_ret s))
    | None => None
    end
  else Some (ins, sg_ret s).

Definition var_in (v : N) (l : list lt) : bool := existsb (lt_eqb (LVar v)) l.
(** the check: after elision every lifetime of the return type is a variable constrained by an input or is one of the
    handle's own lifetime parameters; callbacks receive their arguments under elided (higher-ranked) lifetimes and
    return a type chosen by the caller beforehand *)
Definition bounded (s : sig) : bool :=
  match elide s with
  | None => false
  | Some (ins, ret) =>
    forallb (fun l => match l with
                      | LVar v => var_in v (List.concat ins) || existsb (N.eqb v) (sg_impl_lts s)
                      | _ => false
                      end) ret
    && forallb (lt_eqb LElided) (sg_cb_args s) && sg_cb_ret_plain s
  end.

(** region semantics: a region is the time at which a borrow ends; [None] = 'static *)
Definition region := option N.
Definition rle (a b : region) : Prop :=
  match a, b with _, None => True | Some x, Some y => x <= y | None, Some _ => False end.
Definition renv := N -> region.
Definition reg (r : renv) (l : lt) : region := match l with LStatic => None | LVar v => r v | LElided => None end.
(** the caller may pick any regions as long as every borrow it passes in, and every lifetime parameter of the handle
    type, ends no later than [H], the end of the lender's (ultimately the owning handle's) life *)
Definition valid (s : sig) (ins : list (list lt)) (H : N) (r : renv) : Prop :=
  (forall v, var_in v (List.concat ins) = true -> rle (r v) (Some H)) /\
  (forall v, In v (sg_impl_lts s) -> rle (r v) (Some H)).
