(** * ConcX.v — the counter protocol AS WRITTEN IN THE SOURCE, executable, for the failing-schedule search.

    [Conc.v] fixes the shape of [drop_inner] and of the uniqueness test and is parametrised by their orderings; its
    theorems need the translator's fact that the source has exactly that shape.  When the shape itself is changed
    (the destroyer elected by a separate load, uniqueness detected by a decrement that is restored afterwards, a bare
    decrement in place of a drop ...) that fact fails and the theorems no longer apply.  This file interprets the
    three small functions as PROGRAMS over the counter — the translator emits them from the source — on the same
    view-based memory as [Conc.v], one instruction per step, so that a bounded search can exhibit a schedule with a
    data race, an access after free, a double destroy/free, or a leak.  Search only: nothing here is a theorem about
    the code; a schedule it finds is replayed by [vm_compute]. *)
From Coq Require Import List Bool Arith Lia.
From TV Require Import Conc.
Import ListNotations.

Inductive ord := ORlx | OAcq | ORel | OAcqRel.
Definition is_acq (o : ord) : bool := match o with OAcq | OAcqRel => true | _ => false end.
Definition is_rel (o : ord) : bool := match o with ORel | OAcqRel => true | _ => false end.

Inductive instr :=
| IDec (o : ord) (keep : bool)     (* fetch_sub(1, o); [keep]: the old value goes to the register *)
| IInc (o : ord) (keep : bool)     (* fetch_add(1, o) *)
| ILoad (o : ord) (keep : bool)    (* load(o): may read any message not older than the thread's timestamp *)
| IRetIfNe (n : nat)               (* if reg != n { return }  (for the uniqueness program: Err(this)) *)
| IRetIfEq (n : nat)
| IDestroyFree                     (* drop_slow: destroy the payload, release the block *)
| IGrant                           (* Ok(UniqueArc): exclusive access granted *)
| ICloneVal                        (* T::clone(&this): reads the payload *)
| IDropHandle                      (* a handle goes out of scope: run the drop program *)
| IUnknown.                        (* outside the grammar *)

Record progs := mkProgs { p_drop : list instr; p_uniq : list instr; p_uoc : list instr }.

Inductive xmode := XIdle | XGranted.
(** what finishing the running program means for the handle it was given *)
Inductive xret := RGone | RGiveBack.
Record xthread := mkXT { x_owned : nat; x_view : view; x_pc : list instr; x_reg : nat; x_mode : xmode; x_ret : xret }.
Definition xdefault : xthread := mkXT 0 vempty [] 0 XIdle RGone.

Record xstate := mkX {
  xmsgs : list msg; xaccs : list access; xthr : list xthread;
  xdestroyed : bool; xfreed : bool; xraced : bool }.

Definition xget (s : xstate) (t : nat) : xthread := nth t (xthr s) xdefault.
Definition xset (s : xstate) (t : nat) (x : xthread) : list xthread := set_nth xdefault (xthr s) t x.
Definition xlast (s : xstate) : msg := last (xmsgs s) (mkMsg 0 vempty).

Definition xaccess (s : xstate) (t : nat) (k : akind) : xstate * view :=
  let x := xget s t in
  let r := races_from 0 (xaccs s) t k (x_view x) || xfreed s in
  let a := length (xaccs s) in
  (mkX (xmsgs s) (xaccs s ++ [mkA t k]) (xthr s) (xdestroyed s) (xfreed s) (xraced s || r), vadd (x_view x) a).

Inductive xlabel :=
| XClone (t : nat) | XRead (t : nat) | XWrite (t : nat) | XUngrant (t : nat) | XMoveOut (t : nat)
| XSend (t u : nat)
| XStartDrop (t : nat)           (* drop(handle) *)
| XStartUniq (t : nat)           (* try_unique / get_mut: the handle comes back unless granted *)
| XStartUoc (t : nat)            (* unwrap_or_clone: try_unique, then move out, or clone and give the handle up *)
| XStep (t : nat) (i : nat).     (* the next instruction of the running program; [i]: which message a load reads *)

Definition idle (x : xthread) : bool := match x_pc x, x_mode x with [], XIdle => true | _, _ => false end.
Definition xholds (x : xthread) : bool := (0 <? x_owned x) || negb (idle x).

Definition rmw (s : xstate) (t : nat) (o : ord) (f : nat -> nat) : xstate * view * nat :=
  let '(s1, v1) := xaccess s t ACount in
  let m := xlast s in
  let v2 := vts v1 (length (xmsgs s)) in
  let v3 := if is_acq o then vjoin v2 (m_view m) else v2 in
  let nm := mkMsg (f (m_val m)) (if is_rel o then vjoin (m_view m) v3 else m_view m) in
  (mkX (xmsgs s1 ++ [nm]) (xaccs s1) (xthr s1) (xdestroyed s1) (xfreed s1) (xraced s1), v3, m_val m).

Definition finish (x : xthread) (v : view) : xthread :=
  mkXT (match x_ret x with RGiveBack => S (x_owned x) | RGone => x_owned x end) v [] (x_reg x) XIdle RGone.

Definition xstep (P : progs) (s : xstate) (l : xlabel) : option xstate :=
  match l with
  | XClone t =>
    let x := xget s t in
    if (0 <? x_owned x) && idle x then
      let '(s1, v, _) := rmw s t ORlx S in
      Some (mkX (xmsgs s1) (xaccs s1) (xset s1 t (mkXT (S (x_owned x)) v [] (x_reg x) XIdle RGone)) (xdestroyed s1) (xfreed s1) (xraced s1))
    else None
  | XRead t =>
    let x := xget s t in
    if (0 <? x_owned x) && (match x_pc x with [] => true | _ => false end) then
      let '(s1, v) := xaccess s t ARead in
      Some (mkX (xmsgs s1) (xaccs s1) (xset s1 t (mkXT (x_owned x) v [] (x_reg x) (x_mode x) (x_ret x))) (xdestroyed s1) (xfreed s1) (xraced s1))
    else None
  | XWrite t =>
    let x := xget s t in
    match x_mode x, x_pc x with
    | XGranted, [] =>
      let '(s1, v) := xaccess s t AWrite in
      Some (mkX (xmsgs s1) (xaccs s1) (xset s1 t (mkXT (x_owned x) v [] (x_reg x) XGranted (x_ret x))) (xdestroyed s1) (xfreed s1) (xraced s1))
    | _, _ => None
    end
  | XUngrant t =>
    let x := xget s t in
    match x_mode x, x_pc x with
    | XGranted, [] => Some (mkX (xmsgs s) (xaccs s) (xset s t (mkXT (x_owned x) (x_view x) [] (x_reg x) XIdle RGone)) (xdestroyed s) (xfreed s) (xraced s))
    | _, _ => None
    end
  | XMoveOut t =>
    (* try_unwrap after a grant: Box::from_raw(..).data — the value moves out, the block is released *)
    let x := xget s t in
    match x_mode x, x_pc x with
    | XGranted, [] =>
      let '(s1, v1) := xaccess s t AMoveOut in
      let s1' := mkX (xmsgs s1) (xaccs s1) (xset s1 t (mkXT (x_owned x) v1 [] (x_reg x) XGranted RGone)) true (xfreed s1) (xraced s1 || xdestroyed s) in
      let '(s2, v2) := xaccess s1' t AFree in
      Some (mkX (xmsgs s2) (xaccs s2) (xset s2 t (mkXT (x_owned x - 1) v2 [] (x_reg x) XIdle RGone)) (xdestroyed s2) true (xraced s2 || xfreed s1'))
    | _, _ => None
    end
  | XSend t u =>
    let x := xget s t in let y := xget s u in
    if negb (Nat.eqb t u) && (0 <? x_owned x) && idle x && idle y then
      let s1 := mkX (xmsgs s) (xaccs s) (xset s t (mkXT (x_owned x - 1) (x_view x) [] (x_reg x) XIdle RGone)) (xdestroyed s) (xfreed s) (xraced s) in
      Some (mkX (xmsgs s1) (xaccs s1) (xset s1 u (mkXT (S (x_owned y)) (vjoin (x_view y) (x_view x)) [] (x_reg y) XIdle RGone)) (xdestroyed s1) (xfreed s1) (xraced s1))
    else None
  | XStartDrop t =>
    let x := xget s t in
    if (0 <? x_owned x) && idle x then
      Some (mkX (xmsgs s) (xaccs s) (xset s t (mkXT (x_owned x - 1) (x_view x) (p_drop P) 0 XIdle RGone)) (xdestroyed s) (xfreed s) (xraced s))
    else None
  | XStartUniq t =>
    let x := xget s t in
    if (0 <? x_owned x) && idle x then
      Some (mkX (xmsgs s) (xaccs s) (xset s t (mkXT (x_owned x - 1) (x_view x) (p_uniq P) 0 XIdle RGiveBack)) (xdestroyed s) (xfreed s) (xraced s))
    else None
  | XStartUoc t =>
    let x := xget s t in
    if (0 <? x_owned x) && idle x then
      (* the uniqueness program; when it returns without a grant the clone path follows (marked by IUnknown-free
         concatenation: RetIf.. jumps to the uoc program) *)
      Some (mkX (xmsgs s) (xaccs s) (xset s t (mkXT (x_owned x - 1) (x_view x) (p_uniq P) 0 XIdle RGone)) (xdestroyed s) (xfreed s) (xraced s))
    else None
  | XStep t i =>
    let x := xget s t in
    match x_pc x with
    | [] => None
    | ins :: rest =>
      let upd (s1 : xstate) (y : xthread) := mkX (xmsgs s1) (xaccs s1) (xset s1 t y) (xdestroyed s1) (xfreed s1) (xraced s1) in
      (* "return": for the drop program the handle is gone; for the uniqueness program the handle comes back, except
         inside unwrap_or_clone (x_ret = RGone there) where the clone path runs instead *)
      let ret (s1 : xstate) (v : view) :=
          match x_ret x, existsb (fun j => match j with IGrant => true | _ => false end) rest with
          | RGone, true => upd s1 (mkXT (x_owned x) v (p_uoc P) (x_reg x) XIdle RGone)      (* unwrap_or_clone: not unique *)
          | _, _ => upd s1 (finish x v)
          end in
      match ins with
      | IDec o keep =>
        let '(s1, v, old) := rmw s t o (fun n => n - 1) in
        Some (upd s1 (mkXT (x_owned x) v rest (if keep then old else x_reg x) (x_mode x) (x_ret x)))
      | IInc o keep =>
        let '(s1, v, old) := rmw s t o S in
        Some (upd s1 (mkXT (x_owned x) v rest (if keep then old else x_reg x) (x_mode x) (x_ret x)))
      | ILoad o keep =>
        if (v_ts (x_view x) <=? i) && (i <? length (xmsgs s)) then
          let '(s1, v1) := xaccess s t ACount in
          let m := nth i (xmsgs s) (mkMsg 0 vempty) in
          let v2 := vts (if is_acq o then vjoin v1 (m_view m) else v1) i in
          Some (upd s1 (mkXT (x_owned x) v2 rest (if keep then m_val m else x_reg x) (x_mode x) (x_ret x)))
        else None
      | IRetIfNe n => if Nat.eqb (x_reg x) n then Some (upd s (mkXT (x_owned x) (x_view x) rest (x_reg x) (x_mode x) (x_ret x))) else Some (ret s (x_view x))
      | IRetIfEq n => if Nat.eqb (x_reg x) n then Some (ret s (x_view x)) else Some (upd s (mkXT (x_owned x) (x_view x) rest (x_reg x) (x_mode x) (x_ret x)))
      | IDestroyFree =>
        let '(s1, v1) := xaccess s t ADestroy in
        let s1' := mkX (xmsgs s1) (xaccs s1) (xset s1 t (mkXT (x_owned x) v1 rest (x_reg x) (x_mode x) (x_ret x))) true (xfreed s1) (xraced s1 || xdestroyed s) in
        let '(s2, v2) := xaccess s1' t AFree in
        Some (mkX (xmsgs s2) (xaccs s2) (xset s2 t (mkXT (x_owned x) v2 rest (x_reg x) (x_mode x) (x_ret x))) (xdestroyed s2) true (xraced s2 || xfreed s1'))
      | IGrant =>
        (* exclusive access; inside unwrap_or_clone the grant is used at once to move the value out *)
        Some (upd s (mkXT (S (x_owned x)) (x_view x) [] (x_reg x) XGranted (x_ret x)))
      | ICloneVal =>
        let '(s1, v1) := xaccess s t ARead in
        Some (upd s1 (mkXT (x_owned x) v1 rest (x_reg x) (x_mode x) (x_ret x)))
      | IDropHandle => Some (upd s (mkXT (x_owned x) (x_view x) (p_drop P ++ rest) (x_reg x) (x_mode x) (x_ret x)))
      | IUnknown => None
      end
    end
  end.

Definition xinit : xstate := mkX [mkMsg 1 vempty] [] [mkXT 1 vempty [] 0 XIdle RGone] false false false.

Fixpoint xexec (P : progs) (s : xstate) (ls : list xlabel) : option xstate :=
  match ls with
  | [] => Some s
  | l :: r => match xstep P s l with Some s' => xexec P s' r | None => None end
  end.

(** nobody holds anything any more, yet the block was never released: the value is lost *)
Definition leaked (s : xstate) : bool := forallb (fun x => negb (xholds x)) (xthr s) && negb (xfreed s).
Definition bad (s : xstate) : bool := xraced s || leaked s.

Definition xlabels (nthreads nmsgs : nat) : list xlabel :=
  flat_map (fun t =>
    [XStartDrop t; XStartUniq t; XStartUoc t; XClone t; XRead t; XWrite t; XMoveOut t; XUngrant t]
    ++ map (XStep t) (seq 0 nmsgs)
    ++ flat_map (fun u => [XSend t u]) (seq 0 nthreads)) (seq 0 nthreads).

(** loads are the only instructions that look at the message index: a step with index 0 stands for the others *)
Definition relevant (s : xstate) (l : xlabel) : bool :=
  match l with
  | XStep t i => match x_pc (xget s t) with ILoad _ _ :: _ => true | _ => Nat.eqb i 0 end
  | _ => true
  end.

Fixpoint xexplore (P : progs) (nthreads fuel : nat) (s : xstate) (trace : list xlabel) : option (list xlabel) :=
  if bad s then Some (rev trace) else
  match fuel with
  | O => None
  | S f =>
    (fix try (ls : list xlabel) : option (list xlabel) :=
       match ls with
       | [] => None
       | l :: r =>
         if relevant s l then
           match xstep P s l with
           | Some s' => match xexplore P nthreads f s' (l :: trace) with Some w => Some w | None => try r end
           | None => try r
           end
         else try r
       end) (xlabels nthreads (length (xmsgs s)))
  end.

(** the programs of the unmodified source *)
Definition good_progs : progs :=
  mkProgs [IDec ORel true; IRetIfNe 1; ILoad OAcq false; IDestroyFree]
      [ILoad OAcq true; IRetIfNe 1; IGrant]
      [ICloneVal; IDropHandle].
