(** * MechProps.v — what individual operations observe and change, in every reachable state.

    These are the per-property statements over the handle machine; each is used by a file in
    coq/props/.  [Good] holds in every reachable state that has not aborted (MechProofs). *)
From Coq Require Import NArith List Bool Arith Lia.
From TV Require Import Mech MechProofs MechLog.
Import ListNotations.
Open Scope N_scope.

Definition running (s : st) : Prop := dead s = false /\ skip s = 0%nat.

Lemma new_events_app m0 m1 evs : log m1 = evs ++ log m0 -> new_events m0 m1 = rev evs.
Proof.
  intros E. unfold new_events. rewrite E, app_length.
  replace (length evs + length (log m0) - length (log m0))%nat with (length evs) by lia.
  rewrite firstn_app, Nat.sub_diag, firstn_all. simpl. rewrite app_nil_r. reflexivity.
Qed.

Lemma run_lib_snd {A} s (m : M A) k :
  snd (run_lib s m k) =
  match m (ms s) with
  | (Ret a, m1) => obs_of (snd (fst (k a (with_ms s m1)))) (snd (k a (with_ms s m1))) (ms s) (ms (fst (fst (k a (with_ms s m1)))))
  | (Panicked, m1) => obs_of S_PANIC [] (ms s) m1
  | (Aborted, m1) => obs_of S_ABORT [] (ms s) m1
  end.
Proof.
  unfold run_lib. destruct (m (ms s)) as [[a| |] m1]; auto.
  destruct (k a (with_ms s m1)) as [[s' st] rets]. reflexivity.
Qed.

Lemma cnt_unique_iff hp u t i x b :
  GoodC hp u t -> nth_error t i = Some (Some x) -> nth_error hp (hl x) = Some b ->
  ((b_cnt b =? 1) = true <-> owners t (hl x) = 1%nat).
Proof.
  intros G Hi Hb. destruct (handle_block _ _ _ _ _ G Hi) as (b0 & Hb0 & Al & Ok & Cn & Pos & Le).
  assert (b0 = b) by congruence. subst b0. rewrite N.eqb_eq, Cn. split; intros; lia.
Qed.

(** ** C04: every count accessor reports the number of owning handles, and changes nothing *)
Theorem count_reports_owners d s acc h x f :
  Good s -> running s -> get_h s h = Some x -> count_impl acc (hk x) = Some f ->
  let r := step d s (OCount acc h) in
  exists site,
    snd r = [S_OK; N.of_nat (owners (tbl s) (hl x)); N.of_nat (owners (tbl s) (hl x)); 99999999; 5; site_code site; N.of_nat (owners (tbl s) (hl x))] /\
    tbl (fst r) = tbl s /\ heap (ms (fst r)) = heap (ms s).
Proof.
  intros G [Hd Hs] Hx Hc. simpl. unfold step. rewrite Hd, Hs, Hx, Hc.
  destruct (count_impl_spec _ _ _ Hc) as (site & Hf). exists site.
  rewrite run_lib_snd, run_lib_fst, Hf. apply get_h_some in Hx.
  destruct s as [[hp lg u nt] t fr sk dd]. unfold Good in G. simpl in *.
  destruct (handle_block _ _ _ _ _ G Hx) as (b & Hb & Al & Ok & Cn & Pos & Le).
  rewrite (load_eq hp lg u nt (hl x) b Hb Al). simpl. split; [|auto].
  unfold obs_of. rewrite (new_events_app _ _ [EAtomic site (b_cnt b)]) by reflexivity. simpl. rewrite Cn. reflexivity.
Qed.

(** operations that move, convert, borrow or inspect handles leave every value's owner count unchanged *)
Definition neutral (o : op) : bool :=
  match o with
  | OCount _ _ | OIsUnique _ | ORead _ | OPtrOf _ | OUnionAcc _ | OBegin _ _ | OEnd | OPanic | OForget _ | OReplace _ _ | OBad => true
  | OConv c _ => negb (c =? 7)
  | _ => false
  end.

Lemma owners_set_same t i x x' l : nth_error t i = Some (Some x) -> hl x' = hl x -> owners (upd t i (Some x')) l = owners t l.
Proof.
  intros Hi E. pose proof (owners_upd t i (Some x) (Some x') l Hi) as O. simpl in O. rewrite E in O. lia.
Qed.

Lemma exit_frame_owners s f l : owners (tbl (exit_frame s f)) l = owners (tbl s) l.
Proof.
  unfold exit_frame. destruct (get_h s (f_h f)) as [x|] eqn:Hx; auto. destruct (begin_info _ _) as [[[? ?] ?]|]; auto.
  destruct (_ && _); auto. simpl. apply get_h_some in Hx. eapply owners_set_same; eauto.
Qed.
Lemma exit_all_owners fs : forall s l, owners (tbl (exit_all s fs)) l = owners (tbl s) l.
Proof. induction fs as [|f r IH]; intros s l; simpl; auto. rewrite IH. apply exit_frame_owners. Qed.

Theorem neutral_ops_keep_owners d s o :
  neutral o = true -> forall l, owners (tbl (fst (step d s o))) l = owners (tbl s) l.
Proof.
  intros Hn l. unfold step. destruct (dead s); auto. destruct (skip s); [|destruct o; auto].
  destruct o; try discriminate Hn; auto.
  - (* forget *) destruct (get_h s h) as [x|] eqn:Hx; auto. destruct (_ && _); auto. simpl. apply get_h_some in Hx. eapply owners_set_same; eauto.
  - (* conv *) simpl in Hn. apply negb_true_iff in Hn. destruct (get_h s h) as [x|] eqn:Hx; auto. apply get_h_some in Hx.
    destruct (negb (can_consume (hm x))); auto. destruct (c =? 16).
    { destruct (assume_target (hk x)); auto. rewrite run_lib_fst. destruct (get_blk (hl x) (ms s)) as [[b| |] m1]; auto.
      destruct (all_init (b_cells b)); auto. simpl. eapply owners_set_same; eauto. }
    destruct (conv_target c (hk x)); auto. rewrite Hn. simpl. eapply owners_set_same; eauto.
  - destruct (get_h s h) as [x|]; auto. destruct (count_impl acc (hk x)) as [cf|]; auto. rewrite run_lib_fst. destruct (cf (hl x) (ms s)) as [[?| |] ?]; auto.
  - destruct (get_h s h) as [x|]; auto. destruct (is_arc_kind (hk x)); auto. rewrite run_lib_fst. destruct (Arc_is_unique (hl x) (ms s)) as [[?| |] ?]; auto.
  - destruct (get_h s h) as [x|]; auto. destruct (_ || _); auto. rewrite run_lib_fst. destruct (get_blk (hl x) (ms s)) as [[?| |] ?]; auto.
  - destruct (get_h s h) as [x|]; auto. destruct (kind_cls (hk x)); auto.
  - destruct (get_h s h) as [x|] eqn:Hx; auto. destruct (begin_info w (hk x)) as [[[nm vk] vm]|]; auto. destruct (_ && _); auto.
    simpl. apply get_h_some in Hx. eapply owners_set_same; eauto.
  - destruct (frames s) as [|f r]; auto. simpl. apply exit_frame_owners.
  - destruct (frames s) as [|f r] eqn:E; auto. simpl fst. simpl tbl. rewrite exit_all_owners. apply exit_frame_owners.
  - destruct (get_h s h) as [x|] eqn:Hx; auto. destruct (get_h s h') as [y|] eqn:Hy; auto.
    destruct (hk x) eqn:Kx; auto. destruct (hm x); auto. destruct (hk y) eqn:Ky; auto. destruct (can_consume (hm y)); auto.
    simpl. apply get_h_some in Hx. apply get_h_some in Hy.
    assert (Hne : h <> h') by (intros ->; rewrite Hx in Hy; inversion Hy; subst; congruence).
    pose proof (owners_upd (tbl s) h (Some x) (Some (mkH KProt (hl y) MMut)) l Hx) as O1.
    assert (Hy' : nth_error (upd (tbl s) h (Some (mkH KProt (hl y) MMut))) h' = Some (Some y)) by (rewrite nth_upd_other; auto).
    pose proof (owners_upd _ h' (Some y) (Some (mkH KThin (hl x) MOwned)) l Hy') as O2. simpl own1 in *. lia.
  - destruct (get_h s h) as [x|]; auto. destruct (hk x); auto.
Qed.

(** a clone-style operation adds exactly one owner of the same value; a release removes exactly one *)
Theorem clone_adds_one d s h x f k' :
  Good s -> running s -> get_h s h = Some x -> clone_impl (hk x) = Some (f, k') ->
  let s' := fst (step d s (OClone h)) in
  dead s' = true \/
  (tbl s' = tbl s ++ [Some (mkH k' (hl x) MOwned)] /\
   forall l, owners (tbl s') l = (owners (tbl s) l + (if Nat.eqb (hl x) l then 1 else 0))%nat).
Proof.
  intros G [Hd Hs] Hx Hc. simpl. unfold step. rewrite Hd, Hs, Hx, Hc.
  destruct (clone_impl_spec _ _ _ Hc) as (Hf & Hu & Hx').
  rewrite run_lib_fst, Hf. apply get_h_some in Hx.
  destruct s as [[hp lg u nt] t fr sk dd]. unfold Good in G. simpl in *.
  destruct (handle_block _ _ _ _ _ G Hx) as (b & Hb & Al & Ok & Cn & Pos & Le).
  rewrite (Arc_clone_eq hp lg u nt (hl x) b Hb Al Le).
  destruct (max_refcount <? b_cnt b); [left; reflexivity|]. right. simpl. split; auto.
  intros l. rewrite owners_app. reflexivity.
Qed.

Theorem drop_removes_one d s h x f :
  Good s -> running s -> get_h s h = Some x -> drop_impl (hk x) = Some f -> hm x = MOwned ->
  let s' := fst (step d s (ODrop h)) in
  tbl s' = upd (tbl s) h None /\
  forall l, (owners (tbl s') l + (if Nat.eqb (hl x) l then 1 else 0) = owners (tbl s) l)%nat.
Proof.
  intros G [Hd Hs] Hx Hdr Hm. simpl. unfold step. rewrite Hd, Hs, Hx, Hdr, Hm. simpl.
  destruct (drop_impl_spec _ _ Hdr) as (vinit & Hf & Hv & Hnf).
  rewrite run_lib_fst, Hf. apply get_h_some in Hx.
  destruct s as [[hp lg u nt] t fr sk dd]. unfold Good in G. simpl in *.
  destruct (drop_good hp lg u nt t h x vinit G Hx Hv Hnf) as (hp' & lg' & E & G' & _).
  rewrite E. simpl. split; auto. intros l.
  pose proof (owners_upd t h (Some x) None l Hx) as O. simpl in O. lia.
Qed.

(** ** C01: reads go to a live block and see its current contents *)
Theorem read_sees_contents d s h x :
  Good s -> running s -> get_h s h = Some x -> is_raw_kind (hk x) || hkind_eqb (hk x) KForgotten = false ->
  exists b, nth_error (heap (ms s)) (hl x) = Some b /\ b_alive b = true /\
            snd (step d s (ORead h)) = S_OK :: read_view (hk x) b ++ [99999999].
Proof.
  intros G [Hd Hs] Hx Hr. unfold step. rewrite Hd, Hs, Hx, Hr. rewrite run_lib_snd. apply get_h_some in Hx.
  destruct s as [[hp lg u nt] t fr sk dd]. unfold Good in G. simpl in *.
  destruct (handle_block _ _ _ _ _ G Hx) as (b & Hb & Al & _). exists b. split; auto. split; auto.
  rewrite (get_blk_eq hp lg u nt (hl x) b Hb Al). simpl. unfold obs_of.
  rewrite (new_events_app _ _ []) by reflexivity. simpl. rewrite ?app_nil_r. reflexivity.
Qed.

(** the last release destroys header and elements (by the handle's static view) and frees the block,
    in that order, in this very operation; any other release only decrements *)
Theorem drop_events d s h x f :
  Good s -> running s -> get_h s h = Some x -> drop_impl (hk x) = Some f -> hm x = MOwned ->
  exists b vinit, nth_error (heap (ms s)) (hl x) = Some b /\
    (vinit = true <-> uninit_view (hk x) = false) /\
    log (ms (fst (step d s (ODrop h)))) =
      (if (owners (tbl s) (hl x) =? 1)%nat
       then EDealloc (hl x) :: rev (dtor_events vinit (b_cells b)) ++ rev (hdr_events (b_hdr b)) ++ [EAtomic SAcq 0; EAtomic SDec 1]
       else [EAtomic SDec (b_cnt b)]) ++ log (ms s).
Proof.
  intros G [Hd Hs] Hx Hdr Hm. unfold step. rewrite Hd, Hs, Hx, Hdr, Hm. simpl.
  rewrite run_lib_fst. apply get_h_some in Hx.
  destruct s as [[hp lg u nt] t fr sk dd]. unfold Good in G. simpl in *.
  destruct (handle_block _ _ _ _ _ G Hx) as (b & Hb & Al & Ok & Cn & Pos & Le).
  assert (H1 : 1 <= b_cnt b) by lia.
  assert (Hnf : hk x <> KForgotten) by (intros E; rewrite E in Hdr; discriminate).
  assert (Hgen : forall vinit, (vinit = true <-> uninit_view (hk x) = false) -> (forall l m, f l m = Arc_drop l vinit m) ->
     exists b0 vinit0, Some b = Some b0 /\ (vinit0 = true <-> uninit_view (hk x) = false) /\
       log (ms (match f (hl x) (mkM hp lg u nt) with
                | (Ret a, m1) => mkSt m1 (upd t h None) fr sk dd
                | (Panicked, m1) => mkSt m1 (upd t h None) fr sk dd
                | (Aborted, m1) => mkSt m1 (upd t h None) fr sk true end)) =
       (if (owners t (hl x) =? 1)%nat
        then EDealloc (hl x) :: rev (dtor_events vinit0 (b_cells b0)) ++ rev (hdr_events (b_hdr b0)) ++ [EAtomic SAcq 0; EAtomic SDec 1]
        else [EAtomic SDec (b_cnt b0)]) ++ lg).
  { intros vinit Hv Hf. exists b, vinit. split; auto. split; auto. rewrite Hf.
    assert (Hin : vinit = true -> all_init (b_cells b) = true).
    { intros V. destruct Ok as (_ & _ & _ & D & _). apply D; auto. apply Hv; auto. }
    rewrite (Arc_drop_eq hp lg u nt (hl x) b vinit Hb Al H1 Le Hin).
    destruct (b_cnt b =? 1) eqn:E.
    - apply N.eqb_eq in E. assert ((owners t (hl x) =? 1)%nat = true) as -> by (apply Nat.eqb_eq; lia).
      simpl. rewrite <- !app_assoc. reflexivity.
    - apply N.eqb_neq in E. assert ((owners t (hl x) =? 1)%nat = false) as -> by (apply Nat.eqb_neq; lia). reflexivity. }
  rewrite Hb.
  destruct (hk x) eqn:Kx; simpl in Hdr; inversion Hdr; subst f;
    (apply (Hgen true); [split; auto|intros; reflexivity]) || (apply (Hgen false); [split; intros; discriminate|intros; reflexivity]).
Qed.

(** ** C03: the uniqueness gates succeed exactly for a sole owner, and declining changes nothing *)
Theorem is_unique_verdict d s h x :
  Good s -> running s -> get_h s h = Some x -> is_arc_kind (hk x) = true ->
  hd 9 (snd (step d s (OIsUnique h))) = S_OK /\
  nth 1 (snd (step d s (OIsUnique h))) 9 = (if (owners (tbl s) (hl x) =? 1)%nat then 1 else 0) /\
  tbl (fst (step d s (OIsUnique h))) = tbl s /\ heap (ms (fst (step d s (OIsUnique h)))) = heap (ms s).
Proof.
  intros G [Hd Hs] Hx Ha. unfold step. rewrite Hd, Hs, Hx, Ha. rewrite run_lib_snd, run_lib_fst. apply get_h_some in Hx.
  destruct s as [[hp lg u nt] t fr sk dd]. unfold Good in G. simpl in *.
  destruct (handle_block _ _ _ _ _ G Hx) as (b & Hb & Al & Ok & Cn & Pos & Le).
  rewrite (Arc_is_unique_eq hp lg u nt (hl x) b Hb Al). simpl. repeat split; auto.
  destruct (b_cnt b =? 1) eqn:E.
  - apply N.eqb_eq in E. assert ((owners t (hl x) =? 1)%nat = true) as -> by (apply Nat.eqb_eq; lia). reflexivity.
  - apply N.eqb_neq in E. assert ((owners t (hl x) =? 1)%nat = false) as -> by (apply Nat.eqb_neq; lia). reflexivity.
Qed.

Theorem try_unique_verdict d s h x :
  Good s -> running s -> get_h s h = Some x -> hk x = KArc -> hm x = MOwned ->
  let r := step d s (OTryUnique h) in
  (owners (tbl s) (hl x) = 1%nat ->
     hd 9 (snd r) = S_OK /\ tbl (fst r) = upd (tbl s) h (Some (mkH KUniq (hl x) MOwned)) /\ heap (ms (fst r)) = heap (ms s)) /\
  (owners (tbl s) (hl x) <> 1%nat ->
     hd 9 (snd r) = S_DECLINED /\ tbl (fst r) = tbl s /\ heap (ms (fst r)) = heap (ms s)).
Proof.
  intros G [Hd Hs] Hx Hk Hm. simpl. unfold step. rewrite Hd, Hs, Hx, Hk, Hm. simpl.
  rewrite run_lib_snd, run_lib_fst. apply get_h_some in Hx.
  destruct s as [[hp lg u nt] t fr sk dd]. unfold Good in G. simpl in *.
  destruct (handle_block _ _ _ _ _ G Hx) as (b & Hb & Al & Ok & Cn & Pos & Le).
  destruct (try_unique_eq hp lg u nt (hl x) b d Hb Al) as (lg1 & E1). rewrite E1.
  pose proof (cnt_unique_iff hp u t h x b G Hx Hb) as CU.
  destruct (b_cnt b =? 1); simpl; split; intros O; try (repeat split; auto; fail).
  - exfalso. apply O. apply CU. reflexivity.
  - apply CU in O. discriminate.
Qed.

Theorem get_mut_verdict d s h x :
  Good s -> running s -> get_h s h = Some x ->
  is_arc_kind (hk x) && can_mut (hm x) && negb (uninit_view (hk x)) = true ->
  let r := step d s (OGetMut h) in
  (owners (tbl s) (hl x) = 1%nat -> hd 9 (snd r) = S_OK /\ tbl (fst r) = tbl s) /\
  (owners (tbl s) (hl x) <> 1%nat -> hd 9 (snd r) = S_DECLINED /\ tbl (fst r) = tbl s /\ heap (ms (fst r)) = heap (ms s)).
Proof.
  intros G [Hd Hs] Hx Hc. simpl. unfold step. rewrite Hd, Hs, Hx, Hc.
  rewrite run_lib_snd, run_lib_fst. apply get_h_some in Hx.
  destruct s as [[hp lg u nt] t fr sk dd]. unfold Good in G. simpl in *.
  destruct (handle_block _ _ _ _ _ G Hx) as (b & Hb & Al & Ok & Cn & Pos & Le).
  rewrite (Arc_is_unique_eq hp lg u nt (hl x) b Hb Al).
  pose proof (cnt_unique_iff hp u t h x b G Hx Hb) as CU.
  destruct (b_cnt b =? 1); simpl; split; intros O.
  - destruct (hkind_eqb (hk x) KDyn); simpl; auto.
    destruct (write_through (hl x) 0 true _) as [r m2]. simpl. auto.
  - exfalso. apply O. apply CU. reflexivity.
  - apply CU in O. discriminate.
  - auto.
Qed.

(** the deprecated writers on shared uninitialised Arcs panic and change nothing *)
Theorem deprecated_write_shared_panics d s h x i :
  Good s -> running s -> get_h s h = Some x -> (hk x = KMA \/ hk x = KMAS) -> can_mut (hm x) = true ->
  owners (tbl s) (hl x) <> 1%nat ->
  let r := step d s (ODeprecatedWrite h i) in
  hd 9 (snd r) = S_PANIC /\ tbl (fst r) = tbl s /\ heap (ms (fst r)) = heap (ms s).
Proof.
  intros G [Hd Hs] Hx Hk Hm O. simpl. unfold step. rewrite Hd, Hs, Hx, Hm. apply get_h_some in Hx.
  destruct s as [[hp lg u nt] t fr sk dd]. unfold Good in G. simpl in *.
  destruct (handle_block _ _ _ _ _ G Hx) as (b & Hb & Al & Ok & Cn & Pos & Le).
  pose proof (cnt_unique_iff hp u t h x b G Hx Hb) as CU.
  assert (E : (b_cnt b =? 1) = false) by (destruct (b_cnt b =? 1); auto; exfalso; apply O; apply CU; reflexivity).
  destruct Hk as [Hk|Hk]; rewrite Hk; rewrite run_lib_snd, run_lib_fst; simpl.
  - match goal with |- context [?c (mkM hp lg u nt)] =>
      assert (Hm1 : exists m1, c (mkM hp lg u nt) = (Panicked, m1) /\ heap m1 = hp) end.
    { unfold bind at 1, fresh at 1. simpl. unfold bind at 1.
      destruct (try_unique_eq hp lg u (nt + 1) (hl x) b d Hb Al) as (lg1 & E1). rewrite E1, E.
      unfold bind. rewrite (Arc_count_eq hp lg1 u (nt + 1) (hl x) b Hb Al). simpl. eexists; split; reflexivity. }
    destruct Hm1 as (m1 & Em & Hh). rewrite Em. simpl. auto.
  - match goal with |- context [?c (mkM hp lg u nt)] =>
      assert (Hm1 : exists m1, c (mkM hp lg u nt) = (Panicked, m1) /\ heap m1 = hp) end.
    { unfold bind at 1.
      destruct (try_unique_eq hp lg u nt (hl x) b d Hb Al) as (lg1 & E1). rewrite E1, E.
      unfold bind. rewrite (Arc_count_eq hp lg1 u nt (hl x) b Hb Al). simpl. eexists; split; reflexivity. }
    destruct Hm1 as (m1 & Em & Hh). rewrite Em. simpl. auto.
Qed.

(** ** C10: every ThinArc (and raw thin pointer, and Protected Arc) records the true slice length *)
Theorem thin_length_recorded s h x :
  reachable s -> dead s = false -> get_h s h = Some x ->
  (hk x = KThin \/ hk x = KRawThin \/ hk x = KProt) ->
  exists b, nth_error (heap (ms s)) (hl x) = Some b /\ b_alive b = true /\ b_cls b = CHL /\
            b_reclen b = N.of_nat (length (b_cells b)).
Proof.
  intros R Hd Hx Hk. pose proof (reachable_inv s R Hd) as G. apply get_h_some in Hx.
  destruct (handle_block _ _ _ _ _ G Hx) as (b & Hb & Al & Ok & _). exists b. split; auto. split; auto.
  destruct Ok as (A & _ & C & _). split.
  - destruct A as [A|A]; [destruct Hk as [K|[K|K]]; congruence|].
    destruct Hk as [K|[K|K]]; rewrite K in A; simpl in A; congruence.
  - apply C. tauto.
Qed.

(** [Arc::into_thin] on a fat Arc whose recorded length is wrong panics, and the Arc is released properly *)
Theorem into_thin_mismatch d s h x b :
  Good s -> running s -> get_h s h = Some x -> hk x = KFat -> hm x = MOwned ->
  nth_error (heap (ms s)) (hl x) = Some b -> b_reclen b <> N.of_nat (length (b_cells b)) ->
  let r := step d s (OConv 7 h) in
  hd 9 (snd r) = S_PANIC /\ tbl (fst r) = upd (tbl s) h None /\ Good (fst r).
Proof.
  intros G [Hd Hs] Hx Hk Hm Hb Hne. simpl. unfold step. rewrite Hd, Hs, Hx, Hm. simpl.
  rewrite Hk. change (conv_target 7 KFat) with (Some KThin). simpl. apply get_h_some in Hx.
  destruct s as [[hp lg u nt] t fr sk dd]. unfold Good in G. simpl in *.
  destruct (handle_block _ _ _ _ _ G Hx) as (b0 & Hb0 & Al & Ok & Cn & Pos & Le).
  assert (b0 = b) by congruence. subst b0.
  unfold Arc_into_thin, bind. rewrite (get_blk_eq hp lg u nt (hl x) b Hb Al).
  apply N.eqb_neq in Hne. rewrite Hne.
  assert (Hv : true = true -> uninit_view (hk x) = false) by (rewrite Hk; reflexivity).
  assert (Hnf : hk x <> KForgotten) by (rewrite Hk; discriminate).
  destruct (drop_good hp lg u nt t h x true G Hx Hv Hnf) as (hp' & lg' & E & G' & _).
  rewrite E. simpl. auto.
Qed.

(** a [with_arc_mut] callback that replaced the Arc (and then returned or panicked): the ThinArc now
    targets the replacement *)
Theorem with_arc_mut_writeback s h l' pm fs :
  get_h s h = Some (mkH KProt l' MMut) ->
  get_h (exit_all s (mkF h KThin pm 1 :: fs)) h = get_h (exit_all (set_h s h (Some (mkH KThin l' pm))) fs) h.
Proof. intros Hx. simpl. unfold exit_frame. simpl. rewrite Hx. reflexivity. Qed.

(** ** C12: a union handle always views a block of its variant's type *)
Theorem union_variant_typed s h x :
  reachable s -> dead s = false -> get_h s h = Some x ->
  (hk x = KUn1 -> exists b, nth_error (heap (ms s)) (hl x) = Some b /\ b_alive b = true /\ b_cls b = CS) /\
  (hk x = KUn2 -> exists b, nth_error (heap (ms s)) (hl x) = Some b /\ b_alive b = true /\ b_cls b = CB).
Proof.
  intros R Hd Hx. pose proof (reachable_inv s R Hd) as G. apply get_h_some in Hx.
  destruct (handle_block _ _ _ _ _ G Hx) as (b & Hb & Al & Ok & _).
  destruct Ok as (A & _). split; intros K; exists b; (split; [auto|split; [auto|]]);
    (destruct A as [A|A]; [congruence|]); rewrite K in A; simpl in A; congruence.
Qed.

Theorem union_accessors d s h x :
  running s -> get_h s h = Some x ->
  (hk x = KUn1 -> snd (step d s (OUnionAcc h)) = [S_OK; 1; 0; 1; 0; 99999999]) /\
  (hk x = KUn2 -> snd (step d s (OUnionAcc h)) = [S_OK; 0; 1; 0; 1; 99999999]).
Proof.
  intros [Hd Hs] Hx. unfold step. rewrite Hd, Hs, Hx.
  split; intros K; rewrite K; unfold obs_of; rewrite (new_events_app _ _ []) by reflexivity; reflexivity.
Qed.

(** ** C15: assume_init changes the type only *)
Theorem assume_init_neutral d s h x k' :
  Good s -> running s -> get_h s h = Some x -> hm x = MOwned -> assume_target (hk x) = Some k' ->
  let r := step d s (OConv 16 h) in
  heap (ms (fst r)) = heap (ms s) /\
  (tbl (fst r) = upd (tbl s) h (Some (mkH k' (hl x) MOwned)) \/ tbl (fst r) = tbl s).
Proof.
  intros G [Hd Hs] Hx Hm Ha. simpl. unfold step. rewrite Hd, Hs, Hx, Hm. simpl. rewrite Ha.
  rewrite run_lib_fst. apply get_h_some in Hx.
  destruct s as [[hp lg u nt] t fr sk dd]. unfold Good in G. simpl in *.
  destruct (handle_block _ _ _ _ _ G Hx) as (b & Hb & Al & _).
  rewrite (get_blk_eq hp lg u nt (hl x) b Hb Al). destruct (all_init (b_cells b)); simpl; auto.
Qed.

(** ** C08 / C09: explicit effects of make_mut and of the unwrapping family *)
Definition dbg_loads (d : bool) (c : N) : list event := if d then [EAtomic SCount c] else [].

Lemma dbg_assert_eq2 hp lg u nt l b dbg :
  nth_error hp l = Some b -> b_alive b = true -> b_cnt b = 1 ->
  dbg_unique_assert dbg l (mkM hp lg u nt) = (Ret tt, mkM hp (dbg_loads dbg 1 ++ lg) u nt).
Proof.
  intros Hb Al E. unfold dbg_unique_assert, dbg_loads. destruct dbg; [|reflexivity].
  unfold bind. rewrite (Arc_count_eq hp _ u nt l b Hb Al). rewrite E. reflexivity.
Qed.

Lemma try_unique_eq2 hp lg u nt l b dbg :
  nth_error hp l = Some b -> b_alive b = true ->
  Arc_try_unique dbg l (mkM hp lg u nt) =
  (Ret (b_cnt b =? 1), mkM hp ((if b_cnt b =? 1 then dbg_loads dbg 1 else []) ++ EAtomic SCount (b_cnt b) :: lg) u nt).
Proof.
  intros Hb Al. unfold Arc_try_unique, bind. rewrite (Arc_is_unique_eq hp lg u nt l b Hb Al).
  destruct (b_cnt b =? 1) eqn:E; [|reflexivity]. apply N.eqb_eq in E.
  rewrite (dbg_assert_eq2 hp _ u nt l b dbg Hb Al E). reflexivity.
Qed.

Lemma make_mut_eq hp lg u nt l b tk pf :
  nth_error hp l = Some b -> b_alive b = true -> b_cells b = [(tk, true)] -> 1 <= b_cnt b -> b_cnt b <= 2 ^ 63 ->
  Arc_make_mut l pf (mkM hp lg u nt) =
  if b_cnt b =? 1 then (Ret l, mkM hp (EAtomic SCount (b_cnt b) :: lg) u nt)
  else if pf then (Panicked, mkM hp (EAtomic SCount (b_cnt b) :: lg) u nt)
  else (Ret (length hp),
        mkM (upd (hp ++ [mkB 1 true CS None 0 [(nt, true)]]) l (set_cnt b (b_cnt b - 1)))
            (EAtomic SDec (b_cnt b) :: EAlloc (length hp) :: EClone tk nt :: EAtomic SCount (b_cnt b) :: lg) u (nt + 1)).
Proof.
  intros Hb Al Hc H1 Le. unfold Arc_make_mut, bind. rewrite (Arc_is_unique_eq hp lg u nt l b Hb Al).
  destruct (b_cnt b =? 1) eqn:E; [reflexivity|].
  unfold call_clone, bind. rewrite (get_blk_eq hp _ u nt l b Hb Al). rewrite Hc.
  destruct pf; [reflexivity|].
  unfold fresh, emit, ret, Arc_new, alloc_block. simpl.
  set (nb := mkB 1 true CS None 0 [(nt, true)]).
  assert (Hb2 : nth_error (hp ++ [nb]) l = Some b) by (rewrite nth_error_app1; auto; apply nth_some_lt in Hb; auto).
  assert (Hin : true = true -> all_init (b_cells b) = true) by (intros _; rewrite Hc; reflexivity).
  rewrite (Arc_drop_eq (hp ++ [nb]) _ u (nt + 1) l b true Hb2 Al H1 Le Hin). rewrite E. reflexivity.
Qed.

Lemma cs_single hp u t i x b :
  GoodC hp u t -> nth_error t i = Some (Some x) -> nth_error hp (hl x) = Some b ->
  kind_cls (hk x) = Some CS -> uninit_view (hk x) = false ->
  exists tk, b_cells b = [(tk, true)].
Proof.
  intros G Hi Hb Hc Hu. destruct (handle_block _ _ _ _ _ G Hi) as (b0 & Hb0 & Al & Ok & _).
  assert (b0 = b) by congruence. subst b0. destruct Ok as (A & _ & _ & D & E).
  assert (Hnf : hk x <> KForgotten) by (intros K; rewrite K in Hc; discriminate).
  apply single_cell; [apply E; left|apply D; auto].
  destruct A as [A|A]; congruence.
Qed.

(** make_mut on a sole owner: same allocation, no clone; on a shared value: a fresh block with count 1
    holding the clone, the old block keeps its contents and loses exactly this owner, nothing else changes;
    a panicking Clone leaves everything as it was *)
Theorem make_mut_cow d s h x pf :
  Good s -> running s -> get_h s h = Some x -> (hk x = KArc \/ hk x = KOff) -> can_mut (hm x) = true ->
  exists b tk, nth_error (heap (ms s)) (hl x) = Some b /\ b_cells b = [(tk, true)] /\
  let r := step d s (OMakeMut h pf) in
  let hp := heap (ms s) in let hp' := heap (ms (fst r)) in
  (owners (tbl s) (hl x) = 1%nat ->
     tbl (fst r) = upd (tbl s) h (Some (mkH (hk x) (hl x) (hm x))) /\ length hp' = length hp /\
     (forall l, l <> hl x -> nth_error hp' l = nth_error hp l) /\
     log (ms (fst r)) = [EDtor tk; EAtomic SCount 1] ++ log (ms s)) /\
  (owners (tbl s) (hl x) <> 1%nat -> pf = false ->
     tbl (fst r) = upd (tbl s) h (Some (mkH (hk x) (length hp) (hm x))) /\ length hp' = S (length hp) /\
     (forall l, l <> hl x -> (l < length hp)%nat -> nth_error hp' l = nth_error hp l) /\
     nth_error hp' (hl x) = Some (set_cnt b (b_cnt b - 1)) /\
     (exists t', nth_error hp' (length hp) = Some (mkB 1 true CS None 0 [(t', true)])) /\
     exists t1, log (ms (fst r)) = [EDtor t1; EAtomic SDec (b_cnt b); EAlloc (length hp); EClone tk t1; EAtomic SCount (b_cnt b)] ++ log (ms s)) /\
  (owners (tbl s) (hl x) <> 1%nat -> pf = true ->
     hd 9 (snd r) = S_PANIC /\ tbl (fst r) = tbl s /\ hp' = hp).
Proof.
  intros G [Hd Hs] Hx Hk Hm. apply get_h_some in Hx.
  assert (Hstep : step d s (OMakeMut h pf) =
     run_lib s (l' <- Arc_make_mut (hl x) pf ;; write_through l' 0 true ;;; ret l')
               (fun l' s' => (set_h s' h (Some (mkH (hk x) l' (hm x))), S_OK, [N.of_nat l']))).
  { unfold step. rewrite Hd, Hs. unfold get_h. rewrite Hx. destruct Hk as [K|K]; rewrite K, Hm; reflexivity. }
  destruct s as [[hp lg u nt] t fr sk dd]. unfold Good in G. simpl in *.
  destruct (handle_block _ _ _ _ _ G Hx) as (b & Hb & Al & Ok & Cn & Pos & Le).
  destruct (cs_single hp u t h x b G Hx Hb) as (tk & Hc); [destruct Hk as [K|K]; rewrite K; reflexivity..|].
  exists b, tk. split; auto. split; auto.
  rewrite Hstep. rewrite run_lib_fst, run_lib_snd. simpl ms.
  assert (H1 : 1 <= b_cnt b) by lia.
  pose proof (cnt_unique_iff hp u t h x b G Hx Hb) as CU.
  pose proof (nth_some_lt _ _ _ Hb) as Hlt.
  set (nb := mkB 1 true CS None 0 [(nt, true)]).
  set (hp1 := upd (hp ++ [nb]) (hl x) (set_cnt b (b_cnt b - 1))).
  assert (Ecomp : (l' <- Arc_make_mut (hl x) pf ;; write_through l' 0 true ;;; ret l') (mkM hp lg u nt) =
     if b_cnt b =? 1
     then (Ret (hl x), mkM (upd hp (hl x) (set_cells b [(nt, true)])) (EDtor tk :: EAtomic SCount (b_cnt b) :: lg) u (nt + 1))
     else if pf then (Panicked, mkM hp (EAtomic SCount (b_cnt b) :: lg) u nt)
     else (Ret (length hp), mkM (upd hp1 (length hp) (set_cells nb [(nt + 1, true)]))
                                (EDtor nt :: EAtomic SDec (b_cnt b) :: EAlloc (length hp) :: EClone tk nt :: EAtomic SCount (b_cnt b) :: lg) u (nt + 1 + 1))).
  { unfold bind at 1. rewrite (make_mut_eq hp lg u nt (hl x) b tk pf Hb Al Hc H1 Le).
    destruct (b_cnt b =? 1) eqn:E.
    - unfold bind, write_through, has_cell, bind. rewrite (get_blk_eq hp _ u nt (hl x) b Hb Al). unfold ret at 1. rewrite Hc. simpl.
      unfold write_tok, bind. unfold fresh. simpl. rewrite (get_blk_eq hp _ u (nt + 1) (hl x) b Hb Al). rewrite Hc. reflexivity.
    - destruct pf; [reflexivity|].
      assert (Hnb : nth_error hp1 (length hp) = Some nb).
      { unfold hp1. rewrite nth_upd_other by lia. rewrite nth_error_app2 by lia. rewrite Nat.sub_diag. reflexivity. }
      fold nb. fold hp1.
      unfold bind, write_through, has_cell, bind. rewrite (get_blk_eq hp1 _ u (nt + 1) (length hp) nb Hnb eq_refl). unfold ret at 1. simpl.
      unfold write_tok, bind. unfold fresh. simpl. rewrite (get_blk_eq hp1 _ u (nt + 1 + 1) (length hp) nb Hnb eq_refl). reflexivity. }
  rewrite Ecomp.
  destruct (b_cnt b =? 1) eqn:E.
  - apply N.eqb_eq in E. simpl. split; [|split]; intros O; try (intros; exfalso; apply O; apply CU; reflexivity).
    split; auto. split; [apply upd_length|]. split; [intros l Hl; apply nth_upd_other; auto|]. rewrite E. reflexivity.
  - destruct pf.
    + simpl. split; [|split]; intros O; try (apply CU in O; discriminate); intros; try discriminate. auto.
    + simpl. split; [|split]; intros O; try (apply CU in O; discriminate); intros; try discriminate.
      split; auto. split; [unfold hp1; rewrite !upd_length, app_length; simpl; lia|].
      split; [intros l Hl Hl2; rewrite nth_upd_other by lia; unfold hp1; rewrite nth_upd_other by auto; apply nth_error_app1; auto|].
      split; [rewrite nth_upd_other by lia; unfold hp1; apply nth_upd_same; rewrite app_length; simpl; lia|].
      split; [eexists; apply nth_upd_same; unfold hp1; rewrite upd_length, app_length; simpl; lia|].
      exists nt. reflexivity.
Qed.

(** try_unwrap: a sole owner gets the value out undestroyed and the block is released; otherwise the same
    handle comes back and nothing changes *)
Theorem try_unwrap_conserves d s h x :
  Good s -> running s -> get_h s h = Some x -> hk x = KArc -> hm x = MOwned ->
  exists b tk, nth_error (heap (ms s)) (hl x) = Some b /\ b_cells b = [(tk, true)] /\
  let r := step d s (OTryUnwrap h) in
  (owners (tbl s) (hl x) = 1%nat ->
     snd r = obs_of S_OK [tk] (ms s) (ms (fst r)) /\ tbl (fst r) = upd (tbl s) h None /\
     heap (ms (fst r)) = upd (heap (ms s)) (hl x) (set_dead b) /\
     (* the value's destructor has not run when it is handed out: its EDtor (the client dropping it) comes after the release *)
     log (ms (fst r)) = EDtor tk :: EDealloc (hl x) :: dbg_loads d 1 ++ dbg_loads d 1 ++ EAtomic SCount 1 :: log (ms s)) /\
  (owners (tbl s) (hl x) <> 1%nat ->
     hd 9 (snd r) = S_DECLINED /\ tbl (fst r) = tbl s /\ heap (ms (fst r)) = heap (ms s)).
Proof.
  intros G [Hd Hs] Hx Hk Hm. apply get_h_some in Hx.
  assert (Hstep : step d s (OTryUnwrap h) =
     run_lib s (r <- Arc_try_unwrap d (hl x) ;; match r with Some v => drop_cells true v ;;; ret (Some v) | None => ret None end)
       (fun r s' => match r with Some v => (set_h s' h None, S_OK, map fst v) | None => declined s' end)).
  { unfold step. rewrite Hd, Hs. unfold get_h. rewrite Hx, Hk, Hm. reflexivity. }
  destruct s as [[hp lg u nt] t fr sk dd]. unfold Good in G. simpl in *.
  destruct (handle_block _ _ _ _ _ G Hx) as (b & Hb & Al & Ok & Cn & Pos & Le).
  destruct (cs_single hp u t h x b G Hx Hb) as (tk & Hc); [rewrite Hk; reflexivity..|].
  exists b, tk. split; auto. split; auto.
  rewrite Hstep. rewrite run_lib_fst, run_lib_snd. simpl ms.
  pose proof (cnt_unique_iff hp u t h x b G Hx Hb) as CU.
  assert (Ecomp : (r <- Arc_try_unwrap d (hl x) ;; match r with Some v => drop_cells true v ;;; ret (Some v) | None => ret None end) (mkM hp lg u nt) =
     if b_cnt b =? 1
     then (Ret (Some [(tk, true)]), mkM (upd hp (hl x) (set_dead b)) (EDtor tk :: EDealloc (hl x) :: dbg_loads d 1 ++ dbg_loads d 1 ++ EAtomic SCount 1 :: lg) u nt)
     else (Ret None, mkM hp (EAtomic SCount (b_cnt b) :: lg) u nt)).
  { unfold bind at 1. unfold Arc_try_unwrap, bind at 1. rewrite (try_unique_eq2 hp lg u nt (hl x) b d Hb Al).
    destruct (b_cnt b =? 1) eqn:E; [|reflexivity]. apply N.eqb_eq in E.
    unfold UniqueArc_into_inner, bind. rewrite (dbg_assert_eq2 hp _ u nt (hl x) b d Hb Al E).
    rewrite (box_take_eq hp _ u nt (hl x) b Hb Al). rewrite Hc. unfold ret at 1. simpl. rewrite ?E. rewrite <- ?app_assoc. reflexivity. }
  rewrite Ecomp. destruct (b_cnt b =? 1) eqn:E; simpl; split; intros O; try (exfalso; apply O; apply CU; reflexivity); try (apply CU in O; discriminate); auto.
Qed.

(** UniqueArc::into_inner: the value comes out undestroyed, the block is released *)
Theorem into_inner_conserves d s h x :
  Good s -> running s -> get_h s h = Some x -> hk x = KUniq -> hm x = MOwned ->
  exists b tk, nth_error (heap (ms s)) (hl x) = Some b /\ b_cells b = [(tk, true)] /\
  let r := step d s (OIntoInner h) in
  snd r = obs_of S_OK [tk] (ms s) (ms (fst r)) /\ tbl (fst r) = upd (tbl s) h None /\
  heap (ms (fst r)) = upd (heap (ms s)) (hl x) (set_dead b) /\
  log (ms (fst r)) = EDtor tk :: EDealloc (hl x) :: dbg_loads d 1 ++ log (ms s).
Proof.
  intros G [Hd Hs] Hx Hk Hm. apply get_h_some in Hx.
  assert (Hstep : step d s (OIntoInner h) =
     run_lib (set_h s h None) (v <- UniqueArc_into_inner d (hl x) ;; drop_cells true v ;;; ret v) (fun v s' => (s', S_OK, map fst v))).
  { unfold step. rewrite Hd, Hs. unfold get_h. rewrite Hx, Hk, Hm. reflexivity. }
  destruct s as [[hp lg u nt] t fr sk dd]. unfold Good in G. simpl in *.
  destruct (handle_block _ _ _ _ _ G Hx) as (b & Hb & Al & Ok & Cn & Pos & Le).
  destruct (cs_single hp u t h x b G Hx Hb) as (tk & Hc); [rewrite Hk; reflexivity..|].
  assert (E : b_cnt b = 1) by (destruct Ok as (_ & U & _); apply U; rewrite Hk; reflexivity).
  exists b, tk. split; auto. split; auto.
  rewrite Hstep. rewrite run_lib_fst, run_lib_snd. simpl ms.
  assert (Ecomp : (v <- UniqueArc_into_inner d (hl x) ;; drop_cells true v ;;; ret v) (mkM hp lg u nt) =
     (Ret [(tk, true)], mkM (upd hp (hl x) (set_dead b)) (EDtor tk :: EDealloc (hl x) :: dbg_loads d 1 ++ lg) u nt)).
  { unfold bind at 1. unfold UniqueArc_into_inner, bind. rewrite (dbg_assert_eq2 hp _ u nt (hl x) b d Hb Al E).
    rewrite (box_take_eq hp _ u nt (hl x) b Hb Al). rewrite Hc. reflexivity. }
  rewrite Ecomp. simpl. auto.
Qed.

(** try_unique keeps the machine running *)
Lemma try_unique_keeps_running d s h x : Good s -> running s -> get_h s h = Some x -> hk x = KArc -> hm x = MOwned ->
  dead (fst (step d s (OTryUnique h))) = false /\ skip (fst (step d s (OTryUnique h))) = 0%nat.
Proof.
  intros G [Hd Hs] Hx Hk Hm. unfold step. rewrite Hd, Hs, Hx, Hk, Hm. simpl.
  rewrite run_lib_fst. apply get_h_some in Hx.
  destruct s as [[hp lg u nt] t fr sk dd]. unfold Good in G. simpl in *.
  destruct (handle_block _ _ _ _ _ G Hx) as (b & Hb & Al & Ok & Cn & Pos & Le).
  destruct (try_unique_eq hp lg u nt (hl x) b d Hb Al) as (lg1 & E1). rewrite E1.
  destruct (b_cnt b =? 1); simpl; auto.
Qed.


(** the two-step path (try_unique, then UniqueArc::into_inner on the handle it returned) and try_unwrap agree for a
    sole owner: same handle table, same heap, same verdict, the same value handed out *)
Theorem try_unique_then_into_inner_is_try_unwrap d s h x :
  Inv s -> running s -> get_h s h = Some x -> hk x = KArc -> hm x = MOwned ->
  owners (tbl s) (hl x) = 1%nat ->
  let s1 := fst (step d s (OTryUnique h)) in
  let r2 := step d s1 (OIntoInner h) in let r := step d s (OTryUnwrap h) in
  tbl (fst r2) = tbl (fst r) /\ heap (ms (fst r2)) = heap (ms (fst r)) /\ hd 9 (snd r2) = hd 9 (snd r) /\ nth 1 (snd r2) 9 = nth 1 (snd r) 9.
Proof.
  intros I [Hd Hs] Hx Hk Hm O s1 r2 r.
  pose proof (step_inv d s (OTryUnique h) I) as I1. fold s1 in I1.
  destruct (try_unique_keeps_running d s h x (I Hd) (conj Hd Hs) Hx Hk Hm) as [Hd1 Hs1]. fold s1 in Hd1, Hs1.
  destruct (try_unique_verdict d s h x (I Hd) (conj Hd Hs) Hx Hk Hm) as [U _]. specialize (U O). destruct U as (_ & Ht & Hh). fold s1 in Ht, Hh.
  destruct (try_unwrap_conserves d s h x (I Hd) (conj Hd Hs) Hx Hk Hm) as (b & tk & Hb & Hc & W). destruct W as [W _]. specialize (W O). destruct W as (Wo & Wt & Wh & _). fold r in Wo, Wt, Wh.
  set (x1 := mkH KUniq (hl x) MOwned) in *.
  assert (Hx1 : get_h s1 h = Some x1).
  { unfold get_h. rewrite Ht. unfold get_h in Hx. destruct (nth_error (tbl s) h) eqn:E; [|discriminate].
    rewrite nth_upd_same; [reflexivity|]. apply nth_error_Some. congruence. }
  destruct (into_inner_conserves d s1 h x1 (I1 Hd1) (conj Hd1 Hs1) Hx1 eq_refl eq_refl) as (b' & tk' & Hb' & Hc' & Vo & Vt & Vh & _).
  fold r2 in Vo, Vt, Vh. simpl hl in *. rewrite Hh in Hb'. rewrite Hb in Hb'. injection Hb' as <-. rewrite Hc in Hc'. injection Hc' as <-.
  rewrite Vt, Wt, Ht, upd_upd. rewrite Vh, Wh, Hh. rewrite Vo, Wo. repeat split; reflexivity.
Qed.


(** unwrap_or_clone: a sole owner gets the value itself; otherwise exactly one Clone call, this owner is released
    (the old value stays with the others, untouched), and the clone is returned; a panicking Clone still
    releases this owner *)
Theorem unwrap_or_clone_conserves d s h x pf :
  Good s -> running s -> get_h s h = Some x -> hk x = KArc -> hm x = MOwned ->
  exists b tk, nth_error (heap (ms s)) (hl x) = Some b /\ b_cells b = [(tk, true)] /\
  let r := step d s (OUnwrapOrClone h pf) in
  tbl (fst r) = upd (tbl s) h None /\
  (owners (tbl s) (hl x) = 1%nat ->
     hd 9 (snd r) = S_OK /\ nth 1 (snd r) 9 = tk /\ heap (ms (fst r)) = upd (heap (ms s)) (hl x) (set_dead b) /\
     log (ms (fst r)) = EDtor tk :: EDealloc (hl x) :: dbg_loads d 1 ++ dbg_loads d 1 ++ EAtomic SCount 1 :: log (ms s)) /\
  (owners (tbl s) (hl x) <> 1%nat -> pf = false ->
     hd 9 (snd r) = S_OK /\ nth 1 (snd r) 9 = ntok (ms s) /\
     heap (ms (fst r)) = upd (heap (ms s)) (hl x) (set_cnt b (b_cnt b - 1)) /\
     log (ms (fst r)) = EDtor (ntok (ms s)) :: EAtomic SDec (b_cnt b) :: EClone tk (ntok (ms s)) :: EAtomic SCount (b_cnt b) :: log (ms s)) /\
  (owners (tbl s) (hl x) <> 1%nat -> pf = true ->
     hd 9 (snd r) = S_PANIC /\ heap (ms (fst r)) = upd (heap (ms s)) (hl x) (set_cnt b (b_cnt b - 1))).
Proof.
  intros G [Hd Hs] Hx Hk Hm. apply get_h_some in Hx.
  destruct s as [[hp lg u nt] t fr sk dd]. unfold Good in G. simpl in *.
  destruct (handle_block _ _ _ _ _ G Hx) as (b & Hb & Al & Ok & Cn & Pos & Le).
  destruct (cs_single hp u t h x b G Hx Hb) as (tk & Hc); [rewrite Hk; reflexivity..|].
  exists b, tk. split; auto. split; auto.
  pose proof (cnt_unique_iff hp u t h x b G Hx Hb) as CU.
  assert (H1 : 1 <= b_cnt b) by lia.
  assert (Hin : true = true -> all_init (b_cells b) = true) by (intros _; rewrite Hc; reflexivity).
  assert (Ecomp : (tt' <- Arc_unwrap_or_clone d (hl x) pf ;; emit (EDtor tt') ;;; ret tt') (mkM hp lg u nt) =
     if b_cnt b =? 1
     then (Ret tk, mkM (upd hp (hl x) (set_dead b)) (EDtor tk :: EDealloc (hl x) :: dbg_loads d 1 ++ dbg_loads d 1 ++ EAtomic SCount 1 :: lg) u nt)
     else if pf then (Panicked, mkM (upd hp (hl x) (set_cnt b (b_cnt b - 1))) (EAtomic SDec (b_cnt b) :: EAtomic SCount (b_cnt b) :: lg) u nt)
     else (Ret nt, mkM (upd hp (hl x) (set_cnt b (b_cnt b - 1))) (EDtor nt :: EAtomic SDec (b_cnt b) :: EClone tk nt :: EAtomic SCount (b_cnt b) :: lg) u (nt + 1))).
  { unfold bind at 1. unfold Arc_unwrap_or_clone. unfold bind at 1. unfold Arc_try_unwrap, bind at 1.
    rewrite (try_unique_eq2 hp lg u nt (hl x) b d Hb Al).
    destruct (b_cnt b =? 1) eqn:E.
    - apply N.eqb_eq in E. unfold UniqueArc_into_inner, bind. rewrite (dbg_assert_eq2 hp _ u nt (hl x) b d Hb Al E).
      rewrite (box_take_eq hp _ u nt (hl x) b Hb Al). rewrite Hc. unfold ret at 1. unfold ret at 1. unfold emit, ret. simpl.
      rewrite E. rewrite <- ?app_assoc. reflexivity.
    - unfold ret at 1. simpl app.
      unfold call_clone, bind at 1. rewrite (get_blk_eq hp _ u nt (hl x) b Hb Al). rewrite Hc.
      destruct pf.
      + unfold panic at 1. unfold bind at 1.
        rewrite (Arc_drop_eq hp _ u nt (hl x) b true Hb Al H1 Le Hin). rewrite E. reflexivity.
      + unfold bind at 1, fresh at 1. simpl. unfold bind at 1, emit at 1. simpl. unfold ret at 1. unfold bind at 1.
        rewrite (Arc_drop_eq hp _ u (nt + 1) (hl x) b true Hb Al H1 Le Hin). rewrite E. reflexivity. }
  simpl. unfold step. rewrite Hd, Hs. unfold get_h. simpl. rewrite Hx, Hk, Hm. simpl. rewrite Ecomp.
  destruct (b_cnt b =? 1) eqn:E.
  - simpl. split; auto. split; [|split]; intros O; try (intros; exfalso; apply O; apply CU; reflexivity).
    apply N.eqb_eq in E. auto.
  - destruct pf; simpl; (split; [auto|]); (split; [|split]); intros O; try (apply CU in O; discriminate); intros; try discriminate; auto.
Qed.
