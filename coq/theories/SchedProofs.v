(** * SchedProofs.v — the schedule stream only runs schedules the theorems cover.

    Whatever raw label stream the generator produces, the labels [SchedCases.run_labels] accepts form an execution of
    the ConcX machine; for the counter programs of the unmodified source that execution is safe ([ConcXProofs.xsafe]):
    the final state of every case of the stream has no race, no access after the release of the block, no double
    destruction or release, and nothing is lost when no handle is left.  The stream compares the crate with the
    machine on sampled schedules; this theorem is about all of them. *)
From Coq Require Import List Bool Arith NArith.
From TV Require Import Conc ConcX ConcXProofs SchedCases.
Import ListNotations.

Theorem sched_stream_is_covered fuel cow ls : bad (fst (fst (run_labels good_progs fuel cow xinit ls))) = false.
Proof. apply (xsafe (accepted good_progs fuel cow xinit ls)). apply run_labels_is_xexec. Qed.

(** make_mut on a shared value: the value is cloned, the handle given up (the other thread's handle is the last one) *)
Example sched_stream_runs_make_mut :
  run_sched [[199; 2; 0]; [200; 1;1;1; 4;1;0; 3;2;0; 6;0;0]; [201; 3;2;1; 4;1;0; 7;0;0]; [202; 8;0;0; 9;0;0];
             [0;0;0]; [5;0;1]; [10;0;0]; [9;0;1000]; [9;0;0]; [9;0;0]; [9;0;0]; [9;0;1000]; [9;0;0]; [2;0;0]]%N
  = [[0;0;0; 2;0; 2;0;1]; [5;0;1; 0;0; 0;0;0]; [10;0;0; 0;0; 0;0;0]; [9;0;1; 2;0; 1;2;2]; [9;0;0; 1;0; 0;0;0]; [9;0;0; 4;0; 0;0;0];
     [9;0;0; 1;0; 0;0;0]; [9;0;1; 2;0; 3;1;2]; [9;0;0; 1;1; 0;0;0];
     [900; 0;0;0;0; 0;0; 1;0]; [901; 0;0;0;0]]%N.
Proof. vm_compute. reflexivity. Qed.

(** a schedule of the stream that does something: two threads, a read on one, a non-final and the final drop *)
Example sched_stream_runs :
  run_sched [[199; 2; 0]; [200; 1;1;1; 4;1;0; 3;2;0; 6;0;0]; [201; 3;2;1; 4;1;0; 7;0;0]; [202; 8;0;0; 9;0;0];
             [0;0;0]; [5;0;1]; [1;1;0]; [6;1;0]; [9;1;1000]; [9;1;0]; [6;0;0]; [9;0;1000]; [9;0;0]; [9;0;1000]; [9;0;0]]%N
  = [[0;0;0; 2;0; 2;0;1]; [5;0;1; 0;0; 0;0;0]; [1;1;0; 0;0; 0;0;0]; [6;1;0; 0;0; 0;0;0]; [9;1;1; 2;0; 3;1;2]; [9;1;0; 1;1; 0;0;0];
     [6;0;0; 0;0; 0;0;0]; [9;0;2; 2;0; 3;1;1]; [9;0;0; 1;0; 0;0;0]; [9;0;3; 2;0; 1;2;0]; [9;0;0; 3;1; 0;0;0];
     [900; 1;1;0;0; 0;0; 0;0]; [901; 0;0;0;0]]%N.
Proof. vm_compute. reflexivity. Qed.

(** get_mut: a sole owner is granted a [&mut T] (written through; the move-out label that follows is refused: a
    reference cannot be turned into the value), lets go, clones, and is then refused *)
Example sched_stream_runs_get_mut :
  run_sched [[199; 1; 0]; [200; 1;1;1; 4;1;0; 3;2;0; 6;0;0]; [201; 3;2;1; 4;1;0; 7;0;0]; [202; 8;0;0; 9;0;0];
             [11;0;0]; [9;0;1000]; [9;0;0]; [9;0;0]; [2;0;0]; [4;0;0]; [3;0;0]; [0;0;0]; [11;0;0]; [9;0;1000]; [9;0;0]; [2;0;0]]%N
  = [[11;0;0; 0;0; 0;0;0]; [9;0;0; 2;0; 1;2;1]; [9;0;0; 1;0; 0;0;0]; [9;0;0; 1;1; 0;0;0]; [2;0;0; 0;0; 0;0;0]; [3;0;0; 0;0; 0;0;0];
     [0;0;0; 2;0; 2;0;1]; [11;0;0; 0;0; 0;0;0]; [9;0;1; 2;0; 1;2;2]; [9;0;0; 1;1; 0;0;0];
     [900; 0;0;0;0; 2;0]; [901; 0;0;0;0]]%N.
Proof. vm_compute. reflexivity. Qed.

(** try_unwrap: refused while the value is shared (the handle comes back: the read after it is accepted), granted once
    the other owner is gone; between the grant and the move-out the thread is inside the call (its read, write and
    ungrant labels are refused), the move-out destroys nothing twice and releases the block *)
Example sched_stream_runs_try_unwrap :
  run_sched [[199; 2; 0]; [200; 1;1;1; 4;1;0; 3;2;0; 6;0;0]; [201; 3;2;1; 4;1;0; 7;0;0]; [202; 8;0;0; 9;0;0];
             [0;0;0]; [5;0;1]; [12;0;0]; [9;0;1000]; [9;0;0]; [1;0;0]; [6;1;0]; [9;1;1000]; [9;1;0]; [12;0;0]; [9;0;1000]; [9;0;0]; [9;0;0];
             [1;0;0]; [2;0;0]; [3;0;0]; [4;0;0]; [1;0;0]]%N
  = [[0;0;0; 2;0; 2;0;1]; [5;0;1; 0;0; 0;0;0]; [12;0;0; 0;0; 0;0;0]; [9;0;1; 2;0; 1;2;2]; [9;0;0; 1;1; 0;0;0]; [1;0;0; 0;0; 0;0;0];
     [6;1;0; 0;0; 0;0;0]; [9;1;1; 2;0; 3;1;2]; [9;1;0; 1;1; 0;0;0]; [12;0;0; 0;0; 0;0;0]; [9;0;2; 2;0; 1;2;1]; [9;0;0; 1;0; 0;0;0];
     [9;0;0; 1;0; 0;0;0]; [4;0;0; 0;0; 0;0;0];
     [900; 1;1;0;0; 0;0; 0;0]; [901; 0;0;0;0]]%N.
Proof. vm_compute. reflexivity. Qed.
