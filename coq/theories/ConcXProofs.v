(** * ConcXProofs.v — the program-level machine, run on the programs of the unmodified source, refines [Conc.v].

    [absT] maps a ConcX thread (owned handles, program counter, register) to a Conc thread (owned handles, mode): a
    program that has been started but has not yet touched the counter still owns its handle in Conc's eyes; after the
    decrement of the drop program the register decides between [Idle] and [LastNeedAcq]; after the load of the
    uniqueness program between [Idle] and [Granted]; and so on.  Every ConcX step is matched by zero, one or two Conc
    steps ([xstep_sim]); hence every schedule of the translated programs is a schedule of Conc, and [conc_safe] /
    [conc_live] carry over: no data race, no access after free, no double destroy or free, no lost value, for every
    number of threads and every interleaving at instruction granularity ([xsafe]). *)
From Coq Require Import List Bool Arith Lia.
From TV Require Import Conc ConcProofs ConcX.
Import ListNotations.

Definition okc : cfg := mkCfg true true true.

Definition absT (x : xthread) : thread :=
  let v := x_view x in
  match x_pc x with
  | [] => mkT (x_owned x) v (match x_mode x with XGranted => Granted | XIdle => Idle end)
  | [IDec ORel true; IRetIfNe 1; ILoad OAcq false; IDestroyFree] => mkT (S (x_owned x)) v Idle
  | [IRetIfNe 1; ILoad OAcq false; IDestroyFree] => mkT (x_owned x) v (if Nat.eqb (x_reg x) 1 then LastNeedAcq else Idle)
  | [ILoad OAcq false; IDestroyFree] => mkT (x_owned x) v LastNeedAcq
  | [IDestroyFree] => mkT (x_owned x) v LastAcq
  | [ILoad OAcq true; IRetIfNe 1; IGrant] => mkT (S (x_owned x)) v Idle
  | [IRetIfNe 1; IGrant] => mkT (S (x_owned x)) v (if Nat.eqb (x_reg x) 1 then Granted else Idle)
  | [IGrant] => mkT (S (x_owned x)) v Granted
  | [ICloneVal; IDropHandle] => mkT (S (x_owned x)) v Idle
  | [IDropHandle] => mkT (S (x_owned x)) v Idle
  | _ => tdefault
  end.

Definition abs (s : xstate) : cstate :=
  mkC (xmsgs s) (xaccs s) (map absT (xthr s)) (xdestroyed s) (xfreed s) (xraced s).

Definition drop_shapes : list (list instr) :=
  [ [IDec ORel true; IRetIfNe 1; ILoad OAcq false; IDestroyFree]; [IRetIfNe 1; ILoad OAcq false; IDestroyFree];
    [ILoad OAcq false; IDestroyFree]; [IDestroyFree]; [ICloneVal; IDropHandle]; [IDropHandle] ].
Definition uniq_shapes : list (list instr) :=
  [ [ILoad OAcq true; IRetIfNe 1; IGrant]; [IRetIfNe 1; IGrant]; [IGrant] ].

(** well-formed thread: the program counter is a suffix that the good programs can reach *)
Definition wfT (x : xthread) : Prop :=
  (x_pc x = [] \/ (In (x_pc x) drop_shapes /\ x_ret x = RGone /\ x_mode x = XIdle) \/ (In (x_pc x) uniq_shapes /\ x_mode x = XIdle)) /\
  (x_pc x = [ILoad OAcq false; IDestroyFree] -> x_reg x = 1) /\
  (x_pc x = [IGrant] -> x_reg x = 1).
Definition WF (s : xstate) : Prop := forall t, wfT (xget s t).

Lemma absT_default : absT xdefault = tdefault.
Proof. reflexivity. Qed.
Lemma getT_abs s t : getT (abs s) t = absT (xget s t).
Proof. unfold getT, abs, xget. simpl. rewrite <- absT_default. apply map_nth. Qed.
Lemma map_set_nth_nil : forall i y, map absT (set_nth xdefault [] i y) = set_nth tdefault [] i (absT y).
Proof. induction i as [|i IH]; intros y; simpl; auto. rewrite IH. reflexivity. Qed.
Lemma map_set_nth (l : list xthread) : forall i y, map absT (set_nth xdefault l i y) = set_nth tdefault (map absT l) i (absT y).
Proof.
  induction l as [|a l IH]; intros i y.
  - apply map_set_nth_nil.
  - destruct i as [|i]; simpl; auto. rewrite IH. reflexivity.
Qed.
Lemma abs_set s t y : map absT (xset s t y) = setT (abs s) t (absT y).
Proof. unfold xset, setT, abs. simpl. apply map_set_nth. Qed.

Lemma set_nth_same {A} (d : A) : forall l i y, nth i (set_nth d l i y) d = y.
Proof.
  induction l as [|a l IH]; intros i y.
  - induction i as [|i IH]; simpl; auto.
  - destruct i as [|i]; simpl; auto.
Qed.
Lemma xget_set_same s t y : nth t (xset s t y) xdefault = y.
Proof. unfold xset. apply set_nth_same. Qed.
Lemma set_nth_nil_other {A} (d : A) : forall i j y, i <> j -> nth j (set_nth d [] i y) d = d.
Proof.
  induction i as [|i IH]; intros j y H; destruct j as [|j]; simpl; try congruence.
  - destruct j; reflexivity.
  - apply IH. congruence.
Qed.
Lemma set_nth_other {A} (d : A) : forall l i j y, i <> j -> nth j (set_nth d l i y) d = nth j l d.
Proof.
  induction l as [|a l IH]; intros i j y H.
  - rewrite set_nth_nil_other by auto. destruct j; reflexivity.
  - destruct i as [|i], j as [|j]; simpl; auto; try congruence.
Qed.
Lemma xget_set_other s t u y : t <> u -> nth u (xset s t y) xdefault = xget s u.
Proof. intros H. unfold xset, xget. apply set_nth_other. exact H. Qed.

(** updating one thread by a well-formed thread keeps the state well-formed *)
Lemma WF_set s s1 t y : WF s -> wfT y -> xthr s1 = xset s t y -> WF s1.
Proof.
  intros W Wy E u. unfold xget. rewrite E. destruct (Nat.eq_dec t u) as [->|Ne].
  - rewrite xget_set_same. exact Wy.
  - rewrite xget_set_other by auto. apply W.
Qed.

Lemma wf_idle v n r : wfT (mkXT n v [] r XIdle RGone).
Proof. unfold wfT. simpl. repeat split; auto; discriminate. Qed.

(** ** the simulation, label by label *)
Lemma idle_inv x : idle x = true -> x_pc x = [] /\ x_mode x = XIdle.
Proof. unfold idle. destruct (x_pc x); [destruct (x_mode x)|]; intros H; try discriminate; auto. Qed.
Lemma absT_idle x : x_pc x = [] -> x_mode x = XIdle -> absT x = mkT (x_owned x) (x_view x) Idle.
Proof. intros P M. unfold absT. rewrite P, M. reflexivity. Qed.

Ltac thr := unfold xset, setT; cbn; rewrite map_set_nth; reflexivity.
Ltac fin := unfold abs, races, last_msg, xlast; cbn; f_equal; f_equal; try reflexivity; try thr.

Lemma sim_clone s t s' : WF s -> xstep good_progs s (XClone t) = Some s' ->
  cexec okc (abs s) [LClone t] = Some (abs s') /\ WF s'.
Proof.
  intros W H. simpl in H. destruct ((0 <? x_owned (xget s t)) && idle (xget s t)) eqn:C; [|discriminate].
  apply andb_true_iff in C. destruct C as [C1 C2]. destruct (idle_inv _ C2) as [P M].
  unfold rmw, xaccess in H. simpl in H. inversion H; subst s'; clear H. split.
  - unfold cexec, cstep. rewrite !getT_abs, (absT_idle _ P M). cbn [t_owned t_mode t_view is_idle]. rewrite C1. cbn [andb].
    unfold do_access. rewrite !getT_abs, (absT_idle _ P M). cbn [t_owned t_mode t_view].
    fin.
  - eapply WF_set; [exact W| |reflexivity]. apply wf_idle.
Qed.

Lemma nth_default_beyond {A} (d : A) (l : list A) t : length l <= t -> nth t l d = d.
Proof. apply nth_overflow. Qed.
Lemma exists_thread s t : xget s t <> xdefault -> t < length (xthr s).
Proof. intros H. destruct (Nat.lt_ge_cases t (length (xthr s))); auto. exfalso. apply H. apply nth_overflow. exact H0. Qed.
Lemma set_nth_stutter (l : list xthread) : forall t y, t < length l -> absT y = absT (nth t l xdefault) ->
  map absT (set_nth xdefault l t y) = map absT l.
Proof.
  induction l as [|a l IH]; intros [|t] y L E; simpl in *; try lia.
  - rewrite E. reflexivity.
  - rewrite IH; auto. lia.
Qed.
Lemma owned_exists s t : (0 <? x_owned (xget s t)) = true -> t < length (xthr s).
Proof.
  intros H. apply exists_thread. intros E. rewrite E in H. discriminate.
Qed.
Lemma pc_exists s t : x_pc (xget s t) <> [] -> t < length (xthr s).
Proof. intros H. apply exists_thread. intros E. rewrite E in H. apply H. reflexivity. Qed.
Lemma granted_exists s t : x_mode (xget s t) = XGranted -> t < length (xthr s).
Proof. intros H. apply exists_thread. intros E. rewrite E in H. discriminate. Qed.

Lemma absT_pc_nil x : x_pc x = [] -> absT x = mkT (x_owned x) (x_view x) (match x_mode x with XGranted => Granted | XIdle => Idle end).
Proof. intros P. unfold absT. rewrite P. reflexivity. Qed.

Lemma sim_read s t s' : WF s -> xstep good_progs s (XRead t) = Some s' ->
  cexec okc (abs s) [LRead t] = Some (abs s') /\ WF s'.
Proof.
  intros W H. simpl in H. destruct (0 <? x_owned (xget s t)) eqn:C1; [|discriminate].
  destruct (x_pc (xget s t)) eqn:P; [|discriminate]. simpl in H.
  unfold xaccess in H. simpl in H. inversion H; subst s'; clear H. split.
  - unfold cexec, cstep. rewrite !getT_abs, (absT_pc_nil _ P). cbn [t_owned t_mode t_view]. rewrite C1.
    destruct (x_mode (xget s t)) eqn:M; cbn [andb orb is_idle is_granted];
      unfold do_access; rewrite !getT_abs, (absT_pc_nil _ P), M; cbn [t_owned t_mode t_view]; fin.
  - eapply WF_set; [exact W| |reflexivity]. unfold wfT. simpl. repeat split; auto; discriminate.
Qed.

Lemma sim_write s t s' : WF s -> xstep good_progs s (XWrite t) = Some s' ->
  cexec okc (abs s) [LWrite t] = Some (abs s') /\ WF s'.
Proof.
  intros W H. simpl in H. destruct (x_mode (xget s t)) eqn:M; [discriminate|].
  destruct (x_pc (xget s t)) eqn:P; [|discriminate].
  unfold xaccess in H. simpl in H. inversion H; subst s'; clear H. split.
  - unfold cexec, cstep. rewrite !getT_abs, (absT_pc_nil _ P), M. cbn [t_owned t_mode t_view].
    unfold do_access; rewrite !getT_abs, (absT_pc_nil _ P), M; cbn [t_owned t_mode t_view]; fin.
  - eapply WF_set; [exact W| |reflexivity]. unfold wfT. simpl. repeat split; auto; discriminate.
Qed.

Lemma sim_ungrant s t s' : WF s -> xstep good_progs s (XUngrant t) = Some s' ->
  cexec okc (abs s) [LUngrant t] = Some (abs s') /\ WF s'.
Proof.
  intros W H. simpl in H. destruct (x_mode (xget s t)) eqn:M; [discriminate|].
  destruct (x_pc (xget s t)) eqn:P; [|discriminate].
  inversion H; subst s'; clear H. split.
  - unfold cexec, cstep. rewrite !getT_abs, (absT_pc_nil _ P), M. cbn [t_owned t_mode t_view]. fin.
  - eapply WF_set; [exact W| |reflexivity]. apply wf_idle.
Qed.

Lemma sim_send s t u s' : WF s -> xstep good_progs s (XSend t u) = Some s' ->
  cexec okc (abs s) [LSend t u] = Some (abs s') /\ WF s'.
Proof.
  intros W H. simpl in H.
  destruct (negb (Nat.eqb t u) && (0 <? x_owned (xget s t)) && idle (xget s t) && idle (xget s u)) eqn:C; [|discriminate].
  apply andb_true_iff in C. destruct C as [C C4]. apply andb_true_iff in C. destruct C as [C C3]. apply andb_true_iff in C. destruct C as [C1 C2].
  destruct (idle_inv _ C3) as [P M]. destruct (idle_inv _ C4) as [P' M'].
  inversion H; subst s'; clear H. split.
  - unfold cexec, cstep. rewrite !getT_abs, (absT_idle _ P M), (absT_idle _ P' M'). cbn [t_owned t_mode t_view is_idle]. rewrite C1, C2. cbn [andb].
    unfold abs. cbn. f_equal. f_equal. unfold xset, setT. cbn. rewrite !map_set_nth. reflexivity.
  - intros v. unfold xget. cbn [xthr]. unfold xset at 1. cbn [xthr].
    destruct (Nat.eq_dec u v) as [->|Ne].
    + rewrite set_nth_same. apply wf_idle.
    + rewrite set_nth_other by auto. destruct (Nat.eq_dec t v) as [->|Ne2].
      * unfold xset. rewrite set_nth_same. apply wf_idle.
      * unfold xset. rewrite set_nth_other by auto. apply W.
Qed.

(** starting a program: nothing happens in Conc (the handle still counts as owned until the first counter access) *)
Lemma abs_stutter s s1 t y :
  xmsgs s1 = xmsgs s -> xaccs s1 = xaccs s -> xdestroyed s1 = xdestroyed s -> xfreed s1 = xfreed s -> xraced s1 = xraced s ->
  xthr s1 = xset s t y -> t < length (xthr s) -> absT y = absT (xget s t) -> abs s1 = abs s.
Proof.
  intros E1 E2 E3 E4 E5 E6 L A. unfold abs. rewrite E1, E2, E3, E4, E5, E6. f_equal.
  unfold xset. apply set_nth_stutter; auto.
Qed.

Lemma sim_start s l t s' (p : list instr) (r : xret) :
  (l = XStartDrop t /\ p = p_drop good_progs /\ r = RGone) \/
  (l = XStartUniq t /\ p = p_uniq good_progs /\ r = RGiveBack) \/
  (l = XStartUoc t /\ p = p_uniq good_progs /\ r = RGone) ->
  WF s -> xstep good_progs s l = Some s' ->
  cexec okc (abs s) [] = Some (abs s') /\ WF s'.
Proof.
  intros L W H.
  assert (K : (0 <? x_owned (xget s t)) && idle (xget s t) = true /\
              s' = mkX (xmsgs s) (xaccs s) (xset s t (mkXT (x_owned (xget s t) - 1) (x_view (xget s t)) p 0 XIdle r)) (xdestroyed s) (xfreed s) (xraced s)).
  { destruct L as [(-> & -> & ->)|[(-> & -> & ->)|(-> & -> & ->)]]; simpl in H;
      destruct ((0 <? x_owned (xget s t)) && idle (xget s t)); try discriminate; inversion H; auto. }
  destruct K as [C ->]. apply andb_true_iff in C. destruct C as [C1 C2]. destruct (idle_inv _ C2) as [P M].
  assert (O : x_owned (xget s t) = S (x_owned (xget s t) - 1)) by (apply Nat.ltb_lt in C1; lia).
  split.
  - simpl. f_equal. symmetry. eapply abs_stutter; try reflexivity; [apply owned_exists; exact C1|].
    rewrite (absT_idle _ P M). destruct L as [(_ & -> & _)|[(_ & -> & _)|(_ & -> & _)]]; unfold absT; simpl; rewrite <- O; reflexivity.
  - eapply WF_set; [exact W| |reflexivity]. unfold wfT. simpl.
    destruct L as [(_ & -> & ->)|[(_ & -> & ->)|(_ & -> & ->)]]; simpl; repeat split; try discriminate; auto 10.
Qed.

Lemma getT_mk ms ac l t y d f r : getT (mkC ms ac (set_nth tdefault l t y) d f r) t = y.
Proof. unfold getT. cbn. apply set_nth_same. Qed.
Lemma set_set {A} (d : A) : forall (l : list A) t a b, set_nth d (set_nth d l t a) t b = set_nth d l t b.
Proof.
  induction l as [|x l IH]; intros t a b.
  - induction t as [|t IHt]; simpl; auto. rewrite IHt. reflexivity.
  - destruct t; simpl; auto. rewrite IH. reflexivity.
Qed.

(** try_unwrap after a grant: move the value out, release the block *)
Lemma sim_moveout s t s' : WF s -> CInv (abs s) -> xstep good_progs s (XMoveOut t) = Some s' ->
  cexec okc (abs s) [LMoveOut t; LFree t] = Some (abs s') /\ WF s'.
Proof.
  intros W I H. simpl in H. destruct (x_mode (xget s t)) eqn:M; [discriminate|].
  destruct (x_pc (xget s t)) eqn:P; [|discriminate].
  unfold xaccess in H. cbn in H. rewrite xget_set_same in H. cbn in H. inversion H; subst s'; clear H.
  assert (O : x_owned (xget s t) = 1).
  { pose proof (i_modes _ I t) as K. unfold T in K. rewrite getT_abs, (absT_pc_nil _ P), M in K. cbn in K.
    destruct K as [_ K]; [discriminate|exact K]. }
  set (v := x_view (xget s t)).
  set (r1 := races_from 0 (xaccs s) t AMoveOut v || xfreed s).
  set (c1 := mkC (xmsgs s) (xaccs s ++ [mkA t AMoveOut])
                 (set_nth tdefault (map absT (xthr s)) t (mkT 1 (vadd v (length (xaccs s))) FreeingM))
                 true (xfreed s) (xraced s || r1 || xdestroyed s)).
  assert (S1 : cstep okc (abs s) (LMoveOut t) = Some c1).
  { unfold cstep. rewrite !getT_abs, (absT_pc_nil _ P), M. cbn [t_owned t_mode t_view].
    unfold do_access. rewrite !getT_abs, (absT_pc_nil _ P), M. cbn [t_owned t_mode t_view]. rewrite O.
    unfold c1, r1, v, abs, races, setT. cbn. reflexivity. }
  split.
  - unfold cexec. rewrite S1. unfold cstep. unfold c1 at 1. rewrite getT_mk. cbn [t_mode].
    unfold do_access. unfold c1. rewrite getT_mk. cbn [t_owned t_mode t_view msgs accs thr destroyed freed raced].
    unfold abs, races, setT, xset. cbn. rewrite O. cbn. rewrite !map_set_nth. cbn. rewrite !set_set. reflexivity.
  - eapply WF_set; [exact W|apply wf_idle|]. cbn. unfold xset. cbn. rewrite set_set. reflexivity.
Qed.

(** ** one instruction of a running program *)
Definition D1 := [IDec ORel true; IRetIfNe 1; ILoad OAcq false; IDestroyFree].
Definition D2 := [IRetIfNe 1; ILoad OAcq false; IDestroyFree].
Definition D3 := [ILoad OAcq false; IDestroyFree].
Definition D4 := [IDestroyFree].
Definition U1 := [ILoad OAcq true; IRetIfNe 1; IGrant].
Definition U2 := [IRetIfNe 1; IGrant].
Definition U3 := [IGrant].
Definition C1 := [ICloneVal; IDropHandle].
Definition C2 := [IDropHandle].

Lemma wf_drop_shape n v p r : In p drop_shapes -> (p = D3 -> r = 1) -> wfT (mkXT n v p r XIdle RGone).
Proof.
  intros H K. unfold wfT. cbn. split; [right; left; auto|]. split; [exact K|].
  intros E. subst p. simpl in H. repeat (destruct H as [H|H]; [discriminate|]). contradiction.
Qed.
Lemma wf_uniq_shape n v p r rt : In p uniq_shapes -> (p = U3 -> r = 1) -> wfT (mkXT n v p r XIdle rt).
Proof.
  intros H K. unfold wfT. cbn. split; [right; right; auto|]. split; [|exact K].
  intros E. subst p. simpl in H. repeat (destruct H as [H|H]; [discriminate|]). contradiction.
Qed.

Lemma sim_D1 s t i s' : WF s -> x_pc (xget s t) = D1 -> xstep good_progs s (XStep t i) = Some s' ->
  cexec okc (abs s) [LDrop t] = Some (abs s') /\ WF s'.
Proof.
  intros W P H. pose proof (W t) as Wt. destruct Wt as [[Q|[(Q1 & Q2 & Q3)|(Q1 & Q3)]] _];
    [rewrite P in Q; discriminate| |rewrite P in Q1; simpl in Q1; repeat (destruct Q1 as [Q1|Q1]; [discriminate|]); contradiction].
  simpl in H. rewrite P in H. unfold D1 in H. unfold rmw, xaccess in H. cbn in H. inversion H; subst s'; clear H. split.
  - assert (A : absT (xget s t) = mkT (S (x_owned (xget s t))) (x_view (xget s t)) Idle) by (unfold absT; rewrite P; reflexivity).
    unfold cexec, cstep. rewrite !getT_abs, A. cbn [t_owned t_mode t_view is_idle Nat.ltb Nat.leb andb].
    unfold do_access. rewrite !getT_abs, A. cbn [t_owned t_mode t_view].
    unfold abs, races, last_msg, xlast. cbn. f_equal. f_equal; try reflexivity.
    unfold xset, setT. cbn. rewrite map_set_nth. f_equal. unfold absT. cbn. rewrite Nat.sub_0_r. reflexivity.
  - eapply WF_set; [exact W| |reflexivity]. rewrite Q2, Q3. apply wf_drop_shape; [simpl; auto|discriminate].
Qed.

Lemma sim_stutter_step s t s' y :
  WF s -> x_pc (xget s t) <> [] -> wfT y -> absT y = absT (xget s t) ->
  s' = mkX (xmsgs s) (xaccs s) (xset s t y) (xdestroyed s) (xfreed s) (xraced s) ->
  cexec okc (abs s) [] = Some (abs s') /\ WF s'.
Proof.
  intros W P Wy A ->. split.
  - simpl. f_equal. symmetry. eapply abs_stutter; try reflexivity; [apply pc_exists; exact P|exact A].
  - eapply WF_set; [exact W|exact Wy|reflexivity].
Qed.

Lemma sim_D2 s t i s' : WF s -> x_pc (xget s t) = D2 -> xstep good_progs s (XStep t i) = Some s' ->
  cexec okc (abs s) [] = Some (abs s') /\ WF s'.
Proof.
  intros W P H. pose proof (W t) as Wt. destruct Wt as [[Q|[(Q1 & Q2 & Q3)|(Q1 & Q3)]] _];
    [rewrite P in Q; discriminate| |rewrite P in Q1; simpl in Q1; repeat (destruct Q1 as [Q1|Q1]; [discriminate|]); contradiction].
  simpl in H. rewrite P in H. unfold D2 in H. cbn in H. rewrite Q2 in H.
  destruct (Nat.eqb (x_reg (xget s t)) 1) eqn:R; inversion H; clear H.
  - eapply sim_stutter_step; [exact W|rewrite P; discriminate| | |reflexivity].
    + rewrite Q3. apply wf_drop_shape; [simpl; auto|]. intros _. apply Nat.eqb_eq. exact R.
    + unfold absT at 2. rewrite P. unfold absT. cbn. rewrite R. reflexivity.
  - eapply sim_stutter_step; [exact W|rewrite P; discriminate| | |reflexivity].
    + unfold finish. rewrite Q2. apply wf_idle.
    + unfold absT at 2. rewrite P. unfold absT, finish. cbn. rewrite Q2, R. reflexivity.
Qed.

Ltac wf_cases W t P :=
  let Wt := fresh "Wt" in pose proof (W t) as Wt; destruct Wt as [[Q|[(Q1 & Q2 & Q3)|(Q1 & Q3)]] [R3 R4]];
  [rewrite P in Q; discriminate| |].
Ltac not_in Q1 P := rewrite P in Q1; simpl in Q1; repeat (destruct Q1 as [Q1|Q1]; [discriminate|]); contradiction.

Lemma sim_D3 s t i s' : WF s -> x_pc (xget s t) = D3 -> xstep good_progs s (XStep t i) = Some s' ->
  cexec okc (abs s) [LAcq t i] = Some (abs s') /\ WF s'.
Proof.
  intros W P H. wf_cases W t P; [|not_in Q1 P].
  simpl in H. rewrite P in H. unfold D3 in H.
  destruct ((v_ts (x_view (xget s t)) <=? i) && (i <? length (xmsgs s))) eqn:C; [|discriminate].
  unfold xaccess in H. cbn in H. inversion H; subst s'; clear H. split.
  - assert (A : absT (xget s t) = mkT (x_owned (xget s t)) (x_view (xget s t)) LastNeedAcq) by (unfold absT; rewrite P; reflexivity).
    unfold cexec, cstep. rewrite !getT_abs, A. cbn [t_owned t_mode t_view]. unfold abs at 1. cbn [msgs]. rewrite C.
    unfold do_access. rewrite !getT_abs, A. cbn [t_owned t_mode t_view].
    unfold abs, races. cbn. f_equal. f_equal; try reflexivity.
    unfold xset, setT. cbn. rewrite map_set_nth. reflexivity.
  - eapply WF_set; [exact W| |reflexivity]. rewrite Q2, Q3. apply wf_drop_shape; [simpl; auto 10|discriminate].
Qed.

Lemma sim_D4 s t i s' : WF s -> CInv (abs s) -> x_pc (xget s t) = D4 -> xstep good_progs s (XStep t i) = Some s' ->
  cexec okc (abs s) [LDestroy t; LFree t] = Some (abs s') /\ WF s'.
Proof.
  intros W I P H. wf_cases W t P; [|not_in Q1 P].
  assert (A : absT (xget s t) = mkT (x_owned (xget s t)) (x_view (xget s t)) LastAcq) by (unfold absT; rewrite P; reflexivity).
  assert (O : x_owned (xget s t) = 0).
  { pose proof (i_modes _ I t) as K. unfold T in K. rewrite getT_abs, A in K. cbn in K. destruct K as [_ K]; [discriminate|exact K]. }
  simpl in H. rewrite P in H. unfold D4 in H. unfold xaccess in H. cbn in H. rewrite xget_set_same in H. cbn in H.
  inversion H; subst s'; clear H.
  set (v := x_view (xget s t)).
  set (r1 := races_from 0 (xaccs s) t ADestroy v || xfreed s).
  set (c1 := mkC (xmsgs s) (xaccs s ++ [mkA t ADestroy])
                 (set_nth tdefault (map absT (xthr s)) t (mkT 0 (vadd v (length (xaccs s))) FreeingD))
                 true (xfreed s) (xraced s || r1 || xdestroyed s)).
  assert (S1 : cstep okc (abs s) (LDestroy t) = Some c1).
  { unfold cstep. rewrite !getT_abs, A. cbn [t_owned t_mode t_view].
    unfold do_access. rewrite !getT_abs, A. cbn [t_owned t_mode t_view]. rewrite O.
    unfold c1, r1, v, abs, races, setT. cbn. reflexivity. }
  split.
  - unfold cexec. rewrite S1. unfold cstep. unfold c1 at 1. rewrite getT_mk. cbn [t_mode].
    unfold do_access. unfold c1. rewrite getT_mk. cbn [t_owned t_mode t_view msgs accs thr destroyed freed raced].
    unfold abs, races, setT, xset. cbn. rewrite O, Q3. cbn. rewrite !map_set_nth. cbn. rewrite !set_set. reflexivity.
  - eapply WF_set; [exact W| |]; [|cbn; unfold xset; cbn; rewrite set_set; reflexivity].
    rewrite Q2, Q3. apply wf_idle.
Qed.

Lemma sim_U1 s t i s' : WF s -> x_pc (xget s t) = U1 -> xstep good_progs s (XStep t i) = Some s' ->
  cexec okc (abs s) [LUniq t i] = Some (abs s') /\ WF s'.
Proof.
  intros W P H. wf_cases W t P; [not_in Q1 P|].
  simpl in H. rewrite P in H. unfold U1 in H.
  destruct ((v_ts (x_view (xget s t)) <=? i) && (i <? length (xmsgs s))) eqn:C; [|discriminate].
  unfold xaccess in H. cbn in H. inversion H; subst s'; clear H. split.
  - assert (A : absT (xget s t) = mkT (S (x_owned (xget s t))) (x_view (xget s t)) Idle) by (unfold absT; rewrite P; reflexivity).
    unfold cexec, cstep. rewrite !getT_abs, A. cbn [t_owned t_mode t_view is_idle].
    change (0 <? S (x_owned (xget s t))) with true. cbn [andb]. unfold abs at 1. cbn [msgs]. rewrite C.
    unfold do_access. rewrite !getT_abs, A. cbn [t_owned t_mode t_view].
    unfold abs, races. cbn. f_equal. f_equal; try reflexivity.
    unfold xset, setT. cbn. rewrite map_set_nth. reflexivity.
  - eapply WF_set; [exact W| |reflexivity]. rewrite Q3. apply wf_uniq_shape; [simpl; auto|discriminate].
Qed.

Lemma sim_U2 s t i s' : WF s -> x_pc (xget s t) = U2 -> xstep good_progs s (XStep t i) = Some s' ->
  cexec okc (abs s) [] = Some (abs s') /\ WF s'.
Proof.
  intros W P H. wf_cases W t P; [not_in Q1 P|].
  simpl in H. rewrite P in H. unfold U2 in H. cbn in H.
  destruct (Nat.eqb (x_reg (xget s t)) 1) eqn:R.
  - inversion H; clear H. eapply sim_stutter_step; [exact W|rewrite P; discriminate| | |reflexivity].
    + rewrite Q3. apply wf_uniq_shape; [simpl; auto|]. intros _. apply Nat.eqb_eq. exact R.
    + unfold absT at 2. rewrite P. unfold absT. cbn. rewrite R. reflexivity.
  - destruct (x_ret (xget s t)) eqn:Rt; inversion H; clear H.
    + (* inside unwrap_or_clone: not unique, go on with the clone path *)
      eapply sim_stutter_step; [exact W|rewrite P; discriminate| | |reflexivity].
      * apply wf_drop_shape; [simpl; auto 10|discriminate].
      * unfold absT at 2. rewrite P. unfold absT. cbn. rewrite R. reflexivity.
    + eapply sim_stutter_step; [exact W|rewrite P; discriminate| | |reflexivity].
      * unfold finish. rewrite Rt. apply wf_idle.
      * unfold absT at 2. rewrite P. unfold absT, finish. cbn. rewrite Rt, R. reflexivity.
Qed.

Lemma sim_U3 s t i s' : WF s -> x_pc (xget s t) = U3 -> xstep good_progs s (XStep t i) = Some s' ->
  cexec okc (abs s) [] = Some (abs s') /\ WF s'.
Proof.
  intros W P H. wf_cases W t P; [not_in Q1 P|].
  simpl in H. rewrite P in H. unfold U3 in H. cbn in H. inversion H; clear H.
  eapply sim_stutter_step; [exact W|rewrite P; discriminate| | |reflexivity].
  - unfold wfT. cbn. repeat split; auto; discriminate.
  - unfold absT at 2. rewrite P. unfold absT. cbn. reflexivity.
Qed.

Lemma sim_C1 s t i s' : WF s -> x_pc (xget s t) = C1 -> xstep good_progs s (XStep t i) = Some s' ->
  cexec okc (abs s) [LRead t] = Some (abs s') /\ WF s'.
Proof.
  intros W P H. wf_cases W t P; [|not_in Q1 P].
  simpl in H. rewrite P in H. unfold C1 in H. unfold xaccess in H. cbn in H. inversion H; subst s'; clear H. split.
  - assert (A : absT (xget s t) = mkT (S (x_owned (xget s t))) (x_view (xget s t)) Idle) by (unfold absT; rewrite P; reflexivity).
    unfold cexec, cstep. rewrite !getT_abs, A. cbn [t_owned t_mode t_view is_idle is_granted].
    change (0 <? S (x_owned (xget s t))) with true. cbn [andb orb].
    unfold do_access. rewrite !getT_abs, A. cbn [t_owned t_mode t_view].
    unfold abs, races. cbn. f_equal. f_equal; try reflexivity.
    unfold xset, setT. cbn. rewrite map_set_nth. reflexivity.
  - eapply WF_set; [exact W| |reflexivity]. rewrite Q2, Q3. apply wf_drop_shape; [simpl; auto 10|discriminate].
Qed.

Lemma sim_C2 s t i s' : WF s -> x_pc (xget s t) = C2 -> xstep good_progs s (XStep t i) = Some s' ->
  cexec okc (abs s) [] = Some (abs s') /\ WF s'.
Proof.
  intros W P H. wf_cases W t P; [|not_in Q1 P].
  simpl in H. rewrite P in H. unfold C2 in H. cbn in H. inversion H; clear H.
  eapply sim_stutter_step; [exact W|rewrite P; discriminate| | |reflexivity].
  - rewrite Q2, Q3. apply wf_drop_shape; [simpl; auto|discriminate].
  - unfold absT at 2. rewrite P. unfold absT. cbn. reflexivity.
Qed.

(** ** every step of the program-level machine is zero, one or two steps of Conc *)
Theorem xstep_sim s l s' :
  WF s -> CInv (abs s) -> xstep good_progs s l = Some s' ->
  exists ls, cexec okc (abs s) ls = Some (abs s') /\ WF s'.
Proof.
  intros W I H. destruct l.
  - eexists. eapply sim_clone; eauto.
  - eexists. eapply sim_read; eauto.
  - eexists. eapply sim_write; eauto.
  - eexists. eapply sim_ungrant; eauto.
  - eexists. eapply sim_moveout; eauto.
  - eexists. eapply sim_send; eauto.
  - eexists. eapply (sim_start s (XStartDrop t) t s'); eauto.
  - eexists. eapply (sim_start s (XStartUniq t) t s'); eauto 10.
  - eexists. eapply (sim_start s (XStartUoc t) t s'); eauto 10.
  - pose proof (W t) as Wt. destruct Wt as [[Q|[(Q1 & _)|(Q1 & _)]] _].
    + simpl in H. rewrite Q in H. discriminate.
    + simpl in Q1. destruct Q1 as [Q|[Q|[Q|[Q|[Q|[Q|[]]]]]]]; symmetry in Q.
      * eexists. eapply sim_D1; eauto.
      * eexists. eapply sim_D2; eauto.
      * eexists. eapply sim_D3; eauto.
      * eexists. eapply sim_D4; eauto.
      * eexists. eapply sim_C1; eauto.
      * eexists. eapply sim_C2; eauto.
    + simpl in Q1. destruct Q1 as [Q|[Q|[Q|[]]]]; symmetry in Q.
      * eexists. eapply sim_U1; eauto.
      * eexists. eapply sim_U2; eauto.
      * eexists. eapply sim_U3; eauto.
Qed.

Lemma cexec_app c : forall a b s, cexec c s (a ++ b) = match cexec c s a with Some s1 => cexec c s1 b | None => None end.
Proof. induction a as [|l a IH]; intros b s; simpl; auto. destruct (cstep c s l); auto. Qed.

Lemma abs_init : abs xinit = cinit.
Proof. reflexivity. Qed.
Lemma WF_init : WF xinit.
Proof.
  intros t. unfold xget, xinit. cbn. destruct t as [|[|t]]; cbn; unfold wfT; cbn; repeat split; auto; discriminate.
Qed.

Theorem xexec_sim : forall ls s s',
  WF s -> (exists cl, cexec okc cinit cl = Some (abs s)) -> xexec good_progs s ls = Some s' ->
  WF s' /\ exists cl', cexec okc cinit cl' = Some (abs s').
Proof.
  induction ls as [|l ls IH]; intros s s' W (cl & C) H; simpl in H.
  - inversion H; subst. split; eauto.
  - destruct (xstep good_progs s l) as [s1|] eqn:E; [|discriminate].
    assert (I : CInv (abs s)) by (apply (cexec_inv okc cl eq_refl cinit (abs s) cinv_init C)).
    destruct (xstep_sim s l s1 W I E) as (cl1 & C1 & W1).
    apply (IH s1 s' W1); auto. exists (cl ++ cl1). rewrite cexec_app, C. exact C1.
Qed.

(** for EVERY schedule of the programs of the source (any number of threads, interleaved instruction by instruction,
    stale loads included): no data race, no access after free, no second destroy or free, and no value lost *)
Theorem xsafe ls s : xexec good_progs xinit ls = Some s -> bad s = false.
Proof.
  intros H. destruct (xexec_sim ls xinit s WF_init (ex_intro _ [] (f_equal Some (eq_sym abs_init))) H) as (W & cl & C).
  unfold bad. apply orb_false_iff. split.
  - change (raced (abs s) = false). apply (conc_safe okc cl (abs s) eq_refl C).
  - unfold leaked. destruct (forallb (fun x => negb (xholds x)) (xthr s)) eqn:Q; auto. simpl.
    assert (Qc : quiescent (abs s) = true).
    { unfold quiescent, abs. cbn. rewrite forallb_forall in *. intros y Hy. apply in_map_iff in Hy. destruct Hy as (x & <- & Hx).
      specialize (Q x Hx). apply negb_true_iff in Q. unfold xholds in Q. apply orb_false_iff in Q. destruct Q as [Q1 Q2].
      apply negb_false_iff in Q2. destruct (idle_inv _ Q2) as [P M]. rewrite (absT_idle _ P M). unfold holds. cbn [t_owned t_mode is_idle]. rewrite Q1. reflexivity. }
    destruct (conc_live okc cl (abs s) eq_refl C Qc) as [_ F]. change (xfreed s = true) in F. rewrite F. reflexivity.
Qed.
