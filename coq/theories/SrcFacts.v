(** * SrcFacts.v — the vocabulary of facts the translator (tools/extract.py) emits
    about /repo/src, other than [Layout.lexpr] chains.  Data types only. *)
From Coq Require Import NArith List String Bool.
Import ListNotations.

(** How [Arc::from_raw] recovers the block pointer from a data pointer. *)
Inductive from_raw_kind := FRByteSubOffsetOfData | FRUnknown.
(** How [Arc::as_ptr] derives the data pointer. *)
Inductive as_ptr_kind := APAddrOfData | APUnknown.
Inductive heap_ptr_kind := HPBlockStart | HPUnknown.
(** [Arc::new] *)
Inductive arc_new_kind := NewBoxArcInnerCount1 | NewUnknown.
(** how the last owner releases the block *)
Inductive release_kind := RelBoxFromRawInner | RelUnknown.

(** what a raw pointer that is turned back into a handle or borrow was derived from *)
Inductive prov :=
| PParam          (* a parameter of the enclosing (unsafe, public) function: the caller's pointer, passed on *)
| PStored         (* the pointer a handle or borrow stores, possibly cast, masked through an integer or moved by an offset *)
| PRef            (* a reference to the value: no provenance over the count in front of the value *)
| PUnknownProv.
Definition prov_full (p : prov) : bool := match p with PParam | PStored => true | _ => false end.

Inductive repr_kind := RC | RTransparent | RRust | RUnknownRepr.
Inductive field_kind := FPhantom | FNonNull | FUsize | FArc | FParam | FOther.
Record struct_decl := mkStruct {
  sd_name : string; sd_repr : repr_kind;
  sd_fields : list (string * field_kind * bool);   (* name, class, declared plain `pub` *)
  sd_derives : list string }.

(** Memory orderings *)
Inductive mord := Rlx | Rel | Acq | AcqRel | SC | OrdUnknown.
Record atomic_site := mkSite {
  as_fn : string; as_method : string; as_operand : option N; as_ord : mord; as_on_count : bool }.
Inductive gate_kind := GateCountEq1 | GateLoadEq1 | GateUnknown.

Definition mord_eqb (a b : mord) : bool :=
  match a, b with
  | Rlx, Rlx | Rel, Rel | Acq, Acq | AcqRel, AcqRel | SC, SC | OrdUnknown, OrdUnknown => true
  | _, _ => false
  end.
Definition is_release (o : mord) : bool := match o with Rel | AcqRel | SC => true | _ => false end.
Definition is_acquire (o : mord) : bool := match o with Acq | AcqRel | SC => true | _ => false end.

Definition find_struct (n : string) (l : list struct_decl) : option struct_decl :=
  find (fun d => String.eqb (sd_name d) n) l.
