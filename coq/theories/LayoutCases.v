(** * LayoutCases.v — executable model of the `layout` correspondence stream.

    One case is [[hidx; tidx; len; ctor; rel]]; the observation is what the
    harness prints for the same case run against the real crate:
    [[status; alloc size; alloc align; dealloc size; dealloc align; data_off;
      hdr_off; len_off; slice_off; as_ptr_off; heap_ptr_off; align_ok]].
    All layouts come from [Layout.layout_of], the function the C05/C11 theorems
    are about. *)
From Coq Require Import NArith List Bool.
From TV Require Import Layout.
Import ListNotations.
Open Scope N_scope.

Definition shape_table : list (N * N) :=
  [(0,0); (1,0); (2,0); (3,0); (2,1); (4,2); (12,2); (8,3); (24,3); (16,4); (32,5); (64,6); (0,2); (0,4); (6,1); (64,4)].

Definition shape_of_idx (i : N) : option shape :=
  match nth_error shape_table (N.to_nat i) with
  | Some (s, k) => Some (Prim s k)
  | None => None
  end.

Definition header_idx_ok (i : N) : bool :=
  existsb (N.eqb i) [0; 1; 3; 5; 7; 9; 10; 13].

(** handle classes *)
Inductive lclass := CSized | CUSized | CHS | CThin | CSizedUninit | CASizedUninit | CHSUninit
                  | CSlice | CSliceUninit | CHStr | CStr.

Definition class_code (c : lclass) : N :=
  match c with
  | CSized => 0 | CUSized => 1 | CHS => 2 | CThin => 3 | CSizedUninit => 4 | CASizedUninit => 5
  | CHSUninit => 6 | CSlice => 7 | CSliceUninit => 8 | CHStr => 9 | CStr => 10
  end.

(** constructor code -> (class, needs a small length, refuses zero-sized elements) *)
Definition ctor_info (c : N) : option (lclass * bool * bool) :=
  match c with
  | 0 => Some (CSized, false, false)
  | 1 => Some (CHS, true, true)
  | 2 => Some (CHS, true, true)
  | 3 => Some (CHS, true, false)
  | 4 => Some (CThin, true, true)
  | 5 => Some (CThin, true, true)
  | 6 => Some (CSizedUninit, false, false)
  | 7 => Some (CHSUninit, false, false)
  | 8 => Some (CSized, false, false)
  | 9 => Some (CSlice, true, false)
  | 10 => Some (CSlice, true, true)
  | 11 => Some (CSlice, true, true)
  | 12 => Some (CSlice, true, false)
  | 13 => Some (CSliceUninit, false, false)
  | 14 => Some (CHStr, true, false)
  | 15 => Some (CStr, true, false)
  | 16 => Some (CUSized, false, false)
  | 17 => Some (CASizedUninit, false, false)
  | _ => None
  end.

Definition rel_applies (cls rel : N) : bool :=
  match cls, rel with
  | _, 0 => true
  | 0, 1 | 2, 1 | 3, 1 | 7, 1 | 10, 1 | 9, 1 => true
  | 0, 2 | 2, 2 | 7, 2 | 10, 2 | 9, 2 | 3, 2 => true
  | 0, 3 | 0, 4 | 0, 5 | 0, 6 | 7, 6 | 10, 6 => true
  | 0, 7 | 1, 7 | 0, 8 => true
  | 4, 9 | 5, 9 | 6, 9 | 8, 9 => true
  | 3, 10 | 3, 11 => true
  | 4, 12 | 6, 12 | 8, 12 | 1, 12 => true
  | 0, 13 | 3, 14 | 0, 15 => true
  | _, _ => false
  end.

(** the payload type of the block, with the header and the tail it consists of
    (header [None] for classes whose payload is not a header+slice struct) *)
Definition payload (c : lclass) (H T : shape) (n : N) : shape * option (shape * shape) :=
  match c with
  | CSized | CUSized | CSizedUninit | CASizedUninit => (T, None)
  | CHS | CHSUninit => (s_HeaderSlice H (Arr T n), Some (H, Arr T n))
  | CThin => (s_HeaderSlice (s_HeaderWithLength H) (Arr T n), Some (s_HeaderWithLength H, Arr T n))
  | CSlice | CSliceUninit => (s_HeaderSlice s_unit (Arr T n), Some (s_unit, Arr T n))
  | CHStr => (s_HeaderSlice H (Arr s_u8 n), Some (H, Arr s_u8 n))
  | CStr => (s_HeaderSlice s_unit (Arr s_u8 n), Some (s_unit, Arr s_u8 n))
  end.

Definition is_arc_class (c : lclass) : bool :=
  match c with CSized | CASizedUninit | CHS | CSlice | CHStr | CStr => true | _ => false end.

Definition zeros (n : nat) : list N := repeat 0 n.

Definition shape_size (s : shape) : N := match s with Prim sz _ => sz | _ => 1 end.

Definition layout_case (op : list N) : list N :=
  match op with
  | [hidx; tidx; len; ctor; rel] =>
    if negb (header_idx_ok hidx) then [98] else
    match shape_of_idx hidx, shape_of_idx tidx with
    | Some H, Some T =>
      match ctor_info ctor with
      | None => 2 :: zeros 11
      | Some (cls, small, nozst) =>
        if small && (4096 <? len) then 2 :: zeros 11 else
        (* collecting from an iterator whose size_hint happens to be exact takes the
           exact-size path: [filter] over an empty iterator reports (0, Some 0) *)
        let nozst := nozst || ((ctor =? 12) && (len =? 0)) in
        if nozst && (shape_size T =? 0) then 1 :: zeros 11 else
        let (P, hs) := payload cls H T len in
        match layout_of (s_ArcInner P), struct_field_off [s_usize; P] 1 with
        | Some L, Some doff =>
          if 4096 <? len then [0; lsize L; lalign L; 0; 0; 0; 0; 0; 0; 0; 0; 0] else
          let hdr_off := doff in
          let len_off := match cls with
                         | CThin => match struct_field_off [H; s_usize] 1 with Some o => doff + o | None => 0 end
                         | _ => 0 end in
          let slice_off := match hs with
                           | Some (h, t) => match struct_field_off [h; t] 1 with Some o => doff + o | None => 0 end
                           | None => doff end in
          let as_ptr_off := match cls with CThin => 0 | _ => doff end in
          let applies := rel_applies (class_code cls) rel in
          [ (if applies then 0 else 2); lsize L; lalign L;
            (if applies then lsize L else 0); (if applies then lalign L else 0);
            doff; hdr_off; len_off; slice_off; as_ptr_off; 0; 1 ]
        | _, _ => 1 :: zeros 11
        end
      end
    | _, _ => [98]
    end
  | _ => [99]
  end.

Definition run_layout (case : list (list N)) : list (list N) := map layout_case case.
