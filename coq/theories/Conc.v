(** * Conc.v — a view-based release/acquire machine for one allocation and any number of threads.

    The counter is a modification-order list of messages [(value, view)]; every write after the
    initialisation is a read-modify-write (the translator checks that the source has no other kind
    of write to the count), so an RMW reads the last message and appends one, and release sequences
    are continued by relaxed RMWs: the new message carries the previous message's view, joined with
    the writer's view iff the RMW is a release.  A load may read ANY message not older than the
    thread's timestamp on the counter (stale reads), and joins that message's view iff it is an
    acquire.  A view is a timestamp on the counter plus the set of access events that happen-before.
    Payload accesses, counter accesses and the deallocation are logged; an access RACES when a
    conflicting earlier access of another thread is not in the accessing thread's view ([free]
    conflicts with everything, counter accesses included).

    Threads are agents that may, while they hold a handle: clone, read, send a handle to another
    thread (with synchronisation, as any safe channel provides), drop (the two-step [drop_inner]),
    test uniqueness and then write ([get_mut]/[make_mut] in place) or move the value out
    ([try_unwrap]).  [LSync] adds arbitrary extra happens-before edges (other allocations, user atomics).

    Model only; the proofs are in ConcProofs.v. *)
From Coq Require Import List Bool Arith Lia.
Import ListNotations.

Record view := mkV { v_ts : nat; v_acc : list nat }.
Definition vjoin (a b : view) : view := mkV (Nat.max (v_ts a) (v_ts b)) (v_acc a ++ v_acc b).
Definition vempty : view := mkV 0 [].
Definition vadd (v : view) (a : nat) : view := mkV (v_ts v) (a :: v_acc v).
Definition vts (v : view) (ts : nat) : view := mkV (Nat.max (v_ts v) ts) (v_acc v).

Record msg := mkMsg { m_val : nat; m_view : view }.

Inductive akind := ARead | AWrite | ADestroy | AMoveOut | AFree | ACount.
Record access := mkA { a_thr : nat; a_kind : akind }.

Definition is_payload (k : akind) : bool :=
  match k with ARead | AWrite | ADestroy | AMoveOut => true | _ => false end.
Definition conflicts (k k' : akind) : bool :=
  match k, k' with
  | AFree, _ | _, AFree => true
  | ACount, _ | _, ACount => false
  | ARead, ARead => false
  | _, _ => true
  end.

Inductive tmode :=
| Idle
| LastNeedAcq     (* its decrement read 1: must do the acquire, then destroy and free *)
| LastAcq         (* acquire done: may destroy *)
| FreeingD        (* destroyed: may free *)
| Granted         (* a uniqueness test returned "unique": exclusive access until released *)
| FreeingM.       (* value moved out: may free *)

Record thread := mkT { t_owned : nat; t_view : view; t_mode : tmode }.
Definition tdefault : thread := mkT 0 vempty Idle.

(** the three orderings the protocol depends on, as booleans "at least release / acquire" *)
Record cfg := mkCfg { dec_release : bool; acq_acquire : bool; uniq_acquire : bool }.
Definition ok_cfg (c : cfg) : bool := dec_release c && acq_acquire c && uniq_acquire c.

Record cstate := mkC {
  msgs : list msg;           (* oldest first; never empty *)
  accs : list access;        (* access number = position *)
  thr : list thread;         (* thread number = position; absent = [tdefault] *)
  destroyed : bool;
  freed : bool;
  raced : bool }.            (* sticky: a data race, an access after free, a second destroy or free *)

Definition getT (s : cstate) (t : nat) : thread := nth t (thr s) tdefault.

Fixpoint set_nth {A} (d : A) (l : list A) (i : nat) (x : A) : list A :=
  match i, l with
  | O, [] => [x]
  | O, _ :: r => x :: r
  | S i', [] => d :: set_nth d [] i' x
  | S i', a :: r => a :: set_nth d r i' x
  end.
Definition setT (s : cstate) (t : nat) (x : thread) : list thread := set_nth tdefault (thr s) t x.

Definition last_msg (s : cstate) : msg := last (msgs s) (mkMsg 0 vempty).
Definition lasti (s : cstate) : nat := length (msgs s) - 1.

Definition mem (a : nat) (l : list nat) : bool := existsb (Nat.eqb a) l.

(** does an access of kind [k] by thread [t] (with view [v]) race with an earlier access? *)
Fixpoint races_from (i : nat) (l : list access) (t : nat) (k : akind) (v : view) : bool :=
  match l with
  | [] => false
  | a :: r =>
    (negb (Nat.eqb (a_thr a) t) && conflicts k (a_kind a) && negb (mem i (v_acc v)))
    || races_from (S i) r t k v
  end.
Definition races (s : cstate) (t : nat) (k : akind) (v : view) : bool := races_from 0 (accs s) t k v.

Inductive label :=
| LClone (t : nat)
| LRead (t : nat)
| LDrop (t : nat)
| LAcq (t : nat) (i : nat)
| LDestroy (t : nat)
| LFree (t : nat)
| LUniq (t : nat) (i : nat)
| LWrite (t : nat)
| LUngrant (t : nat)
| LMoveOut (t : nat)
| LSend (t u : nat)
| LSync (t u : nat)
| LStrong (t : nat) (i : nat).

Definition is_idle (m : tmode) : bool := match m with Idle => true | _ => false end.
Definition is_granted (m : tmode) : bool := match m with Granted => true | _ => false end.

(** log an access by [t]: it gets the next number, is added to [t]'s own view; returns the race verdict *)
Definition do_access (s : cstate) (t : nat) (k : akind) : cstate * view * bool :=
  let x := getT s t in
  let r := races s t k (t_view x) || freed s in
  let a := length (accs s) in
  (mkC (msgs s) (accs s ++ [mkA t k]) (thr s) (destroyed s) (freed s) (raced s || r), vadd (t_view x) a, r).

Definition holds (x : thread) : bool := (0 <? t_owned x) || negb (is_idle (t_mode x)).

Definition cstep (c : cfg) (s : cstate) (l : label) : option cstate :=
  match l with
  | LClone t =>
    let x := getT s t in
    if (0 <? t_owned x) && is_idle (t_mode x) then
      let '(s1, v1, _) := do_access s t ACount in
      let m := last_msg s in
      let nm := mkMsg (S (m_val m)) (m_view m) in       (* relaxed RMW: continues the release sequence *)
      Some (mkC (msgs s1 ++ [nm]) (accs s1) (setT s1 t (mkT (S (t_owned x)) (vts v1 (length (msgs s))) Idle))
                (destroyed s1) (freed s1) (raced s1))
    else None
  | LRead t =>
    let x := getT s t in
    if (0 <? t_owned x) && (is_idle (t_mode x) || is_granted (t_mode x)) then
      let '(s1, v1, _) := do_access s t ARead in
      Some (mkC (msgs s1) (accs s1) (setT s1 t (mkT (t_owned x) v1 (t_mode x))) (destroyed s1) (freed s1) (raced s1))
    else None
  | LDrop t =>
    let x := getT s t in
    if (0 <? t_owned x) && is_idle (t_mode x) then
      let '(s1, v1, _) := do_access s t ACount in
      let m := last_msg s in
      let v2 := vts v1 (length (msgs s)) in
      let nm := mkMsg (m_val m - 1) (if dec_release c then vjoin (m_view m) v2 else m_view m) in
      Some (mkC (msgs s1 ++ [nm]) (accs s1)
                (setT s1 t (mkT (t_owned x - 1) v2 (if Nat.eqb (m_val m) 1 then LastNeedAcq else Idle)))
                (destroyed s1) (freed s1) (raced s1))
    else None
  | LAcq t i =>
    let x := getT s t in
    match t_mode x with
    | LastNeedAcq =>
      if (v_ts (t_view x) <=? i) && (i <? length (msgs s)) then
        let '(s1, v1, _) := do_access s t ACount in
        let m := nth i (msgs s) (mkMsg 0 vempty) in
        let v2 := if acq_acquire c then vjoin v1 (m_view m) else v1 in
        Some (mkC (msgs s1) (accs s1) (setT s1 t (mkT (t_owned x) (vts v2 i) LastAcq)) (destroyed s1) (freed s1) (raced s1))
      else None
    | _ => None
    end
  | LDestroy t =>
    let x := getT s t in
    match t_mode x with
    | LastAcq =>
      let '(s1, v1, _) := do_access s t ADestroy in
      Some (mkC (msgs s1) (accs s1) (setT s1 t (mkT (t_owned x) v1 FreeingD)) true (freed s1) (raced s1 || destroyed s))
    | _ => None
    end
  | LFree t =>
    let x := getT s t in
    match t_mode x with
    | FreeingD | FreeingM =>
      let '(s1, v1, _) := do_access s t AFree in
      Some (mkC (msgs s1) (accs s1) (setT s1 t (mkT 0 v1 Idle)) (destroyed s1) true (raced s1 || freed s))
    | _ => None
    end
  | LUniq t i =>
    let x := getT s t in
    if (0 <? t_owned x) && is_idle (t_mode x) && (v_ts (t_view x) <=? i) && (i <? length (msgs s)) then
      let '(s1, v1, _) := do_access s t ACount in
      let m := nth i (msgs s) (mkMsg 0 vempty) in
      let v2 := if uniq_acquire c then vjoin v1 (m_view m) else v1 in
      Some (mkC (msgs s1) (accs s1)
                (setT s1 t (mkT (t_owned x) (vts v2 i) (if Nat.eqb (m_val m) 1 then Granted else Idle)))
                (destroyed s1) (freed s1) (raced s1))
    else None
  | LWrite t =>
    let x := getT s t in
    match t_mode x with
    | Granted =>
      let '(s1, v1, _) := do_access s t AWrite in
      Some (mkC (msgs s1) (accs s1) (setT s1 t (mkT (t_owned x) v1 Granted)) (destroyed s1) (freed s1) (raced s1))
    | _ => None
    end
  | LUngrant t =>
    let x := getT s t in
    match t_mode x with
    | Granted => Some (mkC (msgs s) (accs s) (setT s t (mkT (t_owned x) (t_view x) Idle)) (destroyed s) (freed s) (raced s))
    | _ => None
    end
  | LMoveOut t =>
    let x := getT s t in
    match t_mode x with
    | Granted =>
      let '(s1, v1, _) := do_access s t AMoveOut in
      Some (mkC (msgs s1) (accs s1) (setT s1 t (mkT (t_owned x) v1 FreeingM)) true (freed s1) (raced s1 || destroyed s))
    | _ => None
    end
  | LSend t u =>
    let x := getT s t in let y := getT s u in
    if negb (Nat.eqb t u) && (0 <? t_owned x) && is_idle (t_mode x) && is_idle (t_mode y) then
      let s1 := mkC (msgs s) (accs s) (setT s t (mkT (t_owned x - 1) (t_view x) Idle)) (destroyed s) (freed s) (raced s) in
      Some (mkC (msgs s1) (accs s1) (setT s1 u (mkT (S (t_owned y)) (vjoin (t_view y) (t_view x)) Idle))
                (destroyed s1) (freed s1) (raced s1))
    else None
  | LSync t u =>
    let x := getT s t in let y := getT s u in
    if negb (Nat.eqb t u) then
      Some (mkC (msgs s) (accs s) (setT s u (mkT (t_owned y) (vjoin (t_view y) (t_view x)) (t_mode y)))
                (destroyed s) (freed s) (raced s))
    else None
  | LStrong t i =>
    let x := getT s t in
    if (0 <? t_owned x) && is_idle (t_mode x) && (v_ts (t_view x) <=? i) && (i <? length (msgs s)) then
      let '(s1, v1, _) := do_access s t ACount in
      Some (mkC (msgs s1) (accs s1) (setT s1 t (mkT (t_owned x) (vts v1 i) Idle)) (destroyed s1) (freed s1) (raced s1))
    else None
  end.

(** the creating thread (number 0) holds the only handle; the count was initialised to 1 *)
Definition cinit : cstate := mkC [mkMsg 1 vempty] [] [mkT 1 vempty Idle] false false false.

Fixpoint cexec (c : cfg) (s : cstate) (ls : list label) : option cstate :=
  match ls with
  | [] => Some s
  | l :: r => match cstep c s l with Some s' => cexec c s' r | None => None end
  end.

Definition quiescent (s : cstate) : bool := forallb (fun x => negb (holds x)) (thr s).

(** ** bounded exploration (used only to search for a failing schedule when [ok_cfg] fails) *)
Definition labels_for (nthreads nmsgs : nat) : list label :=
  flat_map (fun t =>
    [LClone t; LRead t; LDrop t; LDestroy t; LFree t; LWrite t; LUngrant t; LMoveOut t]
    ++ map (LAcq t) (seq 0 nmsgs) ++ map (LUniq t) (seq 0 nmsgs)
    ++ flat_map (fun u => [LSend t u]) (seq 0 nthreads)) (seq 0 nthreads).

Fixpoint explore (c : cfg) (nthreads fuel : nat) (s : cstate) (trace : list label) : option (list label) :=
  if raced s then Some (rev trace) else
  match fuel with
  | O => None
  | S f =>
    (fix try (ls : list label) : option (list label) :=
       match ls with
       | [] => None
       | l :: r =>
         match cstep c s l with
         | Some s' => match explore c nthreads f s' (l :: trace) with Some w => Some w | None => try r end
         | None => try r
         end
       end) (labels_for nthreads (length (msgs s)))
  end.
