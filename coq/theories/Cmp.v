(** * Cmp.v — comparison, ordering, hashing and formatting of handles, for arbitrary payload types.

    A payload type is a record of ARBITRARY functions ([psig]): no law is assumed, so NaN-like and
    deliberately inconsistent payloads are inside every quantifier.  The trait-impl bodies of the crate are
    classified by the translator into the small vocabulary [cform]; the functions below interpret a
    classified impl table ([impls]) — they are the model of "what handle comparison does". *)
From Coq Require Import NArith List Bool String.
Import ListNotations.
Open Scope N_scope.

Record psig (V : Type) := mkP {
  p_eq : V -> V -> bool; p_ne : V -> V -> bool;
  p_lt : V -> V -> bool; p_le : V -> V -> bool; p_gt : V -> V -> bool; p_ge : V -> V -> bool;
  p_pcmp : V -> V -> option comparison;
  p_cmp : V -> V -> comparison;
  p_hash : V -> list N;
  p_dbg : V -> list N;
  p_disp : V -> list N }.
Arguments mkP {V}.
Arguments p_eq {V}. Arguments p_ne {V}. Arguments p_lt {V}. Arguments p_le {V}. Arguments p_gt {V}. Arguments p_ge {V}.
Arguments p_pcmp {V}. Arguments p_cmp {V}. Arguments p_hash {V}. Arguments p_dbg {V}. Arguments p_disp {V}.

(** a handle value: which allocation it points into, and the value there *)
Record hv (V : Type) := mkHV { h_alloc : nat; h_val : V }.
Arguments mkHV {V}. Arguments h_alloc {V}. Arguments h_val {V}.
Definition same {V} (a b : hv V) : bool := Nat.eqb (h_alloc a) (h_alloc b).

(** ** the vocabulary of classified impl bodies *)
Inductive fld := FldHeader | FldSlice | FldLen.
Inductive cform :=
| FDeleg                    (* the payload's own method on the dereferenced values *)
| FPtrEqOr                  (* ptr_eq(self, other) || payload method *)
| FNotPtrEqAnd              (* !ptr_eq(self, other) && payload method *)
| FViaArc                   (* ThinArc: with_arc on both sides, then the same method of the fat Arc *)
| FTuple (fs : list fld)    (* (&f1, &f2, ..) method (&other.f1, ..): lexicographic over the listed fields *)
| FUnionMatch               (* ArcUnion: both First / both Second -> the borrows' ==; otherwise false *)
| FViaBorrow                (* ArcUnion Debug: the derived Debug of the ArcUnionBorrow enum *)
| FUnknownForm.

Definition impls := list (string * string * cform).      (* type, method, form *)
Definition lookup (t m : string) (l : impls) : option cform :=
  match find (fun e => String.eqb (fst (fst e)) t && String.eqb (snd (fst e)) m) l with
  | Some e => Some (snd e)
  | None => None
  end.

Inductive bop := OEq | ONe | OLt | OLe | OGt | OGe.
Definition bop_name (o : bop) : string :=
  match o with OEq => "eq" | ONe => "ne" | OLt => "lt" | OLe => "le" | OGt => "gt" | OGe => "ge" end.
Definition pbool {V} (S : psig V) (o : bop) : V -> V -> bool :=
  match o with OEq => p_eq S | ONe => p_ne S | OLt => p_lt S | OLe => p_le S | OGt => p_gt S | OGe => p_ge S end.

(** ** Arc-like handles ([Arc<T>], [OffsetArc<T>], [ArcBorrow<T>]): one pointer to a payload *)
Definition arc_bool {V} (I : impls) (ty : string) (S : psig V) (o : bop) (a b : hv V) : option bool :=
  match lookup ty (bop_name o) I with
  | Some FDeleg => Some (pbool S o (h_val a) (h_val b))
  | Some FPtrEqOr => Some (same a b || pbool S o (h_val a) (h_val b))
  | Some FNotPtrEqAnd => Some (negb (same a b) && pbool S o (h_val a) (h_val b))
  | _ => None
  end.
Definition arc_pcmp {V} (I : impls) (ty : string) (S : psig V) (a b : hv V) : option (option comparison) :=
  match lookup ty "partial_cmp" I with Some FDeleg => Some (p_pcmp S (h_val a) (h_val b)) | _ => None end.
Definition arc_cmp {V} (I : impls) (ty : string) (S : psig V) (a b : hv V) : option comparison :=
  match lookup ty "cmp" I with Some FDeleg => Some (p_cmp S (h_val a) (h_val b)) | _ => None end.
Definition arc_hash {V} (I : impls) (ty : string) (S : psig V) (a : hv V) : option (list N) :=
  match lookup ty "hash" I with Some FDeleg => Some (p_hash S (h_val a)) | _ => None end.
Definition arc_dbg {V} (I : impls) (ty : string) (S : psig V) (a : hv V) : option (list N) :=
  match lookup ty "Debug::fmt" I with Some FDeleg => Some (p_dbg S (h_val a)) | _ => None end.
Definition arc_disp {V} (I : impls) (ty : string) (S : psig V) (a : hv V) : option (list N) :=
  match lookup ty "Display::fmt" I with Some FDeleg => Some (p_disp S (h_val a)) | _ => None end.

(** ** slices, as core implements them (slice equality walks the elements with [!=]) *)
Fixpoint slice_eq {V} (S : psig V) (a b : list V) : bool :=
  match a, b with
  | [], [] => true
  | x :: a', y :: b' => negb (p_ne S x y) && slice_eq S a' b'
  | _, _ => false
  end.
Fixpoint slice_pcmp {V} (S : psig V) (a b : list V) : option comparison :=
  match a, b with
  | [], [] => Some Eq
  | [], _ :: _ => Some Lt
  | _ :: _, [] => Some Gt
  | x :: a', y :: b' =>
    match p_pcmp S x y with
    | Some Eq => slice_pcmp S a' b'
    | r => r
    end
  end.
Fixpoint slice_cmp {V} (S : psig V) (a b : list V) : comparison :=
  match a, b with
  | [], [] => Eq
  | [], _ :: _ => Lt
  | _ :: _, [] => Gt
  | x :: a', y :: b' => match p_cmp S x y with Eq => slice_cmp S a' b' | r => r end
  end.
Definition slice_hash {V} (S : psig V) (a : list V) : list N :=
  N.of_nat (List.length a) :: flat_map (p_hash S) a.

(** ** the header-slice payload types *)
Record hs (VH VT : Type) := mkHS { s_hdr : VH; s_len : N; s_slice : list VT }.   (* s_len: the recorded length of HeaderWithLength *)
Arguments mkHS {VH VT}. Arguments s_hdr {VH VT}. Arguments s_len {VH VT}. Arguments s_slice {VH VT}.

Definition lex (r : option comparison) (k : unit -> option comparison) : option comparison :=
  match r with Some Eq => k tt | _ => r end.
Definition lexc (r : comparison) (k : unit -> comparison) : comparison :=
  match r with Eq => k tt | _ => r end.

Definition fld_pcmp {VH VT} (SH : psig VH) (ST : psig VT) (f : fld) (a b : hs VH VT) : option comparison :=
  match f with
  | FldHeader => p_pcmp SH (s_hdr a) (s_hdr b)
  | FldSlice => slice_pcmp ST (s_slice a) (s_slice b)
  | FldLen => Some (N.compare (s_len a) (s_len b))
  end.
Definition fld_cmp {VH VT} (SH : psig VH) (ST : psig VT) (f : fld) (a b : hs VH VT) : comparison :=
  match f with
  | FldHeader => p_cmp SH (s_hdr a) (s_hdr b)
  | FldSlice => slice_cmp ST (s_slice a) (s_slice b)
  | FldLen => N.compare (s_len a) (s_len b)
  end.
Fixpoint tuple_pcmp {VH VT} (SH : psig VH) (ST : psig VT) (fs : list fld) (a b : hs VH VT) : option comparison :=
  match fs with
  | [] => Some Eq
  | f :: r => lex (fld_pcmp SH ST f a b) (fun _ => tuple_pcmp SH ST r a b)
  end.
Fixpoint tuple_cmp {VH VT} (SH : psig VH) (ST : psig VT) (fs : list fld) (a b : hs VH VT) : comparison :=
  match fs with
  | [] => Eq
  | f :: r => lexc (fld_cmp SH ST f a b) (fun _ => tuple_cmp SH ST r a b)
  end.

Definition of_pcmp (r : option comparison) (o : bop) : bool :=
  match o, r with
  | OLt, Some Lt => true
  | OLe, Some Lt | OLe, Some Eq => true
  | OGt, Some Gt => true
  | OGe, Some Gt | OGe, Some Eq => true
  | _, _ => false
  end.

(** [HeaderSlice<HeaderWithLength<H>, [T]>] as a payload type: derived [==] (header, recorded length, slice; [!=] is
    the default negation), derived Hash and Debug in field order, and the hand-written PartialOrd/Ord given by the
    translated tuple forms (the relational operators are the trait defaults, derived from partial_cmp) *)
Definition hslu_eq {VH VT} (SH : psig VH) (ST : psig VT) (a b : hs VH VT) : bool :=
  p_eq SH (s_hdr a) (s_hdr b) && (s_len a =? s_len b) && slice_eq ST (s_slice a) (s_slice b).

Definition hslu_sig {VH VT} (I : impls) (SH : psig VH) (ST : psig VT) : option (psig (hs VH VT)) :=
  match lookup "HeaderSliceWithLength" "partial_cmp" I, lookup "HeaderSliceWithLength" "cmp" I with
  | Some (FTuple fp), Some (FTuple fc) =>
    let pc := tuple_pcmp SH ST fp in
    Some (mkP (hslu_eq SH ST) (fun a b => negb (hslu_eq SH ST a b))
              (fun a b => of_pcmp (pc a b) OLt) (fun a b => of_pcmp (pc a b) OLe)
              (fun a b => of_pcmp (pc a b) OGt) (fun a b => of_pcmp (pc a b) OGe)
              pc (tuple_cmp SH ST fc)
              (fun a => p_hash SH (s_hdr a) ++ [s_len a] ++ slice_hash ST (s_slice a))
              (fun a => p_dbg SH (s_hdr a) ++ [s_len a] ++ flat_map (p_dbg ST) (s_slice a))
              (fun a => []))
  | _, _ => None
  end.

(** ** ThinArc: every method goes through [with_arc] to the fat Arc's method on the header-slice payload *)
Definition thin_bool {VH VT} (I : impls) (SH : psig VH) (ST : psig VT) (o : bop) (a b : hv (hs VH VT)) : option bool :=
  match hslu_sig I SH ST with
  | None => None
  | Some Sg =>
    match o with
    | OEq => match lookup "ThinArc" "eq" I with Some FViaArc => arc_bool I "Arc" Sg OEq a b | _ => None end
    | ONe => match lookup "ThinArc" "eq" I, lookup "ThinArc" "ne" I with
             | Some FViaArc, None => option_map negb (arc_bool I "Arc" Sg OEq a b)      (* default ne = !eq *)
             | _, _ => None end
    | _ => match lookup "ThinArc" "partial_cmp" I, lookup "ThinArc" (bop_name o) I with
           | Some FViaArc, None =>                                                  (* default lt/le/gt/ge from partial_cmp *)
             match arc_pcmp I "Arc" Sg a b with Some r => Some (of_pcmp r o) | None => None end
           | _, _ => None end
    end
  end.
Definition thin_pcmp {VH VT} (I : impls) (SH : psig VH) (ST : psig VT) (a b : hv (hs VH VT)) : option (option comparison) :=
  match hslu_sig I SH ST, lookup "ThinArc" "partial_cmp" I with
  | Some Sg, Some FViaArc => arc_pcmp I "Arc" Sg a b
  | _, _ => None
  end.
Definition thin_cmp {VH VT} (I : impls) (SH : psig VH) (ST : psig VT) (a b : hv (hs VH VT)) : option comparison :=
  match hslu_sig I SH ST, lookup "ThinArc" "cmp" I with
  | Some Sg, Some FViaArc => arc_cmp I "Arc" Sg a b
  | _, _ => None
  end.
Definition thin_hash {VH VT} (I : impls) (SH : psig VH) (ST : psig VT) (a : hv (hs VH VT)) : option (list N) :=
  match hslu_sig I SH ST, lookup "ThinArc" "hash" I with
  | Some Sg, Some FViaArc => arc_hash I "Arc" Sg a
  | _, _ => None
  end.

(** ** ArcUnion *)
Inductive uval (VA VB : Type) := UFirst (a : hv VA) | USecond (b : hv VB).
Arguments UFirst {VA VB}. Arguments USecond {VA VB}.
Definition union_eq {VA VB} (I : impls) (SA : psig VA) (SB : psig VB) (x y : uval VA VB) : option bool :=
  match lookup "ArcUnion" "eq" I with
  | Some FUnionMatch =>
    match x, y with
    | UFirst a, UFirst b => arc_bool I "ArcBorrow" SA OEq a b
    | USecond a, USecond b => arc_bool I "ArcBorrow" SB OEq a b
    | _, _ => Some false
    end
  | _ => None
  end.
(** Debug: the derived Debug of [ArcUnionBorrow] wraps the borrow's Debug in the variant name (1 = First, 2 = Second) *)
Definition union_dbg {VA VB} (I : impls) (SA : psig VA) (SB : psig VB) (x : uval VA VB) : option (list N) :=
  match lookup "ArcUnion" "Debug::fmt" I with
  | Some FViaBorrow =>
    match x with
    | UFirst a => option_map (cons 1) (arc_dbg I "ArcBorrow" SA a)
    | USecond b => option_map (cons 2) (arc_dbg I "ArcBorrow" SB b)
    end
  | _ => None
  end.

(** the impl table the model was written against (what the translator is expected to produce) *)
Definition expected_impls : impls :=
  [ ("Arc", "eq", FPtrEqOr); ("Arc", "ne", FNotPtrEqAnd);
    ("Arc", "partial_cmp", FDeleg); ("Arc", "lt", FDeleg); ("Arc", "le", FDeleg); ("Arc", "gt", FDeleg); ("Arc", "ge", FDeleg);
    ("Arc", "cmp", FDeleg); ("Arc", "Display::fmt", FDeleg); ("Arc", "Debug::fmt", FDeleg); ("Arc", "hash", FDeleg);
    ("Arc", "borrow", FDeleg); ("Arc", "as_ref", FDeleg);
    ("ArcBorrow", "eq", FPtrEqOr); ("ArcBorrow", "ne", FNotPtrEqAnd); ("ArcBorrow", "Debug::fmt", FDeleg);
    ("ArcUnion", "eq", FUnionMatch); ("ArcUnion", "Debug::fmt", FViaBorrow);
    ("HeaderSliceWithLength", "partial_cmp", FTuple [FldHeader; FldSlice; FldLen]);
    ("HeaderSliceWithLength", "cmp", FTuple [FldHeader; FldSlice; FldLen]);
    ("OffsetArc", "Debug::fmt", FDeleg); ("OffsetArc", "eq", FDeleg); ("OffsetArc", "ne", FDeleg);
    ("ThinArc", "eq", FViaArc); ("ThinArc", "partial_cmp", FViaArc); ("ThinArc", "cmp", FViaArc); ("ThinArc", "hash", FViaArc);
    ("ThinArc", "Debug::fmt", FDeleg) ]%string.
