(** * GuardConc.v — the overflow guard under concurrent clones.

    [Guard.v] shows that sequentially the count never wraps.  [Arc::clone] is [fetch_add] followed by a test of the OLD
    value, so between the two another thread may increment as well.  Here any number of threads interleave those two
    steps arbitrarily.  Every increment performed while the count is already above the limit leaves its thread with an
    old value that can only end in [abort], so the count exceeds the limit by at most the number of threads: it stays
    far below 2^64, and no handle is ever handed out for an increment whose old value was above the limit. *)
From Coq Require Import NArith List Bool Arith Lia.
From TV Require Import Guard.
Import ListNotations.
Open Scope N_scope.

Definition maxr : N := 2 ^ 63 - 1.      (* MAX_REFCOUNT = isize::MAX *)

(** a thread is either idle or has done its fetch_add and holds the old value, not yet tested *)
Record gstate := mkG {
  g_count : N;                       (* unbounded: reaching 2^64 would be the wrap *)
  g_pending : list (option N);       (* per thread *)
  g_aborted : bool;
  g_handed : list N }.               (* old values for which a handle was returned *)

Inductive glabel := GInc (t : nat) | GTest (t : nat).

Fixpoint set_opt (l : list (option N)) (t : nat) (x : option N) : list (option N) :=
  match l, t with
  | [], _ => []
  | _ :: r, O => x :: r
  | a :: r, S t' => a :: set_opt r t' x
  end.

(** the test after the fetch_add is the translated guard [g] against the translated limit [m]; an action other than
    abort, or a guard outside the grammar, makes the step undefined (the theorem then says nothing) *)
Definition fires (g : guard_kind) (m old : N) : bool :=
  match guard_fires g m old with Some b => b | None => false end.

Definition gstep (g : guard_kind) (m : N) (s : gstate) (l : glabel) : option gstate :=
  if g_aborted s then None else
  match l with
  | GInc t =>
    match nth_error (g_pending s) t with
    | Some None => Some (mkG (g_count s + 1) (set_opt (g_pending s) t (Some (g_count s))) false (g_handed s))
    | _ => None
    end
  | GTest t =>
    match nth_error (g_pending s) t with
    | Some (Some old) =>
      if fires g m old then Some (mkG (g_count s) (g_pending s) true (g_handed s))       (* abort(): the process is gone *)
      else Some (mkG (g_count s) (set_opt (g_pending s) t None) false (old :: g_handed s))
    | _ => None
    end
  end.

Fixpoint gexec (g : guard_kind) (m : N) (s : gstate) (ls : list glabel) : option gstate :=
  match ls with
  | [] => Some s
  | l :: r => match gstep g m s l with Some s' => gexec g m s' r | None => None end
  end.

Definition ginit (c0 : N) (threads : nat) : gstate := mkG c0 (repeat None threads) false [].

(** threads stuck with an old value above the limit *)
Fixpoint doomed (l : list (option N)) : nat :=
  match l with
  | [] => 0%nat
  | Some old :: r => ((if N.ltb maxr old then 1 else 0) + doomed r)%nat
  | None :: r => doomed r
  end.

Lemma doomed_le l : (doomed l <= length l)%nat.
Proof. induction l as [|[o|] r IH]; simpl; try lia. destruct (maxr <? o); lia. Qed.

Lemma length_set_opt l : forall t x, length (set_opt l t x) = length l.
Proof. induction l as [|a r IH]; intros [|t] x; simpl; auto. Qed.

Lemma doomed_set_some l : forall t old, nth_error l t = Some None ->
  doomed (set_opt l t (Some old)) = ((if N.ltb maxr old then 1 else 0) + doomed l)%nat.
Proof.
  induction l as [|a r IH]; intros [|t] old H; simpl in *; try discriminate.
  - inversion H; subst. reflexivity.
  - rewrite (IH t old H). destruct a as [o|]; [destruct (maxr <? o)|]; lia.
Qed.
Lemma doomed_set_none l : forall t old, nth_error l t = Some (Some old) -> (maxr <? old) = false ->
  doomed (set_opt l t None) = doomed l.
Proof.
  induction l as [|a r IH]; intros [|t] old H Hm; simpl in *; try discriminate.
  - inversion H; subst. rewrite Hm. reflexivity.
  - rewrite (IH t old H Hm). reflexivity.
Qed.

(** the invariant: whatever the count has above limit+1 is accounted for by doomed threads; handles were only handed
    out for old values at or below the limit *)
Definition GInv (c0 : N) (s : gstate) : Prop :=
  g_aborted s = false ->
  g_count s <= N.max c0 (maxr + 1) + N.of_nat (doomed (g_pending s)) /\
  Forall (fun old => old <= maxr) (g_handed s).

Lemma gstep_inv c0 s l s' : GInv c0 s -> gstep GuardOldGt maxr s l = Some s' -> GInv c0 s' /\ length (g_pending s') = length (g_pending s).
Proof.
  intros I H. unfold gstep in H. unfold GInv in I. destruct (g_aborted s) eqn:A; [discriminate|]. specialize (I eq_refl). destruct I as [I1 I2].
  remember (N.max c0 (maxr + 1)) as K eqn:HK.
  assert (HK2 : maxr + 1 <= K) by (subst K; lia).
  destruct l as [t|t].
  - destruct (nth_error (g_pending s) t) as [[o|]|] eqn:E; try discriminate. inversion H; subst s'; clear H.
    cbn [g_pending]. split; [|apply length_set_opt]. unfold GInv. cbn [g_count g_pending g_handed g_aborted]. intros _. split; [|exact I2].
    rewrite (doomed_set_some _ _ _ E). rewrite <- HK. destruct (maxr <? g_count s) eqn:M.
    + rewrite Nat2N.inj_add. change (N.of_nat 1) with 1. lia.
    + apply N.ltb_ge in M. rewrite Nat.add_0_l. lia.
  - destruct (nth_error (g_pending s) t) as [[old|]|] eqn:E; try discriminate.
    unfold fires, guard_fires in H. destruct (maxr <? old) eqn:M; inversion H; subst s'; clear H; cbn [g_pending].
    + split; [|reflexivity]. unfold GInv. cbn [g_aborted]. intros K0. discriminate.
    + split; [|apply length_set_opt]. unfold GInv. cbn [g_count g_pending g_handed g_aborted]. intros _. split.
      * rewrite (doomed_set_none _ _ _ E M). rewrite <- HK. exact I1.
      * constructor; [apply N.ltb_ge in M; exact M|exact I2].
Qed.

Theorem gexec_inv c0 : forall ls s s', GInv c0 s -> gexec GuardOldGt maxr s ls = Some s' ->
  GInv c0 s' /\ length (g_pending s') = length (g_pending s).
Proof.
  induction ls as [|l r IH]; intros s s' I H; simpl in H.
  - inversion H; subst. auto.
  - destruct (gstep GuardOldGt maxr s l) as [s1|] eqn:E; [|discriminate]. destruct (gstep_inv c0 s l s1 I E) as [I1 L1].
    destruct (IH s1 s' I1 H) as [I2 L2]. split; [exact I2|congruence].
Qed.

(** for EVERY interleaving of any number of threads (fewer than 2^62, far more than an address space can hold) starting
    from any count up to the limit + 1: while the process has not aborted the count is below 2^64 - it never wraps -
    and every handle that was handed out came from an increment whose old value was at or below the limit *)
Theorem concurrent_clones_never_wrap g m c0 threads ls s :
  g = GuardOldGt -> m = maxr ->
  c0 <= maxr + 1 -> N.of_nat threads < 2 ^ 62 ->
  gexec g m (ginit c0 threads) ls = Some s -> g_aborted s = false ->
  g_count s < 2 ^ 64 /\ Forall (fun old => old <= maxr) (g_handed s).
Proof.
  intros -> -> Hc Ht H A.
  assert (I0 : GInv c0 (ginit c0 threads)).
  { intros _. simpl. split; [lia|constructor]. }
  destruct (gexec_inv c0 ls _ s I0 H) as [I L]. specialize (I A). destruct I as [I1 I2]. split; [|exact I2].
  pose proof (doomed_le (g_pending s)) as D. rewrite L in D. simpl in D. rewrite repeat_length in D.
  assert (N.max c0 (maxr + 1) = maxr + 1) by lia.
  assert (maxr + 1 = 2 ^ 63) by reflexivity.
  assert (2 ^ 64 = 2 * 2 ^ 63) by reflexivity. assert (2 ^ 63 = 2 * 2 ^ 62) by reflexivity. lia.
Qed.

(** three threads increment before any of them tests: the count is 3 above the limit; the first test aborts *)
Example pending_increments_then_abort :
  option_map g_count (gexec GuardOldGt maxr (ginit (maxr + 1) 3) [GInc 0; GInc 1; GInc 2]) = Some (maxr + 4) /\
  option_map g_aborted (gexec GuardOldGt maxr (ginit (maxr + 1) 3) [GInc 0; GInc 1; GInc 2; GTest 1]) = Some true.
Proof. vm_compute. split; reflexivity. Qed.
