(** * Bits.v — the tag-bit arithmetic of ArcUnion, over unbounded [N] restricted to 64-bit addresses.

    [bexpr] is the AST the translator emits for the four pointer expressions of arc_union.rs
    ([from_first], [from_second], [is_first], the two arms of [borrow]); [beval] interprets it on an
    address.  The lemmas are what C12 needs: on an even address the tag can be set, tested and
    stripped without loss, and the two variants never collide. *)
From Coq Require Import NArith List Bool Lia.
Import ListNotations.
Open Scope N_scope.

Inductive bexpr :=
| BPtr                      (* the pointer as usize *)
| BLit (n : N)              (* a literal *)
| BNotLit (n : N)           (* !n as usize *)
| BOr (a b : bexpr)
| BAnd (a b : bexpr)
| BUnknown.                 (* outside the grammar *)

Definition word : N := 2 ^ 64.

Fixpoint beval (p : N) (e : bexpr) : option N :=
  match e with
  | BPtr => Some p
  | BLit n => Some n
  | BNotLit n => if n <? word then Some (word - 1 - n) else None
  | BOr a b => match beval p a, beval p b with Some x, Some y => Some (N.lor x y) | _, _ => None end
  | BAnd a b => match beval p a, beval p b with Some x, Some y => Some (N.land x y) | _, _ => None end
  | BUnknown => None
  end.

(** a test expression: [lhs == rhs] *)
Inductive btest := BEq (a : bexpr) (n : N) | BTUnknown.
Definition btest_eval (p : N) (t : btest) : option bool :=
  match t with
  | BEq a n => match beval p a with Some x => Some (x =? n) | None => None end
  | BTUnknown => None
  end.

(** ** facts on even addresses *)
Lemma even_double p : p mod 2 = 0 -> p = 2 * (p / 2).
Proof. intros H. pose proof (N.div_mod p 2). lia. Qed.

Lemma land_1 p : N.land p 1 = p mod 2.
Proof. change 1 with (N.ones 1). apply N.land_ones. Qed.

Lemma lor_even_1 p : p mod 2 = 0 -> N.lor p 1 = p + 1.
Proof.
  intros H. assert (L : N.land p 1 = 0) by (rewrite land_1; exact H).
  rewrite <- (N.lxor_lor p 1 L). symmetry. apply N.add_nocarry_lxor. exact L.
Qed.

Lemma mask_is : word - 1 - 1 = 2 * N.ones 63.
Proof. reflexivity. Qed.

Lemma land_clear0 p : p < word -> N.land p (word - 1 - 1) = 2 * (p / 2).
Proof.
  intros Hp. rewrite mask_is. apply N.bits_inj. intros i. rewrite N.land_spec.
  destruct (N.eq_dec i 0) as [->|Hi].
  - rewrite !N.testbit_even_0. apply andb_false_r.
  - rewrite <- (N.succ_pred i Hi). set (j := N.pred i). rewrite !N.testbit_even_succ by lia.
    rewrite <- N.div2_div, N.div2_spec, N.shiftr_spec by lia. replace (j + 1) with (N.succ j) by lia.
    destruct (N.lt_ge_cases j 63) as [L|L].
    + rewrite N.ones_spec_low by lia. apply andb_true_r.
    + rewrite N.ones_spec_high by lia. rewrite andb_false_r. symmetry.
      apply N.bits_above_log2. destruct (N.eq_dec p 0) as [->|Hp0]; [simpl; lia|].
      apply N.log2_lt_pow2; [lia|]. unfold word in Hp.
      assert (2 ^ 64 <= 2 ^ N.succ j) by (apply N.pow_le_mono_r; lia). lia.
Qed.

(** ** the four facts C12 needs, for the canonical expressions *)
Definition tag1 : bexpr := BPtr.
Definition tag2 : bexpr := BOr BPtr (BLit 1).
Definition test_first : btest := BEq (BAnd BPtr (BLit 1)) 0.
Definition untag1 : bexpr := BPtr.
Definition untag2 : bexpr := BAnd BPtr (BNotLit 1).

Lemma tag_roundtrip p : p mod 2 = 0 -> p + 1 < word ->
  (forall s1, beval p tag1 = Some s1 -> btest_eval s1 test_first = Some true /\ beval s1 untag1 = Some p) /\
  (forall s2, beval p tag2 = Some s2 -> btest_eval s2 test_first = Some false /\ beval s2 untag2 = Some p) /\
  (forall q s1 s2, q mod 2 = 0 -> beval p tag1 = Some s1 -> beval q tag2 = Some s2 -> s1 <> s2).
Proof.
  intros He Hw. split; [|split].
  - intros s1 H. simpl in H. inversion H; subst s1. simpl. rewrite land_1, He. auto.
  - intros s2 H. simpl in H. inversion H; subst s2. rewrite lor_even_1 by auto. simpl.
    rewrite land_1. replace ((p + 1) mod 2) with 1.
    2:{ rewrite (even_double p He). rewrite N.add_comm, N.mul_comm, N.mod_add by lia. reflexivity. }
    split; [reflexivity|].
    change (1 <? word) with true. cbv iota. rewrite land_clear0 by auto.
    f_equal. assert (M : (p + 1) mod 2 = 1).
    { rewrite (even_double p He). rewrite N.add_comm, N.mul_comm, N.mod_add by lia. reflexivity. }
    pose proof (N.div_mod (p + 1) 2). lia.
  - intros q s1 s2 Hq H1 H2. simpl in H1, H2. inversion H1; inversion H2; subst.
    rewrite lor_even_1 by auto. intros E.
    assert ((q + 1) mod 2 = 1) by (rewrite (even_double q Hq); rewrite N.add_comm, N.mul_comm, N.mod_add by lia; reflexivity).
    rewrite <- E in H. lia.
Qed.
