(** * MechLog.v — what the event log says about releases, for every history.

    [LogOk]: (unless something undefined happened, which MechProofs excludes) for every block
    the number of [EDealloc] events in the log is 0 while the block is live and exactly 1 once
    it has been released.  The proof is compositional: every primitive of the library layer
    preserves [LogOk], hence so does every library function and every client operation. *)
From Coq Require Import NArith List Bool Arith Lia.
From TV Require Import Mech MechProofs.
Import ListNotations.
Open Scope N_scope.

Fixpoint deallocs (l : loc) (lg : list event) : nat :=
  match lg with
  | [] => 0%nat
  | EDealloc l' :: r => ((if Nat.eqb l' l then 1 else 0) + deallocs l r)%nat
  | _ :: r => deallocs l r
  end.

Definition expected_deallocs (hp : list block) (l : loc) : nat :=
  match nth_error hp l with Some b => if b_alive b then 0%nat else 1%nat | None => 0%nat end.

Definition LogOk (m : mstate) : Prop :=
  ub m = true \/ forall l, deallocs l (log m) = expected_deallocs (heap m) l.

Definition pres {A} (c : M A) : Prop := forall m, LogOk m -> LogOk (snd (c m)).

Lemma pres_ret {A} (a : A) : pres (ret a).
Proof. intros m H. exact H. Qed.
Lemma pres_panic {A} : pres (@panic A).
Proof. intros m H. exact H. Qed.
Lemma pres_bind {A B} (c : M A) (f : A -> M B) : pres c -> (forall a, pres (f a)) -> pres (bind c f).
Proof.
  intros Hc Hf m H. unfold bind. specialize (Hc m H). destruct (c m) as [[a| |] m']; simpl in *; auto.
  apply Hf; auto.
Qed.

Definition not_dealloc (e : event) : bool := match e with EDealloc _ => false | _ => true end.
Lemma deallocs_cons_other e l lg : not_dealloc e = true -> deallocs l (e :: lg) = deallocs l lg.
Proof. destruct e; simpl; auto; discriminate. Qed.

Lemma pres_emit e : not_dealloc e = true -> pres (emit e).
Proof.
  intros He m [H|H]; [left; exact H|]. right. intros l.
  change (deallocs l (e :: log m) = expected_deallocs (heap m) l). rewrite deallocs_cons_other; auto.
Qed.
Lemma pres_abort {A} : pres (@abort A).
Proof. intros m [H|H]; [left; exact H|]. right. intros l. simpl. auto. Qed.
Lemma pres_set_ub : pres set_ub.
Proof. intros m _. left. reflexivity. Qed.
Lemma pres_fresh : pres fresh.
Proof. intros m [H|H]; [left; exact H|]. right. exact H. Qed.
Lemma pres_get_blk l : pres (get_blk l).
Proof.
  intros m H. unfold get_blk. destruct (nth_error (heap m) l) as [b|]; [destruct (b_alive b)|]; simpl; auto; left; reflexivity.
Qed.

(** updating a live block by a live block *)
Lemma expected_upd_alive hp l b b' l2 :
  nth_error hp l = Some b -> b_alive b' = b_alive b -> expected_deallocs (upd hp l b') l2 = expected_deallocs hp l2.
Proof.
  intros Hb Ha. unfold expected_deallocs. rewrite nth_upd. destruct (Nat.eqb_spec l l2) as [<-|]; auto.
  pose proof (nth_some_lt _ _ _ Hb) as Hlt. apply Nat.ltb_lt in Hlt. rewrite Hlt, Hb, Ha. reflexivity.
Qed.

(** a computation that reads a block and then stores a block with the same liveness, logging non-release events *)
Lemma pres_rmw {A} l (f : block -> block) (evs : block -> list event) (r : block -> A) :
  (forall b, b_alive (f b) = b_alive b) -> (forall b, forallb not_dealloc (evs b) = true) ->
  pres (fun m => match nth_error (heap m) l with
                 | Some b => if b_alive b then (Ret (r b), mkM (upd (heap m) l (f b)) (evs b ++ log m) (ub m) (ntok m))
                             else (Ret (r b), mkM (upd (heap m) l (f b)) (evs b ++ log m) true (ntok m))
                 | None => (Ret (r dummy_block), mkM (upd (heap m) l (f dummy_block)) (evs dummy_block ++ log m) true (ntok m))
                 end).
Proof.
  intros Hf He m [H|H].
  - left. destruct (nth_error (heap m) l) as [b|]; [destruct (b_alive b)|]; simpl; auto.
  - destruct (nth_error (heap m) l) as [b|] eqn:Hb; [destruct (b_alive b) eqn:Al|]; simpl; [|left; reflexivity|left; reflexivity].
    right. intros l2. simpl. rewrite (expected_upd_alive _ _ b) by (auto; rewrite Hf; auto).
    rewrite <- H. clear -He. specialize (He b). induction (evs b) as [|e r IH]; simpl in *; auto.
    apply andb_true_iff in He. destruct He as [He1 He2]. rewrite <- IH by auto. destruct e; simpl in *; auto; discriminate.
Qed.

Lemma pres_ext {A} (c c' : M A) : (forall m, c m = c' m) -> pres c' -> pres c.
Proof. intros E H m Hm. rewrite E. apply H; auto. Qed.

Lemma pres_fetch_add l s : pres (fetch_add l s).
Proof.
  eapply pres_ext; [|apply (pres_rmw l (fun b => set_cnt b ((b_cnt b + 1) mod usize_mod)) (fun b => [EAtomic s (b_cnt b)]) b_cnt); auto].
  intros m. unfold fetch_add, bind, get_blk, emit, put_blk, ret. simpl.
  destruct (nth_error (heap m) l) as [b|]; [destruct (b_alive b)|]; reflexivity.
Qed.
Lemma pres_fetch_sub l s : pres (fetch_sub l s).
Proof.
  eapply pres_ext; [|apply (pres_rmw l (fun b => set_cnt b ((b_cnt b + usize_mod - 1) mod usize_mod)) (fun b => [EAtomic s (b_cnt b)]) b_cnt); auto].
  intros m. unfold fetch_sub, bind, get_blk, emit, put_blk, ret. simpl.
  destruct (nth_error (heap m) l) as [b|]; [destruct (b_alive b)|]; reflexivity.
Qed.
Lemma pres_load l s : pres (load l s).
Proof. unfold load. apply pres_bind; [apply pres_get_blk|]. intros b. apply pres_bind; [apply pres_emit; reflexivity|]. intros _. apply pres_ret. Qed.

Lemma pres_drop_hdr h : pres (drop_hdr h).
Proof. destruct h; simpl; [apply pres_emit; reflexivity|apply pres_ret]. Qed.
Lemma pres_drop_cells v cs : pres (drop_cells v cs).
Proof.
  induction cs as [|[t i] r IH]; simpl; [apply pres_ret|].
  apply pres_bind; [|intros _; exact IH].
  destruct v; [destruct i; [apply pres_emit; reflexivity|apply pres_set_ub]|apply pres_ret].
Qed.

(** releasing a block: one [EDealloc], and the block is marked released *)
Lemma pres_release l (k : block -> list (tok * bool)) :
  pres (b <- get_blk l ;; emit (EDealloc l) ;;; put_blk l (set_dead b) ;;; ret (k b)).
Proof.
  intros m [H|H].
  - left. unfold bind, get_blk. destruct (nth_error (heap m) l) as [b|]; [destruct (b_alive b)|]; simpl; auto.
  - unfold bind, get_blk. destruct (nth_error (heap m) l) as [b|] eqn:Hb; [destruct (b_alive b) eqn:Al|]; simpl; [|left; reflexivity|left; reflexivity].
    right. intros l2. simpl. unfold expected_deallocs. rewrite nth_upd. rewrite H. unfold expected_deallocs.
    destruct (Nat.eqb_spec l l2) as [<-|]; auto.
    pose proof (nth_some_lt _ _ _ Hb) as Hlt. apply Nat.ltb_lt in Hlt. rewrite Hlt, Hb, Al. reflexivity.
Qed.

Lemma pres_box_take l : pres (box_take l).
Proof. apply (pres_release l b_cells). Qed.

Lemma pres_box_free l v : pres (box_free l v).
Proof.
  intros m Hm. unfold box_free, bind.
  pose proof (pres_get_blk l m Hm) as H1.
  destruct (get_blk l m) as [[b| |] m1] eqn:E1; simpl in *; auto.
  pose proof (pres_drop_hdr (b_hdr b) m1 H1) as H2.
  destruct (drop_hdr (b_hdr b) m1) as [[[]| |] m2] eqn:E2; simpl in *; auto.
  pose proof (pres_drop_cells v (b_cells b) m2 H2) as H3.
  destruct (drop_cells v (b_cells b) m2) as [[[]| |] m3] eqn:E3; simpl in *; auto.
  (* from here the heap is the one [b] was read from unless ub was raised *)
  assert (Hh : ub m3 = true \/ (heap m3 = heap m /\ nth_error (heap m) l = Some b /\ b_alive b = true)).
  { assert (A1 : ub m1 = true \/ (heap m1 = heap m /\ nth_error (heap m) l = Some b /\ b_alive b = true)).
    { unfold get_blk in E1. destruct (nth_error (heap m) l) as [b0|] eqn:Hb; [destruct (b_alive b0) eqn:Al|]; inversion E1; subst; simpl; auto. }
    assert (A2 : ub m2 = true \/ (heap m2 = heap m1 /\ ub m2 = ub m1)).
    { destruct (b_hdr b); simpl in E2; inversion E2; subst; simpl; auto. }
    assert (A3 : ub m3 = true \/ (heap m3 = heap m2 /\ ub m3 = ub m2)).
    { clear -E3. revert m2 m3 E3. induction (b_cells b) as [|[t i] r IH]; intros m2 m3 E3; simpl in E3.
      - inversion E3; subst; auto.
      - unfold bind in E3. destruct v; [destruct i|].
        + unfold emit at 1 in E3. specialize (IH _ _ E3). simpl in IH. auto.
        + unfold set_ub at 1 in E3. specialize (IH _ _ E3). simpl in IH. destruct IH as [IH|[IH1 IH2]]; auto.
        + unfold ret at 1 in E3. apply IH; auto. }
    destruct A3 as [A3|[A3 A3']]; auto. destruct A2 as [A2|[A2 A2']]; [left; congruence|].
    destruct A1 as [A1|A1]; [left; congruence|]. right. destruct A1 as (A1 & A1' & A1''). repeat split; auto. congruence. }
  unfold emit, put_blk. simpl. destruct Hh as [Hh|(Hh1 & Hh2 & Hh3)]; [left; exact Hh|].
  destruct H3 as [H3|H3]; [left; exact H3|]. right. intros l2. simpl.
  unfold expected_deallocs. rewrite nth_upd. rewrite H3. unfold expected_deallocs. rewrite Hh1.
  destruct (Nat.eqb_spec l l2) as [<-|]; auto.
  pose proof (nth_some_lt _ _ _ Hh2) as Hlt. apply Nat.ltb_lt in Hlt. rewrite Hlt, Hh2, Hh3. reflexivity.
Qed.

Lemma pres_alloc_block c h rl cs : pres (alloc_block c h rl cs).
Proof.
  intros m [H|H]; [left; exact H|]. right. intros l. unfold alloc_block. simpl.
  rewrite H. unfold expected_deallocs.
  destruct (Nat.lt_ge_cases l (length (heap m))) as [L|L].
  - rewrite nth_error_app1; auto.
  - rewrite nth_error_app2; auto. assert (nth_error (heap m) l = None) as -> by (apply nth_error_None; lia).
    destruct (l - length (heap m))%nat as [|k]; simpl; auto. destruct k; auto.
Qed.

Lemma pres_fresh_cells n init : pres (fresh_cells n init).
Proof.
  induction n as [|n IH]; simpl; [apply pres_ret|].
  apply pres_bind; [destruct init; [apply pres_fresh|apply pres_ret]|]. intros t.
  apply pres_bind; [exact IH|]. intros r. apply pres_ret.
Qed.

Lemma pres_write_tok l i t dr : pres (write_tok l i t dr).
Proof.
  intros m Hm. unfold write_tok, bind.
  pose proof (pres_get_blk l m Hm) as H1.
  destruct (get_blk l m) as [[b| |] m1] eqn:E1; simpl in *; auto.
  assert (A1 : ub m1 = true \/ (nth_error (heap m1) l = Some b /\ b_alive b = true)).
  { unfold get_blk in E1. destruct (nth_error (heap m) l) as [b0|] eqn:Hb; [destruct (b_alive b0) eqn:Al|]; inversion E1; subst; simpl; auto. }
  destruct (write_cell (b_cells b) i t) as [[cs' [o oi]]|]; [|left; reflexivity].
  assert (Hput : LogOk (snd (put_blk l (set_cells b cs') m1))).
  { unfold put_blk. simpl. destruct A1 as [A1|[A1 A1']]; [left; exact A1|]. destruct H1 as [H1|H1]; [left; exact H1|].
    right. intros l2. simpl. rewrite (expected_upd_alive _ _ b); auto. }
  unfold put_blk in *. simpl in *.
  destruct dr; [destruct oi|]; simpl.
  - apply (pres_emit (EDtor o) eq_refl _ Hput).
  - left; reflexivity.
  - exact Hput.
Qed.

(** ** library functions *)
Ltac pres_step :=
  first [ apply pres_ret | apply pres_panic | apply pres_abort | apply pres_set_ub | apply pres_fresh
        | apply pres_get_blk | apply pres_fetch_add | apply pres_fetch_sub | apply pres_load
        | apply pres_box_free | apply pres_box_take | apply pres_alloc_block | apply pres_fresh_cells
        | apply pres_write_tok | apply pres_drop_cells | apply pres_drop_hdr
        | (apply pres_emit; reflexivity)
        | (apply pres_bind; [|intros ?]) ].
Ltac pres_case :=
  match goal with
  | |- pres (if ?c then _ else _) => destruct c
  | |- pres (match ?x with _ => _ end) => destruct x
  end.
Ltac solve_pres := repeat first [ pres_step | pres_case ].

Lemma pres_Arc_clone l : pres (Arc_clone l).
Proof. unfold Arc_clone. solve_pres. Qed.
Lemma pres_Arc_drop l v : pres (Arc_drop l v).
Proof. unfold Arc_drop. solve_pres. Qed.
Lemma pres_Arc_count l : pres (Arc_count l). Proof. apply pres_load. Qed.
Lemma pres_Arc_strong_count l : pres (Arc_strong_count l). Proof. apply pres_load. Qed.
Lemma pres_Arc_is_unique l : pres (Arc_is_unique l).
Proof. unfold Arc_is_unique. apply pres_bind; [apply pres_Arc_count|intros; apply pres_ret]. Qed.
Lemma pres_dbg d l : pres (dbg_unique_assert d l).
Proof. unfold dbg_unique_assert. destruct d; [|apply pres_ret]. apply pres_bind; [apply pres_Arc_count|]. intros c. destruct (c =? 1); [apply pres_ret|apply pres_panic]. Qed.
Lemma pres_try_unique d l : pres (Arc_try_unique d l).
Proof. unfold Arc_try_unique. apply pres_bind; [apply pres_Arc_is_unique|]. intros [|]; [|apply pres_ret]. apply pres_bind; [apply pres_dbg|intros; apply pres_ret]. Qed.
Lemma pres_into_inner d l : pres (UniqueArc_into_inner d l).
Proof. unfold UniqueArc_into_inner. apply pres_bind; [apply pres_dbg|intros; apply pres_box_take]. Qed.
Lemma pres_try_unwrap d l : pres (Arc_try_unwrap d l).
Proof.
  unfold Arc_try_unwrap. apply pres_bind; [apply pres_try_unique|]. intros [|]; [|apply pres_ret].
  apply pres_bind; [apply pres_into_inner|intros; apply pres_ret].
Qed.
Lemma pres_call_clone l pf : pres (call_clone l pf).
Proof. unfold call_clone. apply pres_bind; [apply pres_get_blk|]. intros b. destruct (b_cells b) as [|[t [|]] r]; solve_pres. Qed.
Lemma pres_Arc_new t : pres (Arc_new t). Proof. apply pres_alloc_block. Qed.
Lemma pres_make_mut l pf : pres (Arc_make_mut l pf).
Proof.
  unfold Arc_make_mut. apply pres_bind; [apply pres_Arc_is_unique|]. intros [|]; [apply pres_ret|].
  apply pres_bind; [apply pres_call_clone|]. intros t. apply pres_bind; [apply pres_Arc_new|]. intros l'.
  apply pres_bind; [apply pres_Arc_drop|intros; apply pres_ret].
Qed.
Lemma pres_unwrap_or_clone d l pf : pres (Arc_unwrap_or_clone d l pf).
Proof.
  unfold Arc_unwrap_or_clone. apply pres_bind; [apply pres_try_unwrap|]. intros [[|[t i] r]|].
  - apply pres_bind; [apply pres_set_ub|intros; apply pres_ret].
  - apply pres_ret.
  - intros m Hm. pose proof (pres_call_clone l pf m Hm) as H1.
    destruct (call_clone l pf m) as [[t'| |] m1]; simpl in *; auto.
    + apply (pres_bind (Arc_drop l true) (fun _ => ret t')); [apply pres_Arc_drop|intros; apply pres_ret|exact H1].
    + apply (pres_bind (Arc_drop l true) (fun _ => @panic tok)); [apply pres_Arc_drop|intros; apply pres_panic|exact H1].
Qed.
Lemma pres_into_thin l : pres (Arc_into_thin l).
Proof.
  unfold Arc_into_thin. apply pres_bind; [apply pres_get_blk|]. intros b.
  destruct (_ =? _); [apply pres_ret|]. apply pres_bind; [apply pres_Arc_drop|intros; apply pres_panic].
Qed.
Lemma pres_has_cell l i : pres (has_cell l i).
Proof. unfold has_cell. apply pres_bind; [apply pres_get_blk|intros; apply pres_ret]. Qed.
Lemma pres_write_through l i dr : pres (write_through l i dr).
Proof.
  unfold write_through. apply pres_bind; [apply pres_has_cell|]. intros [|]; [|apply pres_ret].
  apply pres_bind; [apply pres_fresh|]. intros t. apply pres_bind; [apply pres_write_tok|intros; apply pres_ret].
Qed.
Lemma pres_clone_impl k f k' l : clone_impl k = Some (f, k') -> pres (f l).
Proof.
  destruct k; simpl; intros H; inversion H; subst; try apply pres_Arc_clone;
    unfold ArcUnion_clone, ArcBorrow_clone_arc, OffsetArc_clone, OffsetArc_clone_arc, ThinArc_clone;
    try apply pres_Arc_clone; (apply pres_bind; [apply pres_Arc_clone|intros; apply pres_ret]).
Qed.
Lemma pres_drop_impl k f l : drop_impl k = Some f -> pres (f l).
Proof. destruct k; simpl; intros H; inversion H; subst; apply pres_Arc_drop. Qed.
Lemma pres_count_impl acc k f l : count_impl acc k = Some f -> pres (f l).
Proof. intros H. destruct (count_impl_spec _ _ _ H) as (s & E). eapply pres_ext; [intros m; apply E|apply pres_load]. Qed.

(** ** client operations *)
Definition SLogOk (s : st) : Prop := LogOk (ms s).

Lemma run_lib_logok {A} s (m : M A) k :
  SLogOk s -> pres m -> (forall a s1, SLogOk s1 -> SLogOk (fst (fst (k a s1)))) ->
  SLogOk (fst (run_lib s m k)).
Proof.
  intros Hs Hm Hk. rewrite run_lib_fst. pose proof (Hm (ms s) Hs) as H1.
  destruct (m (ms s)) as [[a| |] m1]; simpl in *; auto.
Qed.

Lemma exit_frame_ms s f : ms (exit_frame s f) = ms s.
Proof.
  unfold exit_frame. destruct (get_h s (f_h f)); auto. destruct (begin_info _ _) as [[[? ?] ?]|]; auto.
  destruct (_ && _); auto.
Qed.
Lemma exit_all_ms fs : forall s, ms (exit_all s fs) = ms s.
Proof. induction fs as [|f r IH]; intros s; simpl; auto. rewrite IH. apply exit_frame_ms. Qed.

Ltac lk := intros ? ? ?; simpl; auto.

Theorem step_logok d s o : SLogOk s -> SLogOk (fst (step d s o)).
Proof.
  intros H. unfold step. destruct (dead s); [exact H|]. destruct (skip s); [|destruct o; exact H].
  destruct o; try exact H.
  - (* new *) unfold do_new. destruct (64 <? n); [exact H|]. destruct (new_info c) as [[[[[k cls] hh] init] fixed]|]; [|exact H].
    apply run_lib_logok; [exact H| |lk].
    apply pres_bind; [destruct hh; solve_pres|]. intros ho. apply pres_bind; [apply pres_fresh_cells|]. intros cs. apply pres_alloc_block.
  - destruct (get_h s h) as [x|]; [|exact H]. destruct (clone_impl (hk x)) as [[f k']|] eqn:E; [|exact H].
    apply run_lib_logok; [exact H|eapply pres_clone_impl; eauto|lk].
  - destruct (get_h s h) as [x|]; [|exact H]. destruct (drop_impl (hk x)) as [f|] eqn:E; [|exact H]. destruct (can_consume (hm x)); [|exact H].
    apply run_lib_logok; [exact H|eapply pres_drop_impl; eauto|lk].
  - destruct (get_h s h) as [x|]; [|exact H]. destruct (_ && _); exact H.
  - (* conv *) destruct (get_h s h) as [x|]; [|exact H]. destruct (negb (can_consume (hm x))); [exact H|].
    destruct (c =? 16).
    { destruct (assume_target (hk x)); [|exact H]. apply run_lib_logok; [exact H|apply pres_get_blk|]. intros b s1 H1. destruct (all_init (b_cells b)); simpl; auto. }
    destruct (conv_target c (hk x)); [|exact H]. destruct (c =? 7); [|exact H].
    pose proof (pres_into_thin (hl x) (ms s) H) as H1. destruct (Arc_into_thin (hl x) (ms s)) as [[l| |] m1]; simpl in *; exact H1.
  - (* clone_arc *) destruct (get_h s h) as [x|]; [|exact H].
    destruct (hk x); try exact H; (apply run_lib_logok; [exact H| |lk]);
      unfold ArcBorrow_clone_arc, OffsetArc_clone_arc; try apply pres_Arc_clone; (apply pres_bind; [apply pres_Arc_clone|intros; apply pres_ret]).
  - destruct (get_h s h) as [x|]; [|exact H]. destruct (count_impl acc (hk x)) as [f|] eqn:E; [|exact H].
    apply run_lib_logok; [exact H|eapply pres_count_impl; eauto|lk].
  - destruct (get_h s h) as [x|]; [|exact H]. destruct (is_arc_kind (hk x)); [|exact H].
    apply run_lib_logok; [exact H|apply pres_Arc_is_unique|lk].
  - destruct (get_h s h) as [x|]; [|exact H]. destruct (_ || _); [exact H|]. apply run_lib_logok; [exact H|apply pres_get_blk|lk].
  - destruct (get_h s h) as [x|]; [|exact H]. destruct (kind_cls (hk x)); exact H.
  - (* get_mut *) destruct (get_h s h) as [x|]; [|exact H]. destruct (_ && _); [|exact H].
    apply run_lib_logok; [exact H|apply pres_Arc_is_unique|]. intros u s1 H1. destruct u; simpl; auto.
    destruct (hkind_eqb (hk x) KDyn); simpl; auto.
    pose proof (pres_write_through (hl x) 0 true (ms s1) H1) as H2. destruct (write_through (hl x) 0 true (ms s1)) as [r m2]. simpl in *. exact H2.
  - destruct (get_h s h) as [x|]; [|exact H]. destruct (hk x); try exact H. destruct (can_mut (hm x)); [|exact H].
    apply run_lib_logok; [exact H|apply pres_try_unique|]. intros u s1 H1. destruct u; simpl; auto.
    pose proof (pres_write_through (hl x) 0 true (ms s1) H1) as H2. destruct (write_through (hl x) 0 true (ms s1)) as [r m2]. simpl in *. exact H2.
  - destruct (get_h s h) as [x|]; [|exact H]. destruct (hk x); try exact H. destruct (can_consume (hm x)); [|exact H].
    apply run_lib_logok; [exact H|apply pres_try_unique|]. intros u s1 H1. destruct u; simpl; auto.
  - destruct (get_h s h) as [x|]; [|exact H]. destruct (hk x); try exact H. destruct (can_consume (hm x)); [|exact H].
    apply run_lib_logok; [exact H| |].
    + apply pres_bind; [apply pres_try_unwrap|]. intros [v|]; [|apply pres_ret]. apply pres_bind; [apply pres_drop_cells|intros; apply pres_ret].
    + intros r s1 H1. destruct r; simpl; auto.
  - destruct (get_h s h) as [x|]; [|exact H]. destruct (hk x); try exact H. destruct (can_consume (hm x)); [|exact H].
    apply run_lib_logok; [exact H|apply pres_try_unique|]. intros u s1 H1. destruct u; simpl; auto.
  - (* make_mut *) destruct (get_h s h) as [x|]; [|exact H].
    destruct (hk x); try exact H; (destruct (can_mut (hm x)); [|exact H]); (apply run_lib_logok; [exact H| |lk]);
      (apply pres_bind; [apply pres_make_mut|]; intros l'; apply pres_bind; [apply pres_write_through|intros; apply pres_ret]).
  - destruct (get_h s h) as [x|]; [|exact H].
    destruct (hk x); try exact H; (destruct (can_mut (hm x)); [|exact H]); (apply run_lib_logok; [exact H| |lk]).
    apply pres_bind; [apply pres_make_mut|]. intros l'. apply pres_bind; [apply pres_dbg|]. intros _. apply pres_bind; [apply pres_write_through|intros; apply pres_ret].
  - (* unwrap_or_clone *) destruct (get_h s h) as [x|]; [|exact H]. destruct (hk x); try exact H. destruct (can_consume (hm x)); [|exact H].
    assert (P : pres (t <- Arc_unwrap_or_clone d (hl x) pf;; emit (EDtor t);;; ret t)).
    { apply pres_bind; [apply pres_unwrap_or_clone|]. intros t. apply pres_bind; [apply pres_emit; reflexivity|intros; apply pres_ret]. }
    specialize (P (ms s) H). destruct ((t <- Arc_unwrap_or_clone d (hl x) pf;; emit (EDtor t);;; ret t) (ms s)) as [[t| |] m1]; simpl in *; exact P.
  - destruct (get_h s h) as [x|]; [|exact H]. destruct (hk x); try exact H. destruct (can_consume (hm x)); [|exact H].
    apply run_lib_logok; [exact H| |lk]. apply pres_bind; [apply pres_into_inner|]. intros v. apply pres_bind; [apply pres_drop_cells|intros; apply pres_ret].
  - (* deprecated write *) destruct (get_h s h) as [x|]; [|exact H].
    destruct (hk x); try exact H; (destruct (can_mut (hm x)); [|exact H]); (apply run_lib_logok; [exact H| |lk]).
    + apply pres_bind; [apply pres_fresh|]. intros t. apply pres_bind; [apply pres_try_unique|]. intros [|]; [apply pres_write_tok|].
      apply pres_bind; [apply pres_Arc_count|]. intros _. apply pres_bind; [apply pres_emit; reflexivity|intros; apply pres_panic].
    + apply pres_bind; [apply pres_try_unique|]. intros [|].
      * apply pres_bind; [apply pres_write_through|intros; apply pres_ret].
      * apply pres_bind; [apply pres_Arc_count|intros; apply pres_panic].
  - destruct (get_h s h) as [x|]; [|exact H].
    destruct (hk x); try exact H; (destruct (can_mut (hm x)); [|exact H]); (apply run_lib_logok; [exact H|apply pres_write_through|lk]).
  - destruct (get_h s h) as [x|]; [|exact H].
    destruct (hk x); try exact H; (destruct (can_mut (hm x)); [|exact H]); (apply run_lib_logok; [exact H|apply pres_write_through|lk]).
  - (* begin *) destruct (get_h s h) as [x|]; [|exact H]. destruct (begin_info w (hk x)) as [[[nm vk] vm]|]; [|exact H].
    destruct (_ && _); exact H.
  - destruct (frames s) as [|f r]; [exact H|]. unfold SLogOk. simpl. rewrite exit_frame_ms. exact H.
  - destruct (frames s) as [|f r] eqn:E; [exact H|]. unfold SLogOk. simpl fst. simpl ms. rewrite ?exit_all_ms, ?exit_frame_ms. exact H.
  - destruct (get_h s h) as [x|]; [|exact H]. destruct (get_h s h') as [y|]; [|exact H].
    destruct (hk x); try exact H. destruct (hm x); try exact H. destruct (hk y); try exact H. destruct (can_consume (hm y)); exact H.
  - destruct (get_h s h) as [x|]; [|exact H]. destruct (get_h s h') as [y|]; [|exact H].
    destruct (hk x); try exact H. destruct (hm x); try exact H. destruct (hk y); try exact H. destruct (can_consume (hm y)); try exact H.
    apply run_lib_logok; [exact H|apply pres_Arc_drop|lk].
  - destruct (get_h s h) as [x|]; [|exact H]. destruct (hk x); exact H.
Qed.

Theorem run_logok d ops : forall s, SLogOk s -> SLogOk (fst (run d s ops)).
Proof.
  induction ops as [|o r IH]; intros s I; simpl; auto.
  pose proof (step_logok d s o I) as I1. destruct (step d s o) as [s1 ob]. simpl in I1.
  specialize (IH s1 I1). destruct (run d s1 r) as [s2 obs]. exact IH.
Qed.

(** every block of every reachable state: released in the log exactly once iff it is no longer live;
    combined with [reachable_inv]: live iff it still has an owner *)
Theorem reachable_release_once s :
  reachable s -> dead s = false ->
  forall l b, nth_error (heap (ms s)) l = Some b ->
    deallocs l (log (ms s)) = (if b_alive b then 0%nat else 1%nat) /\
    (b_alive b = true <-> (0 < owners (tbl s) l)%nat).
Proof.
  intros R Hd l b Hb. pose proof (reachable_inv s R Hd) as G.
  destruct R as (d & ops & ->).
  pose proof (run_logok d ops init_st) as L. unfold SLogOk at 1 in L. simpl in L.
  assert (L0 : LogOk (mkM [] [] false 0)) by (right; intros [|k]; reflexivity).
  specialize (L L0).
  unfold SLogOk, LogOk in L. rewrite (g_ub _ _ _ G) in L. destruct L as [L|L]; [discriminate|].
  split.
  - rewrite L. unfold expected_deallocs. rewrite Hb. reflexivity.
  - pose proof (g_blk _ _ _ G _ _ Hb) as B. unfold blk_ok in B. destruct (b_alive b); split; intros; try tauto; try lia; try discriminate.
Qed.
