(** * CmpCases.v — executable model of the `cmp` correspondence stream (C14): interprets [Cmp.expected_impls]
    on the three payload classes of the harness. *)
From Coq Require Import NArith List Bool String.
From TV Require Import Cmp.
Import ListNotations.
Open Scope N_scope.

Definition ocode (r : option comparison) : N := match r with None => 0 | Some Lt => 1 | Some Eq => 2 | Some Gt => 3 end.
Definition b2n (b : bool) : N := if b then 1 else 0.

(** class 0: a total order *)
Definition sig0 : psig N :=
  mkP N.eqb (fun a b => negb (N.eqb a b)) N.ltb N.leb (fun a b => N.ltb b a) (fun a b => N.leb b a)
      (fun a b => Some (N.compare a b)) N.compare (fun a => [a]) (fun a => [a]) (fun a => [a]).
(** class 1: float-like, 2 = NaN *)
Definition nan (a : N) : bool := a =? 2.
Definition sig1 : psig N :=
  mkP (fun a b => negb (nan a) && negb (nan b) && (a =? b))
      (fun a b => negb (negb (nan a) && negb (nan b) && (a =? b)))
      (fun a b => negb (nan a) && negb (nan b) && (a <? b)) (fun a b => negb (nan a) && negb (nan b) && (a <=? b))
      (fun a b => negb (nan a) && negb (nan b) && (b <? a)) (fun a b => negb (nan a) && negb (nan b) && (b <=? a))
      (fun a b => if nan a || nan b then None else Some (N.compare a b))
      (fun a b => Eq) (fun a => [a]) (fun a => [a]) (fun a => [a]).
(** class 2: deliberately unlawful (mirrors harness/src/cmps.rs P2) *)
Definition sig2 : psig N :=
  mkP (fun a b => (a =? b) || ((a =? 0) && (b =? 1)))
      (fun a b => a <? b)
      (fun a b => b <=? a) (fun _ _ => true) (fun _ _ => false) (fun a b => (a =? 2) && negb (b =? 1))
      (fun a b => if (a =? 2) && (b =? 2) then None else Some (N.compare b a))
      (fun a b => N.compare (a mod 2) (b mod 2))
      (fun a => [7; a]) (fun a => [a]) (fun a => [a]).
Definition sig_of (c : N) : psig N := if c =? 0 then sig0 else if c =? 1 then sig1 else sig2.

Definition six (f : bop -> option bool) (pc : option (option comparison)) : list N :=
  match f OEq, f ONe, f OLt, f OLe, f OGt, f OGe, pc with
  | Some e, Some n, Some l, Some le, Some g, Some ge, Some p => [b2n e; b2n n; b2n l; b2n le; b2n g; b2n ge; ocode p]
  | _, _, _, _, _, _, _ => [96]
  end.

Fixpoint list_eqb (a b : list N) : bool :=
  match a, b with
  | [], [] => true
  | x :: a', y :: b' => (x =? y) && list_eqb a' b'
  | _, _ => false
  end.

(** derive(PartialEq, PartialOrd, Ord, Hash) on HeaderSlice<H, [T]> *)
Definition hs_derived (SH ST : psig N) : psig (hs N N) :=
  let pc := fun a b => lex (p_pcmp SH (s_hdr a) (s_hdr b)) (fun _ => slice_pcmp ST (s_slice a) (s_slice b)) in
  let e := fun a b => p_eq SH (s_hdr a) (s_hdr b) && slice_eq ST (s_slice a) (s_slice b) in
  mkP e (fun a b => negb (e a b))
      (fun a b => of_pcmp (pc a b) OLt) (fun a b => of_pcmp (pc a b) OLe) (fun a b => of_pcmp (pc a b) OGt) (fun a b => of_pcmp (pc a b) OGe)
      pc (fun a b => lexc (p_cmp SH (s_hdr a) (s_hdr b)) (fun _ => slice_cmp ST (s_slice a) (s_slice b)))
      (fun a => p_hash SH (s_hdr a) ++ slice_hash ST (s_slice a)) (fun a => []) (fun a => []).

(** parse `h rec n x1..xn` *)
Definition parse_hv (l : list N) : option (hs N N * list N) :=
  match l with
  | h :: rec :: n :: r =>
    if (8 <? n) || (2 <? h) then None else
    let k := N.to_nat n in
    if (Nat.ltb (List.length r) k) || existsb (fun x => 2 <? x) (firstn k r) then None
    else Some (mkHS h rec (firstn k r), skipn k r)
  | _ => None
  end.

Definition I := expected_impls.

(** [[9; kind; which; mode]]: comparing / hashing / formatting through a handle with a payload impl that answers
    (mode 0) or panics (mode 1): the panic propagates, no count moves during or after, nothing dead is touched, and every
    value is still destroyed exactly once afterwards.  kinds: 0 Arc, 1 OffsetArc, 2 ArcBorrow, 3 ArcUnion (only ==, !=,
    Debug), 4 ThinArc, 5 fat header-slice Arc.  status 2: the kind does not have that operation. *)
Definition run_effects (kind which mode : N) : list N :=
  if (5 <? kind) || (7 <? which) || (1 <? mode) then [99] else
  let applicable :=
      if kind =? 0 then true
      else if kind <=? 3 then (which =? 0) || (which =? 1) || (which =? 6)
      else negb (which =? 7) in
  [(if applicable then mode else 2); 1; 0; (if kind <=? 3 then 2 else 6)].

(** [[8; x; y]]: one allocation held as First and as Second of an [ArcUnion<T, T>]: different variants are never
    equal, whatever they point to; the same variant of the same allocation is *)
Definition run_same_alloc_union (x y : N) : list N :=
  if (2 <? x) || (2 <? y) then [99] else [0; 1; 1; 0].

Definition run_cmp1 (op : list N) : list N :=
  match op with
  | [9; kind; which; mode] => run_effects kind which mode
  | 9 :: _ => [99]
  | [8; x; y] => run_same_alloc_union x y
  | 8 :: _ => [99]
  | cls :: kind :: same :: rest =>
    if 2 <? cls then [98] else
    let S := sig_of cls in
    let sm := negb (same =? 0) in
    if kind <=? 2 then
      match rest with
      | [x; y] =>
        if (2 <? x) || (2 <? y) then [99] else
        let a := mkHV 0%nat x in let b := if sm then mkHV 0%nat x else mkHV 1%nat y in
        if kind =? 0 then
          six (fun o => arc_bool I "Arc" S o a b) (arc_pcmp I "Arc" S a b)
          ++ [1; 1; 1]
          ++ (if cls =? 1 then [9; 9; 9; 9]
              else [ocode (arc_cmp I "Arc" S a b); 1; 1; 1])
        else if kind =? 1 then
          match arc_bool I "OffsetArc" S OEq a b, arc_bool I "OffsetArc" S ONe a b with
          | Some e, Some n => [b2n e; b2n n; 1] | _, _ => [96] end
        else
          match arc_bool I "ArcBorrow" S OEq a b, arc_bool I "ArcBorrow" S ONe a b with
          | Some e, Some n => [b2n e; b2n n; 1] | _, _ => [96] end
      | _ => [99]
      end
    else if kind =? 3 then
      match rest with
      | [xv; x; yv; y] =>
        if (1 <? xv) || (1 <? yv) || (2 <? x) || (2 <? y) then [99] else
        (* the second type is the tuple (P, u8): its == is the payload's == on the first component *)
        let mk := fun (al : nat) var val => if var =? 0 then @UFirst N N (mkHV al val) else @USecond N N (mkHV al val) in
        let ux := mk 0%nat xv x in let uy := if sm then ux else mk 1%nat yv y in
        match union_eq I S S ux uy with Some e => [b2n e; 1] | None => [96] end
      | _ => [99]
      end
    else if kind <=? 6 then
      match parse_hv rest with
      | Some (va, r1) =>
        match parse_hv r1 with
        | Some (vb, []) =>
          let vb := if sm then va else vb in
          let fix_len := fun v => if kind =? 4 then mkHS (s_hdr v) (N.of_nat (List.length (s_slice v))) (s_slice v) else v in
          let va := fix_len va in let vb := fix_len vb in
          let a := mkHV 0%nat va in let b := if sm then mkHV 0%nat vb else mkHV 1%nat vb in
          if kind =? 4 then
            six (fun o => thin_bool I S S o a b) (thin_pcmp I S S a b) ++ [1]
            ++ (if cls =? 1 then [9; 9]
                else [ocode (thin_cmp I S S a b);
                      match thin_hash I S S a, thin_hash I S S b with Some x, Some y => b2n (list_eqb x y) | _, _ => 96 end])
          else
            match (if kind =? 5 then hslu_sig I S S else Some (hs_derived S S)) with
            | Some HS =>
              six (fun o => arc_bool I "Arc" HS o a b) (arc_pcmp I "Arc" HS a b) ++ [1]
              ++ (if cls =? 1 then [9; 9]
                  else [ocode (arc_cmp I "Arc" HS a b);
                        match arc_hash I "Arc" HS a, arc_hash I "Arc" HS b with Some x, Some y => b2n (list_eqb x y) | _, _ => 96 end])
            | None => [96]
            end
        | _ => [99]
        end
      | None => [99]
      end
    else [98]
  | _ => [99]
  end.

Definition run_cmp (case : list (list N)) : list (list N) := map run_cmp1 case.
