(** * SerdeProofs.v — C17 lemmas: transparency of the delegating Serialize body for every serializer machine and
    payload program, freshness and sole ownership of the deserialised handle, error pass-through. *)
From Coq Require Import NArith List Bool Arith Lia.
From TV Require Import Mech MechProofs Serde.
Import ListNotations.
Open Scope N_scope.

(** ** serialisation *)
Lemma delegate_is_payload {call ok err} nt (p q : prog call ok err) :
  handle_prog nt (SDelegate 2) p = Some q -> q = p.
Proof. simpl. congruence. Qed.

Theorem ser_transparent {call ok err st} nt b (p : prog call ok err) :
  b = SDelegate 2 ->
  exists q, handle_prog nt b p = Some q /\ forall (m : machine call ok err st) s, run m s q = run m s p.
Proof. intros ->. exists p. split; [reflexivity|auto]. Qed.

(** the body language is not trivial: a wrapper is visible to a serializer, a missing deref is not the payload *)
Lemma newtype_is_visible :
  exists (m : machine (list N) unit derr N) (p : prog (list N) unit derr) q,
    handle_prog (fun n => [13; n]) (SNewtype 99 (SDelegate 2)) p = Some q /\ run m 0 q <> run m 0 p.
Proof.
  exists (rec_machine 0), (prog_of [[1; 5]]). eexists. split; [reflexivity|]. vm_compute. discriminate.
Qed.
Lemma one_deref_is_not_the_payload {call ok err} nt (p : prog call ok err) : handle_prog nt (SDelegate 1) p = None.
Proof. reflexivity. Qed.

(** a failing serializer: the handle fails with the same error after the same calls (instance of transparency,
    spelled out for the recording machine of the stream) *)
Corollary ser_failure_passes_through fail cs b :
  b = SDelegate 2 ->
  exists q, handle_prog (fun n => [13; n]) b (prog_of cs) = Some q /\ run (rec_machine fail) 0 q = run (rec_machine fail) 0 (prog_of cs).
Proof. intros E. destruct (ser_transparent (st := N) (fun n => [13; n]) b (prog_of cs) E) as (q & H & R). exists q. auto. Qed.

(** ** deserialisation *)
Definition body_is_new (b : dbody) : Prop :=
  match b with DMap c | DTry c => ctor_is_new c = true | DOther => False end.

Theorem de_fresh {err} b t m :
  body_is_new b ->
  exists f, de_handle (err := err) b (inl t) = Some f /\
    f m = (Ret (inl (length (heap m))),
           mkM (heap m ++ [mkB 1 true CS None 0 [(t, true)]]) (EAlloc (length (heap m)) :: log m) (ub m) (ntok m)) /\
    nth_error (heap m) (length (heap m)) = None.
Proof.
  intros B. assert (N0 : nth_error (heap m) (length (heap m)) = None) by (apply nth_error_None; lia).
  destruct b as [c|c|]; simpl in B; try contradiction; unfold de_handle; rewrite B; eexists; (split; [reflexivity|]); split; auto.
Qed.

Theorem de_error {err} b (e : err) m :
  body_is_new b ->
  exists f, de_handle b (inr e) = Some f /\ f m = (Ret (inr e), m).
Proof.
  intros B. destruct b as [c|c|]; simpl in B; try contradiction; unfold de_handle; rewrite B; eexists; split; reflexivity.
Qed.

(** in the handle machine: right after [Arc::new] (constructor code 0; UniqueArc::new is code 1) in ANY reachable
    state the new block did not exist before, is alive with count 1, and exactly one table entry owns it *)
Theorem new_handle_is_sole_owner d s c :
  reachable s -> dead s = false -> skip s = 0%nat -> (c = 0 \/ c = 1) ->
  let s' := fst (step d s (ONew c 1 0)) in
  let l := length (heap (ms s)) in
  nth_error (heap (ms s)) l = None /\
  exists b, nth_error (heap (ms s')) l = Some b /\ b_alive b = true /\ b_cnt b = 1 /\ owners (tbl s') l = 1%nat /\
            length (tbl s') = S (length (tbl s)).
Proof.
  intros R Hd Hs Hc s' l.
  split; [apply nth_error_None; unfold l; lia|].
  pose proof (reachable_inv s R Hd) as G.
  pose proof (step_new d s c 1 0 G Hd Hs) as I. fold s' in I.
  assert (E : exists k t0, s' = push_h (with_ms s (mkM (heap (ms s) ++ [mkB 1 true CS None 1 [(t0, true)]]) (EAlloc l :: log (ms s)) (ub (ms s)) (ntok (ms s) + 1))) (mkH k l MOwned)).
  { unfold s', step. rewrite Hd, Hs. unfold do_new. destruct Hc as [-> | ->].
    - exists KArc, (ntok (ms s)). reflexivity.
    - exists KUniq, (ntok (ms s)). reflexivity. }
  destruct E as (k & t0 & E).
  assert (Hd' : dead s' = false) by (rewrite E; exact Hd).
  specialize (I Hd'). unfold Good in I.
  assert (Hb : nth_error (heap (ms s')) l = Some (mkB 1 true CS None 1 [(t0, true)])).
  { rewrite E. simpl. unfold l. rewrite nth_error_app2 by lia. rewrite Nat.sub_diag. reflexivity. }
  exists (mkB 1 true CS None 1 [(t0, true)]). split; [exact Hb|]. split; [reflexivity|]. split; [reflexivity|].
  pose proof (g_blk _ _ _ I l _ Hb) as B. unfold blk_ok in B. simpl in B. destruct B as (B1 & B2 & _).
  split; [lia|]. rewrite E. simpl. rewrite app_length. simpl. lia.
Qed.
