(** * Serde.v — C17: the serde impls of Arc and UniqueArc.

    Part 1 is generic: a serializer is ANY state machine over a call alphabet answering each call with Ok or an
    error; a payload's [Serialize] impl is ANY interaction program against it (it may inspect every answer, so it
    may swallow errors or change course).  The handle's impl is given by a small body AST that the translator fills
    from the source on every run.

    Part 2 is the concrete payload family the correspondence stream runs (serde's own impls for integers, strings,
    tuples, vectors, unit, and the harness's hand-written structs), over a recording serializer / deserializer that
    fails at the k-th callback.  It is executable ([run_serde]) and extracted. *)
From Coq Require Import NArith List Bool Arith.
From TV Require Import Mech.
Import ListNotations.
Open Scope N_scope.

(** ** Part 1: generic *)
Section Generic.
  Variables (call ok err st : Type).

  Inductive prog :=
  | PRet (r : ok + err)
  | PCall (c : call) (k : ok + err -> prog).

  Definition machine := st -> call -> st * (ok + err).

  Fixpoint run (m : machine) (s : st) (p : prog) : list call * st * (ok + err) :=
    match p with
    | PRet r => ([], s, r)
    | PCall c k =>
      let '(s', r) := m s c in
      let '(cs, s'', r') := run m s' (k r) in
      (c :: cs, s'', r')
    end.
End Generic.
Arguments PRet {call ok err} r.
Arguments PCall {call ok err} c k.
Arguments run {call ok err st} m s p.

(** the body of [impl Serialize for <handle>]:
    [SDelegate n]  =  [self.serialize(serializer)] after n dereferences of [self] with n derefs of [self : &Handle<T>];
    [SNewtype name b] = [serializer.serialize_newtype_struct(name, <b>)] (a wrapper visible to the serializer) *)
Inductive sbody := SDelegate (derefs : nat) | SNewtype (name : N) (b : sbody) | SOther.

(** what the handle's impl does, as a program, given the payload's program.  [SDelegate 2] reaches the payload
    ([*self : Handle<T>], [**self : T]); one deref serialises the handle itself again (no progress), three do not
    type-check for a general T. *)
Fixpoint handle_prog {call ok err} (newtype : N -> call) (b : sbody) (p : prog call ok err) : option (prog call ok err) :=
  match b with
  | SDelegate 2 => Some p
  | SDelegate _ => None
  | SNewtype n b' =>
    match handle_prog newtype b' p with
    | Some q => Some (PCall (newtype n) (fun r => match r with inl _ => q | inr e => PRet (inr e) end))
    | None => None
    end
  | SOther => None
  end.

(** the body of [impl Deserialize for <handle>] *)
Inductive dctor := CArcNew | CUniqueNew | COtherCtor.
Inductive dbody :=
| DMap (c : dctor)           (* T::deserialize(deserializer).map(ctor) *)
| DTry (c : dctor)           (* Ok(ctor(T::deserialize(deserializer)?)) *)
| DOther.

Definition ctor_is_new (c : dctor) : bool := match c with CArcNew | CUniqueNew => true | COtherCtor => false end.

(** the handle's deserialize, given what [T::deserialize] returned: [Arc::new] / [UniqueArc::new] = [Mech.Arc_new]
    (UniqueArc::new is [UniqueArc(Arc::new(data))]: golden body) *)
Definition de_handle {err} (b : dbody) (r : tok + err) : option (M (loc + err)) :=
  match b with
  | DMap c | DTry c =>
    if ctor_is_new c then
      Some (match r with
            | inl t => l <- Arc_new t ;; ret (inl l)
            | inr e => ret (inr e)
            end)
    else None
  | DOther => None
  end.

(** ** Part 2: the concrete family *)
Inductive val := VU (n : N) | VS (bs : list N) | VSeq (l : list val) | VMap (l : list (list N * val)) | VUnit.
Inductive ty := TU32 | TString | TUnit | TTuple (l : list ty) | TVec (t : ty) | TStruct (name : N) (acc_map : bool) (fs : list (N * ty)).

Definition TRec : ty := TStruct 11 true [(1, TU32); (2, TString); (3, TVec TU32)].
Definition TNested : ty := TStruct 12 false [(4, TRec); (5, TTuple [TU32; TU32]); (6, TVec TRec)].
Definition ty_of (i : N) : option ty :=
  match i with
  | 0 => Some TU32 | 1 => Some TString | 2 => Some (TTuple [TU32; TString]) | 3 => Some (TVec TU32)
  | 4 => Some TRec | 5 => Some TNested | 6 => Some TUnit | 7 => Some (TVec TString)
  | 8 => Some (TTuple [TU32; TString])       (* Tagged: same wire form, carries an identity token *)
  | 9 => Some (TVec (TTuple [TU32; TString]))
  | _ => None
  end.
Definition field_name (c : N) : list N :=
  match c with
  | 1 => [105; 100] | 2 => [110; 97; 109; 101] | 3 => [116; 97; 103; 115]
  | 4 => [114; 101; 99] | 5 => [112; 97; 105; 114] | 6 => [108; 105; 115; 116]
  | _ => []
  end.
Fixpoint list_eqb (a b : list N) : bool :=
  match a, b with
  | [], [] => true
  | x :: a', y :: b' => (x =? y) && list_eqb a' b'
  | _, _ => false
  end.

(** *** parsing values from a case line (same limits as the harness) *)
Fixpoint take_str (n : nat) (a : list N) : option (list N * list N) :=
  match n with
  | O => Some ([], a)
  | S n' => match a with
            | b :: r => if (32 <=? b) && (b <? 127) then
                          match take_str n' r with Some (s, r') => Some (b :: s, r') | None => None end
                        else None
            | [] => None
            end
  end.
Definition parse_str (a : list N) : option (list N * list N) :=
  match a with
  | n :: r => if 64 <? n then None else take_str (N.to_nat n) r
  | [] => None
  end.
(** [fuel] = remaining nesting depth (the harness allows depth 0..6) *)
Fixpoint parse_val (fuel : nat) (a : list N) : option (val * list N) :=
  match fuel with
  | O => None
  | S f =>
    match a with
    | 1 :: n :: r => Some (VU n, r)
    | 2 :: r => match parse_str r with Some (s, r') => Some (VS s, r') | None => None end
    | 3 :: n :: r =>
      if 32 <? n then None else
      match (fix items (k : nat) (a : list N) : option (list val * list N) :=
         match k with
         | O => Some ([], a)
         | S k' => match parse_val f a with
                   | Some (v, a') => match items k' a' with Some (vs, a'') => Some (v :: vs, a'') | None => None end
                   | None => None
                   end
         end) (N.to_nat n) r
      with Some (vs, a') => Some (VSeq vs, a') | None => None end
    | 4 :: n :: r =>
      if 32 <? n then None else
      match (fix ents (k : nat) (a : list N) : option (list (list N * val) * list N) :=
         match k with
         | O => Some ([], a)
         | S k' => match parse_str a with
                   | Some (key, a1) =>
                     match parse_val f a1 with
                     | Some (v, a') => match ents k' a' with Some (es, a'') => Some ((key, v) :: es, a'') | None => None end
                     | None => None
                     end
                   | None => None
                   end
         end) (N.to_nat n) r
      with Some (es, a') => Some (VMap es, a') | None => None end
    | 5 :: r => Some (VUnit, r)
    | _ => None
    end
  end.

(** *** the deserializer side: a counter of callbacks, the failing one, the trace *)
Definition dst := (N * list N)%type.
Definition derr := (N * N)%type.                  (* code, counter when it was made *)
Definition D (A : Type) := dst -> (A + derr) * dst.
Definition dret {A} (a : A) : D A := fun s => (inl a, s).
Definition dbind {A B} (m : D A) (f : A -> D B) : D B :=
  fun s => match m s with (inl a, s') => f a s' | (inr e, s') => (inr e, s') end.
Definition dfail {A} (code : N) : D A := fun s => (inr (code, fst s), s).
Definition tick (fail : N) (rec : list N) : D unit :=
  fun s => let c := fst s + 1 in
           if c =? fail then (inr (1, c), (c, snd s ++ rec)) else (inl tt, (c, snd s ++ rec)).
Notation "x <-- m ;; f" := (dbind m (fun x => f)) (at level 61, m at next level, right associativity).
Notation "m ;;;; f" := (dbind m (fun _ => f)) (at level 61, right associativity).

Fixpoint assoc (c : N) (l : list (N * val)) : option val :=
  match l with [] => None | (k, v) :: r => if k =? c then Some v else assoc c r end.

(** [T::deserialize(ValDe(v))] for the family; the result is the value in canonical form (structs as the sequence of
    their fields in declaration order) *)
Fixpoint deser (fail : N) (t : ty) (v : val) {struct t} : D val :=
  match t with
  | TU32 => tick fail [10] ;;;; match v with VU n => if n <? 2 ^ 32 then dret (VU n) else dfail 7 | _ => dfail 2 end
  | TString => tick fail [11] ;;;; match v with VS s => dret (VS s) | _ => dfail 2 end
  | TUnit => tick fail [16] ;;;; match v with VUnit => dret VUnit | _ => dfail 2 end
  | TTuple ts =>
    tick fail [13; N.of_nat (length ts)] ;;;;
    match v with
    | VSeq items =>
      xs <-- (fix fields (ts : list ty) (items : list val) : D (list val) :=
                match ts with
                | [] => dret []
                | t1 :: ts' =>
                  tick fail [30] ;;;;
                  match items with
                  | [] => dfail 3
                  | v1 :: items' => x <-- deser fail t1 v1 ;; xs <-- fields ts' items' ;; dret (x :: xs)
                  end
                end) ts items ;;
      dret (VSeq xs)
    | _ => dfail 2
    end
  | TVec t1 =>
    tick fail [14] ;;;;
    match v with
    | VSeq items =>
      xs <-- (fix elems (items : list val) : D (list val) :=
                tick fail [30] ;;;;
                match items with
                | [] => dret []
                | v1 :: items' => x <-- deser fail t1 v1 ;; xs <-- elems items' ;; dret (x :: xs)
                end) items ;;
      dret (VSeq xs)
    | _ => dfail 2
    end
  | TStruct name am fs =>
    tick fail [15; N.of_nat (length fs)] ;;;;
    match v with
    | VSeq items =>
      xs <-- (fix fields (fs : list (N * ty)) (items : list val) : D (list val) :=
                match fs with
                | [] => dret []
                | (_, t1) :: fs' =>
                  tick fail [30] ;;;;
                  match items with
                  | [] => dfail 3
                  | v1 :: items' => x <-- deser fail t1 v1 ;; xs <-- fields fs' items' ;; dret (x :: xs)
                  end
                end) fs items ;;
      dret (VSeq xs)
    | VMap ents =>
      if am then
        got <-- (fix loop (ents : list (list N * val)) (got : list (N * val)) : D (list (N * val)) :=
                   tick fail [31] ;;;;
                   match ents with
                   | [] => dret got
                   | (key, v1) :: ents' =>
                     tick fail [11] ;;;;              (* the key is read as a String *)
                     match (fix find (fs : list (N * ty)) : option (N * D val) :=
                              match fs with
                              | [] => None
                              | (c, t1) :: fs' => if list_eqb key (field_name c) then Some (c, deser fail t1 v1) else find fs'
                              end) fs with
                     | None => dfail 5
                     | Some (c, dv) =>
                       match assoc c got with
                       | Some _ => dfail 6
                       | None => tick fail [32] ;;;; x <-- dv ;; loop ents' (got ++ [(c, x)])
                       end
                     end
                   end) ents [] ;;
        xs <-- (fix collect (fs : list (N * ty)) : D (list val) :=
                  match fs with
                  | [] => dret []
                  | (c, _) :: fs' => match assoc c got with
                                     | None => dfail 4
                                     | Some x => xs <-- collect fs' ;; dret (x :: xs)
                                     end
                  end) fs ;;
        dret (VSeq xs)
      else dfail 2
    | _ => dfail 2
    end
  end.

(** *** the serializer side: the calls a canonical value makes when nothing fails *)
Fixpoint ser_calls (t : ty) (v : val) {struct t} : list (list N) :=
  match t, v with
  | TU32, VU n => [[1; n]]
  | TString, VS s => [[2; N.of_nat (length s)] ++ s]
  | TUnit, VUnit => [[3]]
  | TTuple ts, VSeq vs =>
    [[7; N.of_nat (length ts)]] ++
    (fix go (ts : list ty) (vs : list val) : list (list N) :=
       match ts, vs with
       | t1 :: ts', v1 :: vs' => [[8]] ++ ser_calls t1 v1 ++ go ts' vs'
       | _, _ => []
       end) ts vs ++ [[9]]
  | TVec t1, VSeq vs =>
    [[4; N.of_nat (length vs) + 1]] ++
    (fix go (vs : list val) : list (list N) :=
       match vs with
       | v1 :: vs' => [[5]] ++ ser_calls t1 v1 ++ go vs'
       | [] => []
       end) vs ++ [[6]]
  | TStruct name _ fs, VSeq vs =>
    [[10; name; N.of_nat (length fs)]] ++
    (fix go (fs : list (N * ty)) (vs : list val) : list (list N) :=
       match fs, vs with
       | (c, t1) :: fs', v1 :: vs' => [[11; c]] ++ ser_calls t1 v1 ++ go fs' vs'
       | _, _ => []
       end) fs vs ++ [[12]]
  | _, _ => []
  end.

(** the payload's Serialize impl as a program over the recording serializer: every impl of the family propagates the
    first error ([?]) *)
Definition scall := list N.
Fixpoint prog_of (cs : list scall) : prog scall unit derr :=
  match cs with
  | [] => PRet (inl tt)
  | c :: r => PCall c (fun a => match a with inl _ => prog_of r | inr e => PRet (inr e) end)
  end.
(** the recording serializer: state = (counter, failing call) *)
Definition rec_machine (fail : N) : machine scall unit derr N :=
  fun c _ => let c' := c + 1 in (c', if c' =? fail then inr (1, c') else inl tt).

Definition sbody_of (c : N) : sbody :=
  if c =? 0 then SOther else if c <? 10 then SDelegate (N.to_nat c) else SNewtype (c - 10) (SDelegate 2).
Definition dbody_of (c : N) : dbody :=
  match c with
  | 1 => DMap CArcNew | 2 => DMap CUniqueNew | 3 => DTry CArcNew | 4 => DTry CUniqueNew | 5 => DMap COtherCtor
  | _ => DOther
  end.

Definition SEP : N := 99999999.
Definition value_table : list bool := [true; false; true; true; false; true; true; false; true; false].

(** [bodies] = the four impl bodies as the translator found them: [ser Arc; ser UniqueArc; de Arc; de UniqueArc] *)
Definition run_serde1 (bodies : list N) (op : list N) : list N :=
  match op with
  | k :: handle :: rest =>
    if (1 <? handle) || (length op <? 3)%nat then [99] else
    if k =? 3 then
      match rest with
      | [which] => match nth_error value_table (N.to_nat which) with
                   | Some true => [0; 1; 1; 1; 1; 0; 0]
                   | Some false => [1; 1; 0; 0; 0; 0; 0]
                   | None => [98]
                   end
      | _ => [99]
      end
    else
    match rest with
    | tyi :: fail :: vl =>
      if (length op <? 5)%nat || negb ((k =? 1) || (k =? 2) || (k =? 4)) || (10000 <? fail) then [99] else
      if k =? 4 then
        (* deserialize_in_place (serde's default: [*place = Deserialize::deserialize(d)?]) into a handle holding value 1
           that, for Arc, has a second owner: on success the place is a fresh sole owner and the other owner keeps the
           old value in the old block; on error nothing changes *)
        match parse_val 7 vl with
        | Some (v1, r1) =>
          match parse_val 7 r1 with
          | Some (v2, []) =>
            match ty_of tyi with
            | None => [98]
            | Some t =>
              match deser 0 t v1 (0, []) with
              | (inr _, _) => [97]
              | (inl _, _) =>
                match de_handle (err := derr) (dbody_of (nth (2 + N.to_nat handle) bodies 0)) (inl 0) with
                | None => [95]
                | Some _ =>
                  let shared := handle =? 0 in
                  match deser fail t v2 (0, []) with
                  | (inl _, (_, tr)) => [0; 0; 0; 1; 1; 1; (if shared then 1 else 0); 0; 0; SEP] ++ tr
                  | (inr (code, at_), (_, tr)) => [1; code; at_; 1; 1; (if shared then 2 else 1); (if shared then 2 else 0); (if shared then 1 else 0); 0; SEP] ++ tr
                  end
                end
              end
            end
          | _ => [99]
          end
        | None => [99]
        end
      else
      match parse_val 7 vl with
      | Some (v, []) =>
        match ty_of tyi with
        | None => [98]
        | Some t =>
          if k =? 1 then
            match deser 0 t v (0, []) with
            | (inl cv, _) =>
              let p := prog_of (ser_calls t cv) in
              match handle_prog (fun n => [13; n]) (sbody_of (nth (N.to_nat handle) bodies 0)) p with
              | None => [95]
              | Some q =>
                let '(calls, _, r) := run (rec_machine fail) 0 q in
                let '(pcalls, _, pr) := run (rec_machine fail) 0 p in
                let same := match r, pr with
                            | inl _, inl _ => true
                            | inr (a, b), inr (c, d) => (a =? c) && (b =? d)
                            | _, _ => false
                            end && list_eqb (concat calls) (concat pcalls) in
                match r with
                | inl _ => [0; 0; 0; if same then 1 else 0; SEP] ++ concat calls
                | inr (code, at_) => [1; code; at_; if same then 1 else 0; SEP] ++ concat calls
                end
              end
            | (inr _, _) => [97]
            end
          else
            match de_handle (err := derr) (dbody_of (nth (2 + N.to_nat handle) bodies 0)) (inl 0) with
            | None => [95]
            | Some _ =>
              match deser fail t v (0, []) with
              | (inl _, (_, tr)) => [0; 0; 0; 1; 1; 1; 1; 0; 0; (if tyi =? 8 then 1 else 0); SEP] ++ tr
              | (inr (code, at_), (_, tr)) => [1; code; at_; 1; 0; 0; 0; 0; 0; 0; SEP] ++ tr
              end
            end
        end
      | _ => [99]
      end
    | _ => [99]
    end
  | _ => [99]
  end.

(** a case starts with [[101; sa; su; da; du]]: the bodies the translator extracted *)
Definition run_serde (case : list (list N)) : list (list N) :=
  match case with
  | (101 :: bodies) :: rest => map (run_serde1 bodies) rest
  | _ => map (run_serde1 [2; 2; 1; 2]) case
  end.
