(** * SchedCases.v — the schedule stream: the ConcX machine run on a schedule, one observation per accepted label.

    The correspondence check for the concurrent half of C02 C03 C08 C09.  A case is the three counter programs (as the
    translator read them from the source; sent as a prefix so that the extracted binary does not depend on the
    generated file) followed by a list of labels.  A label that is not enabled is skipped; every accepted label yields

        [kind; t; arg; class; fin; op; ord; old]

    where [class] says what the instruction does that the real code can be seen doing (1 nothing, 2 one atomic
    operation on the counter, 3 destroy the payload and release the block, 4 clone the payload), [fin] that the running
    function returns with this step, and for an atomic operation [op; ord; old] are the operation (1 load, 2 fetch_add,
    3 fetch_sub as in the hook), its ordering and the value it read.  The last lines are the summary
    [900; destroyed; freed; raced; leaked; owned_0; mode_0; ...] and [901; 0; 0; 0; 0] (the implementation reports there
    reads of a dead payload, destruction of a dead payload, releases of a block that is not live, and panics).  The harness drives real threads through the accepted
    labels (tools/propdefs.py custom_sched) and prints the same lines from what the crate actually did, with its own
    happens-before bookkeeping fed by the orderings the crate really used. *)
From Coq Require Import List Bool Arith NArith Lia.
From TV Require Import Conc ConcX.
Import ListNotations.

Definition ord_of (n : N) : ord :=
  match n with 0%N => ORlx | 1%N => ORel | 2%N => OAcq | _ => OAcqRel end.
Definition ord_code (o : ord) : N :=
  match o with ORlx => 0%N | ORel => 1%N | OAcq => 2%N | OAcqRel => 3%N end.

Definition instr_of (c a b : N) : instr :=
  match c with
  | 1%N => IDec (ord_of a) (negb (N.eqb b 0))
  | 2%N => IInc (ord_of a) (negb (N.eqb b 0))
  | 3%N => ILoad (ord_of a) (negb (N.eqb b 0))
  | 4%N => IRetIfNe (N.to_nat a)
  | 5%N => IRetIfEq (N.to_nat a)
  | 6%N => IDestroyFree
  | 7%N => IGrant
  | 8%N => ICloneVal
  | 9%N => IDropHandle
  | _ => IUnknown
  end.

Fixpoint prog_of (l : list N) : list instr :=
  match l with
  | c :: a :: b :: r => instr_of c a b :: prog_of r
  | _ => []
  end.

Definition label_of (l : list N) : option xlabel :=
  match l with
  | [k; t; a] =>
    let t' := N.to_nat t in let a' := N.to_nat a in
    match k with
    | 0%N => Some (XClone t') | 1%N => Some (XRead t') | 2%N => Some (XWrite t') | 3%N => Some (XUngrant t')
    | 4%N => Some (XMoveOut t') | 5%N => Some (XSend t' a') | 6%N => Some (XStartDrop t') | 7%N => Some (XStartUniq t')
    | 8%N => Some (XStartUoc t') | 9%N => Some (XStep t' a')
    | 10%N => Some (XStartUoc t')          (* make_mut: the same two programs; see [cow] below *)
    | 11%N => Some (XStartUniq t')         (* get_mut: the uniqueness program; the grant is a [&mut T] *)
    | 12%N => Some (XStartUniq t')         (* try_unwrap: the uniqueness program; a grant is used at once to move out *)
    | _ => None
    end
  | _ => None
  end.

Definition bN (b : bool) : N := if b then 1%N else 0%N.

(** what the step about to be taken looks like from outside: (class, op, ord, old) *)
Definition step_class (s : xstate) (l : xlabel) : N * N * N * N :=
  match l with
  | XClone _ => (2, 2, 0, N.of_nat (m_val (xlast s)))%N
  | XStep t i =>
    match x_pc (xget s t) with
    | IDec o _ :: _ => (2, 3, ord_code o, N.of_nat (m_val (xlast s)))%N
    | IInc o _ :: _ => (2, 2, ord_code o, N.of_nat (m_val (xlast s)))%N
    | ILoad o _ :: _ => (2, 1, ord_code o, N.of_nat (m_val (nth i (xmsgs s) (mkMsg 0 vempty))))%N
    | IDestroyFree :: _ => (3, 0, 0, 0)%N
    | ICloneVal :: _ => (4, 0, 0, 0)%N
    | _ => (1, 0, 0, 0)%N
    end
  | _ => (0, 0, 0, 0)%N
  end.

(** the function the thread was running has returned: nothing left to run, and not waiting inside unwrap_or_clone for
    the move-out that follows its grant *)
(** [Arc::make_mut] runs the same two programs as [unwrap_or_clone] - the uniqueness test, then either exclusive access
    or "clone the value and give the handle up" - but when it is granted it RETURNS (a [&mut T]: the caller may write
    and later lets go), where [unwrap_or_clone] goes on to move the value out.  The machine does not distinguish the
    two; this stream does, by remembering which threads' running (or last) call is a make_mut ([cow]).
    [Arc::get_mut] is to [try_unique] what make_mut is to unwrap_or_clone: the uniqueness program alone, and a grant
    that is a [&mut T] (it can be written through and let go, not turned into the value); it is remembered in the
    same list.  [Arc::try_unwrap] is [try_unique] followed at once by [UniqueArc::into_inner]: like unwrap_or_clone it is
    still running between its grant and the move-out, and unlike it the handle comes back when it is refused.  The
    list holds (thread, kind of its running or last call) for the calls 10, 11 and 12. *)
Definition has_kind (cow : list (nat * N)) (t : nat) (k : N) : bool := existsb (fun e => Nat.eqb (fst e) t && N.eqb (snd e) k) cow.
Definition is_cow (cow : list (nat * N)) (t : nat) : bool := has_kind cow t 10 || has_kind cow t 11.
Definition is_tuw (cow : list (nat * N)) (t : nat) : bool := has_kind cow t 12.
Definition is_cow_raw (raw : list N) : bool := match raw with 10%N :: _ | 11%N :: _ | 12%N :: _ => true | _ => false end.

(** inside unwrap_or_clone the grant is not visible from outside: the function is still running, with the handle it
    was given *)
Definition in_uoc_grant (cow : list (nat * N)) (s : xstate) (t : nat) : bool :=
  let x := xget s t in
  match x_pc x, x_mode x, x_ret x with
  | [], XGranted, RGone => negb (is_cow cow t)
  | [], XGranted, RGiveBack => is_tuw cow t          (* try_unwrap: granted, about to move the value out *)
  | _, _, _ => false
  end.

(** the function the thread was running has returned *)
Definition finished (cow : list (nat * N)) (s : xstate) (t : nat) : bool :=
  match x_pc (xget s t) with [] => negb (in_uoc_grant cow s t) | _ => false end.

Definition label_thread (l : xlabel) : nat :=
  match l with
  | XClone t | XRead t | XWrite t | XUngrant t | XMoveOut t | XSend t _ | XStartDrop t | XStartUniq t | XStartUoc t | XStep t _ => t
  end.

Definition mode_code (cow : list (nat * N)) (s : xstate) (t : nat) : N :=
  let x := xget s t in
  if in_uoc_grant cow s t then 2%N else
  match x_pc x, x_mode x with
  | _ :: _, _ => 2%N
  | [], XGranted => 1%N
  | [], XIdle => 0%N
  end.

Definition owned_code (cow : list (nat * N)) (s : xstate) (t : nat) : N :=
  let x := xget s t in N.of_nat (if in_uoc_grant cow s t then x_owned x - 1 else x_owned x).

Fixpoint summary (cow : list (nat * N)) (s : xstate) (n t : nat) : list N :=
  match n with
  | O => []
  | S n' => owned_code cow s t :: mode_code cow s t :: summary cow s n' (S t)
  end.

(** between the grant inside unwrap_or_clone and the move-out that follows it the thread is inside that function: the
    only thing it can do is go on (the machine would also let it read through the granted handle); a grant handed out
    by make_mut is a [&mut T]: it cannot be turned into the value *)
Definition granted_by_cow (cow : list (nat * N)) (s : xstate) (t : nat) : bool :=
  let x := xget s t in
  match x_pc x, x_mode x with [], XGranted => is_cow cow t | _, _ => false end.

Definition allowed (cow : list (nat * N)) (s : xstate) (l : xlabel) : bool :=
  match l with
  | XMoveOut t => negb (granted_by_cow cow s t)
  | _ => negb (in_uoc_grant cow s (label_thread l))
  end.

(** a step whose message index is 1000 or more reads the latest message (the generator cannot know how many there are) *)
Definition resolve (s : xstate) (l : xlabel) : xlabel :=
  match l with
  | XStep t i => if 1000 <=? i then XStep t (length (xmsgs s) - 1) else l
  | _ => l
  end.

Definition encode_label (l : xlabel) : list N :=
  let n := N.of_nat in
  match l with
  | XClone t => [0; n t; 0] | XRead t => [1; n t; 0] | XWrite t => [2; n t; 0] | XUngrant t => [3; n t; 0]
  | XMoveOut t => [4; n t; 0] | XSend t u => [5; n t; n u] | XStartDrop t => [6; n t; 0] | XStartUniq t => [7; n t; 0]
  | XStartUoc t => [8; n t; 0] | XStep t i => [9; n t; n i]
  end%N.
Definition encode_raw (raw : list N) (l : xlabel) : list N :=
  if is_cow_raw raw then hd 10%N raw :: tl (encode_label l) else encode_label l.

Definition try_step (P : progs) (cow : list (nat * N)) (s : xstate) (l : xlabel) : option xstate :=
  if allowed cow s l then xstep P s l else None.

(** which threads' current call is a make_mut, after label [l] (given as [raw]) was accepted *)
Definition cow_after (cow : list (nat * N)) (raw : list N) (l : xlabel) : list (nat * N) :=
  match l with
  | XStartDrop t | XStartUniq t | XStartUoc t =>
    let rest := filter (fun e => negb (Nat.eqb (fst e) t)) cow in
    if is_cow_raw raw then (t, hd 10%N raw) :: rest else rest
  | _ => cow
  end.

(** [fuel] bounds the number of ACCEPTED labels: views are lists that grow with every join *)
Fixpoint run_labels (P : progs) (fuel : nat) (cow : list (nat * N)) (s : xstate) (ls : list (list N)) : (xstate * list (nat * N)) * list (list N) :=
  match ls with
  | [] => ((s, cow), [])
  | raw :: r =>
    match fuel with
    | O => ((s, cow), [])
    | S fuel' =>
      match label_of raw with
      | None => run_labels P fuel cow s r
      | Some l0 =>
        let l := resolve s l0 in
        match try_step P cow s l with
        | None => run_labels P fuel cow s r
        | Some s' =>
          let '(c, op, o, old) := step_class s l in
          let cow' := cow_after cow raw l in
          let fin := match l with XStep t _ => bN (finished cow' s' t) | _ => 0%N end in
          let '(sc, obs) := run_labels P fuel' cow' s' r in
          (sc, (encode_raw raw l ++ [c; fin; op; o; old]) :: obs)
        end
      end
    end
  end.

Definition max_labels : nat := 48.

Definition run_sched (case : list (list N)) : list (list N) :=
  match case with
  | (199%N :: n :: _) :: (200%N :: d) :: (201%N :: u) :: (202%N :: c) :: labels =>
    let P := mkProgs (prog_of d) (prog_of u) (prog_of c) in
    let '((s, cow), obs) := run_labels P max_labels [] xinit labels in
    obs ++ [[900%N; bN (xdestroyed s); bN (xfreed s); bN (xraced s); bN (leaked s)] ++ summary cow s (N.to_nat n) 0; [901%N; 0%N; 0%N; 0%N; 0%N]]
  | _ => [[999%N]]
  end.

(** the encoded programs of the unmodified source decode to [good_progs] *)
Example prog_of_good :
  mkProgs (prog_of [1;1;1; 4;1;0; 3;2;0; 6;0;0]%N) (prog_of [3;2;1; 4;1;0; 7;0;0]%N) (prog_of [8;0;0; 9;0;0]%N) = good_progs.
Proof. reflexivity. Qed.

(** every label that [run_labels] accepts is a step of the machine: the final state is the one [xexec] reaches on the
    accepted labels, so the theorems of ConcXProofs about all schedules cover every schedule this stream can run *)
Fixpoint accepted (P : progs) (fuel : nat) (cow : list (nat * N)) (s : xstate) (ls : list (list N)) : list xlabel :=
  match ls with
  | [] => []
  | raw :: r =>
    match fuel with
    | O => []
    | S fuel' =>
      match label_of raw with
      | None => accepted P fuel cow s r
      | Some l0 =>
        match try_step P cow s (resolve s l0) with
        | None => accepted P fuel cow s r
        | Some s' => resolve s l0 :: accepted P fuel' (cow_after cow raw (resolve s l0)) s' r
        end
      end
    end
  end.

Lemma run_labels_is_xexec P : forall ls fuel cow s, xexec P s (accepted P fuel cow s ls) = Some (fst (fst (run_labels P fuel cow s ls))).
Proof.
  induction ls as [|raw r IH]; intros fuel cow s; cbn [accepted run_labels xexec fst]; [reflexivity|].
  destruct fuel as [|fuel']; [reflexivity|].
  destruct (label_of raw) as [l0|]; [|apply IH].
  remember (resolve s l0) as l eqn:Hl. clear Hl.
  destruct (try_step P cow s l) as [s'|] eqn:E; [|apply IH].
  cbn [xexec]. unfold try_step in E. destruct (allowed cow s l); [|discriminate]. rewrite E. specialize (IH fuel' (cow_after cow raw l) s').
  destruct (step_class s l) as [[[c op] o] old]. destruct (run_labels P fuel' (cow_after cow raw l) s' r) as [[s2 cow2] obs]. exact IH.
Qed.
